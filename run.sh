#!/bin/bash
# usage: ./run.sh <Cxx> [quick|thorough]   |   ./run.sh replay <file>   |   ./run.sh build
# Rebuilds the harness against /repo's current working tree (go.mod replace => /repo,
# build tag "verif" turns the observation hooks on) and runs one property's check.
set -u
export GOFLAGS=-mod=mod GOPROXY=off GOSUMDB=off GOTOOLCHAIN=local
export VERIF_ROOT="${VERIF_ROOT:-$(cd "$(dirname "$0")" && pwd)}"
ARG2="${2:-}"
[ "${1:-}" = replay ] && [ -n "$ARG2" ] && ARG2="$(readlink -f "$ARG2")"
cd "$VERIF_ROOT/harness" || exit 2
mkdir -p "$VERIF_ROOT/.build"
BIN="$VERIF_ROOT/.build/vcheck"
build() {
  if ! go build -tags verif -o "$BIN" ./cmd/vcheck 2>"$VERIF_ROOT/.build/build.log"; then
    cat "$VERIF_ROOT/.build/build.log"
    echo "INCONCLUSIVE property=${1:-all} reason=harness does not build against /repo working tree"
    exit 2
  fi
}
build_race() {
  if ! go build -race -tags verif -o "$BIN-race" ./cmd/vcheck 2>"$VERIF_ROOT/.build/build-race.log"; then
    cat "$VERIF_ROOT/.build/build-race.log"
    echo "INCONCLUSIVE property=${1:-all} reason=race build of harness failed"
    exit 2
  fi
}
build_firstuse() {
  # the plain (non-race) harness with one file of the JSON library overlaid: the unsynchronised publication of a
  # compiled decoder is stretched (harness/overlay/compile_norace.go.txt), used only by C18's first-use children
  local dir
  dir="$(go list -m -f '{{.Dir}}' github.com/goccy/go-json 2>/dev/null)"
  if [ -z "$dir" ] || [ ! -f "$dir/internal/decoder/compile_norace.go" ]; then
    rm -f "$BIN-firstuse"   # the dependency changed: the first-use part reports itself inconclusive
    return 0
  fi
  printf '{"Replace": {"%s": "%s"}}\n' "$dir/internal/decoder/compile_norace.go" "$VERIF_ROOT/harness/overlay/compile_norace.go.txt" > "$VERIF_ROOT/.build/overlay.json"
  if ! go build -tags verif -overlay "$VERIF_ROOT/.build/overlay.json" -o "$BIN-firstuse" ./cmd/vcheck 2>"$VERIF_ROOT/.build/build-firstuse.log"; then
    cat "$VERIF_ROOT/.build/build-firstuse.log"
    echo "INCONCLUSIVE property=C18 reason=first-use build of harness failed"
    exit 2
  fi
}
build_shovel() {
  # the real binary for the route-level part of C19, from /repo's working tree (through the harness module's replace)
  if ! go build -o "$VERIF_ROOT/.build/shovel" github.com/indexsupply/shovel/cmd/shovel 2>"$VERIF_ROOT/.build/build-shovel.log"; then
    cat "$VERIF_ROOT/.build/build-shovel.log"
    echo "INCONCLUSIVE property=C19 reason=cmd/shovel does not build"
    exit 2
  fi
}
case "${1:-}" in
  build) build; build_race; build_firstuse; build_shovel; exit 0 ;;
  C16) build C16; build_shovel; exec "$BIN" run C16 --tier "${2:-${VERIF_TIER:-quick}}" ;;
  C20) build C20; build_shovel; exec "$BIN" run C20 --tier "${2:-${VERIF_TIER:-quick}}" ;;
  C19) build C19; build_shovel; exec "$BIN" run C19 --tier "${2:-${VERIF_TIER:-quick}}" ;;
  replay) build; exec "$BIN" replay "$ARG2" ;;
  C18) build C18; build_race C18; build_firstuse; exec "$BIN" run C18 --tier "${2:-${VERIF_TIER:-quick}}" --worker-exe "$BIN-race" ;;
  C[0-9][0-9]) build "$1"; exec "$BIN" run "$1" --tier "${2:-${VERIF_TIER:-quick}}" ;;
  *) echo "usage: $0 <Cxx> [quick|thorough] | replay <file> | build"; exit 2 ;;
esac
