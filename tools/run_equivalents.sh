#!/bin/bash
# Behaviour-preserving refactors (mutants/equivalent/*.diff): every check must stay SILENT (exit 0) on them.
cd "$(dirname "$0")/.."
for m in mutants/equivalent/*.diff; do
  echo "== $m"
  if [ $# -eq 0 ]; then set -- C01 C02 C03 C04 C05 C06; fi
  tools/selftest.sh "$m" "$@" 2>&1 | sed 's/^MISSED/SILENT(ok)/; s/^CAUGHT/FALSE-ALARM/' | cut -c1-200
done
