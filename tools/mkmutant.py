#!/usr/bin/env python3
"""mkmutant.py <out.diff> <relpath> <old> <new> [<relpath> <old> <new> ...]
Creates a unified diff (applicable with patch -p1 in /repo) replacing the first
occurrence of <old> by <new> in each file. Strings may use \\n and \\t escapes."""
import sys, difflib
out = sys.argv[1]
args = sys.argv[2:]
res = []
for i in range(0, len(args), 3):
    rel, old, new = args[i], args[i+1].encode().decode('unicode_escape'), args[i+2].encode().decode('unicode_escape')
    src = open('/repo/' + rel).read()
    if old not in src:
        sys.exit(f"pattern not found in {rel}: {old!r}")
    dst = src.replace(old, new, 1)
    res += list(difflib.unified_diff(src.splitlines(True), dst.splitlines(True), 'a/' + rel, 'b/' + rel))
open(out, 'w').write(''.join(res))
print("wrote", out)
