#!/bin/bash
# usage: tools/reseed.sh <seeded dir name> <Cxx> [<Cxx>...]
# re-runs the given checks against a stored seeded change and records the outcome in its meta.json
# as checks_result_after_strengthening (the first outcome stays in checks_result).
set -u
ROOT="$(cd "$(dirname "$0")/.." && pwd)"
D="$ROOT/seeded/$1"; shift
[ -f "$D/patch.diff" ] || { echo "no such seeded change: $D"; exit 2; }
res="$("$ROOT/tools/selftest.sh" "$D/patch.diff" "$@" 2>&1 | grep -E '^(CAUGHT|MISSED|INCONCLUSIVE)')"
echo "$res" | cut -c1-300
RES="$res" python3 - "$D/meta.json" <<'PY'
import json,os,sys
p=sys.argv[1]
m=json.load(open(p))
m['checks_result_after_strengthening']=[l.strip() for l in os.environ['RES'].splitlines() if l.strip()]
json.dump(m,open(p,'w'),indent=1)
PY
