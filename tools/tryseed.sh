#!/bin/bash
# usage: tools/tryseed.sh <worktree> <n> <Cxx> [<Cxx>...]
# 1. confirms the seeded change <worktree>/out/<n>/patch.diff in the scratch worktree: applies, builds, passes the
#    offline suite, its demonstration fails with the change and passes without it;
# 2. runs the given checks against it (tools/selftest.sh);
# 3. stores it as /verif/seeded/<first Cxx>-<worktree basename>-<n>/ with a results file.
set -u
export GOFLAGS=-mod=mod GOPROXY=off GOSUMDB=off GOTOOLCHAIN=local
ROOT="$(cd "$(dirname "$0")/.." && pwd)"
WT="$1"; N="$2"; shift 2
D="$WT/out/$N"
[ -f "$D/patch.diff" ] || { echo "no patch in $D"; exit 2; }
SUITE="./bint/... ./eth/... ./jrpc2/... ./shovel/config/... ./shovel/glf/... ./wctx/... ./wos/... ./wslog/..."
cd "$WT" && git checkout -q -- . || exit 2
demo_pkgs() { find out/$N -name '*_test.go' -printf '%h\n' 2>/dev/null | sort -u | sed 's#^#./#'; }
run_demo() {
  local rc=0
  for sc in run_demo.sh run.sh; do
    if [ -f "out/$N/$sc" ]; then (bash "out/$N/$sc" >/dev/null 2>&1) && return 0 || return 1; fi
  done
  for p in $(demo_pkgs); do go test -count=1 -timeout 300s -tags "verif c01demo c02demo c03demo c06demo demo" "$p" >/dev/null 2>&1 || rc=1; done
  if [ -z "$(demo_pkgs)" ]; then
    # demonstrations shipped as *.go.txt / *.go.src: copy into the package they declare and run them there
    rc=2
    for f in out/$N/*_test.go.txt out/$N/*_test.go.src; do
      [ -f "$f" ] || continue
      pkg=$(grep -m1 '^package ' "$f" | awk '{print $2}' | sed 's/_test$//')
      case "$pkg" in
        jrpc2|eth|bint|wctx|wos|wslog|wstrings) dir=$pkg ;;
        config|glf|web) dir=shovel/$pkg ;;
        *) continue ;;
      esac
      cp "$f" "$dir/zz_seed_demo_test.go"
      names=$(grep -o '^func Test[A-Za-z0-9_]*' "$f" | sed 's/func //' | paste -sd'|')
      if go test -count=1 -timeout 300s -run "^($names)\$" "./$dir/" >/dev/null 2>&1; then [ $rc = 2 ] && rc=0; else rc=1; fi
      rm -f "$dir/zz_seed_demo_test.go"
    done
  fi
  return $rc
}
run_demo; base=$?
git apply "$D/patch.diff" || { echo "patch does not apply"; exit 2; }
go build ./... >/dev/null 2>&1; build=$?
go test -count=1 -timeout 300s $SUITE >/dev/null 2>&1; suite=$?
run_demo; with=$?
git checkout -q -- .
echo "confirm: build=$build offline_suite=$suite demo_without_patch=$base demo_with_patch=$with (0=pass 1=fail 2=no runnable demo)"
res="$("$ROOT/tools/selftest.sh" "$D/patch.diff" "$@" 2>&1)"
echo "$res"
OUT="$ROOT/seeded/$1-$(basename "$WT")-$N"
mkdir -p "$OUT"
cp "$D/patch.diff" "$OUT/"; cp "$D/meta.json" "$OUT/agent_meta.json" 2>/dev/null
[ -d "$D/demo" ] && cp -r "$D/demo" "$OUT/"
find "$D" -maxdepth 1 -type f ! -name patch.diff ! -name meta.json -exec cp {} "$OUT/" \;
cat > "$OUT/meta.json" <<JSON
{
 "property": "$1",
 "source": "fresh sub-agent given only the property text and its own worktree",
 "needs_to_manifest": $(python3 -c "import json,sys; print(json.dumps(json.load(open('$D/meta.json')).get('needs_to_manifest','see agent_meta.json')))" 2>/dev/null || echo '"see agent_meta.json"'),
 "summary": $(python3 -c "import json,sys; print(json.dumps(json.load(open('$D/meta.json')).get('summary','')))" 2>/dev/null || echo '""'),
 "confirmed_by_me": {"builds": $([ $build = 0 ] && echo true || echo false), "offline_suite_passes": $([ $suite = 0 ] && echo true || echo false), "demo_passes_without_change": $([ $base = 0 ] && echo true || echo false), "demo_fails_with_change": $([ $with = 1 ] && echo true || echo false), "demo_runnable_offline": $([ $base != 2 ] && echo true || echo false)},
 "ran": "tools/tryseed.sh $WT $N $*",
 "checks_result": $(python3 -c "import json,sys; print(json.dumps(sys.argv[1].splitlines()))" "$res")
}
JSON
