NOTES = ("Runtime monitoring only: every verdict is 'held on the executions observed' (see evidence), never a proof. "
         "Exit codes: 0 held, 1 violation (VIOLATION line), 2 inconclusive (INCONCLUSIVE line; simulator contract left, watchdog, too few observations). "
         "Known findings are listed in /verif/KNOWN_FINDINGS.txt.")

NOT_CLAIMED = {}

add("C17", "exploration",
    "differential oracle (strconv/encoding/hex/arithmetic) over exhaustive short tokens + generated values; panic monitor",
    "Every JSON token of length 0..5 (quick) / 0..6 (thorough) over a 15-symbol hostile alphabet is pushed through the three UnmarshalJSON codecs directly and via goccy/go-json; generated uint64 spellings, byte strings up to 8 KiB, reuse sequences and bint pads are compared with strconv/encoding/hex. Exploration is the right level: the input space is unbounded, the token sub-space is enumerated completely.",
    "Trusted: strconv, encoding/hex as reference; oracle domain decisions listed in evidence.assumptions.",
    "DESIGN.md §7 C17")

PIPE_NOTE = ("Trusted base: fakepg (in-process PostgreSQL wire-protocol server implementing the SQL subset of DESIGN.md §3.1 with read-committed transactional semantics; "
             "leaves its contract loudly = INCONCLUSIVE), simnode (simulated JSON-RPC node shaped like geth/erigon), the independent reference projection in model/ + refmodel/ (own ABI encoder and Keccak).")

add("C01", "exploration",
    "reference-model oracle at every commit boundary (fake Postgres + simulated node); generated declarations, chains, schedules, transient faults",
    "The unmodified pipeline (config JSON → ValidateFix → Migrate → production-wired task → Converge → jrpc2 → dig → pgx COPY) runs against generated growth-only chains; every committed transaction must be exactly one position row plus the rows the independent projection derives from the block versions served for (p, p'], and at quiescence table = projection(start..head). 2000 scenarios quick / 60000 thorough over log/tx/trace modes, batch 1..12 × concurrency 1..6, start kinds, growth interleavings and transient RPC/SQL faults.",
    PIPE_NOTE, "DESIGN.md §7 C01")

add("C02", "fault_enumeration",
    "exhaustive single-fault injection at every SQL operation and JSON-RPC call of every step (error reply, drop before/after, process death) + state invariant at every commit boundary + retry-to-golden comparison",
    "For each base scenario (growth-only and reorg histories × modes × batch × concurrency) a fault-free run lists every I/O operation of every step; each (step, operation, fault kind) is then executed as its own run. At every commit boundary and after every step: no row beyond the position, every covered block holds the rows of one version of it, positions strictly increasing; a failed step leaves a state on the fault-free step's path; the retry reaches the fault-free final state. Random multi-fault runs on top.",
    PIPE_NOTE + " 'Every observable state' = every commit boundary of fakepg.", "DESIGN.md §7 C02")

add("C03", "exploration",
    "reference-model oracle at quiescence + state invariant at every commit + deletion monitor; generated reorg histories and reorgs triggered before any chosen JSON-RPC call of a step",
    "Random reorg histories (depth 1..4, shorter/equal/longer, nested) with batch 1..12 and concurrency 1..4 on hash-carrying plans; after the source settles the table must equal the projection of the canonical chain, all positions canonical, nothing at or below the canonical anchor deleted; a sweep triggers a reorg right before every RPC request of every step of base histories.",
    PIPE_NOTE + " 'Settles' = stops reorganising and produces one more block above every recorded position.", "DESIGN.md §7 C03")

add("C19", "exploration",
    "reference-predicate oracle over an exhaustive request grid with a sentinel protected handler; exhaustive single-symbol cookie mutations; login grid",
    "Every combination of the two switches × password kind × 11 remote addresses × 8 cookie states × 4 methods goes through the real Authn wrapper around a sentinel handler and is compared with the 3-clause predicate of the statement; login attempts with wrong/near-miss/long passwords must never mint a session accepted later. Grid is enumerated completely; random families on top.",
    "Trusted: net/http/httptest; session cookies are minted only through real POST /login. Route-level wiring in cmd/shovel is not yet exercised (handler level only).", "DESIGN.md §7 C19")

add("C06", "exploration",
    "range/outcome monitor on every commit and on the node's request log over an exhaustive (start, stop, batch, concurrency, prior position) grid with restarts and head growth",
    "All 1344 combinations of start kind × stop kind × batch × concurrency × prior position are run (those that are contradictory are counted as not applicable), each with steps, head growth and restarts (all in-memory state discarded): every written row/position must lie in the configured range and above the pair's first block, completion must be reported exactly once the stop block is recorded and nothing written afterwards, and every data fetch must begin at position+1 (or start / announced head when there is no position).",
    PIPE_NOTE, "DESIGN.md §7 C06")

ABI_NOTE = "Trusted: refmodel (own ABI encoder written from the Solidity ABI specification, self-tested against the specification's worked examples; own Keccak-f[1600] self-tested against x/crypto and known answers)."

add("C09", "exploration",
    "differential oracle: independent ABI encoder + expected-rows rule vs the real decoder, over generated type trees/selections/values, a catalogue of minimal shapes, decoder reuse, and the Insert path",
    "Generated event declarations (type trees to depth 4, T[k] incl. k>=10, T[], tuples, arrays of tuples, arrays of dynamic elements, nested arrays) go through Event.ABIType() exactly as configuration JSON does; the bytes produced by the independent encoder are scanned by the real decoder (one Result reused for several inputs) and compared with rows computed from the values. Failing random cases are shrunk to a minimal declaration so that one defect has one key.",
    ABI_NOTE, "DESIGN.md §7 C09")

add("C10", "exploration",
    "panic / pointer-range / work-bound monitor over hostile inputs: random bytes, every truncation, every 32-byte word replaced by boundary values, aliasing encodings; canary buffers",
    "Every input is presented with cap==len and inside a larger canary buffer; every returned cell must point into the input; rows and allocated bytes must stay polynomial in the data size; panics are violations. Exhaustive word×boundary-value substitution for encodings up to 40 words.",
    ABI_NOTE + " Wall-clock only as a watchdog (inconclusive).", "DESIGN.md §7 C10")

add("C13", "exploration",
    "own canonical-signature printer and own Keccak vs Event.Signature/SignatureHash; known-answer vectors; log matching through Integration.Insert with a recording connection",
    "Generated names × type trees × indexed layouts; 16 known-answer hashes; matching logs must yield rows, logs with the same hash and any other topic count, other hashes, or no topics must yield none and never panic.",
    ABI_NOTE, "DESIGN.md §7 C13")

add("C04", "exploration",
    "effect-level ownership monitor at every commit + before/after comparison of every other pair's state around each step + per-pair reference projection at quiescence; sequential and truly concurrent interleavings with wire delays",
    "1–2 sources × 2–4 integrations (shared or separate tables, same event with different address filters or independent declarations, integrations on one or both sources) are stepped in random sequential orders and in rounds of concurrent Converge calls with delays at both wire boundaries, with head growth, reorgs on one source and restarts. Every effect of every committed transaction must belong to the pair the transaction acts for; a step must leave every other pair's rows and positions untouched; finally each pair's rows must equal its own projection.",
    PIPE_NOTE, "DESIGN.md §7 C04")

add("C05", "exploration",
    "commit-boundary monitor (dependent's new position vs every referenced integration's position in the same snapshot) + bounded reference-projection oracle (required ⊆ rows ⊆ allowed) over adversarial task orders",
    "Dependency graphs from filter references on event inputs and block fields (1–3 referenced integrations, contains / !contains, and/or) are stepped in adversarial orders: dependent first, only some references started, references lagging or far ahead, a reference stepping between the dependent's two transactions (hook). In the snapshot of every commit of the dependent each referenced integration must have a position >= the dependent's; while a reference has none the dependent must not change; final rows lie between the rows required by data at or below the row's block and the rows allowed by the final referenced tables.",
    PIPE_NOTE + " Graphs also hold a second referrer of the same integration or a second-level dependent, two sources of one chain (dependency judged per source) and reorganisations (position monitor only; content oracle on growth-only chains).", "DESIGN.md §7 C05")

add("C14", "exploration",
    "ground-truth cell comparison on a chain whose every field value is distinct and non-zero, over all singles and pairs of selectable field names per indexing mode (exhaustive) and random larger sets",
    "All singles and all pairs of mode-compatible field names (tx without event, log with event, trace) are run through ValidateFix and the full pipeline on a chain in which every field of every item has its own non-zero value; every stored cell is compared with what the source reported, the chosen plan and wrong columns are part of the key. Random larger sets on top. A third of the runs shares the source (one client, one set of download caches) with a neighbour integration that needs another kind of download for the same ranges.",
    PIPE_NOTE, "DESIGN.md §7 C14")

add("C07", "exploration",
    "faithful-attachment oracle (written from the statement, independent of the client) over every single mutation of a correct response set, for every reachable data plan × limit 1..6, through uncached and caching clients; hostile Hash/Latest/poller scenarios one per case",
    "For each of the 17 reachable plans and limits 1..6 the correct exchanges of one Get are recorded from the simulated node and replayed under every single mutation (48 kinds: drop/duplicate/reorder/renumber/null/error member/broken parent/changed hash/item moved out of range or to another block or tx/changed blockHash/wrong JSON types/truncation at k/16/non-2xx with intact body/garbage); thorough adds sampled pairs. Get must fail when the mutated set is inconsistent in one of the statement's ways and otherwise return exactly the attachment the mutated data describe.",
    "Trusted: refmodel/attach.go (oracle), simnode rendering. Task level: for integrations with concurrency 2..4 every partition request whose first block is not the step's first block is answered once with a changed parent hash; the step must fail and write nothing. Undetectable omissions (a log simply absent from eth_getLogs) are not violations.", "DESIGN.md §7 C07")

add("C08", "exploration",
    "ground-truth and uncached-client equivalence per call + fetch counting from the node's request log + announced-pair membership for Latest; sequential and concurrent request mixes with injected fetch failures; poller at 2 ms and 1 h",
    "Sequences and concurrent mixes (2–12 goroutines) of Get over few keys (same/overlapping ranges, different filters on shared segments, 14 call shapes, max-reads 1..6) with faults injected into fetches, and Latest under head growth, repeats, regressions and poller failures: every result equals the chain and what an uncached client returns, every filter-matching log is present exactly once, a failed fetch is never served, reads between two source fetches never exceed max-reads (relaxed by measured in-flight calls when concurrent), every reported head is an announced (number, hash) pair.",
    "Trusted: simnode request log as the record of what the source was asked and what it announced. Minimum observations (cache hits, evictions by both rules, poller resets) are enforced.", "DESIGN.md §7 C08")

add("C18", "exploration",
    "Go race detector (-race build of harness + shovel) over free-running production-wired tasks: real goroutine concurrency, head poller at 2 ms with injected failures, delays at both wire boundaries, head growth and reorgs in flight; reports de-duplicated by innermost shovel frame pair; plus a crash monitor over fresh plain-build child processes for first-use initialisation that the JSON dependency hides from the race detector (its unsynchronised decoder publication is stretched by a build overlay)",
    "First use: fresh child processes whose 2–16 goroutines perform the process's first block/head/hash requests at the same moment must not crash. Family C: event integrations attached to two sources, so two tasks built from one configuration decode and insert at once. Family A: one task with concurrency 2..8; family B: 2–4 tasks on one source client with overlapping ranges and different data plans so cached segments are shared while logs/receipts/traces are attached. Runner goroutines call Converge until every pair reaches a head that keeps moving; any race report whose two stacks both hold a shovel frame is a violation. Minimum observations (Converge executions, in-flight requests >= 2, poller requests/failures, reorgs) are enforced.",
    "The race detector sees only interleavings that occurred; a clean run is not race freedom. Trusted: Go race runtime; the harness's own shared state is mutex/atomic-protected (a report without two shovel stacks is inconclusive).", "DESIGN.md §7 C18")

add("C20", "exploration",
    "online checker over the hook event log of the real Manager (run/generation, runner and step events under one global sequence) + reference merge model of file and database configuration; restarts at random instants and at hook points",
    "File/database configuration mixes (name clashes with different contents, disabled entries, several sources per integration, unknown source in file or database) start the real Manager; the loaded tasks (source, integration, chain id, start, stop, batch, concurrency) are compared with an independent merge model; 1–4 restarts are issued one at a time at random instants, while a runner sits between its two transactions, right after the previous start-up signal, and after storing new integrations; the event log must never show two live runners or overlapping steps for one pair nor any event of a previous generation after Restart returned.",
    "Trusted: the build-tag-guarded event hooks (sequence numbers from one atomic counter); fakepg/simnode as in C01. Restarts are issued one at a time, except the overlapping-restart mode (a second store + restart lands between 'tasks loaded' and the start-up signal of the first). One process-level case runs the real cmd/shovel binary with an unknown source reference (database-only and file): after reporting the error the process must terminate non-zero. Wall-clock only in watchdogs.", "DESIGN.md §7 C20")

add("C11", "exploration",
    "reference projection (values → typed cells, computed from the simulated chain and the independent ABI model) vs rows handed to COPY: direct Integration.Insert through the production destination with a recording connection (volume) + full pipeline every 41st case",
    "Events with any mix and order of indexed/non-indexed × selected/unselected inputs (unselected indexed inputs before selected ones, all-indexed events = logs without data, data present but nothing selected), all integer widths uint8..uint256/int8..int256 with sign patterns {0,1,-1,min,max,random}, address/bool/bytesN/bytes/string, arrays (abi_idx), block fields in random column order under differing column names; every cell is compared with the reference value of the field or input it is bound to.",
    PIPE_NOTE + " " + ABI_NOTE, "DESIGN.md §7 C11")

add("C12", "exploration",
    "reference filter predicate per item (per-filter result, and/or fold) vs emitted rows on the direct Insert path, and pipeline runs against a node that applies address/topic restrictions faithfully (pushdown must lose nothing); attribution of a wrong outcome to pushdown, a single filter, or the aggregation",
    "Operators × value kinds of the documented matrix (contains/!contains on byte strings and strings; eq/ne on byte strings, strings, uint64, uint256; gt/lt on uint64, uint256), one or several arguments, filters on indexed and non-indexed inputs and on block fields incl. log_addr, both aggregations with 1–3 filters, values at/just below/just above the arguments, one-byte-off and fragment arguments, reference filters against pre-populated and integration-produced tables, a second filter on a component of a tuple input next to a pushed-down log_addr filter. Pipeline cases compare the table at quiescence with the projection, so a log that the source never served because of an over-restrictive eth_getLogs filter is a missing row.",
    PIPE_NOTE + " String contains is membership in both shovel and the oracle; only arguments on which membership and substring agree are generated.", "DESIGN.md §7 C12")

add("C15", "exploration",
    "marker search over every SQL statement text the fake Postgres receives (simple queries and Parse), for every string-valued position of rich configurations replaced in turn by hostile strings, through the file lifecycle and the dashboard lifecycle; chain data carries its own marker",
    "The configuration JSON tree is walked generically: each of ~314 string positions (76 path classes, file and dashboard) is replaced by hostile strings (7 general ones, valid-prefix tails, and index-entry shapes such as a direction or a longer ordering clause followed by more text) and 2 controls; each variant runs decode → ValidateFix → Migrate → task construction → steps incl. a reorg deletion, reference lookups and notifications, or POST to the real SaveIntegration/SaveSource handlers → load → steps. A hostile marker may never appear in statement text (parameters and COPY data are exempt); a rejected configuration must not have produced a statement with the marker; the plain control must be accepted and run (vacuity guard).",
    PIPE_NOTE + " ' desc'/' asc' suffixes are legitimate in table.index entries.", "DESIGN.md §7 C15")

add("C16", "exploration",
    "schema-fit monitor on the fake Postgres with PostgreSQL identifier, type and NULL-distinct unique semantics: first-pass COPY must succeed, different rows must not collide, re-inserting a block must collide, validation must reject selections without a column; shared tables, existing tables, reserved-word and mixed-case names",
    "Integration sets (log/tx/trace shapes, with and without arrays, sharing a table or not, columns in any order, user-supplied or missing identity columns, tables pre-created by SQL or by an earlier smaller configuration, reserved-word and mixed-case column names) are migrated and indexed; then the pair's positions are deleted and the same blocks inserted again (must fail with 23505); columns are removed from the declaration (must be rejected by ValidateFix); the printed schema (config.DDL, union of shared tables) is applied to a second server. Two known findings about the single unique index per table are listed.",
    PIPE_NOTE, "DESIGN.md §7 C16")
