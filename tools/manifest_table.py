NOTES = ("Runtime monitoring only: every verdict is 'held on the executions observed' (see evidence), never a proof. "
         "Exit codes: 0 held, 1 violation (VIOLATION line), 2 inconclusive (INCONCLUSIVE line; simulator contract left, watchdog, too few observations). "
         "Known findings are listed in /verif/KNOWN_FINDINGS.txt.")

NOT_CLAIMED = {}

add("C17", "exploration",
    "differential oracle (strconv/encoding/hex/arithmetic) over exhaustive short tokens + generated values; panic monitor",
    "Every JSON token of length 0..5 (quick) / 0..6 (thorough) over a 15-symbol hostile alphabet is pushed through the three UnmarshalJSON codecs directly and via goccy/go-json; generated uint64 spellings, byte strings up to 8 KiB, reuse sequences and bint pads are compared with strconv/encoding/hex. Exploration is the right level: the input space is unbounded, the token sub-space is enumerated completely.",
    "Trusted: strconv, encoding/hex as reference; oracle domain decisions listed in evidence.assumptions.",
    "DESIGN.md §7 C17")

PIPE_NOTE = ("Trusted base: fakepg (in-process PostgreSQL wire-protocol server implementing the SQL subset of DESIGN.md §3.1 with read-committed transactional semantics; "
             "leaves its contract loudly = INCONCLUSIVE), simnode (simulated JSON-RPC node shaped like geth/erigon), the independent reference projection in model/ + refmodel/ (own ABI encoder and Keccak).")

add("C01", "exploration",
    "reference-model oracle at every commit boundary (fake Postgres + simulated node); generated declarations, chains, schedules, transient faults",
    "The unmodified pipeline (config JSON → ValidateFix → Migrate → production-wired task → Converge → jrpc2 → dig → pgx COPY) runs against generated growth-only chains; every committed transaction must be exactly one position row plus the rows the independent projection derives from the block versions served for (p, p'], and at quiescence table = projection(start..head). 2000 scenarios quick / 60000 thorough over log/tx/trace modes, batch 1..12 × concurrency 1..6, start kinds, growth interleavings and transient RPC/SQL faults.",
    PIPE_NOTE, "DESIGN.md §7 C01")

add("C02", "fault_enumeration",
    "exhaustive single-fault injection at every SQL operation and JSON-RPC call of every step (error reply, drop before/after, process death) + state invariant at every commit boundary + retry-to-golden comparison",
    "For each base scenario (growth-only and reorg histories × modes × batch × concurrency) a fault-free run lists every I/O operation of every step; each (step, operation, fault kind) is then executed as its own run. At every commit boundary and after every step: no row beyond the position, every covered block holds the rows of one version of it, positions strictly increasing; a failed step leaves a state on the fault-free step's path; the retry reaches the fault-free final state. Random multi-fault runs on top.",
    PIPE_NOTE + " 'Every observable state' = every commit boundary of fakepg.", "DESIGN.md §7 C02")

add("C03", "exploration",
    "reference-model oracle at quiescence + state invariant at every commit + deletion monitor; generated reorg histories and reorgs triggered before any chosen JSON-RPC call of a step",
    "Random reorg histories (depth 1..4, shorter/equal/longer, nested) with batch 1..12 and concurrency 1..4 on hash-carrying plans; after the source settles the table must equal the projection of the canonical chain, all positions canonical, nothing at or below the canonical anchor deleted; a sweep triggers a reorg right before every RPC request of every step of base histories.",
    PIPE_NOTE + " 'Settles' = stops reorganising and produces one more block above every recorded position.", "DESIGN.md §7 C03")

add("C19", "exploration",
    "reference-predicate oracle over an exhaustive request grid with a sentinel protected handler; exhaustive single-symbol cookie mutations; login grid",
    "Every combination of the two switches × password kind × 11 remote addresses × 8 cookie states × 4 methods goes through the real Authn wrapper around a sentinel handler and is compared with the 3-clause predicate of the statement; login attempts with wrong/near-miss/long passwords must never mint a session accepted later. Grid is enumerated completely; random families on top.",
    "Trusted: net/http/httptest; session cookies are minted only through real POST /login. Route-level wiring in cmd/shovel is not yet exercised (handler level only).", "DESIGN.md §7 C19")
