NOTES = ("Runtime monitoring only: every verdict is 'held on the executions observed' (see evidence), never a proof. "
         "Exit codes: 0 held, 1 violation (VIOLATION line), 2 inconclusive (INCONCLUSIVE line; simulator contract left, watchdog, too few observations). "
         "Known findings are listed in /verif/KNOWN_FINDINGS.txt.")

NOT_CLAIMED = {}

add("C17", "exploration",
    "differential oracle (strconv/encoding/hex/arithmetic) over exhaustive short tokens + generated values; panic monitor",
    "Every JSON token of length 0..5 (quick) / 0..6 (thorough) over a 15-symbol hostile alphabet is pushed through the three UnmarshalJSON codecs directly and via goccy/go-json; generated uint64 spellings, byte strings up to 8 KiB, reuse sequences and bint pads are compared with strconv/encoding/hex. Exploration is the right level: the input space is unbounded, the token sub-space is enumerated completely.",
    "Trusted: strconv, encoding/hex as reference; oracle domain decisions listed in evidence.assumptions.",
    "DESIGN.md §7 C17")
