#!/bin/bash
# usage: tools/selftest.sh <patch.diff> <Cxx> [<Cxx>...]   (env TIER=quick|thorough, VERIF_SEED)
# Applies a patch to a scratch copy of /repo (outside /repo and /verif), builds the
# harness against it and runs the given checks; prints one line per check:
#   CAUGHT <Cxx> <keys…> | MISSED <Cxx> | INCONCLUSIVE <Cxx>
# The scratch copy and its build output are removed afterwards.
set -u
export GOFLAGS=-mod=mod GOPROXY=off GOSUMDB=off GOTOOLCHAIN=local
ROOT="$(cd "$(dirname "$0")/.." && pwd)"
PATCH="$(readlink -f "$1")"; shift
TMP="$(mktemp -d /tmp/vselftest.XXXXXX)"
trap 'pkill -f "$TMP/vcheck" 2>/dev/null; rm -rf "$TMP"' EXIT INT TERM
mkdir -p "$TMP/repo" "$TMP/root"
(cd /repo && git ls-files -z | xargs -0 cp --parents -t "$TMP/repo") || exit 2
# include uncommitted working-tree state of tracked files (cp above copies the working tree)
if ! (cd "$TMP/repo" && patch -p1 -s < "$PATCH"); then echo "PATCH-FAILED $PATCH"; exit 2; fi
if ! (cd "$TMP/repo" && go build ./... 2>"$TMP/build.err"); then echo "MUTANT-DOES-NOT-COMPILE"; cat "$TMP/build.err"; exit 2; fi
sed "s#=> /repo#=> $TMP/repo#" "$ROOT/harness/go.mod" > "$TMP/go.mod"
cp "$ROOT/harness/go.sum" "$TMP/go.sum"
cp "$ROOT/KNOWN_FINDINGS.txt" "$TMP/root/" 2>/dev/null
cd "$ROOT/harness"
RACE=""
for p in "$@"; do [ "$p" = C18 ] && RACE=1; done
go build -modfile="$TMP/go.mod" -tags verif -o "$TMP/vcheck" ./cmd/vcheck || { echo "HARNESS-BUILD-FAILED"; exit 2; }
for p in "$@"; do { [ "$p" = C19 ] || [ "$p" = C20 ] || [ "$p" = C16 ]; } && { go build -modfile="$TMP/go.mod" -o "$TMP/shovel" github.com/indexsupply/shovel/cmd/shovel || exit 2; export VERIF_SHOVEL_BIN="$TMP/shovel"; }; done
[ -n "$RACE" ] && { go build -race -modfile="$TMP/go.mod" -tags verif -o "$TMP/vcheck-race" ./cmd/vcheck || exit 2; }
if [ -n "$RACE" ]; then
  # C18's first-use children: plain build with the JSON library's decoder publication stretched (see run.sh)
  JD="$(go list -modfile="$TMP/go.mod" -m -f '{{.Dir}}' github.com/goccy/go-json 2>/dev/null)"
  if [ -n "$JD" ] && [ -f "$JD/internal/decoder/compile_norace.go" ]; then
    printf '{"Replace": {"%s": "%s"}}\n' "$JD/internal/decoder/compile_norace.go" "$ROOT/harness/overlay/compile_norace.go.txt" > "$TMP/overlay.json"
    go build -modfile="$TMP/go.mod" -tags verif -overlay "$TMP/overlay.json" -o "$TMP/vcheck-firstuse" ./cmd/vcheck || exit 2
  fi
fi
rc=0
for p in "$@"; do
  W="$TMP/vcheck"; [ "$p" = C18 ] && W="$TMP/vcheck-race"
  out="$(VERIF_ROOT="$TMP/root" "$TMP/vcheck" run "$p" --tier "${TIER:-quick}" --worker-exe "$W" 2>&1)"; code=$?
  keys="$(echo "$out" | grep -o 'key=[^ ]*' | sort -u | head -8 | tr '\n' ' ')"
  case $code in
    1) echo "CAUGHT $p $keys" ;;
    0) echo "MISSED $p"; rc=1 ;;
    *) echo "INCONCLUSIVE $p $(echo "$out" | grep INCONCLUSIVE | head -3)"; rc=1 ;;
  esac
done
exit $rc
