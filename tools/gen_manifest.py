#!/usr/bin/env python3
"""Writes /verif/MANIFEST.json from the table below (kept valid at all times)."""
import json, os, subprocess, sys

ROOT = os.path.dirname(os.path.dirname(os.path.abspath(__file__)))

# property -> (level, technique, text, note, design_ref)
CHECKS = {}

def add(pid, level, technique, text, note, ref):
    CHECKS[pid] = dict(level=level, technique=technique, text=text, note=note, ref=ref)

exec(open(os.path.join(ROOT, "tools", "manifest_table.py")).read())

props = [json.loads(l)["id"] for l in open(os.path.join(ROOT, "properties.jsonl"))]
checks = []
na = []
for pid in props:
    if pid in CHECKS:
        c = CHECKS[pid]
        checks.append({
            "property_id": pid,
            "quick_cmd": f"./run.sh {pid} quick",
            "thorough_cmd": f"./run.sh {pid} thorough",
            "evidence_file": f"/verif/evidence/{pid}.json",
            "replay_cmd_template": "./run.sh replay {path}",
            "engine": "vcheck",
            "level_claimed": {"category": c["level"], "text": c["text"], "design_ref": c["ref"]},
            "level_note": c["note"],
            "technique": c["technique"],
        })
    else:
        na.append({"property_id": pid, "reason": NOT_CLAIMED.get(pid, "check not built yet in this session; not claimed")})

hook_commits = []
try:
    out = subprocess.run(["git", "-C", "/repo", "log", "--format=%h %s"], capture_output=True, text=True).stdout
    for ln in out.splitlines():
        h, _, subj = ln.partition(" ")
        if subj.startswith("verif-hook:"):
            hook_commits.append(h)
except Exception:
    pass

m = {
    "version": 1,
    "setup_cmd": "./run.sh build",
    "hooks": {
        "guard": "verif",
        "enable": "go build -tags verif (harness module /verif/harness has `replace github.com/indexsupply/shovel => /repo`, so every check compiles /repo's working tree)",
        "baseline_off_cmd": "cd /repo && GOFLAGS=-mod=mod GOPROXY=off GOSUMDB=off go test -json -vet=off -count=1 -timeout 25m ./bint/... ./eth/... ./jrpc2/... ./shovel/config/... ./shovel/glf/... ./wctx/... ./wos/... ./wslog/...",
        "source_commits": hook_commits,
        "add_only": True,
    },
    "engines": [
        {"name": "vcheck", "path": "/verif/harness", "serves_properties": sorted(CHECKS),
         "kind_free_text": "Go runtime-monitoring harness: real shovel code driven against an in-process fake Postgres (pgproto3 wire protocol) and a simulated JSON-RPC node, independent reference model as oracle, Go race detector, fault injection at both wire boundaries"},
    ],
    "checks": checks,
    "notes": NOTES,
    "not_applicable": na,
}
json.dump(m, open(os.path.join(ROOT, "MANIFEST.json"), "w"), indent=1)
print("MANIFEST.json:", len(checks), "checks,", len(na), "not claimed")
