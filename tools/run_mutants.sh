#!/bin/bash
# Runs every own mutant (mutants/*.diff) and every seeded change (seeded/*/patch.diff) against the check of its
# property (quick tier) and prints a table. Usage: tools/run_mutants.sh [pattern] [parallelism]
# The property is the first Cnn in the mutant's name. Some stored changes are caught only by another property's check
# (see their meta.json / DESIGN.md II.5): those print MISSED here.
cd "$(dirname "$0")/.."
pat="${1:-}"; par="${2:-3}"
one() {
  m="$1"
  base=$(basename "$(dirname "$m")"); [ "$base" = mutants ] && base=$(basename "$m" .diff)
  prop=$(echo "$base" | grep -o 'C[0-9][0-9]' | head -1)
  [ -z "$prop" ] && { printf '%-44s %s\n' "$base" "no property in name"; return; }
  res=$(tools/selftest.sh "$m" "$prop" 2>&1 | tail -1 | cut -c1-160)
  printf '%-44s %s\n' "$base" "$res"
}
export -f one
ls mutants/*.diff seeded/*/patch.diff | grep -- "$pat" | xargs -P "$par" -I{} bash -c 'one {}'
