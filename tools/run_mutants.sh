#!/bin/bash
# Runs every own mutant (mutants/<Cxx>-*.diff) and every seeded change (seeded/*/patch.diff) against the check of its
# property (quick tier) and prints a table. Usage: tools/run_mutants.sh [pattern]
cd "$(dirname "$0")/.."
pat="${1:-}"
for m in mutants/*.diff seeded/*/patch.diff; do
  case "$m" in *"$pat"*) ;; *) continue ;; esac
  base=$(basename "$(dirname "$m")"); [ "$base" = mutants ] && base=$(basename "$m" .diff)
  prop=${base%%-*}
  res=$(tools/selftest.sh "$m" "$prop" 2>&1 | tail -1 | cut -c1-200)
  printf '%-40s %s\n' "$base" "$res"
done
