package gen

import (
	"fmt"

	"verif/harness/model"
	"verif/harness/refmodel"
	"verif/harness/simnode"
	"verif/harness/vk"
)

// FieldInfo: one selectable block-data field.
type FieldInfo struct {
	Name    string
	ColType string
	Class   string // ctx header block receipt log trace
}

// Fields is the documented list of block-data names (shovel-config-ts
// BlockDataOptions), with the column types the documentation uses.
var Fields = []FieldInfo{
	{"src_name", "text", "ctx"},
	{"ig_name", "text", "ctx"},
	{"chain_id", "numeric", "ctx"},
	{"block_hash", "bytea", "header"},
	{"block_num", "numeric", "header"},
	{"block_time", "numeric", "header"},
	{"tx_hash", "bytea", "block"},
	{"tx_idx", "int", "block"},
	{"tx_signer", "bytea", "block"},
	{"tx_to", "bytea", "block"},
	{"tx_value", "numeric", "block"},
	{"tx_input", "bytea", "block"},
	{"tx_type", "int", "block"},
	{"tx_nonce", "numeric", "block"},
	{"tx_gas_price", "numeric", "block"},
	{"tx_max_priority_fee_per_gas", "numeric", "block"},
	{"tx_max_fee_per_gas", "numeric", "block"},
	{"tx_status", "int", "receipt"},
	{"tx_gas_used", "numeric", "receipt"},
	{"tx_effective_gas_price", "numeric", "receipt"},
	{"tx_contract_address", "bytea", "receipt"},
	{"log_idx", "int", "log"},
	{"log_addr", "bytea", "log"},
	{"trace_action_call_type", "text", "trace"},
	{"trace_action_idx", "int", "trace"},
	{"trace_action_from", "bytea", "trace"},
	{"trace_action_to", "bytea", "trace"},
	{"trace_action_value", "numeric", "trace"},
}

func FieldByName(n string) FieldInfo {
	for _, f := range Fields {
		if f.Name == n {
			return f
		}
	}
	panic("unknown field " + n)
}

// DeclOpts shapes a generated declaration.
type DeclOpts struct {
	Mode    int // -1 random, else model.Mode
	Name    string
	Table   string
	Src     string
	Start   uint64
	Stop    uint64
	ABI     ABIOpts
	Exclude map[string]bool // block fields never chosen
	// HashPlan forces a field that makes the data plan fetch headers or full
	// blocks (the plans that carry parent hashes).
	HashPlan   bool
	MaxFields  int
	SelIndexed bool // also select indexed inputs
}

// SafeExclude: fields whose fetching is the subject of C14's known findings;
// other pipeline checks leave them out so that one defect keeps one key.
var SafeExclude = map[string]bool{}

// Decl draws a declaration.
func Decl(r *vk.RNG, o DeclOpts) *model.Decl {
	d := &model.Decl{Name: o.Name, Enabled: true, Table: o.Table, ColTypes: map[string]string{}, InFilter: map[string]model.Filter{}}
	d.Sources = []model.SrcRef{{Name: o.Src, Start: o.Start, Stop: o.Stop}}
	mode := o.Mode
	if mode < 0 {
		mode = r.Intn(3)
	}
	maxf := o.MaxFields
	if maxf == 0 {
		maxf = 5
	}
	var pool []FieldInfo
	for _, f := range Fields {
		if o.Exclude[f.Name] {
			continue
		}
		switch f.Class {
		case "ctx", "header", "block":
			pool = append(pool, f)
		case "receipt":
			pool = append(pool, f)
		case "log":
			if model.Mode(mode) == model.ModeLog {
				pool = append(pool, f)
			}
		case "trace":
			if model.Mode(mode) == model.ModeTrace {
				pool = append(pool, f)
			}
		}
	}
	vk.Shuffle(r, pool)
	n := r.Range(0, maxf)
	used := map[string]bool{}
	addField := func(f FieldInfo) {
		if used[f.Name] {
			return
		}
		used[f.Name] = true
		col := f.Name
		if r.Chance(1, 5) {
			col = "c_" + f.Name // column named differently from the field
		}
		if f.Name == "ig_name" || f.Name == "src_name" || f.Name == "block_num" {
			col = f.Name // identity columns keep their names here (renamed ones: pipeSpec.RenameIdent)
		}
		d.Block = append(d.Block, model.BlockField{Name: f.Name, Column: col, ColType: f.ColType})
	}
	for i := 0; i < n && i < len(pool); i++ {
		if pool[i].Name == "trace_action_idx" {
			continue
		}
		addField(pool[i])
	}
	if model.Mode(mode) == model.ModeTrace {
		has := false
		for _, b := range d.Block {
			if FieldByName(b.Name).Class == "trace" {
				has = true
			}
		}
		if !has {
			addField(FieldByName(vk.Pick(r, []string{"trace_action_call_type", "trace_action_from", "trace_action_to", "trace_action_value"})))
		}
	}
	if model.Mode(mode) == model.ModeTx && len(d.Block) == 0 {
		addField(FieldByName(vk.Pick(r, []string{"tx_hash", "tx_value", "tx_signer", "tx_status"})))
	}
	// a trace declaration without receipt- or log-level fields needs block-level required fields (tx_idx, block_num)
	// that neither trace_block nor anything else it asks for supplies, so its plan carries block hashes by itself:
	// force the extra field only half of the time there
	natural := model.Mode(mode) == model.ModeTrace
	for _, b := range d.Block {
		if cl := FieldByName(b.Name).Class; cl == "receipt" || cl == "log" {
			natural = false
		}
	}
	if o.HashPlan && (!natural || r.Bool()) {
		addField(FieldByName(vk.Pick(r, []string{"block_time", "tx_value", "tx_input", "tx_nonce"})))
	}
	if model.Mode(mode) == model.ModeLog {
		d.EventName = EventName(r)
		ins := Inputs(r, o.ABI)
		ins = Select(r, ins, 2, 3)
		if o.SelIndexed {
			k := 0
			for i := range ins {
				if ins[i].Indexed && r.Chance(2, 3) { // any subset (C11's subject too)
					ins[i].Column = fmt.Sprintf("ix%d", k)
					k++
				}
			}
		}
		d.Inputs = ins
	}
	vk.Shuffle(r, d.Block)
	return d
}

// TargetMaker makes logs of the declaration's own event.
func TargetMaker(d *model.Decl, addrs [][]byte, abi ABIOpts) LogMaker {
	return func(r *vk.RNG) simnode.Log {
		vals := Values(r, d.Inputs, abi)
		return model.MakeLog(d.EventName, d.Inputs, vals, vk.Pick(r, addrs))
	}
}

// DecoyMakers: logs that must never produce rows for d: another event, the
// same signature hash with another topic count, an anonymous log without
// topics.
func DecoyMakers(d *model.Decl, addrs [][]byte, abi ABIOpts) []LogMaker {
	other := []refmodel.Field{{Name: "x", Type: refmodel.Uint(256)}, {Name: "y", Type: refmodel.Address(), Indexed: true}}
	target := TargetMaker(d, addrs, abi)
	return []LogMaker{
		func(r *vk.RNG) simnode.Log {
			return model.MakeLog("VerifDecoy", other, []any{r.BigBits(200), r.Bytes(20)}, vk.Pick(r, addrs))
		},
		func(r *vk.RNG) simnode.Log {
			l := target(r)
			l.Meta = nil
			if len(l.Topics) > 1 && r.Bool() {
				l.Topics = l.Topics[:len(l.Topics)-1]
			} else if len(l.Topics) < 4 {
				l.Topics = append(l.Topics, r.Bytes(32))
			} else {
				l.Topics = l.Topics[:1]
			}
			return l
		},
		func(r *vk.RNG) simnode.Log {
			return simnode.Log{Addr: vk.Pick(r, addrs), Data: r.Bytes(32 * r.Intn(3))}
		},
	}
}
