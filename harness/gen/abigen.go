// Package gen holds the seeded generators shared by the checks. abigen.go
// generates ABI type trees, event declarations (with column selections inside
// the domain of C09's statement), values, shape classes and a shrinker that
// reduces a failing declaration to a minimal one so that a defect maps to one
// stable violation key.
package gen

import (
	"fmt"
	"math/big"
	"sort"
	"strconv"
	"strings"

	"verif/harness/refmodel"
	"verif/harness/vk"
)

type (
	Type  = refmodel.Type
	Field = refmodel.Field
)

// KSet are the fixed array lengths of DESIGN §7 C09.
var KSet = []int{1, 2, 3, 4, 5, 6, 7, 8, 9, 10, 11, 12, 16, 21, 32, 100}

// ABIOpts shapes the generated declarations.
type ABIOpts struct {
	MaxDepth     int   // nesting of type constructors (default 4)
	MaxLeaves    int   // budget: elementary values in one encoding with every T[] holding DynLen elements (default 400)
	DynLen       int   // typical maximum length of T[] values (default 4)
	MaxInputs    int   // top-level inputs (default 5)
	Ks           []int // allowed fixed lengths (default KSet)
	NoBytesArray bool  // never put bytes directly under an array
	MaxArrayNest int   // maximum number of array levels above any leaf (0 = unlimited)
	MaxIndexed   int   // number of indexed inputs allowed (elementary static ones are generated)
	MinDynLen    int   // values: minimum length of every T[] (0 = empty arrays allowed)
}

func (o ABIOpts) withDefaults() ABIOpts {
	if o.MaxDepth == 0 {
		o.MaxDepth = 4
	}
	if o.MaxLeaves == 0 {
		o.MaxLeaves = 400
	}
	if o.DynLen == 0 {
		o.DynLen = 4
	}
	if o.MaxInputs == 0 {
		o.MaxInputs = 5
	}
	if o.Ks == nil {
		o.Ks = KSet
	}
	return o
}

var uintBits = []int{8, 16, 24, 32, 40, 64, 96, 112, 128, 160, 192, 248, 256}

// Elementary draws a leaf type.
func Elementary(r *vk.RNG) Type {
	switch r.Intn(12) {
	case 0, 1, 2:
		if r.Chance(1, 2) {
			return refmodel.Uint(256)
		}
		return refmodel.Uint(vk.Pick(r, uintBits))
	case 3, 4:
		return refmodel.Int(vk.Pick(r, uintBits))
	case 5:
		return refmodel.Address()
	case 6:
		return refmodel.Bool()
	case 7:
		if r.Chance(1, 2) {
			return refmodel.BytesN(32)
		}
		return refmodel.BytesN(r.Range(1, 32))
	case 8, 9:
		return refmodel.Bytes()
	default:
		return refmodel.String()
	}
}

func staticElementary(r *vk.RNG) Type {
	for {
		if t := Elementary(r); !t.IsDynamic() {
			return t
		}
	}
}

type namer struct{ n int }

func (nm *namer) next() string { nm.n++; return "f" + strconv.Itoa(nm.n) }

func typeTree(r *vk.RNG, depth, arrNest int, o ABIOpts, nm *namer) Type {
	if depth <= 0 {
		return Elementary(r)
	}
	c := r.Intn(100)
	arraysOK := o.MaxArrayNest == 0 || arrNest < o.MaxArrayNest
	switch {
	case c < 34:
		return Elementary(r)
	case c < 54 && arraysOK:
		e := typeTree(r, depth-1, arrNest+1, o, nm)
		if o.NoBytesArray && e.Kind == refmodel.KBytes {
			e = refmodel.String()
		}
		return refmodel.ArrayOf(e)
	case c < 74 && arraysOK:
		e := typeTree(r, depth-1, arrNest+1, o, nm)
		if o.NoBytesArray && e.Kind == refmodel.KBytes {
			e = refmodel.String()
		}
		return refmodel.FixedOf(vk.Pick(r, o.Ks), e)
	case c < 74:
		return Elementary(r)
	default:
		n := r.Range(1, 4)
		fs := make([]Field, n)
		for i := range fs {
			fs[i] = Field{Name: nm.next(), Type: typeTree(r, depth-1, arrNest, o, nm)}
		}
		return refmodel.TupleOf(fs...)
	}
}

// Leaves estimates how many elementary values an encoding holds when every
// dynamic array has dyn elements.
func Leaves(t Type, dyn int) int {
	switch t.Kind {
	case refmodel.KArray:
		return 1 + dyn*Leaves(*t.Elem, dyn)
	case refmodel.KFixedArray:
		return t.N * Leaves(*t.Elem, dyn)
	case refmodel.KTuple:
		n := 0
		for _, f := range t.Fields {
			n += Leaves(f.Type, dyn)
		}
		return n
	}
	return 1
}

// Inputs draws the top-level inputs of an event (no selections yet). Indexed
// inputs, when allowed, are static elementary types.
func Inputs(r *vk.RNG, o ABIOpts) []Field {
	o = o.withDefaults()
	nm := &namer{}
	n := r.Range(1, o.MaxInputs)
	budget := o.MaxLeaves
	var fs []Field
	for i := 0; i < n; i++ {
		var t Type
		for try := 0; ; try++ {
			d := r.Range(0, o.MaxDepth)
			t = typeTree(r, d, 0, o, nm)
			if Leaves(t, o.DynLen) <= budget {
				break
			}
			if try > 20 {
				t = Elementary(r)
				break
			}
		}
		budget -= Leaves(t, o.DynLen)
		if budget < 1 {
			budget = 1
		}
		fs = append(fs, Field{Name: nm.next(), Type: t})
	}
	if o.MaxIndexed > 0 {
		k := r.Intn(o.MaxIndexed + 1)
		for i := 0; i < k; i++ {
			f := Field{Name: nm.next(), Type: staticElementary(r), Indexed: true}
			at := r.Intn(len(fs) + 1)
			fs = append(fs[:at], append([]Field{f}, fs[at:]...)...)
		}
	}
	return fs
}

// CloneFields deep-copies a declaration.
func CloneFields(fs []Field) []Field {
	out := make([]Field, len(fs))
	for i, f := range fs {
		out[i] = f
		out[i].Type = cloneType(f.Type)
	}
	return out
}

func cloneType(t Type) Type {
	if t.Elem != nil {
		e := cloneType(*t.Elem)
		t.Elem = &e
	}
	if t.Fields != nil {
		t.Fields = CloneFields(t.Fields)
	}
	return t
}

// Select returns a copy of fields with columns chosen with probability
// num/den per selectable field, never leaving the statement's domain: a field
// of array type is selectable only when it is not inside a tuple that is
// (transitively) an array element. At least one non-indexed field is selected.
func Select(r *vk.RNG, fields []Field, num, den int) []Field {
	out := CloneFields(fields)
	ncol := 0
	var selectable []*Field
	var walk func(fs []Field, arrAbove, tupleUnderArr, top bool)
	walk = func(fs []Field, arrAbove, tupleUnderArr, top bool) {
		for i := range fs {
			f := &fs[i]
			f.Column = ""
			if top && f.Indexed {
				continue
			}
			b := f.Type.Base()
			if b.Kind == refmodel.KTuple {
				// fields of the tuple live in the (cloned) type; walk them in place
				tt := &f.Type
				for tt.IsArray() {
					tt = tt.Elem
				}
				if f.Type.IsArray() && tupleUnderArr {
					clearColumns(tt.Fields) // an array (of tuples) inside a tuple that is an array element: excluded
					continue
				}
				under := tupleUnderArr || arrAbove || f.Type.IsArray()
				walk(tt.Fields, arrAbove || f.Type.IsArray(), under, false)
				continue
			}
			if f.Type.IsArray() && tupleUnderArr {
				continue // excluded by the statement
			}
			selectable = append(selectable, f)
			if r.Chance(num, den) {
				f.Column = "c" + strconv.Itoa(ncol)
				ncol++
			}
		}
	}
	walk(out, false, false, true)
	if ncol == 0 && len(selectable) > 0 {
		vk.Pick(r, selectable).Column = "c0"
	}
	return out
}

func clearColumns(fs []Field) {
	for i := range fs {
		fs[i].Column = ""
		tt := &fs[i].Type
		for tt.IsArray() {
			tt = tt.Elem
		}
		clearColumns(tt.Fields)
	}
}

// ---- values

var byteLens = []int{0, 0, 1, 2, 5, 20, 31, 32, 33, 63, 64, 65, 100}

func bigPow2(n int) *big.Int { return new(big.Int).Lsh(big.NewInt(1), uint(n)) }

// Value draws a value of type t; o.DynLen bounds T[] lengths.
func Value(r *vk.RNG, t Type, o ABIOpts) any {
	o = o.withDefaults()
	switch t.Kind {
	case refmodel.KUint:
		switch r.Intn(8) {
		case 0:
			return new(big.Int)
		case 1:
			return big.NewInt(1)
		case 2:
			return new(big.Int).Sub(bigPow2(t.Bits), big.NewInt(1))
		case 3:
			return bigPow2(t.Bits - 1)
		case 4:
			return big.NewInt(int64(r.Intn(256)))
		default:
			return r.BigBits(r.Range(1, t.Bits))
		}
	case refmodel.KInt:
		switch r.Intn(8) {
		case 0:
			return new(big.Int)
		case 1:
			return big.NewInt(-1)
		case 2:
			return new(big.Int).Sub(bigPow2(t.Bits-1), big.NewInt(1))
		case 3:
			return new(big.Int).Neg(bigPow2(t.Bits - 1))
		case 4:
			return big.NewInt(int64(r.Intn(255)) - 127)
		default:
			x := r.BigBits(r.Range(1, t.Bits-1))
			if r.Bool() {
				x.Neg(x)
			}
			return x
		}
	case refmodel.KAddress:
		switch r.Intn(6) {
		case 0:
			return make([]byte, 20)
		case 1:
			b := make([]byte, 20)
			for i := range b {
				b[i] = 0xff
			}
			return b
		}
		return r.Bytes(20)
	case refmodel.KBool:
		return r.Bool()
	case refmodel.KBytesN:
		if r.Chance(1, 8) {
			return make([]byte, t.N)
		}
		return r.Bytes(t.N)
	case refmodel.KBytes:
		n := vk.Pick(r, byteLens)
		if r.Chance(1, 3) {
			n = r.Intn(101)
		}
		return r.Bytes(n)
	case refmodel.KString:
		n := vk.Pick(r, byteLens)
		if r.Chance(1, 3) {
			n = r.Intn(101)
		}
		return randString(r, n)
	case refmodel.KArray:
		n := 0
		switch c := r.Intn(10); {
		case c == 0:
			n = 0
		case c == 1:
			n = 1
		default:
			n = r.Range(0, o.DynLen)
		}
		if Leaves(*t.Elem, o.DynLen) <= 4 && r.Chance(1, 12) {
			n = r.Range(o.DynLen, 3*o.DynLen+1)
		}
		if n < o.MinDynLen {
			n = o.MinDynLen
		}
		vs := make([]any, n)
		for i := range vs {
			vs[i] = Value(r, *t.Elem, o)
		}
		return vs
	case refmodel.KFixedArray:
		vs := make([]any, t.N)
		for i := range vs {
			vs[i] = Value(r, *t.Elem, o)
		}
		return vs
	case refmodel.KTuple:
		vs := make([]any, len(t.Fields))
		for i, f := range t.Fields {
			vs[i] = Value(r, f.Type, o)
		}
		return vs
	}
	panic("gen: unknown kind")
}

func randString(r *vk.RNG, n int) string {
	var sb strings.Builder
	for sb.Len() < n {
		rest := n - sb.Len()
		switch {
		case rest >= 3 && r.Chance(1, 10):
			sb.WriteString("€")
		case rest >= 2 && r.Chance(1, 10):
			sb.WriteString("é")
		default:
			sb.WriteByte(byte(r.Range(0x20, 0x7e)))
		}
	}
	return sb.String()
}

// Values draws one value per field (indexed ones included, so the result is
// parallel to fields).
func Values(r *vk.RNG, fields []Field, o ABIOpts) []any {
	vs := make([]any, len(fields))
	for i, f := range fields {
		vs[i] = Value(r, f.Type, o)
	}
	return vs
}

var nameStarts = "ABCDEFGHIJKLMNOPQRSTUVWXYZabcdefghijklmnopqrstuvwxyz_$"
var nameRest = nameStarts + "0123456789"

// EventName draws a Solidity identifier; some contain the substring "tuple" or
// look like type names, which a textual signature builder could trip over.
func EventName(r *vk.RNG) string {
	switch r.Intn(12) {
	case 0:
		return vk.Pick(r, []string{"tuple", "tupleSet", "Mytuple", "uint256", "bytes", "string", "_", "$", "a", "Transfer", "tuple_tuple"})
	}
	n := r.Range(1, 24)
	b := make([]byte, n)
	b[0] = nameStarts[r.Intn(len(nameStarts))]
	for i := 1; i < n; i++ {
		b[i] = nameRest[r.Intn(len(nameRest))]
	}
	return string(b)
}

// ---- shape classes

func kClass(k int) string {
	if k >= 10 {
		return "k>=10"
	}
	return "k"
}

// Skeleton abstracts a type to its shape: static leaves are S, fixed lengths
// are k or k>=10.
func Skeleton(t Type) string {
	switch t.Kind {
	case refmodel.KBytes:
		return "bytes"
	case refmodel.KString:
		return "string"
	case refmodel.KArray:
		return Skeleton(*t.Elem) + "[]"
	case refmodel.KFixedArray:
		return Skeleton(*t.Elem) + "[" + kClass(t.N) + "]"
	case refmodel.KTuple:
		parts := make([]string, len(t.Fields))
		for i, f := range t.Fields {
			parts[i] = Skeleton(f.Type)
		}
		return "(" + strings.Join(parts, ",") + ")"
	}
	return "S"
}

// Chain is a coarser class used for coverage signatures: the array levels over
// a base class (S, bytes, string, Ts = static tuple, Td = dynamic tuple).
func Chain(t Type) string {
	b := t.Base()
	var s string
	switch {
	case b.Kind == refmodel.KTuple && b.IsDynamic():
		s = "Td"
	case b.Kind == refmodel.KTuple:
		s = "Ts"
	default:
		s = Skeleton(b)
	}
	var lv []string
	for tt := t; tt.IsArray(); tt = *tt.Elem {
		if tt.Kind == refmodel.KArray {
			lv = append(lv, "[]")
		} else {
			lv = append(lv, "["+kClass(tt.N)+"]")
		}
	}
	// outermost level is written last in Solidity
	for i := len(lv) - 1; i >= 0; i-- {
		s += lv[i]
	}
	return s
}

// Features lists the coarse properties of a declaration (non-indexed part).
func Features(fields []Field) []string {
	set := map[string]bool{}
	var walk func(t Type, column string, arrAbove bool, inTuple bool)
	walk = func(t Type, column string, arrAbove, inTuple bool) {
		switch {
		case t.IsArray():
			e := *t.Elem
			if t.Kind == refmodel.KFixedArray {
				if t.N >= 10 {
					set["fixed-k>=10"] = true
				} else {
					set["fixed-k<10"] = true
				}
				if e.IsDynamic() {
					set["dynamic-in-fixed-array"] = true
				}
			} else {
				set["dyn-array"] = true
			}
			if arrAbove {
				set["nested-array"] = true
			}
			if inTuple {
				set["tuple-with-array"] = true
			}
			switch {
			case e.Kind == refmodel.KBytes:
				set["array-of-bytes"] = true
			case e.Kind == refmodel.KString:
				set["array-of-string"] = true
			case e.Kind == refmodel.KTuple && e.IsDynamic():
				set["array-of-dynamic-tuple"] = true
			case e.Kind == refmodel.KTuple:
				set["array-of-static-tuple"] = true
			}
			if t.Base().IsElementary() && column != "" {
				if t.ArrayDepth() > 1 || arrAbove {
					set["sel-nested-array"] = true
				} else {
					set["sel-array"] = true
				}
			}
			walk(e, column, true, inTuple)
		case t.Kind == refmodel.KTuple:
			if t.IsDynamic() {
				set["dynamic-tuple"] = true
			} else {
				set["static-tuple"] = true
			}
			if inTuple {
				set["nested-tuple"] = true
			}
			for _, f := range t.Fields {
				if !f.Type.IsArray() && f.Type.IsElementary() && f.Column != "" {
					if arrAbove {
						set["sel-in-tuple-array"] = true
					} else {
						set["sel-scalar-in-tuple"] = true
					}
				}
				if f.Type.IsDynamic() && !refmodel.HasSelection(f) {
					set["unselected-dynamic"] = true
				}
				walk(f.Type, f.Column, arrAbove, true)
			}
		}
	}
	for _, f := range fields {
		if f.Indexed {
			set["has-indexed"] = true
			continue
		}
		if f.Type.IsElementary() && f.Column != "" {
			set["sel-scalar"] = true
		}
		if !refmodel.HasSelection(f) {
			if f.Type.IsDynamic() {
				set["unselected-dynamic"] = true
			} else if !f.Type.IsElementary() {
				set["unselected-static-composite"] = true
			}
		}
		walk(f.Type, f.Column, false, false)
	}
	var out []string
	for k := range set {
		out = append(out, k)
	}
	sort.Strings(out)
	return out
}

// ---- shrinking

func typeWeight(t Type) int {
	switch t.Kind {
	case refmodel.KArray:
		return 2 + typeWeight(*t.Elem)
	case refmodel.KFixedArray:
		w := 3 + typeWeight(*t.Elem)
		if t.N != 2 {
			w++
		}
		if t.N >= 10 {
			w++
		}
		return w
	case refmodel.KTuple:
		n := 2
		for _, f := range t.Fields {
			n += fieldWeight(f)
		}
		return n
	case refmodel.KUint:
		if t.Bits == 256 {
			return 1
		}
	}
	return 2
}

func fieldWeight(f Field) int {
	if f.Name == "probe" {
		return 0
	}
	w := typeWeight(f.Type)
	if f.Column != "" && f.Type.Base().Kind != refmodel.KTuple {
		w++
	}
	return w
}

func declWeight(fs []Field) int {
	n := 0
	for _, f := range fs {
		n += fieldWeight(f)
	}
	return n
}

// subtree replacement: visit every type node; fn returns (replacement, true)
// to produce a candidate.
func replaceEach(fs []Field, emit func([]Field)) {
	// enumerate node positions by a counter; rebuild a clone with the n-th node replaced
	count := 0
	var countT func(t Type)
	countT = func(t Type) {
		count++
		if t.Elem != nil {
			countT(*t.Elem)
		}
		for _, f := range t.Fields {
			countT(f.Type)
		}
	}
	for _, f := range fs {
		countT(f.Type)
	}
	for target := 0; target < count; target++ {
		c := CloneFields(fs)
		idx := 0
		changed := false
		var visit func(t *Type, f *Field) // f: the field whose Column governs t (nil inside arrays = same field)
		visit = func(t *Type, f *Field) {
			if idx == target {
				idx++
				u := refmodel.Uint(256)
				if t.Kind == refmodel.KUint && t.Bits == 256 {
					return
				}
				// replacing an array level or a tuple: the governing field keeps/gets a column iff anything below was selected
				sel := refmodel.HasSelection(Field{Type: *t, Column: f.Column})
				// only whole-field replacement can carry the column; for an inner node of an array
				// chain the column already sits on the field
				*t = u
				if sel && f.Column == "" {
					f.Column = "cx"
				}
				changed = true
				return
			}
			idx++
			if t.Elem != nil {
				visit(t.Elem, f)
			}
			for i := range t.Fields {
				visit(&t.Fields[i].Type, &t.Fields[i])
			}
		}
		for i := range c {
			visit(&c[i].Type, &c[i])
		}
		if changed {
			emit(c)
		}
	}
}

// hoistEach replaces a top-level field by one of the subtrees below it (any
// depth), so a culprit buried in tuples/arrays can surface in one step.
func hoistEach(fs []Field, emit func([]Field)) {
	for i := range fs {
		var subs []Field
		var collect func(t Type, column, name string, root bool)
		collect = func(t Type, column, name string, root bool) {
			if !root && !(t.Kind == refmodel.KUint && t.Bits == 256) {
				col := ""
				if refmodel.HasSelection(Field{Type: t, Column: column}) && t.Base().Kind != refmodel.KTuple {
					col = "ch"
				}
				subs = append(subs, Field{Name: name, Type: cloneType(t), Column: col})
			}
			if t.Elem != nil {
				collect(*t.Elem, column, name, false)
			}
			for _, f := range t.Fields {
				collect(f.Type, f.Column, f.Name, false)
			}
		}
		collect(fs[i].Type, fs[i].Column, fs[i].Name, true)
		for _, sub := range subs {
			c := CloneFields(fs)
			c[i] = sub
			emit(c)
		}
	}
}

// memberEach drops one member of a tuple that has several.
func memberEach(fs []Field, emit func([]Field)) {
	for target := 0; ; target++ {
		c := CloneFields(fs)
		idx, changed := 0, false
		var visit func(t *Type)
		visit = func(t *Type) {
			if t.Kind == refmodel.KTuple && len(t.Fields) > 1 {
				for j := range t.Fields {
					if idx == target {
						t.Fields = append(t.Fields[:j:j], t.Fields[j+1:]...)
						changed = true
						idx++
						return
					}
					idx++
				}
			}
			if t.Elem != nil {
				visit(t.Elem)
			}
			for i := range t.Fields {
				visit(&t.Fields[i].Type)
			}
		}
		for i := range c {
			if changed {
				break
			}
			visit(&c[i].Type)
		}
		if !changed {
			break
		}
		emit(c)
	}
}

// arrayEach simplifies one array level: T[k] -> T[2] (k != 2), T[k] -> T[].
func arrayEach(fs []Field, emit func([]Field)) {
	for mode := 0; mode < 2; mode++ {
		for target := 0; ; target++ {
			c := CloneFields(fs)
			idx, changed := 0, false
			var visit func(t *Type)
			visit = func(t *Type) {
				if t.Kind == refmodel.KFixedArray {
					if idx == target {
						switch {
						case mode == 0 && t.N != 2:
							t.N, changed = 2, true
						case mode == 1:
							t.Kind, t.N, changed = refmodel.KArray, 0, true
						}
					}
					idx++
				}
				if t.Elem != nil {
					visit(t.Elem)
				}
				for i := range t.Fields {
					visit(&t.Fields[i].Type)
				}
			}
			for i := range c {
				visit(&c[i].Type)
			}
			if target >= idx {
				break
			}
			if changed {
				emit(c)
			}
		}
	}
}

func hasAnySelection(fs []Field) bool {
	for _, f := range fs {
		if !f.Indexed && refmodel.HasSelection(f) {
			return true
		}
	}
	return false
}

func withProbe(fs []Field) []Field {
	if hasAnySelection(fs) {
		return fs
	}
	return append(fs, Field{Name: "probe", Type: refmodel.Uint(256), Column: "probe"})
}

func deselectEach(fs []Field, emit func([]Field)) {
	n := len(refmodel.SelectedLeaves(fs))
	if n < 2 {
		return
	}
	for target := 0; target < n; target++ {
		c := CloneFields(fs)
		idx := 0
		var walk func(fs []Field)
		walk = func(fs []Field) {
			for i := range fs {
				f := &fs[i]
				tt := &f.Type
				for tt.IsArray() {
					tt = tt.Elem
				}
				if tt.Kind == refmodel.KTuple {
					walk(tt.Fields)
					continue
				}
				if f.Column != "" {
					if idx == target {
						f.Column = ""
					}
					idx++
				}
			}
		}
		walk(c)
		emit(c)
	}
}

// Shrink greedily reduces a failing declaration (non-indexed fields only)
// while fails() keeps returning true. Candidates: drop a top-level field,
// replace a field by one of its children, replace any subtree by uint256,
// deselect a column. A declaration left without selection gets a selected
// uint256 probe appended (it detects mis-skipping of what precedes it).
func Shrink(fields []Field, fails func([]Field) bool) []Field {
	cur, _ := refmodel.NonIndexed(fields, nil)
	cur = CloneFields(cur)
	for iter := 0; iter < 300; iter++ {
		w := declWeight(cur)
		var next []Field
		try := func(c []Field) {
			if next != nil {
				return
			}
			c = withProbe(c)
			if declWeight(c) >= w || !refmodel.SelectionInDomain(c) {
				return
			}
			if fails(c) {
				next = c
			}
		}
		// drop a field
		if len(cur) > 1 {
			for i := range cur {
				c := CloneFields(cur)
				try(append(c[:i], c[i+1:]...))
			}
		}
		// replace a field by a child
		for i := range cur {
			f := cur[i]
			switch {
			case f.Type.IsArray():
				c := CloneFields(cur)
				c[i].Type = *c[i].Type.Elem
				try(c)
			case f.Type.Kind == refmodel.KTuple:
				for j := range f.Type.Fields {
					c := CloneFields(cur)
					c[i] = c[i].Type.Fields[j]
					try(c)
				}
			}
		}
		hoistEach(cur, try)
		memberEach(cur, try)
		replaceEach(cur, try)
		arrayEach(cur, try)
		deselectEach(cur, try)
		if n := len(refmodel.SelectedLeaves(cur)); n > 0 && !(n == 1 && cur[len(cur)-1].Name == "probe") {
			// move the observation point behind everything: only a trailing probe stays selected
			c := CloneFields(cur)
			clearColumns(c)
			if c[len(c)-1].Name == "probe" {
				c[len(c)-1].Column = "probe"
			}
			try(c)
		}
		if next == nil {
			break
		}
		cur = next
	}
	return cur
}

// ShapeKey names the shape class of a shrunk declaration: plain static leaves
// at top level (probes, leftover scalars) are dropped when something more
// structured remains; selection marks are not part of the class.
func ShapeKey(fs []Field) string {
	var parts, all []string
	for _, f := range fs {
		if f.Indexed {
			continue
		}
		sk := Skeleton(f.Type)
		all = append(all, sk)
		if sk != "S" {
			parts = append(parts, sk)
		}
	}
	if len(parts) == 0 {
		parts = all
	}
	return strings.Join(parts, ",")
}

// ---- catalogue of minimal shapes

type CatalogueEntry struct {
	Key    string // "<canonical types>:<selection>"
	Fields []Field
}

func catEntry(sel string, fs ...Field) CatalogueEntry {
	var ts []string
	for _, f := range fs {
		ts = append(ts, f.Type.Canonical())
	}
	return CatalogueEntry{Key: strings.Join(ts, ",") + ":" + sel, Fields: fs}
}

// Catalogue returns the deterministic list of minimal shapes that C09 checks
// in dedicated cases, each under its own key.
func Catalogue() []CatalogueEntry {
	u256, u8 := refmodel.Uint(256), refmodel.Uint(8)
	F := refmodel.F
	A, K, T := refmodel.ArrayOf, refmodel.FixedOf, refmodel.TupleOf
	probe := F("p", u256, "p")
	var es []CatalogueEntry
	for _, k := range KSet {
		es = append(es, catEntry("selected", F("a", K(k, u256), "a")))
	}
	for _, k := range []int{2, 10, 12, 100} {
		es = append(es, catEntry("skipped-before-probe", F("a", K(k, u256), ""), probe))
	}
	es = append(es,
		catEntry("selected", F("a", A(refmodel.Bytes()), "a")),
		catEntry("selected", F("a", K(2, refmodel.Bytes()), "a")),
		catEntry("skipped-before-probe", F("a", K(2, refmodel.Bytes()), ""), probe),
		catEntry("skipped-before-probe", F("a", A(refmodel.Bytes()), ""), probe),
		catEntry("selected", F("a", A(refmodel.String()), "a")),
		catEntry("selected", F("a", K(3, refmodel.String()), "a")),
		catEntry("skipped-before-probe", F("a", K(3, refmodel.String()), ""), probe),
		catEntry("selected", F("a", A(refmodel.BytesN(32)), "a")),
		catEntry("selected", F("a", A(K(2, refmodel.BytesN(32))), "a")),
		catEntry("selected", F("a", A(refmodel.Bool()), "a")),
		catEntry("selected", F("a", A(refmodel.Int(8)), "a")),
		catEntry("selected", F("a", A(K(3, refmodel.Address())), "a")),
		catEntry("selected", F("a", A(A(u8)), "a")),
		catEntry("selected", F("a", K(3, K(2, u8)), "a")),
		catEntry("selected", F("a", K(2, A(u8)), "a")),
		catEntry("selected", F("a", A(K(2, u8)), "a")),
		catEntry("selected", F("a", A(A(refmodel.String())), "a")),
		catEntry("selected", F("a", A(A(A(u8))), "a")),
		catEntry("both-members", F("a", A(T(F("x", u8, "x"), F("y", refmodel.Bytes(), "y"))), "")),
		catEntry("dynamic-member-only", F("a", A(T(F("x", u8, ""), F("y", refmodel.Bytes(), "y"))), "")),
		catEntry("static-member-only", F("a", A(T(F("x", u8, "x"), F("y", refmodel.Bytes(), ""))), "")),
		catEntry("both-members", F("a", A(T(F("x", refmodel.Address(), "x"), F("y", refmodel.String(), "y"))), "")),
		catEntry("both-members", F("a", K(3, T(F("x", u8, "x"), F("y", refmodel.Bool(), "y"))), "")),
		catEntry("both-members", F("a", K(2, T(F("x", u8, "x"), F("y", refmodel.String(), "y"))), "")),
		catEntry("scalar-member;array-member-unselected", F("a", A(T(F("x", u8, "x"), F("y", A(refmodel.Uint(16)), ""))), "")),
		catEntry("both-members", F("a", A(A(T(F("x", u8, "x"), F("y", refmodel.Bytes(), "y")))), "")),
		catEntry("scalar-and-array-member", F("a", T(F("x", u256, "x"), F("y", A(u8), "y")), "")),
		catEntry("array-member-only", F("a", T(F("x", refmodel.Bytes(), ""), F("y", K(2, A(u8)), "y")), "")),
		catEntry("inner-and-outer-scalars", F("a", T(F("i", T(F("x", u8, "x"), F("y", refmodel.Bytes(), "")), ""), F("z", refmodel.String(), "z")), "")),
		catEntry("static-tuple-then-probe", F("a", T(F("x", u8, ""), F("y", K(2, refmodel.Bool()), "")), ""), probe),
		catEntry("skipped-before-probe", F("a", refmodel.Bytes(), ""), probe),
		catEntry("skipped-before-probe", F("a", A(refmodel.String()), ""), probe),
		catEntry("skipped-before-selected-bytes", F("a", A(T(F("x", u8, ""), F("y", refmodel.Bytes(), ""))), ""), F("b", refmodel.Bytes(), "b")),
		catEntry("two-sibling-arrays-and-scalar", F("a", A(u256), "a"), F("s", refmodel.Address(), "s"), F("b", A(refmodel.String()), "b")),
		catEntry("all", F("a", u256, "a"), F("b", refmodel.Int(8), "b"), F("c", refmodel.Address(), "c"), F("d", refmodel.Bool(), "d"), F("e", refmodel.BytesN(3), "e"), F("f", refmodel.Bytes(), "f"), F("g", refmodel.String(), "g")),
	)
	for i := range es {
		if !refmodel.SelectionInDomain(es[i].Fields) {
			panic(fmt.Sprintf("gen: catalogue entry %s leaves the statement's domain", es[i].Key))
		}
	}
	return es
}
