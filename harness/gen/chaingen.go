// Package gen holds the seeded generators (chains, declarations, schedules).
package gen

import (
	"math/big"

	"verif/harness/simnode"
	"verif/harness/vk"
)

// LogMaker produces one log (topics, data, address); Idx is assigned by the chain.
type LogMaker func(r *vk.RNG) simnode.Log

type ChainOpts struct {
	Seed      uint64
	MinTxs    int
	MaxTxs    int
	MaxLogs   int // per tx
	MinTraces int // per tx
	MaxTraces int // per tx
	Makers    []LogMaker
	// Distinct: every field of every item gets a non-zero value that is unique
	// to (block version, tx index, field), so a column filled from the wrong
	// field or left at its zero default is visible.
	Distinct bool
	// Rewards: every block ends its trace_block result with 1..Rewards reward traces (null transaction hash and
	// position). EmptyEvery: blocks whose number is a multiple of it hold no transaction.
	Rewards    int
	EmptyEvery int
}

func addr(r *vk.RNG) []byte { return r.Bytes(20) }

func bigOf(r *vk.RNG, distinct bool, tag uint64) *big.Int {
	if distinct {
		return new(big.Int).SetBytes(simnode.H("big", tag, r.U64())[:1+int(tag%24)])
	}
	switch r.Intn(6) {
	case 0:
		return new(big.Int)
	case 1:
		return big.NewInt(int64(r.Intn(1000)))
	case 2:
		return new(big.Int).Sub(new(big.Int).Lsh(big.NewInt(1), 256), big.NewInt(1))
	default:
		return r.BigBits(1 + r.Intn(256))
	}
}

// Content returns a deterministic block-content function: the content of a
// block version depends only on (Seed, version), not on when it is created.
func Content(o ChainOpts) simnode.Content {
	return func(b *simnode.Block) {
		if b.Num == 0 {
			return
		}
		r := vk.NewRNG(vk.Derive(o.Seed, b.Version))
		ntx := r.Range(o.MinTxs, o.MaxTxs)
		if o.EmptyEvery > 0 && b.Num%uint64(o.EmptyEvery) == 0 {
			ntx = 0
		}
		if o.Rewards > 0 {
			rr := vk.NewRNG(vk.Derive(o.Seed, b.Version, 0x4e3a4d))
			for i, n := 0, rr.Range(1, o.Rewards); i < n; i++ {
				b.Rewards = append(b.Rewards, simnode.Trace{From: addr(rr), Value: bigOf(rr, o.Distinct, b.Version*1000+900+uint64(i))})
			}
		}
		for i := 0; i < ntx; i++ {
			tag := b.Version*1000 + uint64(i)*10
			tx := simnode.Tx{
				Type:        byte(r.Intn(5)), // legacy, access list, dynamic fee, blob, set-code
				Nonce:       r.U64() >> uint(8+r.Intn(56)),
				Gas:         21000 + uint64(r.Intn(1_000_000)),
				GasPrice:    bigOf(r, o.Distinct, tag+1),
				MaxPrio:     bigOf(r, o.Distinct, tag+2),
				MaxFee:      bigOf(r, o.Distinct, tag+3),
				Value:       bigOf(r, o.Distinct, tag+4),
				From:        addr(r),
				To:          addr(r),
				Input:       r.Bytes(r.Intn(72)),
				Status:      byte(r.Intn(2)),
				GasUsed:     21000 + uint64(r.Intn(100000)),
				EffGasPrice: bigOf(r, o.Distinct, tag+5),
			}
			if o.Distinct {
				tx.Type = byte(2 + i%3) // the fee-market types (2, 3, 4) all carry max fee fields
				tx.Status = 1
				tx.Nonce = tag + 7
				tx.Input = append([]byte{0xa9}, r.Bytes(8+r.Intn(30))...)
				tx.ContractAddr = addr(r)
			} else if r.Chance(1, 6) {
				tx.To = nil
				tx.ContractAddr = addr(r)
			}
			nl := r.Intn(o.MaxLogs + 1)
			if o.Distinct && nl == 0 && o.MaxLogs > 0 {
				nl = 1
			}
			for j := 0; j < nl && len(o.Makers) > 0; j++ {
				tx.Logs = append(tx.Logs, vk.Pick(r, o.Makers)(r))
			}
			nt := r.Range(o.MinTraces, o.MaxTraces)
			for j := 0; j < nt; j++ {
				tx.Traces = append(tx.Traces, simnode.Trace{
					From:     addr(r),
					To:       addr(r),
					CallType: vk.Pick(r, []string{"call", "delegatecall", "staticcall"}),
					Value:    bigOf(r, o.Distinct, tag+6+uint64(j)*100),
				})
			}
			b.Txs = append(b.Txs, tx)
		}
	}
}
