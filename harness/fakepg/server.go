package fakepg

import (
	"bytes"
	"encoding/binary"
	"fmt"
	"net"
	"os"
	"path/filepath"
	"runtime/debug"
	"strings"
	"sync"
	"sync/atomic"
	"time"

	"github.com/jackc/pgx/v5/pgproto3"
	"github.com/jackc/pgx/v5/pgtype"
)

// FaultKind of an injected fault at one operation.
type FaultKind int

const (
	FNone       FaultKind = iota
	FError                // error reply; for COMMIT the transaction is rolled back first
	FDropBefore           // connection closed before the operation executes
	FDropAfter            // operation executes (a COMMIT commits), connection closed before the reply
	FDelay
)

func (k FaultKind) String() string {
	return [...]string{"none", "error", "drop-before", "drop-after", "delay"}[k]
}

type Fault struct {
	Kind  FaultKind
	Code  string // SQLSTATE for FError (default 57014)
	Delay time.Duration
	// Call (with FDelay): run before the operation with the store lock released, e.g. another session's transaction
	Call func()
}

// Op is one client-visible operation: a statement of a simple query, an
// Execute of the extended protocol, or a COPY.
type Op struct {
	ConnID  int
	Ordinal int    // per-server ordinal since the last ResetOps
	Kind    string // begin commit rollback set insert delete select copy create-table …
	SQL     string
	Table   string
}

// Stmt is a log entry: every statement text the server received.
type Stmt struct {
	ConnID int
	Via    string // "query" (simple protocol) or "parse" (extended)
	SQL    string
}

type Server struct {
	mu  sync.Mutex
	dir string
	ln  net.Listener

	tmap      *pgtype.Map
	tables    map[string]*Table
	nextRow   uint64
	nextTx    uint64
	commitSeq uint64
	// snapshotTxs: open transactions of sessions that asked for REPEATABLE READ / SERIALIZABLE
	snapshotTxs int
	obs         Observer
	notifies    []Notify

	schemaScript string

	conns    map[int]*conn
	nextConn int
	closed   bool

	faultHook func(*Op) Fault
	opOrdinal int
	opLog     []Op

	stmtLog     []Stmt
	unsupported []string

	commits, aborts, ddl int64
	opsTotal             int64
	copies, copyRows     int64
}

// New starts a server on a fresh unix socket.
func New() (*Server, error) {
	dir, err := os.MkdirTemp("", "vpg")
	if err != nil {
		return nil, err
	}
	ln, err := net.Listen("unix", filepath.Join(dir, ".s.PGSQL.5432"))
	if err != nil {
		os.RemoveAll(dir)
		return nil, err
	}
	s := &Server{dir: dir, ln: ln, tmap: pgtype.NewMap(), tables: map[string]*Table{}, conns: map[int]*conn{}}
	go s.acceptLoop()
	return s, nil
}

// URL is a pgx connection string for this server.
func (s *Server) URL() string {
	return fmt.Sprintf("postgres://verif@/verif?host=%s&port=5432&sslmode=disable", s.dir)
}

// SetSchemaScript tells the server which multi-statement script is shovel's
// embedded migration; it is recognised as a whole.
func (s *Server) SetSchemaScript(sql string) {
	s.mu.Lock()
	s.schemaScript = normalizeSQL(sql)
	s.mu.Unlock()
}

// InstallSchema creates the shovel.* catalog directly (what running the
// migration script yields).
func (s *Server) InstallSchema() {
	s.mu.Lock()
	s.installSchema()
	s.mu.Unlock()
}

func (s *Server) SetObserver(o Observer) {
	s.mu.Lock()
	s.obs = o
	s.mu.Unlock()
}

func (s *Server) SetFaultHook(h func(*Op) Fault) {
	s.mu.Lock()
	s.faultHook = h
	s.mu.Unlock()
}

// ResetOps restarts the operation ordinal and clears the op log.
func (s *Server) ResetOps() {
	s.mu.Lock()
	s.opOrdinal = 0
	s.opLog = nil
	s.mu.Unlock()
}

func (s *Server) OpLog() []Op {
	s.mu.Lock()
	defer s.mu.Unlock()
	return append([]Op(nil), s.opLog...)
}

// TakeStmts returns and clears the statement-text log.
func (s *Server) TakeStmts() []Stmt {
	s.mu.Lock()
	defer s.mu.Unlock()
	l := s.stmtLog
	s.stmtLog = nil
	return l
}

// Unsupported lists statements that left the simulator's contract.
func (s *Server) Unsupported() []string {
	s.mu.Lock()
	defer s.mu.Unlock()
	return append([]string(nil), s.unsupported...)
}

func (s *Server) TakeNotifies() []Notify {
	s.mu.Lock()
	defer s.mu.Unlock()
	n := s.notifies
	s.notifies = nil
	return n
}

type Stats struct {
	Commits, Aborts, DDL, Ops, Copies, CopyRows int64
}

func (s *Server) Stats() Stats {
	s.mu.Lock()
	defer s.mu.Unlock()
	return Stats{s.commits, s.aborts, s.ddl, s.opsTotal, s.copies, s.copyRows}
}

// Read runs f with the store lock held (committed state is stable inside).
func (s *Server) Read(f func()) {
	s.mu.Lock()
	defer s.mu.Unlock()
	f()
}

// OpenTxs reports the transactions currently open, by pair.
func (s *Server) OpenTxs() []*Tx {
	s.mu.Lock()
	defer s.mu.Unlock()
	var res []*Tx
	for _, c := range s.conns {
		if c.tx != nil {
			res = append(res, c.tx)
		}
	}
	return res
}

// KillAll drops every connection (their transactions abort): with discarding
// the client objects this emulates process death.
func (s *Server) KillAll() {
	s.mu.Lock()
	var cs []*conn
	for _, c := range s.conns {
		cs = append(cs, c)
	}
	s.mu.Unlock()
	for _, c := range cs {
		c.nc.Close()
	}
	for _, c := range cs {
		<-c.done
	}
}

func (s *Server) Close() {
	s.mu.Lock()
	s.closed = true
	s.mu.Unlock()
	s.ln.Close()
	s.KillAll()
	os.RemoveAll(s.dir)
}

func (s *Server) acceptLoop() {
	for {
		nc, err := s.ln.Accept()
		if err != nil {
			return
		}
		s.mu.Lock()
		if s.closed {
			s.mu.Unlock()
			nc.Close()
			return
		}
		s.nextConn++
		c := &conn{s: s, id: s.nextConn, nc: nc, done: make(chan struct{}), stmts: map[string]*prepared{}, portals: map[string]*portal{}}
		s.conns[c.id] = c
		s.mu.Unlock()
		go c.run()
	}
}

type portal struct {
	p       *prepared
	bp      *boundParams
	formats []int16
}

type conn struct {
	s    *Server
	id   int
	nc   net.Conn
	be   *pgproto3.Backend
	done chan struct{}

	tx      *Tx
	stmts   map[string]*prepared
	portals map[string]*portal
	skip    bool // extended protocol: discard until Sync after an error
	dropped int32
	// snapshotIso: the session's default isolation level is REPEATABLE READ or SERIALIZABLE
	snapshotIso bool
}

func (c *conn) status() byte {
	switch {
	case c.tx == nil || !c.tx.Explicit:
		return 'I'
	case c.tx.Failed:
		return 'E'
	}
	return 'T'
}

func (c *conn) sendErr(e *PGError) {
	c.be.Send(&pgproto3.ErrorResponse{Severity: "ERROR", SeverityUnlocalized: "ERROR", Code: e.Code, Message: e.Msg})
	if e.Code == "XX000" {
		c.s.unsupported = append(c.s.unsupported, e.Msg)
	}
}

func (c *conn) ready() error {
	c.be.Send(&pgproto3.ReadyForQuery{TxStatus: c.status()})
	return c.be.Flush()
}

func (c *conn) drop() {
	atomic.StoreInt32(&c.dropped, 1)
	c.nc.Close()
}

func (c *conn) run() {
	defer close(c.done)
	defer func() {
		if r := recover(); r != nil {
			// a bug in the simulator must never look like a verdict about shovel
			fmt.Fprintf(os.Stderr, "FAKEPG INTERNAL PANIC: %v\n%s\n", r, debug.Stack())
			os.Exit(4)
		}
		c.nc.Close()
		c.s.mu.Lock()
		if c.tx != nil {
			c.s.abortTx(c.tx, "connection lost")
			c.tx = nil
		}
		delete(c.s.conns, c.id)
		c.s.mu.Unlock()
	}()
	c.be = pgproto3.NewBackend(c.nc, c.nc)
	for {
		m, err := c.be.ReceiveStartupMessage()
		if err != nil {
			return
		}
		switch m.(type) {
		case *pgproto3.SSLRequest, *pgproto3.GSSEncRequest:
			if _, err := c.nc.Write([]byte{'N'}); err != nil {
				return
			}
			continue
		case *pgproto3.CancelRequest:
			return
		case *pgproto3.StartupMessage:
			// the isolation level a session asks for at start-up (pgx RuntimeParams) is honoured: snapshot semantics
			// for repeatable read and serializable, read committed otherwise
			switch strings.ToLower(strings.TrimSpace(m.(*pgproto3.StartupMessage).Parameters["default_transaction_isolation"])) {
			case "repeatable read", "serializable":
				c.snapshotIso = true
			}
		}
		break
	}
	c.be.Send(&pgproto3.AuthenticationOk{})
	for _, kv := range [][2]string{{"server_version", "15.4"}, {"client_encoding", "UTF8"}, {"server_encoding", "UTF8"},
		{"standard_conforming_strings", "on"}, {"integer_datetimes", "on"}, {"DateStyle", "ISO, MDY"}, {"TimeZone", "UTC"}} {
		c.be.Send(&pgproto3.ParameterStatus{Name: kv[0], Value: kv[1]})
	}
	c.be.Send(&pgproto3.BackendKeyData{ProcessID: uint32(c.id), SecretKey: 1})
	if c.ready() != nil {
		return
	}
	for {
		msg, err := c.be.Receive()
		if err != nil {
			return
		}
		if c.skip {
			if _, ok := msg.(*pgproto3.Sync); !ok {
				if _, ok := msg.(*pgproto3.Terminate); ok {
					return
				}
				continue
			}
		}
		switch m := msg.(type) {
		case *pgproto3.Terminate:
			return
		case *pgproto3.Query:
			if !c.simpleQuery(m.String) {
				return
			}
		case *pgproto3.Parse:
			c.parse(m.Name, m.Query)
		case *pgproto3.Describe:
			c.describe(m.ObjectType, m.Name)
		case *pgproto3.Bind:
			c.bind(m)
		case *pgproto3.Execute:
			if !c.executePortal(m.Portal) {
				return
			}
		case *pgproto3.Close:
			if m.ObjectType == 'S' {
				delete(c.stmts, m.Name)
			} else {
				delete(c.portals, m.Name)
			}
			c.be.Send(&pgproto3.CloseComplete{})
		case *pgproto3.Flush:
			if c.be.Flush() != nil {
				return
			}
		case *pgproto3.Sync:
			c.skip = false
			c.s.mu.Lock()
			c.endImplicit()
			c.s.mu.Unlock()
			if c.ready() != nil {
				return
			}
		case *pgproto3.CopyData, *pgproto3.CopyDone, *pgproto3.CopyFail:
			// stray copy messages after a failed COPY are ignored, as by PostgreSQL
		default:
			c.s.mu.Lock()
			c.sendErr(unsupported("protocol message %T", msg))
			c.s.mu.Unlock()
			c.skip = true
		}
	}
}

// ---- transactions (all with s.mu held)

func (c *conn) beginImplicit() *Tx {
	if c.tx == nil {
		c.s.nextTx++
		c.tx = &Tx{ID: c.s.nextTx, ConnID: c.id, Snapshot: c.snapshotIso}
		if c.snapshotIso {
			c.s.snapshotTxs++
		}
	}
	return c.tx
}

func (c *conn) endImplicit() {
	if c.tx != nil && !c.tx.Explicit {
		if c.tx.Failed {
			c.s.abortTx(c.tx, "statement error")
		} else {
			c.s.commitTx(c.tx)
		}
		c.tx = nil
	}
}

// fault consults the hook for the next operation. Returns false if the
// connection has been dropped and processing must stop.
func (c *conn) opFault(kind, sql, table string) (Fault, *Op) {
	s := c.s
	op := Op{ConnID: c.id, Ordinal: s.opOrdinal, Kind: kind, SQL: sql, Table: table}
	s.opOrdinal++
	s.opsTotal++
	if len(s.opLog) < 4096 {
		s.opLog = append(s.opLog, op)
	}
	if s.faultHook == nil {
		return Fault{}, &op
	}
	return s.faultHook(&op), &op
}

func faultErr(f Fault) *PGError {
	code := f.Code
	if code == "" {
		code = "57014"
	}
	return pgErr(code, "verif: injected error")
}

// runStatement executes one statement with transaction control and fault
// injection. It returns rows/tag or an error reply; drop=true means the
// connection must be closed without a reply.
func (c *conn) runStatement(p *prepared, bp *boundParams) (rs *rowset, tag string, perr *PGError, drop bool) {
	s := c.s
	st := p.st
	table := ""
	if p.table != nil {
		table = p.table.QName()
	} else if st.kind == sSelect && st.sel.from != nil {
		table = st.sel.from.String()
	}
	f, _ := c.opFault(st.kind.String(), st.sql, table)
	switch f.Kind {
	case FDelay:
		s.mu.Unlock()
		time.Sleep(f.Delay)
		if f.Call != nil {
			f.Call()
		}
		s.mu.Lock()
	case FDropBefore:
		return nil, "", nil, true
	}
	switch st.kind {
	case sBegin:
		if f.Kind == FError {
			return nil, "", faultErr(f), false
		}
		if c.tx != nil && c.tx.Explicit {
			return nil, "BEGIN", nil, f.Kind == FDropAfter // warning in PG; no change
		}
		if c.tx != nil {
			c.endImplicit()
		}
		s.nextTx++
		c.tx = &Tx{ID: s.nextTx, ConnID: c.id, Explicit: true, Snapshot: c.snapshotIso}
		if c.snapshotIso {
			s.snapshotTxs++
		}
		return nil, "BEGIN", nil, f.Kind == FDropAfter
	case sCommit:
		if c.tx == nil || !c.tx.Explicit {
			return nil, "COMMIT", nil, f.Kind == FDropAfter
		}
		tx := c.tx
		c.tx = nil
		if tx.Failed {
			s.abortTx(tx, "commit of failed transaction")
			return nil, "ROLLBACK", nil, f.Kind == FDropAfter
		}
		if f.Kind == FError {
			// a failing COMMIT rolls the transaction back and leaves the session idle
			s.abortTx(tx, "injected commit error")
			return nil, "", faultErr(f), false
		}
		s.commitTx(tx)
		return nil, "COMMIT", nil, f.Kind == FDropAfter
	case sRollback:
		if f.Kind == FError {
			// the transaction is gone either way
			if c.tx != nil && c.tx.Explicit {
				s.abortTx(c.tx, "rollback")
				c.tx = nil
			}
			return nil, "", faultErr(f), false
		}
		if c.tx != nil && c.tx.Explicit {
			s.abortTx(c.tx, "rollback")
			c.tx = nil
		}
		return nil, "ROLLBACK", nil, f.Kind == FDropAfter
	}
	if c.tx != nil && c.tx.Failed {
		return nil, "", pgErr("25P02", "current transaction is aborted, commands ignored until end of transaction block"), false
	}
	tx := c.beginImplicit()
	if f.Kind == FError {
		tx.Failed = true
		return nil, "", faultErr(f), false
	}
	if tx.Snapshot && !tx.snapSet {
		tx.snap, tx.snapSet = s.commitSeq, true // the snapshot is taken by the first statement, not by BEGIN
	}
	rs, tag, perr = s.execute(p, bp, tx)
	if perr != nil {
		tx.Failed = true
		return nil, "", perr, false
	}
	return rs, tag, nil, f.Kind == FDropAfter
}

func rowDescription(cols []Col, formats []int16) *pgproto3.RowDescription {
	rd := &pgproto3.RowDescription{}
	for i, col := range cols {
		var fc int16
		switch {
		case len(formats) == 1:
			fc = formats[0]
		case i < len(formats):
			fc = formats[i]
		}
		size := int16(-1)
		switch col.Type {
		case tInt2:
			size = 2
		case tInt4:
			size = 4
		case tInt8:
			size = 8
		case tBool:
			size = 1
		}
		rd.Fields = append(rd.Fields, pgproto3.FieldDescription{
			Name: []byte(col.Name), DataTypeOID: col.Type.OID, DataTypeSize: size, TypeModifier: -1, Format: fc,
		})
	}
	return rd
}

func (c *conn) sendRows(rs *rowset, formats []int16) *PGError {
	for _, r := range rs.rows {
		dr := &pgproto3.DataRow{}
		for i, v := range r {
			var fc int16
			switch {
			case len(formats) == 1:
				fc = formats[0]
			case i < len(formats):
				fc = formats[i]
			}
			b, err := encodeValue(c.s.tmap, rs.cols[i].Type, fc, v)
			if err != nil {
				return err
			}
			dr.Values = append(dr.Values, b)
		}
		c.be.Send(dr)
	}
	return nil
}

// simpleQuery handles a Query message; false = connection must end.
func (c *conn) simpleQuery(sql string) bool {
	s := c.s
	s.mu.Lock()
	s.stmtLog = append(s.stmtLog, Stmt{c.id, "query", sql})
	if s.schemaScript != "" && normalizeSQL(sql) == s.schemaScript {
		f, _ := c.opFault("schema-script", "<shovel.Schema>", "")
		switch f.Kind {
		case FDropBefore:
			s.mu.Unlock()
			c.drop()
			return false
		case FError:
			if c.tx != nil {
				c.tx.Failed = true
			}
			c.sendErr(faultErr(f))
		default:
			s.installSchema()
			s.ddl++
			c.be.Send(&pgproto3.CommandComplete{CommandTag: []byte("CREATE VIEW")})
		}
		s.mu.Unlock()
		return c.ready() == nil
	}
	toks, lerr := lex(sql)
	if lerr != nil {
		if c.tx != nil {
			c.tx.Failed = true
		}
		c.sendErr(lerr)
		s.mu.Unlock()
		return c.ready() == nil
	}
	parts := splitStatements(toks)
	if len(parts) == 0 {
		s.mu.Unlock()
		c.be.Send(&pgproto3.EmptyQueryResponse{})
		return c.ready() == nil
	}
	for _, part := range parts {
		st, perr := parseStatement(sql, part)
		var p *prepared
		if perr == nil {
			if st.nparams > 0 {
				perr = pgErr("08P01", "there is no parameter $1 (simple protocol)")
			} else {
				p, perr = s.prepare(st)
			}
		}
		if perr != nil {
			if c.tx != nil {
				c.tx.Failed = true
			}
			c.sendErr(perr)
			break
		}
		if st.kind == sCopy {
			ok, stop := c.copyIn(p)
			if !ok {
				s.mu.Unlock()
				return false
			}
			if stop {
				break
			}
			continue
		}
		rs, tag, perr, drop := c.runStatement(p, &boundParams{})
		if drop {
			s.mu.Unlock()
			c.drop()
			return false
		}
		if perr != nil {
			c.sendErr(perr)
			break
		}
		if rs != nil {
			c.be.Send(rowDescription(rs.cols, nil))
			if err := c.sendRows(rs, nil); err != nil {
				c.sendErr(err)
				break
			}
		}
		c.be.Send(&pgproto3.CommandComplete{CommandTag: []byte(tag)})
	}
	c.endImplicit()
	s.mu.Unlock()
	return c.ready() == nil
}

func (c *conn) parse(name, sql string) {
	s := c.s
	s.mu.Lock()
	defer s.mu.Unlock()
	s.stmtLog = append(s.stmtLog, Stmt{c.id, "parse", sql})
	fail := func(e *PGError) {
		if c.tx != nil && c.tx.Explicit {
			c.tx.Failed = true
		}
		c.sendErr(e)
		c.skip = true
	}
	toks, lerr := lex(sql)
	if lerr != nil {
		fail(lerr)
		return
	}
	parts := splitStatements(toks)
	if len(parts) > 1 {
		fail(syntaxErr("cannot insert multiple commands into a prepared statement"))
		return
	}
	var part []token
	if len(parts) == 1 {
		part = parts[0]
	}
	st, perr := parseStatement(sql, part)
	if perr != nil {
		fail(perr)
		return
	}
	if c.tx != nil && c.tx.Failed && st.kind != sCommit && st.kind != sRollback {
		fail(pgErr("25P02", "current transaction is aborted, commands ignored until end of transaction block"))
		return
	}
	p, perr := s.prepare(st)
	if perr != nil {
		fail(perr)
		return
	}
	c.stmts[name] = p
	c.be.Send(&pgproto3.ParseComplete{})
}

func (c *conn) describe(kind byte, name string) {
	s := c.s
	s.mu.Lock()
	defer s.mu.Unlock()
	var (
		p       *prepared
		formats []int16
	)
	if kind == 'S' {
		p = c.stmts[name]
		if p == nil {
			c.sendErr(pgErr("26000", "prepared statement %q does not exist", name))
			c.skip = true
			return
		}
		pd := &pgproto3.ParameterDescription{}
		for i, t := range p.paramTypes {
			oid := t.OID
			if p.paramArray[i] {
				oid = t.ArrayOID
			}
			pd.ParameterOIDs = append(pd.ParameterOIDs, oid)
		}
		c.be.Send(pd)
	} else {
		po := c.portals[name]
		if po == nil {
			c.sendErr(pgErr("34000", "portal %q does not exist", name))
			c.skip = true
			return
		}
		p, formats = po.p, po.formats
	}
	if p.result == nil {
		c.be.Send(&pgproto3.NoData{})
		return
	}
	c.be.Send(rowDescription(p.result, formats))
}

func (c *conn) bind(m *pgproto3.Bind) {
	s := c.s
	s.mu.Lock()
	defer s.mu.Unlock()
	fail := func(e *PGError) {
		if c.tx != nil && c.tx.Explicit {
			c.tx.Failed = true
		}
		c.sendErr(e)
		c.skip = true
	}
	p := c.stmts[m.PreparedStatement]
	if p == nil {
		fail(pgErr("26000", "prepared statement %q does not exist", m.PreparedStatement))
		return
	}
	if len(m.Parameters) != len(p.paramTypes) {
		fail(pgErr("08P01", "bind message supplies %d parameters, but prepared statement requires %d", len(m.Parameters), len(p.paramTypes)))
		return
	}
	bp := &boundParams{vals: make([]Value, len(p.paramTypes)), arrays: make([][]Value, len(p.paramTypes))}
	for i, raw := range m.Parameters {
		var fc int16
		switch {
		case len(m.ParameterFormatCodes) == 1:
			fc = m.ParameterFormatCodes[0]
		case i < len(m.ParameterFormatCodes):
			fc = m.ParameterFormatCodes[i]
		}
		var data []byte
		if raw != nil {
			data = append([]byte{}, raw...)
		}
		if p.paramArray[i] {
			arr, err := decodeArray(s.tmap, p.paramTypes[i], fc, data)
			if err != nil {
				fail(err)
				return
			}
			bp.arrays[i] = arr
			continue
		}
		v, err := decodeValue(s.tmap, p.paramTypes[i], fc, data)
		if err != nil {
			fail(err)
			return
		}
		bp.vals[i] = v
	}
	c.portals[m.DestinationPortal] = &portal{p: p, bp: bp, formats: append([]int16(nil), m.ResultFormatCodes...)}
	c.be.Send(&pgproto3.BindComplete{})
}

func (c *conn) executePortal(name string) bool {
	s := c.s
	s.mu.Lock()
	po := c.portals[name]
	if po == nil {
		c.sendErr(pgErr("34000", "portal %q does not exist", name))
		c.skip = true
		s.mu.Unlock()
		return true
	}
	if po.p.st.kind == sCopy {
		c.sendErr(unsupported("COPY through the extended protocol"))
		c.skip = true
		s.mu.Unlock()
		return true
	}
	rs, tag, perr, drop := c.runStatement(po.p, po.bp)
	if drop {
		s.mu.Unlock()
		c.drop()
		return false
	}
	if perr != nil {
		c.sendErr(perr)
		c.skip = true
		s.mu.Unlock()
		return true
	}
	if rs != nil {
		if err := c.sendRows(rs, po.formats); err != nil {
			c.sendErr(err)
			c.skip = true
			if c.tx != nil {
				c.tx.Failed = true
			}
			s.mu.Unlock()
			return true
		}
	}
	if po.p.st.kind == sEmpty {
		c.be.Send(&pgproto3.EmptyQueryResponse{})
	} else {
		c.be.Send(&pgproto3.CommandComplete{CommandTag: []byte(tag)})
	}
	s.mu.Unlock()
	return true
}

var copySig = []byte("PGCOPY\n\377\r\n\000")

// copyIn runs COPY … FROM STDIN BINARY. Called with s.mu held; returns
// ok=false if the connection must end, stop=true if an error was replied.
func (c *conn) copyIn(p *prepared) (ok, stop bool) {
	s := c.s
	st := p.st
	f, _ := c.opFault("copy", st.sql, p.table.QName())
	switch f.Kind {
	case FDelay:
		s.mu.Unlock()
		time.Sleep(f.Delay)
		s.mu.Lock()
	case FDropBefore:
		c.drop()
		return false, true
	}
	if c.tx != nil && c.tx.Failed {
		c.sendErr(pgErr("25P02", "current transaction is aborted, commands ignored until end of transaction block"))
		return true, true
	}
	tx := c.beginImplicit()
	tx.Stmts = append(tx.Stmts, st.sql)
	if f.Kind == FError {
		tx.Failed = true
		c.sendErr(faultErr(f))
		return true, true
	}
	cir := &pgproto3.CopyInResponse{OverallFormat: 1}
	for range st.cols {
		cir.ColumnFormatCodes = append(cir.ColumnFormatCodes, 1)
	}
	c.be.Send(cir)
	if c.be.Flush() != nil {
		return false, true
	}
	// receive the data without holding the store lock
	s.mu.Unlock()
	var (
		data   bytes.Buffer
		failed string
		rerr   error
	)
loop:
	for {
		msg, err := c.be.Receive()
		if err != nil {
			rerr = err
			break
		}
		switch m := msg.(type) {
		case *pgproto3.CopyData:
			data.Write(m.Data)
		case *pgproto3.CopyDone:
			break loop
		case *pgproto3.CopyFail:
			failed = m.Message
			break loop
		case *pgproto3.Flush, *pgproto3.Sync:
		default:
			failed = fmt.Sprintf("unexpected message %T during COPY", msg)
			break loop
		}
	}
	s.mu.Lock()
	if rerr != nil {
		return false, true
	}
	if failed != "" {
		tx.Failed = true
		c.sendErr(pgErr("57014", "COPY from stdin failed: %s", failed))
		return true, true
	}
	rows, perr := s.decodeCopy(p, data.Bytes())
	if perr == nil {
		for _, vals := range rows {
			if perr = s.insertRow(p.table, vals, tx); perr != nil {
				break
			}
		}
	}
	if perr != nil {
		tx.Failed = true
		c.sendErr(perr)
		return true, true
	}
	s.copies++
	s.copyRows += int64(len(rows))
	if f.Kind == FDropAfter {
		c.drop()
		return false, true
	}
	c.be.Send(&pgproto3.CommandComplete{CommandTag: []byte(fmtTag("COPY", len(rows)))})
	return true, false
}

func (s *Server) decodeCopy(p *prepared, b []byte) ([][]Value, *PGError) {
	bad := func(why string) *PGError { return pgErr("22P04", "invalid COPY binary data: %s", why) }
	if len(b) < 19 || !bytes.Equal(b[:11], copySig) {
		return nil, bad("signature")
	}
	ext := int(binary.BigEndian.Uint32(b[15:19]))
	pos := 19 + ext
	if pos > len(b) {
		return nil, bad("header extension")
	}
	t := p.table
	idx := make([]int, len(p.st.cols))
	for i, cn := range p.st.cols {
		idx[i] = t.ColIdx(cn)
	}
	var rows [][]Value
	for {
		if pos == len(b) {
			break // pgx omits the trailer; PostgreSQL accepts end of data here
		}
		if pos+2 > len(b) {
			return nil, bad("truncated row header")
		}
		nf := int16(binary.BigEndian.Uint16(b[pos:]))
		pos += 2
		if nf == -1 {
			break
		}
		if int(nf) != len(idx) {
			return nil, bad(fmt.Sprintf("row field count is %d, expected %d", nf, len(idx)))
		}
		vals := make([]Value, len(t.Cols))
		for i := 0; i < int(nf); i++ {
			if pos+4 > len(b) {
				return nil, bad("truncated field length")
			}
			l := int32(binary.BigEndian.Uint32(b[pos:]))
			pos += 4
			if l == -1 {
				continue
			}
			if l < 0 || pos+int(l) > len(b) {
				return nil, bad("truncated field")
			}
			v, err := decodeValue(s.tmap, t.Cols[idx[i]].Type, 1, b[pos:pos+int(l)])
			if err != nil {
				return nil, pgErr(err.Code, "COPY %s, column %s: %s", t.Name, t.Cols[idx[i]].Name, err.Msg)
			}
			vals[idx[i]] = v
			pos += int(l)
		}
		rows = append(rows, vals)
	}
	return rows, nil
}
