package fakepg

import (
	"context"
	"math/big"
	"testing"
	"time"

	"github.com/jackc/pgx/v5"
	"github.com/jackc/pgx/v5/pgxpool"
)

func TestSmoke(t *testing.T) {
	s, err := New()
	if err != nil {
		t.Fatal(err)
	}
	defer s.Close()
	s.InstallSchema()
	ctx := context.Background()
	pool, err := pgxpool.New(ctx, s.URL())
	if err != nil {
		t.Fatal(err)
	}
	defer pool.Close()
	if _, err := pool.Exec(ctx, "create table if not exists foo(a text, b numeric, c bytea, \"to\" int)"); err != nil {
		t.Fatal(err)
	}
	if _, err := pool.Exec(ctx, "create unique index if not exists u_foo on foo (a, b)"); err != nil {
		t.Fatal(err)
	}
	tx, err := pool.Begin(ctx)
	if err != nil {
		t.Fatal(err)
	}
	n, err := tx.CopyFrom(ctx, pgx.Identifier{"foo"}, []string{"a", "b", "c", "to"}, pgx.CopyFromRows([][]any{
		{"x", uint64(5), []byte{1, 2}, 7},
		{"y", big.NewInt(1).Lsh(big.NewInt(1), 200), []byte{}, nil},
	}))
	if err != nil || n != 2 {
		t.Fatal(n, err)
	}
	_, err = tx.Exec(ctx, `insert into shovel.task_updates (chain_id, src_name, ig_name, num, hash, src_num, src_hash, stop, nblocks, nrows, latency) values ($1,$2,$3,$4,$5,$6,$7,$8,$9,$10,$11)`,
		uint64(1), "s", "i", uint64(10), []byte{9}, uint64(11), []byte{8}, uint64(0), uint64(1), int64(2), time.Second)
	if err != nil {
		t.Fatal(err)
	}
	if err := tx.Commit(ctx); err != nil {
		t.Fatal(err)
	}
	var num uint64
	var hash []byte
	err = pool.QueryRow(ctx, `select num, hash from shovel.task_updates where src_name = $1 and ig_name = $2 order by num desc limit 1`, "s", "i").Scan(&num, &hash)
	if err != nil || num != 10 || len(hash) != 1 {
		t.Fatal(num, hash, err)
	}
	err = pool.QueryRow(ctx, `
		with latest as (
			select distinct on (ig_name)
			ig_name, num, hash
			from shovel.task_updates
			where src_name = $1
			and ig_name = ANY($2)
			order by ig_name, num desc
		)
		select num, hash
		from latest
		order by num asc
		limit 1;`, "s", []string{"i", "j"}).Scan(&num, &hash)
	if err != nil || num != 10 {
		t.Fatal(num, err)
	}
	var ok bool
	err = pool.QueryRow(ctx, `select true from foo where c = $1`, []byte{1, 2}).Scan(&ok)
	if err != nil || !ok {
		t.Fatal(ok, err)
	}
	err = pool.QueryRow(ctx, `select true from foo where to = $1`, 7).Scan(&ok)
	if err == nil {
		t.Fatal("expected syntax error for reserved word")
	}
	t.Log(err)
	_, err = pool.CopyFrom(ctx, pgx.Identifier{"foo"}, []string{"a", "b"}, pgx.CopyFromRows([][]any{{"x", 5}}))
	if err == nil {
		t.Fatal("expected unique violation")
	}
	t.Log(err)
	if _, err := pool.Exec(ctx, "delete from foo where a = $1 and b >= $2", "x", uint64(5)); err != nil {
		t.Fatal(err)
	}
	if _, err := pool.Exec(ctx, `select pg_notify('a-b', $1)`, "hello"); err != nil {
		t.Fatal(err)
	}
	t.Log(s.Stats(), s.Unsupported())
}
