package fakepg

import (
	"regexp"
	"strconv"
	"strings"
)

type stmtKind int

const (
	sEmpty stmtKind = iota
	sBegin
	sCommit
	sRollback
	sSet
	sInsert
	sDelete
	sSelect
	sCreateTable
	sCreateIndex
	sAlterAddCol
	sCreateSchema
	sCopy
	sNative
)

func (k stmtKind) String() string {
	return [...]string{"empty", "begin", "commit", "rollback", "set", "insert", "delete", "select", "create-table", "create-index", "alter-add-column", "create-schema", "copy", "native"}[k]
}

type exprKind int

const (
	eParam exprKind = iota
	eString
	eNumber
	eBool
	eNull
)

type expr struct {
	kind  exprKind
	param int
	str   string
	b     bool
}

type cond struct {
	col string
	op  string // = <> < <= > >=
	rhs expr
	any bool // col = any(rhs)
}

type orderItem struct {
	col  string
	desc bool
}

type selKind int

const (
	selCol selKind = iota
	selLit
	selStar
	selFunc
)

type selItem struct {
	kind selKind
	col  string
	lit  expr
	fn   string
	args []expr
}

type tableRef struct {
	schema string // "" = search path
	name   string
}

func (t tableRef) String() string {
	if t.schema == "" {
		return t.name
	}
	return t.schema + "." + t.name
}

type selectStmt struct {
	cteName    string
	cte        *selectStmt
	distinctOn []string
	items      []selItem
	from       *tableRef
	where      []cond
	order      []orderItem
	limit      *expr
}

type colDef struct {
	name string
	typ  string
}

type stmt struct {
	kind   stmtKind
	sql    string
	lits   []Value // native shape sent with literals in the parameters' places (client-side interpolation)
	table  tableRef
	cols   []string
	values []expr
	where  []cond
	sel    *selectStmt

	// DDL
	coldefs   []colDef
	indexName string
	unique    bool
	indexCols []string

	native  string // name of a natively executed shape
	nparams int
	prune   *pruneSpec
}

// pruneSpec: the parameters of the PruneTask-shaped statement
//
//	delete from shovel.task_updates where (T…) not in (select S… from (select I…,
//	row_number() over(partition by P… order by O [desc]) as rn from shovel.task_updates) as s where rn <=|< $1)
//
// read from the SQL text, so that a changed partition or ordering is executed as written.
type pruneSpec struct {
	tuple, sel, part []string
	order            string
	desc             bool
	strict           bool // rn < $1
}

var pruneRe = regexp.MustCompile(`^delete from shovel \. task_updates where \( ([a-z_ ,]+) \) not in \( select ([a-z_ ,]+) from \( select ([a-z_ ,]+) , row_number \( \) over \( partition by ([a-z_ ,]+) order by ([a-z_]+)( desc| asc)? \) as rn from shovel \. task_updates \) as s where rn (<=|<) \$1 \)$`)

func splitCols(s string) []string {
	var res []string
	for _, f := range strings.Split(s, ",") {
		if f = strings.TrimSpace(f); f != "" {
			res = append(res, f)
		}
	}
	return res
}

func matchPrune(toks []token) *pruneSpec {
	m := pruneRe.FindStringSubmatch(normalize(toks))
	if m == nil {
		return nil
	}
	ps := &pruneSpec{tuple: splitCols(m[1]), sel: splitCols(m[2]), part: splitCols(m[4]), order: m[5], desc: strings.TrimSpace(m[6]) == "desc", strict: m[7] == "<"}
	inner := map[string]bool{}
	for _, c := range splitCols(m[3]) {
		inner[c] = true
	}
	for _, c := range ps.sel {
		if !inner[c] {
			return nil
		}
	}
	if len(ps.sel) != len(ps.tuple) {
		return nil
	}
	return ps
}

type parser struct {
	toks []token
	i    int
	maxP int
}

func (p *parser) peek() token {
	if p.i < len(p.toks) {
		return p.toks[p.i]
	}
	return token{kind: tEOF}
}

func (p *parser) next() token {
	t := p.peek()
	if p.i < len(p.toks) {
		p.i++
	}
	return t
}

func (p *parser) isKw(w string) bool {
	t := p.peek()
	return t.kind == tIdent && t.text == w
}

func (p *parser) acceptKw(w string) bool {
	if p.isKw(w) {
		p.i++
		return true
	}
	return false
}

func (p *parser) expectKw(w string) *PGError {
	if !p.acceptKw(w) {
		return syntaxErr("expected %q at or near %q", w, p.near())
	}
	return nil
}

func (p *parser) isPunct(s string) bool {
	t := p.peek()
	return t.kind == tPunct && t.text == s
}

func (p *parser) acceptPunct(s string) bool {
	if p.isPunct(s) {
		p.i++
		return true
	}
	return false
}

func (p *parser) expectPunct(s string) *PGError {
	if !p.acceptPunct(s) {
		return syntaxErr("expected %q at or near %q", s, p.near())
	}
	return nil
}

func (p *parser) near() string {
	t := p.peek()
	switch t.kind {
	case tEOF:
		return "end of input"
	case tParam:
		return "$" + strconv.Itoa(t.num)
	}
	return t.text
}

// ident parses a table/column/index name with PostgreSQL's rules.
func (p *parser) ident() (string, *PGError) {
	t := p.peek()
	switch t.kind {
	case tQIdent:
		p.i++
		return t.text, nil
	case tIdent:
		if reserved[t.text] {
			return "", syntaxErr("at or near %q (reserved word)", t.text)
		}
		p.i++
		return t.text, nil
	}
	return "", syntaxErr("expected identifier at or near %q", p.near())
}

func (p *parser) tableRef() (tableRef, *PGError) {
	a, err := p.ident()
	if err != nil {
		return tableRef{}, err
	}
	if p.acceptPunct(".") {
		b, err := p.ident()
		if err != nil {
			return tableRef{}, err
		}
		return tableRef{schema: a, name: b}, nil
	}
	return tableRef{name: a}, nil
}

func (p *parser) expr() (expr, *PGError) {
	t := p.peek()
	var e expr
	switch {
	case t.kind == tParam:
		p.i++
		if t.num > p.maxP {
			p.maxP = t.num
		}
		e = expr{kind: eParam, param: t.num}
	case t.kind == tString:
		p.i++
		e = expr{kind: eString, str: t.text}
	case t.kind == tNumber:
		p.i++
		e = expr{kind: eNumber, str: t.text}
	case t.kind == tIdent && (t.text == "true" || t.text == "false"):
		p.i++
		e = expr{kind: eBool, b: t.text == "true"}
	case t.kind == tIdent && t.text == "null":
		p.i++
		e = expr{kind: eNull}
	default:
		return expr{}, syntaxErr("at or near %q", p.near())
	}
	// optional cast, ignored
	if p.acceptPunct("::") {
		if _, err := p.typeName(); err != nil {
			return expr{}, err
		}
	}
	return e, nil
}

// typeName parses a column type: one or more words plus optional (p[,s]).
func (p *parser) typeName() (string, *PGError) {
	t := p.peek()
	if t.kind != tIdent && t.kind != tQIdent {
		return "", syntaxErr("expected type name at or near %q", p.near())
	}
	p.i++
	name := t.text
	if t.kind == tIdent {
		// multi-word spellings
		for {
			n := p.peek()
			if n.kind == tIdent && (n.text == "precision" || n.text == "varying" || n.text == "with" || n.text == "without" || n.text == "time" || n.text == "zone") &&
				(name == "double" || name == "character" || strings.HasPrefix(name, "timestamp") || strings.HasPrefix(name, "time")) {
				p.i++
				name += " " + n.text
				continue
			}
			break
		}
	}
	if p.acceptPunct("(") {
		for !p.isPunct(")") {
			if p.peek().kind == tEOF {
				return "", syntaxErr("unterminated type modifier")
			}
			p.i++
		}
		p.i++
	}
	if p.acceptPunct("[") {
		if err := p.expectPunct("]"); err != nil {
			return "", err
		}
		name += "[]"
	}
	return name, nil
}

func (p *parser) conds() ([]cond, *PGError) {
	var res []cond
	for {
		col, err := p.ident()
		if err != nil {
			return nil, err
		}
		t := p.next()
		if t.kind != tPunct {
			return nil, syntaxErr("expected operator at or near %q", t.text)
		}
		op := t.text
		switch op {
		case "=", "<", ">", "<=", ">=", "<>":
		case "!=":
			op = "<>"
		default:
			return nil, syntaxErr("at or near %q", op)
		}
		c := cond{col: col, op: op}
		if op == "=" && p.isKw("any") {
			p.i++
			if err := p.expectPunct("("); err != nil {
				return nil, err
			}
			e, err := p.expr()
			if err != nil {
				return nil, err
			}
			if err := p.expectPunct(")"); err != nil {
				return nil, err
			}
			c.any, c.rhs = true, e
		} else {
			e, err := p.expr()
			if err != nil {
				return nil, err
			}
			c.rhs = e
		}
		res = append(res, c)
		if !p.acceptKw("and") {
			break
		}
	}
	return res, nil
}

func (p *parser) selectStmt() (*selectStmt, *PGError) {
	s := &selectStmt{}
	if p.acceptKw("with") {
		name, err := p.ident()
		if err != nil {
			return nil, err
		}
		if err := p.expectKw("as"); err != nil {
			return nil, err
		}
		if err := p.expectPunct("("); err != nil {
			return nil, err
		}
		inner, err := p.selectStmt()
		if err != nil {
			return nil, err
		}
		if inner.cte != nil {
			return nil, unsupported("nested WITH")
		}
		if err := p.expectPunct(")"); err != nil {
			return nil, err
		}
		s.cteName, s.cte = name, inner
	}
	if err := p.expectKw("select"); err != nil {
		return nil, err
	}
	if p.acceptKw("distinct") {
		if err := p.expectKw("on"); err != nil {
			return nil, unsupported("SELECT DISTINCT without ON")
		}
		if err := p.expectPunct("("); err != nil {
			return nil, err
		}
		for {
			c, err := p.ident()
			if err != nil {
				return nil, err
			}
			s.distinctOn = append(s.distinctOn, c)
			if !p.acceptPunct(",") {
				break
			}
		}
		if err := p.expectPunct(")"); err != nil {
			return nil, err
		}
	}
	for {
		t := p.peek()
		switch {
		case t.kind == tPunct && t.text == "*":
			p.i++
			s.items = append(s.items, selItem{kind: selStar})
		case t.kind == tParam || t.kind == tString || t.kind == tNumber || t.kind == tIdent && (t.text == "true" || t.text == "false" || t.text == "null"):
			e, err := p.expr()
			if err != nil {
				return nil, err
			}
			s.items = append(s.items, selItem{kind: selLit, lit: e})
		default:
			name, err := p.ident()
			if err != nil {
				return nil, err
			}
			if p.acceptPunct("(") {
				it := selItem{kind: selFunc, fn: name}
				for !p.isPunct(")") {
					e, err := p.expr()
					if err != nil {
						return nil, err
					}
					it.args = append(it.args, e)
					if !p.acceptPunct(",") {
						break
					}
				}
				if err := p.expectPunct(")"); err != nil {
					return nil, err
				}
				s.items = append(s.items, it)
			} else {
				s.items = append(s.items, selItem{kind: selCol, col: name})
			}
		}
		if !p.acceptPunct(",") {
			break
		}
	}
	if p.acceptKw("from") {
		tr, err := p.tableRef()
		if err != nil {
			return nil, err
		}
		s.from = &tr
	}
	if p.acceptKw("where") {
		cs, err := p.conds()
		if err != nil {
			return nil, err
		}
		s.where = cs
	}
	if p.acceptKw("order") {
		if err := p.expectKw("by"); err != nil {
			return nil, err
		}
		for {
			c, err := p.ident()
			if err != nil {
				return nil, err
			}
			it := orderItem{col: c}
			if p.acceptKw("desc") {
				it.desc = true
			} else {
				p.acceptKw("asc")
			}
			s.order = append(s.order, it)
			if !p.acceptPunct(",") {
				break
			}
		}
	}
	if p.acceptKw("limit") {
		e, err := p.expr()
		if err != nil {
			return nil, err
		}
		s.limit = &e
	}
	return s, nil
}

func (p *parser) ifNotExists() *PGError {
	if p.acceptKw("if") {
		if err := p.expectKw("not"); err != nil {
			return err
		}
		return p.expectKw("exists")
	}
	return nil
}

func parseStatement(sql string, toks []token) (*stmt, *PGError) {
	st := &stmt{sql: sql}
	if len(toks) == 0 {
		st.kind = sEmpty
		return st, nil
	}
	if ps := matchPrune(toks); ps != nil {
		st.kind = sNative
		st.native = "prune_task"
		st.prune = ps
		st.nparams = 1
		return st, nil
	}
	if name := nativeShape(toks); name != "" {
		st.kind = sNative
		st.native = name
		for _, t := range toks {
			if t.kind == tParam && t.num > st.nparams {
				st.nparams = t.num
			}
		}
		return st, nil
	}
	if name, lits := nativeShapeLiteral(toks); name != "" {
		st.kind, st.native, st.lits = sNative, name, lits
		return st, nil
	}
	p := &parser{toks: toks}
	finish := func() (*stmt, *PGError) {
		if p.peek().kind != tEOF {
			return nil, syntaxErr("at or near %q", p.near())
		}
		st.nparams = p.maxP
		return st, nil
	}
	first := p.peek()
	if first.kind != tIdent {
		return nil, syntaxErr("at or near %q", p.near())
	}
	switch first.text {
	case "begin", "start":
		p.i++
		if first.text == "start" {
			if err := p.expectKw("transaction"); err != nil {
				return nil, err
			}
		} else {
			p.acceptKw("transaction")
		}
		st.kind = sBegin
		// isolation options are accepted and ignored
		p.i = len(p.toks)
		return finish()
	case "commit", "end":
		p.i++
		st.kind = sCommit
		return finish()
	case "rollback", "abort":
		p.i++
		st.kind = sRollback
		return finish()
	case "set":
		p.i++
		if _, err := p.ident(); err != nil {
			return nil, err
		}
		if !p.acceptPunct("=") && !p.acceptKw("to") {
			return nil, syntaxErr("at or near %q", p.near())
		}
		t := p.next()
		if t.kind != tString && t.kind != tIdent && t.kind != tNumber && t.kind != tQIdent {
			return nil, syntaxErr("at or near %q", t.text)
		}
		st.kind = sSet
		return finish()
	case "insert":
		p.i++
		if err := p.expectKw("into"); err != nil {
			return nil, err
		}
		tr, err := p.tableRef()
		if err != nil {
			return nil, err
		}
		st.table = tr
		if err := p.expectPunct("("); err != nil {
			return nil, err
		}
		for {
			c, err := p.ident()
			if err != nil {
				return nil, err
			}
			st.cols = append(st.cols, c)
			if !p.acceptPunct(",") {
				break
			}
		}
		if err := p.expectPunct(")"); err != nil {
			return nil, err
		}
		if err := p.expectKw("values"); err != nil {
			return nil, err
		}
		if err := p.expectPunct("("); err != nil {
			return nil, err
		}
		for {
			e, err := p.expr()
			if err != nil {
				return nil, err
			}
			st.values = append(st.values, e)
			if !p.acceptPunct(",") {
				break
			}
		}
		if err := p.expectPunct(")"); err != nil {
			return nil, err
		}
		if len(st.values) != len(st.cols) {
			if len(st.values) > len(st.cols) {
				return nil, syntaxErr("INSERT has more expressions than target columns")
			}
			return nil, syntaxErr("INSERT has more target columns than expressions")
		}
		st.kind = sInsert
		return finish()
	case "delete":
		p.i++
		if err := p.expectKw("from"); err != nil {
			return nil, err
		}
		tr, err := p.tableRef()
		if err != nil {
			return nil, err
		}
		st.table = tr
		if p.acceptKw("where") {
			cs, err := p.conds()
			if err != nil {
				return nil, err
			}
			st.where = cs
		}
		st.kind = sDelete
		return finish()
	case "select", "with":
		s, err := p.selectStmt()
		if err != nil {
			return nil, err
		}
		st.kind = sSelect
		st.sel = s
		return finish()
	case "copy":
		p.i++
		tr, err := p.tableRef()
		if err != nil {
			return nil, err
		}
		st.table = tr
		if err := p.expectPunct("("); err != nil {
			return nil, err
		}
		for {
			c, err := p.ident()
			if err != nil {
				return nil, err
			}
			st.cols = append(st.cols, c)
			if !p.acceptPunct(",") {
				break
			}
		}
		if err := p.expectPunct(")"); err != nil {
			return nil, err
		}
		if err := p.expectKw("from"); err != nil {
			return nil, err
		}
		if err := p.expectKw("stdin"); err != nil {
			return nil, err
		}
		if err := p.expectKw("binary"); err != nil {
			return nil, unsupported("COPY in a format other than binary")
		}
		st.kind = sCopy
		return finish()
	case "create":
		p.i++
		switch {
		case p.acceptKw("schema"):
			if err := p.ifNotExists(); err != nil {
				return nil, err
			}
			if _, err := p.ident(); err != nil {
				return nil, err
			}
			st.kind = sCreateSchema
			return finish()
		case p.acceptKw("table"):
			if err := p.ifNotExists(); err != nil {
				return nil, err
			}
			tr, err := p.tableRef()
			if err != nil {
				return nil, err
			}
			st.table = tr
			if err := p.expectPunct("("); err != nil {
				return nil, err
			}
			for {
				c, err := p.ident()
				if err != nil {
					return nil, err
				}
				ty, err := p.typeName()
				if err != nil {
					return nil, err
				}
				// column constraints the schema script uses
				for p.isKw("not") || p.isKw("null") || p.isKw("default") {
					if p.acceptKw("default") {
						p.i++ // the default expression is a single token in shovel's DDL (false)
						if p.acceptPunct("(") {
							p.acceptPunct(")")
						}
						continue
					}
					p.i++
				}
				st.coldefs = append(st.coldefs, colDef{name: c, typ: ty})
				if !p.acceptPunct(",") {
					break
				}
			}
			if err := p.expectPunct(")"); err != nil {
				return nil, err
			}
			st.kind = sCreateTable
			return finish()
		case p.isKw("unique") || p.isKw("index"):
			if p.acceptKw("unique") {
				st.unique = true
			}
			if err := p.expectKw("index"); err != nil {
				return nil, err
			}
			if err := p.ifNotExists(); err != nil {
				return nil, err
			}
			name, err := p.ident()
			if err != nil {
				return nil, err
			}
			st.indexName = name
			if err := p.expectKw("on"); err != nil {
				return nil, err
			}
			tr, err := p.tableRef()
			if err != nil {
				return nil, err
			}
			st.table = tr
			if p.acceptKw("using") {
				if _, err := p.ident(); err != nil {
					return nil, err
				}
			}
			if err := p.expectPunct("("); err != nil {
				return nil, err
			}
			for {
				c, err := p.ident()
				if err != nil {
					return nil, err
				}
				if !p.acceptKw("desc") {
					p.acceptKw("asc")
				}
				st.indexCols = append(st.indexCols, c)
				if !p.acceptPunct(",") {
					break
				}
			}
			if err := p.expectPunct(")"); err != nil {
				return nil, err
			}
			st.kind = sCreateIndex
			return finish()
		}
		return nil, unsupported("CREATE %s", p.near())
	case "alter":
		p.i++
		if err := p.expectKw("table"); err != nil {
			return nil, unsupported("ALTER %s", p.near())
		}
		tr, err := p.tableRef()
		if err != nil {
			return nil, err
		}
		st.table = tr
		if err := p.expectKw("add"); err != nil {
			return nil, unsupported("ALTER TABLE … %s", p.near())
		}
		if err := p.expectKw("column"); err != nil {
			return nil, err
		}
		if err := p.ifNotExists(); err != nil {
			return nil, err
		}
		c, err := p.ident()
		if err != nil {
			return nil, err
		}
		ty, err := p.typeName()
		if err != nil {
			return nil, err
		}
		st.coldefs = []colDef{{name: c, typ: ty}}
		st.kind = sAlterAddCol
		return finish()
	}
	return nil, unsupported("statement starting with %q", first.text)
}

// ---- natively executed shapes (recognised by their normalised token sequence)

var nativeShapes = map[string]string{}

// nativeToks keeps the tokens of the shapes that take parameters: a client that interpolates the values itself
// (simple protocol) sends the same statement with literals where the parameters stood.
var nativeToks = map[string][]token{}

// nativeShapeLiteral recognises such a statement and returns the values standing in the parameters' places.
func nativeShapeLiteral(toks []token) (string, []Value) {
	for name, sh := range nativeToks {
		if len(sh) != len(toks) {
			continue
		}
		var lits []Value
		ok := true
		for i := range sh {
			a, b := sh[i], toks[i]
			switch {
			case a.kind == tParam && b.kind == tString:
				for len(lits) < a.num {
					lits = append(lits, nil)
				}
				lits[a.num-1] = b.text
			case a.kind == tParam && b.kind == tNumber:
				for len(lits) < a.num {
					lits = append(lits, nil)
				}
				n, _ := strconv.ParseInt(b.text, 10, 64)
				lits[a.num-1] = n
			case a.kind != b.kind || normalize([]token{a}) != normalize([]token{b}):
				ok = false
			}
			if !ok {
				break
			}
		}
		if ok && len(lits) > 0 {
			return name, lits
		}
	}
	return "", nil
}

func registerShape(name, sql string) {
	toks, err := lex(sql)
	if err != nil {
		panic(err)
	}
	if len(toks) > 0 && toks[len(toks)-1].kind == tPunct && toks[len(toks)-1].text == ";" {
		toks = toks[:len(toks)-1]
	}
	nativeShapes[normalize(toks)] = name
	for _, t := range toks {
		if t.kind == tParam {
			nativeToks[name] = toks
			break
		}
	}
}

func nativeShape(toks []token) string {
	return nativeShapes[normalize(toks)]
}

func init() {
	registerShape("task_updates", `
        with f as (
            select src_name, ig_name, max(num) num
            from shovel.task_updates group by 1, 2
        )
        select
			f.src_name,
			f.ig_name,
			f.num,
			coalesce(stop, 0) stop,
			hash,
			coalesce(src_num, 0) src_num,
			coalesce(src_hash, '\x00') src_hash,
			coalesce(nblocks, 0) nblocks,
			coalesce(nrows, 0) nrows,
			coalesce(latency, '0')::interval latency
        from f
        left join shovel.task_updates
		on shovel.task_updates.src_name = f.src_name
		and shovel.task_updates.ig_name= f.ig_name
		and shovel.task_updates.num = f.num`)
	registerShape("source_updates", `select * from shovel.source_updates`)
	registerShape("info_columns", `
		select column_name, data_type
		from information_schema.columns
		where table_schema = 'public'
		and table_name = $1`)
	registerShape("current_database", `select current_database()`)
}
