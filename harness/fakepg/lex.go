// Package fakepg is an in-process server speaking the PostgreSQL v3 wire
// protocol (on pgx's pgproto3.Backend) and implementing, with transactional
// semantics, the SQL subset shovel issues. See DESIGN.md §3.1 for the contract;
// anything outside it is answered with SQLSTATE XX000 "verif: unsupported".
package fakepg

import (
	"fmt"
	"strings"
)

type tokKind int

const (
	tEOF tokKind = iota
	tIdent
	tQIdent // "quoted"
	tNumber
	tString
	tParam
	tPunct
)

type token struct {
	kind tokKind
	text string // ident: folded to lower case; qident: exact; punct: the operator
	num  int    // param number
	pos  int
}

// PGError is an error reply.
type PGError struct {
	Code string
	Msg  string
}

func (e *PGError) Error() string { return e.Code + ": " + e.Msg }

func pgErr(code, format string, args ...any) *PGError {
	return &PGError{Code: code, Msg: fmt.Sprintf(format, args...)}
}

func syntaxErr(format string, args ...any) *PGError {
	return pgErr("42601", "syntax error: "+format, args...)
}

// ErrUnsupported marks a statement outside the simulator's contract.
func unsupported(format string, args ...any) *PGError {
	return pgErr("XX000", "verif: unsupported: "+format, args...)
}

func IsUnsupported(err error) bool {
	pe, ok := err.(*PGError)
	return ok && pe.Code == "XX000"
}

func isIdentStart(c byte) bool {
	return c == '_' || c >= 'a' && c <= 'z' || c >= 'A' && c <= 'Z' || c >= 0x80
}

func isIdentPart(c byte) bool {
	return isIdentStart(c) || c >= '0' && c <= '9' || c == '$'
}

func lex(s string) ([]token, *PGError) {
	var toks []token
	i := 0
	for i < len(s) {
		c := s[i]
		switch {
		case c == ' ' || c == '\t' || c == '\n' || c == '\r' || c == '\f':
			i++
		case c == '-' && i+1 < len(s) && s[i+1] == '-':
			for i < len(s) && s[i] != '\n' {
				i++
			}
		case c == '/' && i+1 < len(s) && s[i+1] == '*':
			j := strings.Index(s[i+2:], "*/")
			if j < 0 {
				return nil, syntaxErr("unterminated /* comment")
			}
			i += j + 4
		case isIdentStart(c):
			j := i
			for j < len(s) && isIdentPart(s[j]) {
				j++
			}
			toks = append(toks, token{kind: tIdent, text: Ident63(strings.ToLower(s[i:j])), pos: i})
			i = j
		case c >= '0' && c <= '9':
			j := i
			for j < len(s) && (s[j] >= '0' && s[j] <= '9' || s[j] == '.') {
				j++
			}
			// PG: a number immediately followed by identifier characters is an error ("trailing junk")
			if j < len(s) && isIdentStart(s[j]) {
				return nil, syntaxErr("trailing junk after numeric literal at or near %q", s[i:min(j+1, len(s))])
			}
			toks = append(toks, token{kind: tNumber, text: s[i:j], pos: i})
			i = j
		case c == '"':
			j := i + 1
			var sb strings.Builder
			closed := false
			for j < len(s) {
				if s[j] == '"' {
					if j+1 < len(s) && s[j+1] == '"' {
						sb.WriteByte('"')
						j += 2
						continue
					}
					closed = true
					j++
					break
				}
				sb.WriteByte(s[j])
				j++
			}
			if !closed {
				return nil, syntaxErr("unterminated quoted identifier")
			}
			if sb.Len() == 0 {
				return nil, syntaxErr("zero-length delimited identifier")
			}
			toks = append(toks, token{kind: tQIdent, text: Ident63(sb.String()), pos: i})
			i = j
		case c == '\'':
			j := i + 1
			var sb strings.Builder
			closed := false
			for j < len(s) {
				if s[j] == '\'' {
					if j+1 < len(s) && s[j+1] == '\'' {
						sb.WriteByte('\'')
						j += 2
						continue
					}
					closed = true
					j++
					break
				}
				sb.WriteByte(s[j])
				j++
			}
			if !closed {
				return nil, syntaxErr("unterminated quoted string")
			}
			toks = append(toks, token{kind: tString, text: sb.String(), pos: i})
			i = j
		case c == '$':
			j := i + 1
			n := 0
			for j < len(s) && s[j] >= '0' && s[j] <= '9' {
				n = n*10 + int(s[j]-'0')
				j++
			}
			if j == i+1 {
				// dollar quoting ($$ … $$) only occurs in the schema script, which is
				// recognised as a whole before lexing
				return nil, syntaxErr("at or near \"$\"")
			}
			toks = append(toks, token{kind: tParam, num: n, pos: i})
			i = j
		default:
			two := ""
			if i+1 < len(s) {
				two = s[i : i+2]
			}
			switch two {
			case ">=", "<=", "<>", "!=", "::":
				toks = append(toks, token{kind: tPunct, text: two, pos: i})
				i += 2
				continue
			}
			switch c {
			case '(', ')', ',', ';', '.', '*', '=', '<', '>', '-', '+', '/', '[', ']', ':', '%', '!', '|', '&', '@', '#', '~', '^', '?', '{', '}', '\\', '`':
				toks = append(toks, token{kind: tPunct, text: string(c), pos: i})
				i++
			default:
				return nil, syntaxErr("at or near %q", string(c))
			}
		}
	}
	return toks, nil
}

func min(a, b int) int {
	if a < b {
		return a
	}
	return b
}

// reserved: PostgreSQL's key words of the categories "reserved" and "reserved (can be function or type)"
// (documentation, appendix "SQL Key Words"); an unquoted occurrence of either can not be used as a table, column or
// index name (the grammar's ColId admits unreserved and column-name key words only).
var reserved = map[string]bool{}

func init() {
	for _, w := range strings.Fields(`all analyse analyze and any array as asc asymmetric both case cast check collate column constraint create
		current_catalog current_date current_role current_time current_timestamp current_user default deferrable desc distinct do else end except
		false fetch for foreign from grant group having in initially intersect into lateral leading limit localtime localtimestamp not null
		offset on only or order placing primary references returning select session_user some symmetric table then to trailing true union
		unique user using variadic when where window with
		authorization binary collation concurrently cross current_schema freeze full ilike inner is isnull join left like natural
		notnull outer overlaps right similar tablesample verbose`) {
		reserved[w] = true
	}
}

// splitStatements splits a simple-query string at top-level semicolons.
func splitStatements(toks []token) [][]token {
	var res [][]token
	var cur []token
	for _, t := range toks {
		if t.kind == tPunct && t.text == ";" {
			if len(cur) > 0 {
				res = append(res, cur)
			}
			cur = nil
			continue
		}
		cur = append(cur, t)
	}
	if len(cur) > 0 {
		res = append(res, cur)
	}
	return res
}

// Ident63: PostgreSQL truncates identifiers in statements to 63 bytes (NAMEDATALEN-1, with a notice); values compared
// with catalog columns (information_schema … table_name = $1) are ordinary strings and are not truncated.
func Ident63(s string) string {
	if len(s) > 63 {
		return s[:63]
	}
	return s
}

// QName63 applies Ident63 to both parts of schema.name.
func QName63(q string) string {
	if i := strings.IndexByte(q, '.'); i >= 0 {
		return Ident63(q[:i]) + "." + Ident63(q[i+1:])
	}
	return Ident63(q)
}

// normalize renders tokens in a canonical spelling (used for shape recognition).
func normalize(toks []token) string {
	var sb strings.Builder
	for i, t := range toks {
		if i > 0 {
			sb.WriteByte(' ')
		}
		switch t.kind {
		case tIdent, tPunct, tNumber:
			sb.WriteString(t.text)
		case tQIdent:
			sb.WriteString(`"` + t.text + `"`)
		case tString:
			sb.WriteString(`'` + t.text + `'`)
		case tParam:
			fmt.Fprintf(&sb, "$%d", t.num)
		}
	}
	return sb.String()
}
