package fakepg

import (
	"math/big"
	"sort"
	"strings"

	"github.com/jackc/pgx/v5/pgtype"
)

// prepared is an analysed statement: parameter types and result columns.
type prepared struct {
	st         *stmt
	paramTypes []*Type // index 0 = $1
	paramArray []bool
	result     []Col // nil = no rows
	table      *Table
}

type rowset struct {
	cols []Col
	rows [][]Value
}

func (p *prepared) setParam(n int, t *Type, arr bool) *PGError {
	if n < 1 {
		return syntaxErr("there is no parameter $%d", n)
	}
	for len(p.paramTypes) < n {
		p.paramTypes = append(p.paramTypes, nil)
		p.paramArray = append(p.paramArray, false)
	}
	if p.paramTypes[n-1] != nil && (p.paramTypes[n-1] != t || p.paramArray[n-1] != arr) {
		return pgErr("42P08", "inconsistent types deduced for parameter $%d", n)
	}
	p.paramTypes[n-1], p.paramArray[n-1] = t, arr
	return nil
}

func findCol(cols []Col, name string) int {
	for i := range cols {
		if cols[i].Name == name {
			return i
		}
	}
	return -1
}

func (s *Server) analyzeConds(p *prepared, cols []Col, conds []cond) *PGError {
	for _, c := range conds {
		ci := findCol(cols, c.col)
		if ci < 0 {
			return pgErr("42703", "column %q does not exist", c.col)
		}
		if c.rhs.kind == eParam {
			if err := p.setParam(c.rhs.param, cols[ci].Type, c.any); err != nil {
				return err
			}
		} else if c.any {
			return unsupported("= ANY(<literal>)")
		}
	}
	return nil
}

// analyzeSelect computes the result columns of a select and the parameter types.
func (s *Server) analyzeSelect(p *prepared, sel *selectStmt) ([]Col, *PGError) {
	var src []Col
	switch {
	case sel.from == nil:
	case sel.cte != nil && sel.from.schema == "" && sel.from.name == sel.cteName:
		cc, err := s.analyzeSelect(p, sel.cte)
		if err != nil {
			return nil, err
		}
		src = cc
	default:
		if sel.cte != nil {
			if _, err := s.analyzeSelect(p, sel.cte); err != nil {
				return nil, err
			}
		}
		t, err := s.resolve(*sel.from)
		if err != nil {
			return nil, err
		}
		src = t.Cols
	}
	if err := s.analyzeConds(p, src, sel.where); err != nil {
		return nil, err
	}
	for _, d := range sel.distinctOn {
		if findCol(src, d) < 0 {
			return nil, pgErr("42703", "column %q does not exist", d)
		}
	}
	for i, d := range sel.distinctOn {
		if i >= len(sel.order) || sel.order[i].col != d {
			return nil, pgErr("42P10", "SELECT DISTINCT ON expressions must match initial ORDER BY expressions")
		}
	}
	for _, o := range sel.order {
		if findCol(src, o.col) < 0 {
			return nil, pgErr("42703", "column %q does not exist", o.col)
		}
	}
	if sel.limit != nil && sel.limit.kind == eParam {
		if err := p.setParam(sel.limit.param, tInt8, false); err != nil {
			return nil, err
		}
	}
	var out []Col
	for _, it := range sel.items {
		switch it.kind {
		case selStar:
			if sel.from == nil {
				return nil, syntaxErr("SELECT * with no tables specified is not valid")
			}
			out = append(out, src...)
		case selCol:
			ci := findCol(src, it.col)
			if ci < 0 {
				return nil, pgErr("42703", "column %q does not exist", it.col)
			}
			out = append(out, src[ci])
		case selLit:
			switch it.lit.kind {
			case eBool:
				out = append(out, Col{"bool", tBool})
			case eString:
				out = append(out, Col{"?column?", tText})
			case eNumber:
				out = append(out, Col{"?column?", tInt4})
			default:
				return nil, unsupported("select-list literal")
			}
		case selFunc:
			switch it.fn {
			case "pg_notify":
				if len(it.args) != 2 {
					return nil, pgErr("42883", "function pg_notify with %d arguments does not exist", len(it.args))
				}
				for _, a := range it.args {
					if a.kind == eParam {
						if err := p.setParam(a.param, tText, false); err != nil {
							return nil, err
						}
					}
				}
				out = append(out, Col{"pg_notify", tVoid})
			case "pg_advisory_xact_lock", "pg_advisory_lock":
				if len(it.args) != 1 {
					return nil, pgErr("42883", "function %s with %d arguments does not exist", it.fn, len(it.args))
				}
				if it.args[0].kind == eParam {
					if err := p.setParam(it.args[0].param, tInt8, false); err != nil {
						return nil, err
					}
				}
				out = append(out, Col{it.fn, tVoid})
			default:
				return nil, unsupported("function %s()", it.fn)
			}
		}
	}
	return out, nil
}

// prepare analyses a parsed statement against the catalog.
func (s *Server) prepare(st *stmt) (*prepared, *PGError) {
	p := &prepared{st: st}
	switch st.kind {
	case sInsert:
		t, err := s.resolve(st.table)
		if err != nil {
			return nil, err
		}
		p.table = t
		for i, cn := range st.cols {
			ci := t.ColIdx(cn)
			if ci < 0 {
				return nil, pgErr("42703", "column %q of relation %q does not exist", cn, t.Name)
			}
			if st.values[i].kind == eParam {
				if err := p.setParam(st.values[i].param, t.Cols[ci].Type, false); err != nil {
					return nil, err
				}
			}
		}
	case sDelete:
		t, err := s.resolve(st.table)
		if err != nil {
			return nil, err
		}
		p.table = t
		if err := s.analyzeConds(p, t.Cols, st.where); err != nil {
			return nil, err
		}
	case sSelect:
		cols, err := s.analyzeSelect(p, st.sel)
		if err != nil {
			return nil, err
		}
		p.result = cols
	case sCopy:
		t, err := s.resolve(st.table)
		if err != nil {
			return nil, err
		}
		p.table = t
		for _, cn := range st.cols {
			if t.ColIdx(cn) < 0 {
				return nil, pgErr("42703", "column %q of relation %q does not exist", cn, t.Name)
			}
		}
	case sNative:
		switch st.native {
		case "prune_task":
			p.paramTypes, p.paramArray = []*Type{tInt8}, []bool{false}
			if _, err := s.resolve(tableRef{"shovel", "task_updates"}); err != nil {
				return nil, err
			}
		case "info_columns":
			p.paramTypes, p.paramArray = []*Type{tText}, []bool{false}
			p.result = []Col{{"column_name", tText}, {"data_type", tText}}
		case "task_updates":
			if _, err := s.resolve(tableRef{"shovel", "task_updates"}); err != nil {
				return nil, err
			}
			p.result = []Col{{"src_name", tText}, {"ig_name", tText}, {"num", tNumeric}, {"stop", tNumeric}, {"hash", tBytea},
				{"src_num", tNumeric}, {"src_hash", tBytea}, {"nblocks", tNumeric}, {"nrows", tNumeric}, {"latency", tInterval}}
		case "source_updates":
			if _, err := s.resolve(tableRef{"shovel", "task_updates"}); err != nil {
				return nil, err
			}
			p.result = []Col{{"src_name", tText}, {"num", tNumeric}, {"hash", tBytea}, {"src_num", tNumeric}, {"src_hash", tBytea},
				{"nblocks", tNumeric}, {"nrows", tNumeric}, {"latency", tInterval}}
		case "current_database":
			p.result = []Col{{"current_database", tText}}
		}
	}
	for i, t := range p.paramTypes {
		if t == nil {
			return nil, pgErr("42P18", "could not determine data type of parameter $%d", i+1)
		}
	}
	if len(p.paramTypes) < st.nparams {
		return nil, pgErr("42P18", "could not determine data type of parameter $%d", st.nparams)
	}
	return p, nil
}

type boundParams struct {
	vals   []Value
	arrays [][]Value
}

func (s *Server) exprValue(t *Type, e expr, bp *boundParams) (Value, *PGError) {
	if e.kind == eParam {
		if e.param < 1 || e.param > len(bp.vals) {
			return nil, pgErr("08P01", "bind message supplies %d parameters, but statement requires $%d", len(bp.vals), e.param)
		}
		return bp.vals[e.param-1], nil
	}
	return literalValue(s.tmap, t, e)
}

func (s *Server) rowMatches(cols []Col, vals []Value, conds []cond, bp *boundParams) (bool, *PGError) {
	for _, c := range conds {
		ci := findCol(cols, c.col)
		if c.any {
			arr := bp.arrays[c.rhs.param-1]
			found := false
			for _, a := range arr {
				if valuesEqual(vals[ci], a) {
					found = true
					break
				}
			}
			if !found {
				return false, nil
			}
			continue
		}
		rhs, err := s.exprValue(cols[ci].Type, c.rhs, bp)
		if err != nil {
			return false, err
		}
		cmp, ok := compareValues(vals[ci], rhs)
		if !ok {
			return false, nil // NULL or incomparable: not true
		}
		var m bool
		switch c.op {
		case "=":
			m = cmp == 0
		case "<>":
			m = cmp != 0
		case "<":
			m = cmp < 0
		case "<=":
			m = cmp <= 0
		case ">":
			m = cmp > 0
		case ">=":
			m = cmp >= 0
		}
		if !m {
			return false, nil
		}
	}
	return true, nil
}

func (s *Server) runSelect(sel *selectStmt, bp *boundParams, tx *Tx) (*rowset, *PGError) {
	var src rowset
	switch {
	case sel.from == nil:
		src.rows = [][]Value{{}}
	case sel.cte != nil && sel.from.schema == "" && sel.from.name == sel.cteName:
		rs, err := s.runSelect(sel.cte, bp, tx)
		if err != nil {
			return nil, err
		}
		src = *rs
	default:
		t, err := s.resolve(*sel.from)
		if err != nil {
			return nil, err
		}
		src.cols = t.Cols
		for _, r := range t.Rows {
			if s.visible(r, tx) {
				src.rows = append(src.rows, r.Vals)
			}
		}
	}
	var rows [][]Value
	for _, r := range src.rows {
		ok, err := s.rowMatches(src.cols, r, sel.where, bp)
		if err != nil {
			return nil, err
		}
		if ok {
			rows = append(rows, r)
		}
	}
	if len(sel.order) > 0 {
		idx := make([]int, len(sel.order))
		for i, o := range sel.order {
			idx[i] = findCol(src.cols, o.col)
		}
		sort.SliceStable(rows, func(a, b int) bool {
			for i, o := range sel.order {
				va, vb := rows[a][idx[i]], rows[b][idx[i]]
				switch {
				case va == nil && vb == nil:
					continue
				case va == nil: // NULLS LAST for ASC, FIRST for DESC
					return o.desc
				case vb == nil:
					return !o.desc
				}
				c, _ := compareValues(va, vb)
				if c == 0 {
					continue
				}
				if o.desc {
					return c > 0
				}
				return c < 0
			}
			return false
		})
	}
	if len(sel.distinctOn) > 0 {
		var idx []int
		for _, d := range sel.distinctOn {
			idx = append(idx, findCol(src.cols, d))
		}
		var out [][]Value
		for _, r := range rows {
			if len(out) > 0 {
				same := true
				for _, ci := range idx {
					pv, cv := out[len(out)-1][ci], r[ci]
					if pv == nil && cv == nil {
						continue
					}
					if !valuesEqual(pv, cv) {
						same = false
						break
					}
				}
				if same {
					continue
				}
			}
			out = append(out, r)
		}
		rows = out
	}
	if sel.limit != nil {
		lv, err := s.exprValue(tInt8, *sel.limit, bp)
		if err != nil {
			return nil, err
		}
		if n, ok := lv.(int64); ok && n >= 0 && int(n) < len(rows) {
			rows = rows[:n]
		}
	}
	out := &rowset{}
	for _, it := range sel.items {
		switch it.kind {
		case selStar:
			out.cols = append(out.cols, src.cols...)
		case selCol:
			out.cols = append(out.cols, src.cols[findCol(src.cols, it.col)])
		case selLit:
			switch it.lit.kind {
			case eBool:
				out.cols = append(out.cols, Col{"bool", tBool})
			case eString:
				out.cols = append(out.cols, Col{"?column?", tText})
			default:
				out.cols = append(out.cols, Col{"?column?", tInt4})
			}
		case selFunc:
			out.cols = append(out.cols, Col{it.fn, tVoid})
		}
	}
	for _, r := range rows {
		var o []Value
		for _, it := range sel.items {
			switch it.kind {
			case selStar:
				o = append(o, r...)
			case selCol:
				o = append(o, r[findCol(src.cols, it.col)])
			case selLit:
				switch it.lit.kind {
				case eBool:
					o = append(o, it.lit.b)
				case eString:
					o = append(o, it.lit.str)
				case eNumber:
					v, _ := literalValue(s.tmap, tInt4, it.lit)
					o = append(o, v)
				}
			case selFunc:
				switch it.fn {
				case "pg_notify":
					ch, err := s.exprValue(tText, it.args[0], bp)
					if err != nil {
						return nil, err
					}
					pl, err := s.exprValue(tText, it.args[1], bp)
					if err != nil {
						return nil, err
					}
					chs, _ := ch.(string)
					pls, _ := pl.(string)
					if len(pls) >= 8000 {
						return nil, pgErr("22023", "payload string too long")
					}
					tx.Notifies = append(tx.Notifies, Notify{chs, pls})
				}
				o = append(o, "")
			}
		}
		out.rows = append(out.rows, o)
	}
	return out, nil
}

// execute runs one prepared statement inside tx. Returns result rows (for
// statements with a result) and the command tag.
func (s *Server) execute(p *prepared, bp *boundParams, tx *Tx) (*rowset, string, *PGError) {
	st := p.st
	tx.Stmts = append(tx.Stmts, st.sql)
	switch st.kind {
	case sEmpty:
		return nil, "", nil
	case sSet:
		return nil, "SET", nil
	case sCreateSchema:
		return nil, "CREATE SCHEMA", nil
	case sInsert:
		t, err := s.resolve(st.table)
		if err != nil {
			return nil, "", err
		}
		vals := make([]Value, len(t.Cols))
		for i, cn := range st.cols {
			ci := t.ColIdx(cn)
			if ci < 0 {
				return nil, "", pgErr("42703", "column %q of relation %q does not exist", cn, t.Name)
			}
			v, err := s.exprValue(t.Cols[ci].Type, st.values[i], bp)
			if err != nil {
				return nil, "", err
			}
			vals[ci] = v
		}
		s.notePair(t, vals, tx)
		if err := s.insertRow(t, vals, tx); err != nil {
			return nil, "", err
		}
		return nil, fmtTag("INSERT", 1), nil
	case sDelete:
		t, err := s.resolve(st.table)
		if err != nil {
			return nil, "", err
		}
		s.notePairConds(t, st.where, bp, tx)
		n := 0
		for _, r := range append([]*Row(nil), t.Rows...) {
			if !s.visible(r, tx) {
				continue
			}
			ok, err := s.rowMatches(t.Cols, r.Vals, st.where, bp)
			if err != nil {
				return nil, "", err
			}
			if !ok {
				continue
			}
			if err := s.deleteRow(t, r, tx); err != nil {
				return nil, "", err
			}
			n++
		}
		return nil, fmtTag("DELETE", n), nil
	case sSelect:
		if st.sel.from != nil {
			if t, err := s.resolve(*st.sel.from); err == nil {
				s.notePairConds(t, st.sel.where, bp, tx)
			}
		}
		rs, err := s.runSelect(st.sel, bp, tx)
		if err != nil {
			return nil, "", err
		}
		rs.cols = p.result
		return rs, fmtTag("SELECT", len(rs.rows)), nil
	case sCreateTable:
		schema := st.table.schema
		if schema == "" {
			schema = "public"
		}
		if schema != "public" && schema != "shovel" {
			return nil, "", pgErr("3F000", "schema %q does not exist", schema)
		}
		qn := schema + "." + st.table.name
		if _, ok := s.tables[qn]; ok {
			return nil, "CREATE TABLE", nil // IF NOT EXISTS: notice, no change
		}
		t := &Table{Schema: schema, Name: st.table.name}
		for _, cd := range st.coldefs {
			ty, err := lookupType(cd.typ)
			if err != nil {
				return nil, "", err
			}
			if t.ColIdx(cd.name) >= 0 {
				return nil, "", pgErr("42701", "column %q specified more than once", cd.name)
			}
			t.Cols = append(t.Cols, Col{cd.name, ty})
		}
		s.tables[qn] = t
		s.ddl++
		return nil, "CREATE TABLE", nil
	case sCreateIndex:
		t, err := s.resolve(st.table)
		if err != nil {
			return nil, "", err
		}
		// index names are unique per schema
		for _, ot := range s.tables {
			if ot.Schema != t.Schema {
				continue
			}
			for _, ix := range ot.Indexes {
				if ix.Name == st.indexName {
					return nil, "CREATE INDEX", nil // IF NOT EXISTS
				}
			}
		}
		ix := &Index{Name: st.indexName, Unique: st.unique}
		for _, cn := range st.indexCols {
			ci := t.ColIdx(cn)
			if ci < 0 {
				return nil, "", pgErr("42703", "column %q does not exist", cn)
			}
			ix.Cols = append(ix.Cols, ci)
		}
		if ix.Unique {
			// existing rows must satisfy it
			seen := map[string]bool{}
			for _, r := range t.Rows {
				if r.delSeq != 0 {
					continue
				}
				k, hasNull := "", false
				for _, ci := range ix.Cols {
					if r.Vals[ci] == nil {
						hasNull = true
					}
					k += valueString(r.Vals[ci]) + "\x00"
				}
				if hasNull {
					continue
				}
				if seen[k] {
					return nil, "", pgErr("23505", "could not create unique index %q", ix.Name)
				}
				seen[k] = true
			}
		}
		t.Indexes = append(t.Indexes, ix)
		s.ddl++
		return nil, "CREATE INDEX", nil
	case sAlterAddCol:
		t, err := s.resolve(st.table)
		if err != nil {
			return nil, "", err
		}
		cd := st.coldefs[0]
		if t.ColIdx(cd.name) >= 0 {
			return nil, "ALTER TABLE", nil
		}
		ty, err := lookupType(cd.typ)
		if err != nil {
			return nil, "", err
		}
		t.Cols = append(t.Cols, Col{cd.name, ty})
		for _, r := range t.Rows {
			r.Vals = append(cloneVals(r.Vals), nil)
		}
		s.ddl++
		return nil, "ALTER TABLE", nil
	case sNative:
		return s.execNative(p, bp, tx)
	}
	return nil, "", unsupported("executing %s", st.kind)
}

// notePair records which (src_name, ig_name) a transaction acts for.
func (s *Server) notePair(t *Table, vals []Value, tx *Tx) {
	if t.QName() != "shovel.task_updates" {
		return
	}
	if v, ok := vals[t.ColIdx("src_name")].(string); ok {
		tx.PairSrc = v
	}
	if v, ok := vals[t.ColIdx("ig_name")].(string); ok {
		tx.PairIG = v
	}
}

func (s *Server) notePairConds(t *Table, conds []cond, bp *boundParams, tx *Tx) {
	if t.QName() != "shovel.task_updates" {
		return
	}
	for _, c := range conds {
		if c.op != "=" || c.any {
			continue
		}
		ci := t.ColIdx(c.col)
		v, err := s.exprValue(t.Cols[ci].Type, c.rhs, bp)
		if err != nil {
			continue
		}
		if sv, ok := v.(string); ok {
			switch c.col {
			case "src_name":
				tx.PairSrc = sv
			case "ig_name":
				tx.PairIG = sv
			}
		}
	}
}

func (s *Server) execNative(p *prepared, bp *boundParams, tx *Tx) (*rowset, string, *PGError) {
	if p.st.lits != nil {
		bp = &boundParams{vals: p.st.lits}
	}
	switch p.st.native {
	case "current_database":
		return &rowset{cols: p.result, rows: [][]Value{{"verif"}}}, "SELECT 1", nil
	case "info_columns":
		name, _ := bp.vals[0].(string)
		rs := &rowset{cols: p.result}
		if t, ok := s.tables["public."+name]; ok {
			for _, c := range t.Cols {
				rs.rows = append(rs.rows, []Value{c.Name, c.Type.InfoName})
			}
		}
		return rs, fmtTag("SELECT", len(rs.rows)), nil
	case "prune_task":
		keep, _ := bp.vals[0].(int64)
		ps := p.st.prune
		t := s.tables["shovel.task_updates"]
		idx := func(cols []string) ([]int, *PGError) {
			var res []int
			for _, cn := range cols {
				ci := t.ColIdx(cn)
				if ci < 0 {
					return nil, pgErr("42703", "column %q does not exist", cn)
				}
				res = append(res, ci)
			}
			return res, nil
		}
		ti, err := idx(ps.tuple)
		if err != nil {
			return nil, "", err
		}
		si, err := idx(ps.sel)
		if err != nil {
			return nil, "", err
		}
		pi, err := idx(ps.part)
		if err != nil {
			return nil, "", err
		}
		oi, err := idx([]string{ps.order})
		if err != nil {
			return nil, "", err
		}
		var vis []*Row
		groups := map[string][]*Row{}
		for _, r := range t.Rows {
			if !s.visible(r, tx) {
				continue
			}
			vis = append(vis, r)
			k := ""
			for _, ci := range pi {
				k += valueString(r.Vals[ci]) + "\x00"
			}
			groups[k] = append(groups[k], r)
		}
		// rows kept by the sub-select (rn <=|< $1), as tuples of the selected columns
		keepSet := map[string]bool{}
		subHasNull := false
		for _, rows := range groups {
			sort.SliceStable(rows, func(a, b int) bool {
				va, vb := rows[a].Vals[oi[0]], rows[b].Vals[oi[0]]
				if va == nil || vb == nil {
					return vb == nil && va != nil == !ps.desc // NULLS LAST asc / FIRST desc
				}
				c, _ := compareValues(va, vb)
				if ps.desc {
					return c > 0
				}
				return c < 0
			})
			for i, r := range rows {
				rn := int64(i + 1)
				if rn < keep || (!ps.strict && rn == keep) {
					k := ""
					for _, ci := range si {
						if r.Vals[ci] == nil {
							subHasNull = true
						}
						k += valueString(r.Vals[ci]) + "\x00"
					}
					keepSet[k] = true
				}
			}
		}
		n := 0
		for _, r := range vis {
			k, hasNull := "", false
			for _, ci := range ti {
				if r.Vals[ci] == nil {
					hasNull = true
				}
				k += valueString(r.Vals[ci]) + "\x00"
			}
			// x NOT IN (…) is true only if x has no NULL member, matches nothing, and the list has no NULL member
			if hasNull || subHasNull || keepSet[k] {
				continue
			}
			if err := s.deleteRow(t, r, tx); err != nil {
				return nil, "", err
			}
			n++
		}
		return nil, fmtTag("DELETE", n), nil
	case "task_updates", "source_updates":
		t := s.tables["shovel.task_updates"]
		bySrc := p.st.native == "source_updates"
		si, ii, ni := t.ColIdx("src_name"), t.ColIdx("ig_name"), t.ColIdx("num")
		best := map[string]*Row{}
		var order []string
		for _, r := range t.Rows {
			if !s.visible(r, tx) {
				continue
			}
			k := valueString(r.Vals[si])
			if !bySrc {
				k += "\x00" + valueString(r.Vals[ii])
			}
			cur, ok := best[k]
			if !ok {
				order = append(order, k)
				best[k] = r
				continue
			}
			if c, ok := compareValues(r.Vals[ni], cur.Vals[ni]); ok && c > 0 {
				best[k] = r
			}
		}
		sort.Strings(order)
		rs := &rowset{cols: p.result}
		zero := func(v Value) Value {
			if v == nil {
				return new(big.Int)
			}
			return v
		}
		for _, k := range order {
			r := best[k]
			g := func(name string) Value { return r.Vals[t.ColIdx(name)] }
			if bySrc {
				rs.rows = append(rs.rows, []Value{g("src_name"), g("num"), g("hash"), g("src_num"), g("src_hash"), g("nblocks"), g("nrows"), g("latency")})
				continue
			}
			sh := g("src_hash")
			if sh == nil {
				sh = []byte{0}
			}
			lat := g("latency")
			if lat == nil {
				lat = pgtype.Interval{Valid: true}
			}
			rs.rows = append(rs.rows, []Value{g("src_name"), g("ig_name"), g("num"), zero(g("stop")), g("hash"), zero(g("src_num")), sh, zero(g("nblocks")), zero(g("nrows")), lat})
		}
		return rs, fmtTag("SELECT", len(rs.rows)), nil
	}
	return nil, "", unsupported("native shape %s", p.st.native)
}

// installSchema creates the shovel.* catalog that shovel's embedded migration
// script (shovel.Schema) produces on a real server. Idempotent.
func (s *Server) installSchema() {
	mk := func(name string, cols ...Col) *Table {
		qn := "shovel." + name
		if t, ok := s.tables[qn]; ok {
			return t
		}
		t := &Table{Schema: "shovel", Name: name, Cols: cols}
		s.tables[qn] = t
		return t
	}
	addIx := func(t *Table, name string, unique bool, cols ...string) {
		for _, ix := range t.Indexes {
			if ix.Name == name {
				return
			}
		}
		ix := &Index{Name: name, Unique: unique}
		for _, c := range cols {
			ix.Cols = append(ix.Cols, t.ColIdx(c))
		}
		t.Indexes = append(t.Indexes, ix)
	}
	mk("integrations", Col{"name", tText}, Col{"conf", tJSONB})
	igu := mk("ig_updates", Col{"name", tText}, Col{"src_name", tText}, Col{"backfill", tBool}, Col{"num", tNumeric}, Col{"latency", tInterval}, Col{"nrows", tNumeric}, Col{"stop", tNumeric})
	addIx(igu, "intg_name_src_name_backfill_num_idx", true, "name", "src_name", "backfill", "num")
	src := mk("sources", Col{"name", tText}, Col{"chain_id", tInt4}, Col{"url", tText})
	addIx(src, "sources_name_chain_id_idx", true, "name", "chain_id")
	addIx(src, "sources_name_idx", true, "name")
	tu := mk("task_updates", Col{"num", tNumeric}, Col{"hash", tBytea}, Col{"insert_at", tTimestamptz}, Col{"src_hash", tBytea}, Col{"src_num", tNumeric},
		Col{"nblocks", tNumeric}, Col{"nrows", tNumeric}, Col{"latency", tInterval}, Col{"src_name", tText}, Col{"stop", tNumeric}, Col{"chain_id", tInt4}, Col{"ig_name", tText})
	addIx(tu, "task_src_name_num_idx", true, "ig_name", "src_name", "num")
}

func normalizeSQL(sql string) string {
	return strings.Join(strings.Fields(sql), " ")
}
