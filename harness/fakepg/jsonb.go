package fakepg

import (
	"bytes"
	"encoding/json"
	"fmt"
	"io"
	"sort"
	"strings"
)

// normalizeJSONB renders a JSON document the way jsonb stores and prints it:
// insignificant white space is gone, of several members with the same key the
// last one stays, and the members of an object are ordered by key length, then
// bytewise (PostgreSQL documentation, 8.14 "JSON Types"). Numbers keep their
// text. Invalid JSON is an error (22P02 at the caller).
func normalizeJSONB(src []byte) (string, error) {
	dec := json.NewDecoder(bytes.NewReader(src))
	dec.UseNumber()
	var sb strings.Builder
	if err := jsonbValue(dec, &sb); err != nil {
		return "", err
	}
	if _, err := dec.Token(); err != io.EOF {
		return "", fmt.Errorf("trailing data after JSON value")
	}
	return sb.String(), nil
}

func jsonbValue(dec *json.Decoder, sb *strings.Builder) error {
	tok, err := dec.Token()
	if err != nil {
		return err
	}
	switch t := tok.(type) {
	case json.Delim:
		switch t {
		case '{':
			type member struct{ k, v string }
			last := map[string]string{}
			for dec.More() {
				kt, err := dec.Token()
				if err != nil {
					return err
				}
				k, ok := kt.(string)
				if !ok {
					return fmt.Errorf("object key is %T", kt)
				}
				var vb strings.Builder
				if err := jsonbValue(dec, &vb); err != nil {
					return err
				}
				last[k] = vb.String()
			}
			if _, err := dec.Token(); err != nil { // '}'
				return err
			}
			ms := make([]member, 0, len(last))
			for k, v := range last {
				ms = append(ms, member{k, v})
			}
			sort.Slice(ms, func(i, j int) bool {
				if len(ms[i].k) != len(ms[j].k) {
					return len(ms[i].k) < len(ms[j].k)
				}
				return ms[i].k < ms[j].k
			})
			sb.WriteByte('{')
			for i, m := range ms {
				if i > 0 {
					sb.WriteString(", ")
				}
				kb, _ := json.Marshal(m.k)
				sb.Write(kb)
				sb.WriteString(": ")
				sb.WriteString(m.v)
			}
			sb.WriteByte('}')
		case '[':
			sb.WriteByte('[')
			for i := 0; dec.More(); i++ {
				if i > 0 {
					sb.WriteString(", ")
				}
				if err := jsonbValue(dec, sb); err != nil {
					return err
				}
			}
			if _, err := dec.Token(); err != nil { // ']'
				return err
			}
			sb.WriteByte(']')
		default:
			return fmt.Errorf("unexpected %v", t)
		}
	case string:
		b, _ := json.Marshal(t)
		sb.Write(b)
	case json.Number:
		sb.WriteString(t.String())
	case bool:
		if t {
			sb.WriteString("true")
		} else {
			sb.WriteString("false")
		}
	case nil:
		sb.WriteString("null")
	default:
		return fmt.Errorf("unexpected token %T", tok)
	}
	return nil
}
