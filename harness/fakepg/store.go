package fakepg

import (
	"bytes"
	"fmt"
	"math/big"
	"sort"
	"strings"
	"time"
	"unicode/utf8"

	"github.com/jackc/pgx/v5/pgtype"
)

// Value of a cell: nil (NULL), string (text, jsonb), []byte (bytea), *big.Int
// (numeric), int64 (int2/4/8), bool, pgtype.Interval, time.Time.
type Value = any

type Type struct {
	Name     string // canonical
	OID      uint32
	InfoName string // information_schema.columns.data_type
	ArrayOID uint32
}

var (
	tText        = &Type{"text", pgtype.TextOID, "text", pgtype.TextArrayOID}
	tBytea       = &Type{"bytea", pgtype.ByteaOID, "bytea", pgtype.ByteaArrayOID}
	tNumeric     = &Type{"numeric", pgtype.NumericOID, "numeric", pgtype.NumericArrayOID}
	tInt2        = &Type{"int2", pgtype.Int2OID, "smallint", pgtype.Int2ArrayOID}
	tInt4        = &Type{"int4", pgtype.Int4OID, "integer", pgtype.Int4ArrayOID}
	tInt8        = &Type{"int8", pgtype.Int8OID, "bigint", pgtype.Int8ArrayOID}
	tBool        = &Type{"bool", pgtype.BoolOID, "boolean", pgtype.BoolArrayOID}
	tTimestamptz = &Type{"timestamptz", pgtype.TimestamptzOID, "timestamp with time zone", pgtype.TimestamptzArrayOID}
	tInterval    = &Type{"interval", pgtype.IntervalOID, "interval", pgtype.IntervalArrayOID}
	tJSONB       = &Type{"jsonb", pgtype.JSONBOID, "jsonb", pgtype.JSONBArrayOID}
	tVoid        = &Type{"void", 2278, "void", 0}
)

var typeNames = map[string]*Type{
	"text": tText, "varchar": tText, "character varying": tText,
	"bytea":   tBytea,
	"numeric": tNumeric, "decimal": tNumeric,
	"int2": tInt2, "smallint": tInt2,
	"int": tInt4, "int4": tInt4, "integer": tInt4,
	"int8": tInt8, "bigint": tInt8,
	"bool": tBool, "boolean": tBool,
	"timestamptz": tTimestamptz, "timestamp with time zone": tTimestamptz,
	"interval": tInterval,
	"jsonb":    tJSONB,
}

func lookupType(name string) (*Type, *PGError) {
	if t, ok := typeNames[name]; ok {
		return t, nil
	}
	return nil, pgErr("42704", "type %q does not exist", name)
}

type Col struct {
	Name string
	Type *Type
}

type Index struct {
	Name   string
	Unique bool
	Cols   []int
}

type Row struct {
	ID   uint64
	Vals []Value
	xmin uint64 // creating transaction; 0 once committed
	xmax uint64 // deleting transaction in progress; 0 = none
	// insSeq / delSeq: the commit that made the row visible / removed it. A removed row is kept (delSeq != 0) only
	// while a transaction with a snapshot (REPEATABLE READ) is open; nobody else sees it.
	insSeq, delSeq uint64
}

type Table struct {
	Schema  string
	Name    string
	Cols    []Col
	Indexes []*Index
	Rows    []*Row
}

func (t *Table) QName() string { return t.Schema + "." + t.Name }

func (t *Table) ColIdx(name string) int {
	for i := range t.Cols {
		if t.Cols[i].Name == name {
			return i
		}
	}
	return -1
}

func (t *Table) ColNames() []string {
	var ns []string
	for _, c := range t.Cols {
		ns = append(ns, c.Name)
	}
	return ns
}

// EffectKind: a row inserted or deleted by a transaction.
type EffectKind int

const (
	EffInsert EffectKind = iota
	EffDelete
)

type Effect struct {
	Kind  EffectKind
	Table *Table
	Row   *Row
}

// Tx is one transaction (explicit or implicit).
type Tx struct {
	ID       uint64
	ConnID   int
	Explicit bool
	Failed   bool
	Effects  []Effect
	Stmts    []string // texts of the statements executed in it
	Notifies []Notify
	// Snapshot: the session asked for REPEATABLE READ (or SERIALIZABLE): the transaction sees the state committed
	// when its first statement ran (snap), plus its own changes.
	Snapshot bool
	snapSet  bool
	snap     uint64
	// Pair is (src_name, ig_name) taken from the parameters of the task_updates
	// statements of this transaction (the pair the transaction is acting for).
	PairSrc, PairIG string
}

type Notify struct {
	Channel, Payload string
}

// Observer callbacks run while the store lock is held, i.e. atomically with
// the state change they describe.
type Observer interface {
	OnCommit(s *Server, tx *Tx, seq uint64)
	OnAbort(s *Server, tx *Tx, reason string)
}

func cloneVals(v []Value) []Value { return append([]Value(nil), v...) }

func valueString(v Value) string {
	switch x := v.(type) {
	case nil:
		return "NULL"
	case string:
		return fmt.Sprintf("%q", x)
	case []byte:
		return fmt.Sprintf("\\x%x", x)
	case *big.Int:
		return x.String()
	case int64:
		return fmt.Sprint(x)
	case bool:
		return fmt.Sprint(x)
	case pgtype.Interval:
		return fmt.Sprintf("interval(%dus)", x.Microseconds)
	case time.Time:
		return x.UTC().Format(time.RFC3339Nano)
	}
	return fmt.Sprintf("%v", v)
}

// ValueString renders a cell for reports.
func ValueString(v Value) string { return valueString(v) }

func compareValues(a, b Value) (int, bool) {
	if a == nil || b == nil {
		return 0, false
	}
	switch x := a.(type) {
	case string:
		y, ok := b.(string)
		if !ok {
			return 0, false
		}
		return strings.Compare(x, y), true
	case []byte:
		y, ok := b.([]byte)
		if !ok {
			return 0, false
		}
		return bytes.Compare(x, y), true
	case *big.Int:
		switch y := b.(type) {
		case *big.Int:
			return x.Cmp(y), true
		case int64:
			return x.Cmp(big.NewInt(y)), true
		}
		return 0, false
	case int64:
		switch y := b.(type) {
		case int64:
			switch {
			case x < y:
				return -1, true
			case x > y:
				return 1, true
			}
			return 0, true
		case *big.Int:
			return big.NewInt(x).Cmp(y), true
		}
		return 0, false
	case bool:
		y, ok := b.(bool)
		if !ok {
			return 0, false
		}
		switch {
		case x == y:
			return 0, true
		case !x:
			return -1, true
		}
		return 1, true
	}
	return 0, false
}

func valuesEqual(a, b Value) bool {
	c, ok := compareValues(a, b)
	return ok && c == 0
}

// ---- store operations (all called with Server.mu held)

func (s *Server) resolve(tr tableRef) (*Table, *PGError) {
	if tr.schema != "" {
		if t, ok := s.tables[tr.schema+"."+tr.name]; ok {
			return t, nil
		}
		return nil, pgErr("42P01", "relation %q does not exist", tr.String())
	}
	if t, ok := s.tables["public."+tr.name]; ok {
		return t, nil
	}
	return nil, pgErr("42P01", "relation %q does not exist", tr.name)
}

func (s *Server) visible(r *Row, tx *Tx) bool {
	if r.xmin != 0 && (tx == nil || r.xmin != tx.ID) {
		return false // created by another in-progress transaction
	}
	if tx != nil && tx.Snapshot && tx.snapSet {
		if r.xmin == 0 && r.insSeq > tx.snap {
			return false // committed after the snapshot
		}
		if r.delSeq != 0 && r.delSeq <= tx.snap {
			return false // removed before the snapshot
		}
	} else if r.delSeq != 0 {
		return false // removed; kept only for open snapshots
	}
	if r.xmax != 0 && tx != nil && r.xmax == tx.ID {
		return false // deleted by this transaction
	}
	return true
}

// checkUnique reports a 23505 if vals collides with a committed or in-flight row.
func (s *Server) checkUnique(t *Table, vals []Value, tx *Tx) *PGError {
	for _, ix := range t.Indexes {
		if !ix.Unique {
			continue
		}
		hasNull := false
		for _, ci := range ix.Cols {
			if vals[ci] == nil {
				hasNull = true
				break
			}
		}
		if hasNull {
			continue // NULLs are distinct
		}
		for _, r := range t.Rows {
			if r.xmax != 0 && r.xmax == tx.ID {
				continue // deleted by us
			}
			if r.delSeq != 0 {
				continue // removed by a committed transaction
			}
			same := true
			for _, ci := range ix.Cols {
				if !valuesEqual(r.Vals[ci], vals[ci]) {
					same = false
					break
				}
			}
			if same {
				var ks []string
				for _, ci := range ix.Cols {
					ks = append(ks, t.Cols[ci].Name+"="+valueString(vals[ci]))
				}
				return pgErr("23505", "duplicate key value violates unique constraint %q (%s)", ix.Name, strings.Join(ks, ", "))
			}
		}
	}
	return nil
}

func (s *Server) insertRow(t *Table, vals []Value, tx *Tx) *PGError {
	if err := s.checkUnique(t, vals, tx); err != nil {
		return err
	}
	s.nextRow++
	r := &Row{ID: s.nextRow, Vals: vals, xmin: tx.ID}
	t.Rows = append(t.Rows, r)
	tx.Effects = append(tx.Effects, Effect{EffInsert, t, r})
	return nil
}

func (s *Server) deleteRow(t *Table, r *Row, tx *Tx) *PGError {
	if r.delSeq != 0 {
		return pgErr("40001", "could not serialize access due to concurrent update")
	}
	if r.xmax != 0 && r.xmax != tx.ID {
		return pgErr("40001", "verif: row of %s is being deleted by a concurrent transaction (real PostgreSQL would block here)", t.QName())
	}
	r.xmax = tx.ID
	tx.Effects = append(tx.Effects, Effect{EffDelete, t, r})
	return nil
}

func (s *Server) commitTx(tx *Tx) {
	touched := map[*Table]bool{}
	for _, e := range tx.Effects {
		touched[e.Table] = true
	}
	if tx.Snapshot {
		s.snapshotTxs--
	}
	for t := range touched {
		rows := t.Rows[:0:0]
		for _, r := range t.Rows {
			if r.xmax == tx.ID {
				if s.snapshotTxs == 0 {
					continue // delete becomes permanent
				}
				r.xmax, r.delSeq = 0, s.commitSeq+1 // an open snapshot may still see it
			}
			if r.delSeq != 0 && s.snapshotTxs == 0 {
				continue
			}
			if r.xmin == tx.ID {
				r.xmin, r.insSeq = 0, s.commitSeq+1
			}
			rows = append(rows, r)
		}
		t.Rows = rows
	}
	s.commitSeq++
	s.commits++
	for _, n := range tx.Notifies {
		s.notifies = append(s.notifies, n)
	}
	if s.obs != nil {
		s.obs.OnCommit(s, tx, s.commitSeq)
	}
}

func (s *Server) abortTx(tx *Tx, reason string) {
	if tx.Snapshot {
		s.snapshotTxs--
	}
	touched := map[*Table]bool{}
	for _, e := range tx.Effects {
		touched[e.Table] = true
	}
	for t := range touched {
		rows := t.Rows[:0:0]
		for _, r := range t.Rows {
			if r.xmin == tx.ID {
				continue
			}
			if r.xmax == tx.ID {
				r.xmax = 0
			}
			rows = append(rows, r)
		}
		t.Rows = rows
	}
	s.aborts++
	if s.obs != nil {
		s.obs.OnAbort(s, tx, reason)
	}
}

// CommittedRows returns the committed rows of a table (call from an observer
// callback, or via Server.Read from outside).
func (s *Server) CommittedRows(qname string) []*Row {
	t := s.tables[QName63(qname)]
	if t == nil {
		return nil
	}
	var rows []*Row
	for _, r := range t.Rows {
		if r.xmin == 0 && r.delSeq == 0 {
			rows = append(rows, r)
		}
	}
	return rows
}

func (s *Server) TableByName(qname string) *Table { return s.tables[QName63(qname)] }

func (s *Server) TableNames() []string {
	var ns []string
	for n := range s.tables {
		ns = append(ns, n)
	}
	sort.Strings(ns)
	return ns
}

// ---- snapshot / restore (values)

type Snapshot struct {
	tables  map[string]*Table
	nextRow uint64
}

// Snapshot copies the committed state. Rows are immutable once committed, so
// row structs are shared between snapshots.
func (s *Server) Snapshot() *Snapshot {
	s.mu.Lock()
	defer s.mu.Unlock()
	return s.snapshotLocked()
}

// SnapshotLocked is Snapshot for observer callbacks (store lock already held).
func (s *Server) SnapshotLocked() *Snapshot { return s.snapshotLocked() }

func (s *Server) snapshotLocked() *Snapshot {
	sn := &Snapshot{tables: map[string]*Table{}, nextRow: s.nextRow}
	for n, t := range s.tables {
		ct := &Table{Schema: t.Schema, Name: t.Name, Cols: append([]Col(nil), t.Cols...)}
		for _, ix := range t.Indexes {
			ct.Indexes = append(ct.Indexes, &Index{Name: ix.Name, Unique: ix.Unique, Cols: append([]int(nil), ix.Cols...)})
		}
		for _, r := range t.Rows {
			if r.xmin == 0 && r.delSeq == 0 {
				ct.Rows = append(ct.Rows, &Row{ID: r.ID, Vals: r.Vals})
			}
		}
		sn.tables[n] = ct
	}
	return sn
}

// Restore replaces the store by a snapshot; all connections are dropped first.
func (s *Server) Restore(sn *Snapshot) {
	s.KillAll()
	s.mu.Lock()
	defer s.mu.Unlock()
	s.tables = map[string]*Table{}
	for n, t := range sn.tables {
		ct := &Table{Schema: t.Schema, Name: t.Name, Cols: append([]Col(nil), t.Cols...)}
		for _, ix := range t.Indexes {
			ct.Indexes = append(ct.Indexes, &Index{Name: ix.Name, Unique: ix.Unique, Cols: append([]int(nil), ix.Cols...)})
		}
		for _, r := range t.Rows {
			ct.Rows = append(ct.Rows, &Row{ID: r.ID, Vals: r.Vals})
		}
		s.tables[n] = ct
	}
	if sn.nextRow > s.nextRow {
		s.nextRow = sn.nextRow
	}
}

func (sn *Snapshot) Rows(qname string) []*Row {
	if t := sn.tables[qname]; t != nil {
		return t.Rows
	}
	return nil
}

func (sn *Snapshot) Table(qname string) *Table { return sn.tables[qname] }

func validText(s string) *PGError {
	if !utf8.ValidString(s) {
		return pgErr("22021", "invalid byte sequence for encoding \"UTF8\"")
	}
	if strings.IndexByte(s, 0) >= 0 {
		return pgErr("22021", "invalid byte sequence for encoding \"UTF8\": 0x00")
	}
	return nil
}
