package fakepg

import "testing"

func TestNormalizeJSONB(t *testing.T) {
	got, err := normalizeJSONB([]byte(`{"name":"x", "NAME":"y", "b":1, "aa":[1, {"z":null,"y":true}], "name":"last"}`))
	if err != nil {
		t.Fatal(err)
	}
	want := `{"b": 1, "aa": [1, {"y": true, "z": null}], "NAME": "y", "name": "last"}`
	if got != want {
		t.Fatalf("got  %s\nwant %s", got, want)
	}
	if _, err := normalizeJSONB([]byte(`{"a":1} x`)); err == nil {
		t.Fatal("trailing data accepted")
	}
}
