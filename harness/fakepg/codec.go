package fakepg

import (
	"fmt"
	"math/big"
	"strconv"
	"time"

	"github.com/jackc/pgx/v5/pgtype"
)


func numericToBig(n pgtype.Numeric) (*big.Int, *PGError) {
	if !n.Valid {
		return nil, nil
	}
	if n.NaN || n.InfinityModifier != 0 {
		return nil, unsupported("numeric NaN/Infinity")
	}
	x := new(big.Int).Set(n.Int)
	switch {
	case n.Exp > 0:
		x.Mul(x, new(big.Int).Exp(big.NewInt(10), big.NewInt(int64(n.Exp)), nil))
	case n.Exp < 0:
		d := new(big.Int).Exp(big.NewInt(10), big.NewInt(int64(-n.Exp)), nil)
		q, r := new(big.Int).QuoRem(x, d, new(big.Int))
		if r.Sign() != 0 {
			return nil, unsupported("numeric with a fractional part")
		}
		x = q
	}
	return x, nil
}

// decodeValue turns a wire value (text or binary format) into a store value.
func decodeValue(tmap *pgtype.Map, t *Type, format int16, src []byte) (Value, *PGError) {
	if src == nil {
		return nil, nil
	}
	bad := func(err error) *PGError {
		return pgErr("22P02", "invalid input for type %s: %v", t.Name, err)
	}
	switch t {
	case tText:
		s := string(src)
		if err := validText(s); err != nil {
			return nil, err
		}
		return s, nil
	case tJSONB:
		var b []byte
		if err := tmap.Scan(t.OID, format, src, &b); err != nil {
			return nil, bad(err)
		}
		norm, err := normalizeJSONB(b)
		if err != nil {
			return nil, bad(err)
		}
		return norm, nil
	case tBytea:
		var b []byte
		if err := tmap.Scan(t.OID, format, src, &b); err != nil {
			return nil, bad(err)
		}
		return append([]byte{}, b...), nil
	case tNumeric:
		var n pgtype.Numeric
		if err := tmap.Scan(t.OID, format, src, &n); err != nil {
			return nil, bad(err)
		}
		return numericToBig(n)
	case tInt2, tInt4, tInt8:
		var v int64
		if err := tmap.Scan(t.OID, format, src, &v); err != nil {
			return nil, bad(err)
		}
		return v, nil
	case tBool:
		var v bool
		if err := tmap.Scan(t.OID, format, src, &v); err != nil {
			return nil, bad(err)
		}
		return v, nil
	case tInterval:
		var v pgtype.Interval
		if err := tmap.Scan(t.OID, format, src, &v); err != nil {
			return nil, bad(err)
		}
		return v, nil
	case tTimestamptz:
		var v time.Time
		if err := tmap.Scan(t.OID, format, src, &v); err != nil {
			return nil, bad(err)
		}
		return v, nil
	}
	return nil, unsupported("decoding type %s", t.Name)
}

// decodeArray decodes an array parameter of element type t.
func decodeArray(tmap *pgtype.Map, t *Type, format int16, src []byte) ([]Value, *PGError) {
	if src == nil {
		return nil, nil
	}
	switch t {
	case tText:
		var xs []string
		if err := tmap.Scan(t.ArrayOID, format, src, &xs); err != nil {
			return nil, pgErr("22P02", "invalid array input: %v", err)
		}
		var vs []Value
		for _, x := range xs {
			vs = append(vs, x)
		}
		return vs, nil
	case tBytea:
		var xs [][]byte
		if err := tmap.Scan(t.ArrayOID, format, src, &xs); err != nil {
			return nil, pgErr("22P02", "invalid array input: %v", err)
		}
		var vs []Value
		for _, x := range xs {
			vs = append(vs, x)
		}
		return vs, nil
	}
	return nil, unsupported("array of %s", t.Name)
}

// encodeValue renders a store value in the requested wire format.
func encodeValue(tmap *pgtype.Map, t *Type, format int16, v Value) ([]byte, *PGError) {
	if v == nil {
		return nil, nil
	}
	var arg any = v
	switch x := v.(type) {
	case *big.Int:
		switch t {
		case tNumeric:
			arg = pgtype.Numeric{Int: x, Valid: true}
		default:
			arg = x.Int64()
		}
	case int64:
		if t == tNumeric {
			arg = pgtype.Numeric{Int: big.NewInt(x), Valid: true}
		}
	case string:
		if t == tJSONB {
			arg = []byte(x)
		}
	}
	if t == tVoid {
		return []byte{}, nil
	}
	buf, err := tmap.Encode(t.OID, format, arg, nil)
	if err != nil {
		return nil, unsupported("encoding %T as %s: %v", v, t.Name, err)
	}
	if buf == nil {
		buf = []byte{}
	}
	return buf, nil
}

// literalValue converts a SQL literal to a value of type t.
func literalValue(tmap *pgtype.Map, t *Type, e expr) (Value, *PGError) {
	switch e.kind {
	case eNull:
		return nil, nil
	case eBool:
		if t != tBool {
			return nil, pgErr("42804", "boolean literal for column of type %s", t.Name)
		}
		return e.b, nil
	case eString:
		return decodeValue(tmap, t, 0, []byte(e.str))
	case eNumber:
		switch t {
		case tInt2, tInt4, tInt8:
			v, err := strconv.ParseInt(e.str, 10, 64)
			if err != nil {
				return nil, pgErr("22P02", "invalid integer %q", e.str)
			}
			return v, nil
		case tNumeric:
			x, ok := new(big.Int).SetString(e.str, 10)
			if !ok {
				return nil, unsupported("non-integer numeric literal %q", e.str)
			}
			return x, nil
		}
		return nil, pgErr("42804", "numeric literal for column of type %s", t.Name)
	}
	return nil, unsupported("literal kind %d", e.kind)
}

func fmtTag(verb string, n int) string {
	switch verb {
	case "INSERT":
		return fmt.Sprintf("INSERT 0 %d", n)
	}
	return fmt.Sprintf("%s %d", verb, n)
}
