// Package scen runs scenarios: configuration JSON → ValidateFix → Migrate on
// fakepg → production-wired tasks (VerifLoadTasks hook) → steps, with a
// recorder attached to every commit boundary and to the simulated node.
package scen

import (
	"bytes"
	"context"
	"encoding/json"
	"fmt"
	"runtime/debug"
	"sync"

	"github.com/indexsupply/shovel/shovel"
	"github.com/indexsupply/shovel/shovel/config"
	"github.com/indexsupply/shovel/wpg"
	"github.com/jackc/pgx/v5/pgxpool"

	"verif/harness/fakepg"
	"verif/harness/model"
	"verif/harness/simnode"
)

type SourceSpec struct {
	Name        string
	ChainID     uint64
	Batch       int
	Concurrency int
	Poll        string // poll_duration; "1h" keeps the head poller silent
	Node        *simnode.Node
	URLTag      string
}

type Spec struct {
	Sources   []SourceSpec
	Decls     []*model.Decl
	Dashboard map[string]any
	// PGParams is appended to the database URL (pg_url of the file and the pool the process opens), e.g.
	// "&statement_cache_capacity=0" for a deployment behind a transaction pooler
	PGParams string
}

func (sp *Spec) Source(name string) *SourceSpec {
	for i := range sp.Sources {
		if sp.Sources[i].Name == name {
			return &sp.Sources[i]
		}
	}
	return nil
}

func (sp *Spec) Decl(name string) *model.Decl {
	for _, d := range sp.Decls {
		if d.Name == name {
			return d
		}
	}
	return nil
}

// ConfigJSON renders the whole configuration file.
func (sp *Spec) ConfigJSON(pgurl string) []byte {
	var srcs, igs []any
	for _, s := range sp.Sources {
		m := map[string]any{"name": s.Name, "chain_id": s.ChainID, "url": s.Node.URL(s.URLTag)}
		if s.Poll != "" {
			m["poll_duration"] = s.Poll
		}
		if s.Batch > 0 {
			m["batch_size"] = s.Batch
		}
		if s.Concurrency > 0 {
			m["concurrency"] = s.Concurrency
		}
		srcs = append(srcs, m)
	}
	for _, d := range sp.Decls {
		igs = append(igs, d.ConfigJSON())
	}
	root := map[string]any{"pg_url": pgurl, "eth_sources": srcs, "integrations": igs}
	if sp.Dashboard != nil {
		root["dashboard"] = sp.Dashboard
	}
	b, err := json.Marshal(root)
	if err != nil {
		panic(err)
	}
	return b
}

// CommitRec is one commit boundary: the committing transaction and the
// committed state right after it (what another session could observe).
type CommitRec struct {
	Seq     uint64
	Tx      *fakepg.Tx
	Snap    *fakepg.Snapshot
	Aborted bool
	Reason  string
}

// Recorder implements fakepg.Observer.
type Recorder struct {
	mu       sync.Mutex
	recs     []CommitRec
	snapshot bool
}

func (r *Recorder) OnCommit(s *fakepg.Server, tx *fakepg.Tx, seq uint64) {
	rec := CommitRec{Seq: seq, Tx: tx}
	if r.snapshot && len(tx.Effects) > 0 {
		rec.Snap = s.SnapshotLocked()
	}
	r.mu.Lock()
	r.recs = append(r.recs, rec)
	r.mu.Unlock()
}

func (r *Recorder) OnAbort(s *fakepg.Server, tx *fakepg.Tx, reason string) {
	r.mu.Lock()
	r.recs = append(r.recs, CommitRec{Tx: tx, Aborted: true, Reason: reason})
	r.mu.Unlock()
}

func (r *Recorder) Take() []CommitRec {
	r.mu.Lock()
	defer r.mu.Unlock()
	x := r.recs
	r.recs = nil
	return x
}

type Env struct {
	Spec     *Spec
	PG       *fakepg.Server
	Pool     *pgxpool.Pool
	Conf     config.Root
	ConfJSON []byte
	Tasks    []*shovel.Task
	Rec      *Recorder
	Ctx      context.Context

	SetupErr   error  // configuration rejected / migration failed
	SetupStage string // where
}

// New builds the environment up to loaded tasks. A configuration that shovel
// rejects is not an error of New: see Env.SetupErr.
func New(spec *Spec, snapshots bool) (*Env, error) {
	pg, err := fakepg.New()
	if err != nil {
		return nil, err
	}
	pg.SetSchemaScript(shovel.Schema)
	e := &Env{Spec: spec, PG: pg, Rec: &Recorder{snapshot: snapshots}, Ctx: context.Background()}
	pg.SetObserver(e.Rec)
	e.ConfJSON = spec.ConfigJSON(e.PGURL())
	if err := e.openPool(); err != nil {
		pg.Close()
		return nil, err
	}
	e.Boot()
	return e, nil
}

// PGURL is the database URL the process under test is given.
func (e *Env) PGURL() string { return e.PG.URL() + e.Spec.PGParams }

func (e *Env) openPool() error {
	pool, err := wpg.NewPool(e.Ctx, e.PGURL())
	if err != nil {
		return err
	}
	e.Pool = pool
	return nil
}

// Boot does what cmd/shovel's main does at start-up: decode the file,
// ValidateFix, migrate inside one transaction, load tasks.
func (e *Env) Boot() {
	e.SetupErr, e.SetupStage = nil, ""
	e.Tasks = nil
	var conf config.Root
	if err := json.NewDecoder(bytes.NewReader(e.ConfJSON)).Decode(&conf); err != nil {
		e.SetupErr, e.SetupStage = err, "decode"
		return
	}
	if err := config.ValidateFix(&conf); err != nil {
		e.SetupErr, e.SetupStage = err, "validate"
		return
	}
	e.Conf = conf
	tx, err := e.Pool.Begin(e.Ctx)
	if err != nil {
		e.SetupErr, e.SetupStage = err, "migrate-begin"
		return
	}
	if _, err := tx.Exec(e.Ctx, "select pg_advisory_xact_lock($1)", wpg.LockHash("main.migrate")); err != nil {
		tx.Rollback(e.Ctx)
		e.SetupErr, e.SetupStage = err, "migrate-lock"
		return
	}
	if _, err := tx.Exec(e.Ctx, shovel.Schema); err != nil {
		tx.Rollback(e.Ctx)
		e.SetupErr, e.SetupStage = err, "migrate-schema"
		return
	}
	if err := config.Migrate(e.Ctx, tx, conf); err != nil {
		tx.Rollback(e.Ctx)
		e.SetupErr, e.SetupStage = err, "migrate"
		return
	}
	if err := tx.Commit(e.Ctx); err != nil {
		e.SetupErr, e.SetupStage = err, "migrate-commit"
		return
	}
	tasks, err := shovel.VerifLoadTasks(e.Ctx, e.Pool, conf)
	if err != nil {
		e.SetupErr, e.SetupStage = err, "load-tasks"
		return
	}
	e.Tasks = tasks
}

// Task finds the task of a (source, integration) pair.
func (e *Env) Task(src, ig string) *shovel.Task {
	for _, t := range e.Tasks {
		in := t.VerifInfo()
		if in.SrcName == src && in.IGName == ig {
			return t
		}
	}
	return nil
}

// StepResult is what one Converge call did, as seen at the boundaries.
type StepResult struct {
	Err     error
	Panic   string
	Commits []CommitRec
	Served  []simnode.Served
	Ops     []fakepg.Op
}

// Step runs one Converge of t and collects what the monitors recorded.
func (e *Env) Step(t *shovel.Task) *StepResult {
	in := t.VerifInfo()
	node := e.Spec.Source(in.SrcName).Node
	node.ResetStep()
	node.TakeLog()
	e.PG.ResetOps()
	e.Rec.Take()
	res := &StepResult{}
	func() {
		defer func() {
			if r := recover(); r != nil {
				res.Panic = fmt.Sprintf("%v\n%s", r, debug.Stack())
			}
		}()
		res.Err = t.Converge()
	}()
	res.Commits = e.Rec.Take()
	res.Served = node.TakeLog()
	res.Ops = e.PG.OpLog()
	return res
}

// Crash emulates process death: every database connection is dropped, all
// in-memory state (pool, clients, tasks) is discarded, and the process boots
// again from the same configuration file.
func (e *Env) Crash() {
	e.PG.KillAll()
	e.Pool.Close()
	e.Tasks = nil
	if err := e.openPool(); err != nil {
		e.SetupErr, e.SetupStage = err, "reopen-pool"
		return
	}
	e.Boot()
}

// Reconfigure changes the specification (e.g. a source's batch size) and re-renders the configuration file; the
// next Crash/Boot starts the process with it, over the same database.
func (e *Env) Reconfigure(f func(sp *Spec)) {
	f(e.Spec)
	e.ConfJSON = e.Spec.ConfigJSON(e.PGURL())
}

func (e *Env) Close() {
	if e.Pool != nil {
		e.Pool.Close()
	}
	e.PG.Close()
	for _, s := range e.Spec.Sources {
		s.Node.Retire()
	}
}
