package scen

import (
	"context"
	"fmt"
	"runtime/debug"

	"github.com/indexsupply/shovel/shovel"

	"verif/harness/fakepg"
)

// newUnbooted does the first half of New: server, observer, pool.
func newUnbooted(spec *Spec, snapshots bool) (*Env, error) {
	pg, err := fakepg.New()
	if err != nil {
		return nil, err
	}
	pg.SetSchemaScript(shovel.Schema)
	e := &Env{Spec: spec, PG: pg, Rec: &Recorder{snapshot: snapshots}, Ctx: context.Background()}
	pg.SetObserver(e.Rec)
	if err := e.openPool(); err != nil {
		pg.Close()
		return nil, err
	}
	return e, nil
}

// NewRaw builds an environment whose configuration file is given as JSON text
// instead of being rendered from spec.Decls (C15 plants strings at arbitrary
// positions of the tree; C16 removes columns). spec still lists the sources
// whose nodes the scenario steps and retires. pre, when not nil, runs after the
// pool is open and before Boot (e.g. to create tables that exist before shovel
// starts). A panic inside Boot is reported as SetupErr at stage "panic:<stage>".
func NewRaw(spec *Spec, conf func(pgurl string) []byte, snapshots bool, pre func(*Env) error) (*Env, error) {
	e, err := newUnbooted(spec, snapshots)
	if err != nil {
		return nil, err
	}
	e.ConfJSON = conf(e.PGURL())
	if pre != nil {
		if err := pre(e); err != nil {
			e.Close()
			return nil, fmt.Errorf("pre-boot hook: %w", err)
		}
	}
	e.BootRecover()
	return e, nil
}

// BootRecover is Boot with panic recovery.
func (e *Env) BootRecover() {
	defer func() {
		if r := recover(); r != nil {
			e.SetupErr = fmt.Errorf("panic: %v\n%s", r, debug.Stack())
			e.SetupStage = "panic"
		}
	}()
	e.Boot()
}
