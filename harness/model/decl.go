// Package model is the harness-side description of integrations (declarations)
// and the independent projection "chain × declaration → typed rows" that the
// pipeline monitors compare the database with. It does not import shovel's
// row-building code; expected values are computed from the simulated chain's
// own data and from refmodel (own ABI encoder / Keccak).
package model

import (
	"bytes"
	"fmt"
	"math/big"
	"sort"
	"strconv"
	"strings"

	"verif/harness/fakepg"
	"verif/harness/refmodel"
	"verif/harness/simnode"
)

type Mode int

const (
	ModeTx Mode = iota
	ModeLog
	ModeTrace
)

func (m Mode) String() string { return [...]string{"tx", "log", "trace"}[m] }

type Ref struct {
	Integration string
	Column      string
}

// Filter on one field.
type Filter struct {
	Op  string   // contains !contains eq ne gt lt ; "" = none
	Arg []string // as written in the configuration
	Ref *Ref
}

func (f Filter) Active() bool { return f.Ref != nil || len(f.Arg) > 0 }

type BlockField struct {
	Name    string
	Column  string
	ColType string
	Filter  Filter
}

type SrcRef struct {
	Name        string
	Start, Stop uint64
	// Padded: start and stop are written as decimal strings with a leading zero ("0120"), as a templating tool or an
	// environment variable may deliver them; they mean the same numbers
	Padded bool
}

// Decl is one integration.
type Decl struct {
	Name      string
	Enabled   bool
	Table     string
	EventName string
	Inputs    []refmodel.Field  // event inputs (nil = no event)
	InFilter  map[string]Filter // filters on top-level inputs, by input name; on a component of a tuple input, by its path ("/d/to")
	ColTypes  map[string]string // column type of every selected event column
	Block     []BlockField
	Sources   []SrcRef
	FilterAgg string // "", "and", "or"
	Notify    []string
	Unique    [][]string
	Index     [][]string
	ExtraCols []Column // table columns that nothing writes
}

type Column struct{ Name, Type string }

func (d *Decl) HasEvent() bool { return len(selectedAll(d.Inputs)) > 0 }

func (d *Decl) Mode() Mode {
	for _, b := range d.Block {
		if strings.HasPrefix(b.Name, "trace_") {
			return ModeTrace
		}
	}
	if d.HasEvent() {
		return ModeLog
	}
	return ModeTx
}

func (d *Decl) NumIndexed() int {
	n := 0
	for _, f := range d.Inputs {
		if f.Indexed {
			n++
		}
	}
	return n
}

func (d *Decl) SigHash() []byte {
	return refmodel.Keccak256([]byte(refmodel.EventSignature(d.EventName, d.Inputs)))
}

// DefaultColType is the documented column type for an ABI leaf type.
func DefaultColType(t refmodel.Type) string {
	switch t.Kind {
	case refmodel.KUint, refmodel.KInt:
		return "numeric"
	case refmodel.KBool:
		return "bool"
	case refmodel.KString:
		return "text"
	}
	return "bytea"
}

func filterJSON(m map[string]any, f Filter) {
	if f.Op != "" {
		m["filter_op"] = f.Op
	}
	if len(f.Arg) > 0 {
		m["filter_arg"] = f.Arg
	}
	if f.Ref != nil {
		m["filter_ref"] = map[string]any{"integration": f.Ref.Integration, "column": f.Ref.Column}
	}
}

func inputsJSON(fs []refmodel.Field, filters map[string]Filter, top bool) []any {
	return inputsJSONAt(fs, filters, top, "")
}

func inputsJSONAt(fs []refmodel.Field, filters map[string]Filter, top bool, path string) []any {
	var res []any
	for _, f := range fs {
		m := map[string]any{"name": f.Name, "type": f.Type.JSONType()}
		if top {
			m["indexed"] = f.Indexed
		}
		if f.Column != "" {
			m["column"] = f.Column
		}
		if b := f.Type.Base(); b.Kind == refmodel.KTuple {
			m["components"] = inputsJSONAt(b.Fields, filters, false, path+"/"+f.Name)
		}
		if top && filters != nil {
			if fl, ok := filters[f.Name]; ok {
				filterJSON(m, fl)
			}
		}
		if !top && filters != nil {
			if fl, ok := filters[path+"/"+f.Name]; ok {
				filterJSON(m, fl)
			}
		}
		res = append(res, m)
	}
	return res
}

// TableColumns lists the table columns the declaration itself names (shovel's
// ValidateFix adds the required identity columns on top).
func (d *Decl) TableColumns() []Column {
	var cols []Column
	seen := map[string]bool{}
	add := func(n, t string) {
		if n == "" || seen[n] {
			return
		}
		seen[n] = true
		cols = append(cols, Column{n, t})
	}
	for _, l := range selectedAll(d.Inputs) {
		t := d.ColTypes[l.Field.Column]
		if t == "" {
			t = DefaultColType(l.Leaf)
		}
		add(l.Field.Column, t)
	}
	for _, b := range d.Block {
		add(b.Column, b.ColType)
	}
	for _, c := range d.ExtraCols {
		add(c.Name, c.Type)
	}
	return cols
}

// ConfigJSON renders the integration as shovel's configuration JSON.
func (d *Decl) ConfigJSON() map[string]any {
	var cols []any
	for _, c := range d.TableColumns() {
		cols = append(cols, map[string]any{"name": c.Name, "type": c.Type})
	}
	table := map[string]any{"name": d.Table, "columns": cols}
	if len(d.Unique) > 0 {
		table["unique"] = d.Unique
	}
	if len(d.Index) > 0 {
		table["index"] = d.Index
	}
	var srcs []any
	for _, s := range d.Sources {
		m := map[string]any{"name": s.Name}
		if s.Start > 0 {
			m["start"] = s.Start
			if s.Padded {
				m["start"] = fmt.Sprintf("0%d", s.Start)
			}
		}
		if s.Stop > 0 {
			m["stop"] = s.Stop
			if s.Padded {
				m["stop"] = fmt.Sprintf("00%d", s.Stop)
			}
		}
		srcs = append(srcs, m)
	}
	ig := map[string]any{"name": d.Name, "enabled": d.Enabled, "sources": srcs, "table": table}
	if d.FilterAgg != "" {
		ig["filter_agg"] = d.FilterAgg
	}
	if len(d.Notify) > 0 {
		ig["notification"] = map[string]any{"columns": d.Notify}
	}
	if len(d.Inputs) > 0 {
		ig["event"] = map[string]any{"name": d.EventName, "type": "event", "anonymous": false, "inputs": inputsJSON(d.Inputs, d.InFilter, true)}
	}
	var blk []any
	for _, b := range d.Block {
		m := map[string]any{"name": b.Name, "column": b.Column}
		filterJSON(m, b.Filter)
		blk = append(blk, m)
	}
	if len(blk) > 0 {
		ig["block"] = blk
	}
	return ig
}

// selectedAll lists every selected column of the event: selected indexed
// top-level inputs and the selected leaves of the non-indexed inputs.
func selectedAll(inputs []refmodel.Field) []refmodel.SelectedLeaf {
	var res []refmodel.SelectedLeaf
	for _, f := range inputs {
		if f.Indexed && f.Column != "" {
			res = append(res, refmodel.SelectedLeaf{Field: f, Leaf: f.Type, Path: "/" + f.Name})
		}
	}
	return append(res, refmodel.SelectedLeaves(inputs)...)
}

// LogMeta is stored in simnode.Log.Meta by the log makers.
type LogMeta struct {
	Event string // signature, for reports
	Vals  []any  // one per input of the event that produced the log
	// Malformed: the log carries the event's topics but its data is cut short: it cannot be decoded and yields no row
	Malformed bool
}

// MakeLog builds a log of the declaration's event carrying vals.
func MakeLog(eventName string, inputs []refmodel.Field, vals []any, addr []byte) simnode.Log {
	sig := refmodel.EventSignature(eventName, inputs)
	l := simnode.Log{Addr: addr, Meta: &LogMeta{Event: sig, Vals: vals}}
	l.Topics = append(l.Topics, refmodel.Keccak256([]byte(sig)))
	for i, f := range inputs {
		if !f.Indexed {
			continue
		}
		if f.Type.IsElementary() && !f.Type.IsDynamic() {
			l.Topics = append(l.Topics, refmodel.Word(f.Type, vals[i]))
		} else {
			// indexed dynamic/complex values are stored as the hash of their encoding
			l.Topics = append(l.Topics, refmodel.Keccak256(refmodel.EncodeValue(f.Type, vals[i])))
		}
	}
	l.Data = refmodel.EncodeTuple(inputs, vals)
	return l
}

// Row is an expected or stored row: column name → value (fakepg value kinds).
type Row map[string]fakepg.Value

// typed converts an ABI cell to the stored value kind for its leaf type.
func typed(leaf refmodel.Type, cell []byte) fakepg.Value {
	switch leaf.Kind {
	case refmodel.KUint:
		return new(big.Int).SetBytes(cell)
	case refmodel.KInt:
		x := new(big.Int).SetBytes(cell)
		if len(cell) == 32 && cell[0]&0x80 != 0 {
			x.Sub(x, new(big.Int).Lsh(big.NewInt(1), 256))
		}
		return x
	case refmodel.KAddress:
		if len(cell) == 32 {
			return append([]byte{}, cell[12:]...)
		}
		return append([]byte{}, cell...)
	case refmodel.KBool:
		return len(cell) == 32 && cell[31] == 1
	case refmodel.KString:
		return string(cell)
	}
	return append([]byte{}, cell...)
}

// Typed exposes the reference typing of one ABI cell (C11 uses it to tell a
// column filled from another topic apart from a mistyped value).
func Typed(leaf refmodel.Type, cell []byte) fakepg.Value { return typed(leaf, cell) }

// Ctx of one projected item.
type itemCtx struct {
	src     string
	chainID uint64
	ig      string
	b       *simnode.Block
	tx      *simnode.Tx
	l       *simnode.Log
	ta      *simnode.Trace
	taIdx   int
}

func bigOrZero(x *big.Int) *big.Int {
	if x == nil {
		return new(big.Int)
	}
	return x
}

func u(n uint64) *big.Int { return new(big.Int).SetUint64(n) }

// fieldValue is the value of a block-data field for an item, as the source
// reports it. ok=false: the field does not exist for this kind of item.
func (c *itemCtx) fieldValue(name string) (fakepg.Value, bool) {
	switch name {
	case "src_name":
		return c.src, true
	case "ig_name":
		return c.ig, true
	case "chain_id":
		return u(c.chainID), true
	case "block_hash":
		return c.b.Hash, true
	case "block_num":
		return u(c.b.Num), true
	case "block_time":
		return u(c.b.Time), true
	}
	if c.tx == nil {
		return nil, false
	}
	switch name {
	case "tx_hash":
		return c.tx.Hash, true
	case "tx_idx":
		return u(c.tx.Idx), true
	case "tx_signer":
		return c.tx.From, true
	case "tx_to":
		return c.tx.To, true
	case "tx_value":
		return bigOrZero(c.tx.Value), true
	case "tx_input":
		return c.tx.Input, true
	case "tx_type":
		return u(uint64(c.tx.Type)), true
	case "tx_status":
		return u(uint64(c.tx.Status)), true
	case "tx_gas_used":
		return u(c.tx.GasUsed), true
	case "tx_gas_price":
		return bigOrZero(c.tx.GasPrice), true
	case "tx_effective_gas_price":
		return bigOrZero(c.tx.EffGasPrice), true
	case "tx_contract_address":
		return c.tx.ContractAddr, true
	case "tx_max_priority_fee_per_gas":
		return bigOrZero(c.tx.MaxPrio), true
	case "tx_max_fee_per_gas":
		return bigOrZero(c.tx.MaxFee), true
	case "tx_nonce":
		return u(c.tx.Nonce), true
	}
	if c.l != nil {
		switch name {
		case "log_idx":
			return u(c.l.Idx), true
		case "log_addr":
			return c.l.Addr, true
		}
	}
	if c.ta != nil {
		switch name {
		case "trace_action_call_type":
			return c.ta.CallType, true
		case "trace_action_idx":
			return u(uint64(c.taIdx)), true
		case "trace_action_from":
			return c.ta.From, true
		case "trace_action_to":
			return c.ta.To, true
		case "trace_action_value":
			return bigOrZero(c.ta.Value), true
		}
	}
	return nil, false
}

// RefLookup answers reference filters: does table.column contain v?
type RefLookup func(integration, column string, v fakepg.Value) bool

// accept evaluates one filter against a value per the statement of C12.
func acceptOne(f Filter, v fakepg.Value, look RefLookup) (bool, bool) {
	if !f.Active() {
		return false, false // contributes nothing
	}
	neg := strings.HasPrefix(f.Op, "!")
	if f.Ref != nil {
		res := look != nil && look(f.Ref.Integration, f.Ref.Column, v)
		if neg {
			res = !res
		}
		return res, true
	}
	switch x := v.(type) {
	case []byte:
		res := false
		switch strings.TrimPrefix(f.Op, "!") {
		case "contains":
			for _, a := range f.Arg {
				if bytes.Contains(x, unhex(a)) {
					res = true
				}
			}
			if neg {
				res = !res
			}
		case "eq", "ne":
			for _, a := range f.Arg {
				if bytes.Equal(x, unhex(a)) {
					res = true
				}
			}
			if f.Op == "ne" {
				res = !res
			}
		default:
			return false, false
		}
		return res, true
	case string:
		switch f.Op {
		case "contains", "!contains":
			res := false
			for _, a := range f.Arg {
				if a == x {
					res = true
				}
			}
			return res != neg, true
		case "eq":
			return x == f.Arg[0], true
		case "ne":
			return x != f.Arg[0], true
		}
		return false, false
	case *big.Int:
		a, ok := new(big.Int).SetString(f.Arg[0], 10)
		if !ok {
			return false, false
		}
		c := x.Cmp(a)
		switch f.Op {
		case "eq":
			return c == 0, true
		case "ne":
			return c != 0, true
		case "gt":
			return c > 0, true
		case "lt":
			return c < 0, true
		}
		return false, false
	case bool:
		return false, false
	}
	return false, false
}

// AcceptOne exposes the reference predicate of one filter (C12 uses the
// per-filter results to attribute a wrong aggregate to a filter or to the
// aggregation). counted=false: the filter contributes nothing.
func AcceptOne(f Filter, v fakepg.Value, look RefLookup) (res, counted bool) {
	return acceptOne(f, v, look)
}

func unhex(s string) []byte {
	s = strings.TrimPrefix(strings.TrimPrefix(s, "0x"), "0X")
	if len(s)%2 == 1 {
		s = "0" + s
	}
	b := make([]byte, len(s)/2)
	for i := 0; i < len(b); i++ {
		v, err := strconv.ParseUint(s[2*i:2*i+2], 16, 8)
		if err != nil {
			return nil
		}
		b[i] = byte(v)
	}
	return b
}

type agg struct {
	kind string
	set  bool
	val  bool
}

func (a *agg) add(res, counted bool) {
	if !counted {
		return
	}
	if !a.set {
		a.set, a.val = true, res
		return
	}
	if a.kind == "and" {
		a.val = a.val && res
	} else {
		a.val = a.val || res
	}
}

func (a *agg) accept() bool { return !a.set || a.val }

// ProjectBlock returns the rows the declaration derives from one block version
// for source src.
func ProjectBlock(d *Decl, src string, chainID uint64, b *simnode.Block, look RefLookup) []Row {
	var rows []Row
	mode := d.Mode()
	sigh := d.SigHash()
	nidx := d.NumIndexed()
	leaves := refmodel.SelectedLeaves(d.Inputs)
	for ti := range b.Txs {
		tx := &b.Txs[ti]
		switch mode {
		case ModeTx:
			c := &itemCtx{src: src, chainID: chainID, ig: d.Name, b: b, tx: tx}
			if r, ok := d.blockRow(c, look, nil); ok {
				rows = append(rows, r)
			}
		case ModeTrace:
			tas := tx.Traces
			if tx.Idx == 0 && len(b.Rewards) > 0 {
				// reward traces name no transaction (null hash and position): they are counted with transaction 0,
				// after its own traces, with no from/to/call type (observed behaviour, DESIGN II.5)
				tas = append(append([]simnode.Trace(nil), tas...), b.Rewards...)
				for i := len(tx.Traces); i < len(tas); i++ {
					tas[i].From = nil
				}
			}
			for i := range tas {
				c := &itemCtx{src: src, chainID: chainID, ig: d.Name, b: b, tx: tx, ta: &tas[i], taIdx: i}
				if r, ok := d.blockRow(c, look, nil); ok {
					rows = append(rows, r)
				}
			}
		case ModeLog:
			for li := range tx.Logs {
				l := &tx.Logs[li]
				if len(l.Topics) == 0 || !bytes.Equal(l.Topics[0], sigh) || len(l.Topics)-1 != nidx {
					continue
				}
				meta, _ := l.Meta.(*LogMeta)
				if meta != nil && meta.Malformed {
					continue
				}
				if meta == nil || len(meta.Vals) != len(d.Inputs) {
					panic("model: matching log without usable Meta")
				}
				c := &itemCtx{src: src, chainID: chainID, ig: d.Name, b: b, tx: tx, l: l}
				cells := refmodel.ExpectedRows(d.Inputs, meta.Vals)
				for ri, cellrow := range cells {
					ev := Row{}
					a := agg{kind: strings.ToLower(d.FilterAgg)}
					// indexed selected inputs: the topic at the input's own indexed position
					ipos := 0
					for ii, f := range d.Inputs {
						if !f.Indexed {
							continue
						}
						ipos++
						if f.Column == "" {
							continue
						}
						v := typed(f.Type, l.Topics[ipos])
						ev[f.Column] = v
						a.add(acceptOne(d.InFilter[d.Inputs[ii].Name], v, look))
					}
					for ci, lf := range leaves {
						v := typed(lf.Leaf, cellrow[ci])
						ev[lf.Field.Column] = v
						if fl, ok := d.InFilter[lf.Field.Name]; ok && lf.Path == "/"+lf.Field.Name {
							a.add(acceptOne(fl, v, look))
						} else if fl, ok := d.InFilter[lf.Path]; ok && strings.Count(lf.Path, "/") > 1 {
							a.add(acceptOne(fl, v, look))
						}
					}
					r, ok := d.blockRowAgg(c, look, ev, &a, ri)
					if ok {
						rows = append(rows, r)
					}
				}
			}
		}
	}
	return rows
}

func (d *Decl) blockRow(c *itemCtx, look RefLookup, base Row) (Row, bool) {
	a := agg{kind: strings.ToLower(d.FilterAgg)}
	return d.blockRowAgg(c, look, base, &a, 0)
}

func (d *Decl) blockRowAgg(c *itemCtx, look RefLookup, base Row, a *agg, abiIdx int) (Row, bool) {
	r := Row{}
	for k, v := range base {
		r[k] = v
	}
	for _, bf := range d.allBlockFields() {
		if bf.Name == "abi_idx" {
			r[bf.Column] = u(uint64(abiIdx))
			continue
		}
		v, ok := c.fieldValue(bf.Name)
		if !ok {
			v = nil
		}
		r[bf.Column] = v
		a.add(acceptOne(bf.Filter, v, look))
	}
	return r, a.accept()
}

// allBlockFields: the declared block fields plus the identity fields shovel's
// ValidateFix adds (documented behaviour: ig_name, src_name, block_num, tx_idx,
// log_idx when an event is selected, abi_idx when a non-indexed input is
// selected, trace_action_idx when a trace field is selected).
func (d *Decl) allBlockFields() []BlockField {
	res := append([]BlockField(nil), d.Block...)
	has := func(n string) bool {
		for _, b := range res {
			if b.Name == n {
				return true
			}
		}
		return false
	}
	add := func(n string) {
		if !has(n) {
			res = append(res, BlockField{Name: n, Column: n})
		}
	}
	add("ig_name")
	add("src_name")
	add("block_num")
	add("tx_idx")
	sel := selectedAll(d.Inputs)
	if len(sel) > 0 {
		add("log_idx")
	}
	if len(refmodel.SelectedLeaves(d.Inputs)) > 0 {
		add("abi_idx")
	}
	for _, b := range d.Block {
		if strings.HasPrefix(b.Name, "trace_") {
			add("trace_action_idx")
			break
		}
	}
	return res
}

// Columns written by the declaration (after the automatic additions).
func (d *Decl) WrittenColumns() []string {
	var cs []string
	seen := map[string]bool{}
	for _, l := range selectedAll(d.Inputs) {
		if !seen[l.Field.Column] {
			seen[l.Field.Column] = true
			cs = append(cs, l.Field.Column)
		}
	}
	for _, b := range d.allBlockFields() {
		if !seen[b.Column] {
			seen[b.Column] = true
			cs = append(cs, b.Column)
		}
	}
	sort.Strings(cs)
	return cs
}

// CanonValue renders a value so that equal stored values compare equal
// regardless of representation (int64 vs big.Int; NULL vs empty byte string).
func CanonValue(v fakepg.Value) string {
	switch x := v.(type) {
	case nil:
		return "∅"
	case []byte:
		if len(x) == 0 {
			return "∅"
		}
		return fmt.Sprintf("x%x", x)
	case *big.Int:
		return "n" + x.String()
	case int64:
		return "n" + strconv.FormatInt(x, 10)
	case uint64:
		return "n" + strconv.FormatUint(x, 10)
	case bool:
		if x {
			return "true"
		}
		return "false"
	case string:
		if x == "" {
			return "∅" // oracle domain decision: NULL ≡ empty for text as for bytea
		}
		return "s" + strconv.Quote(x)
	}
	return fmt.Sprintf("?%v", v)
}

// CanonRow renders a row over the given columns.
func CanonRow(r Row, cols []string) string {
	var sb strings.Builder
	for _, c := range cols {
		sb.WriteString(c)
		sb.WriteByte('=')
		sb.WriteString(CanonValue(r[c]))
		sb.WriteByte(' ')
	}
	return sb.String()
}

// DiffRows compares two multisets of rows over cols; it returns rows only in
// got and rows only in want.
func DiffRows(got, want []Row, cols []string) (extra, missing []string) {
	cnt := map[string]int{}
	for _, r := range want {
		cnt[CanonRow(r, cols)]++
	}
	for _, r := range got {
		k := CanonRow(r, cols)
		if cnt[k] > 0 {
			cnt[k]--
		} else {
			extra = append(extra, k)
		}
	}
	for k, n := range cnt {
		for i := 0; i < n; i++ {
			missing = append(missing, k)
		}
	}
	sort.Strings(extra)
	sort.Strings(missing)
	return
}

// StoredRows converts table rows of fakepg to model rows.
func StoredRows(t *fakepg.Table, rows []*fakepg.Row) []Row {
	var res []Row
	for _, r := range rows {
		m := Row{}
		for i, c := range t.Cols {
			m[c.Name] = r.Vals[i]
		}
		res = append(res, m)
	}
	return res
}
