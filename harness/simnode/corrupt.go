package simnode

// Corruption engine (C07): enumerates and applies mutations to the rendered
// JSON-RPC response elements of one logical client call (a sequence of HTTP
// exchanges). It knows the *shape* of responses only; what a mutation means for
// the client is decided elsewhere (refmodel).

import (
	"bytes"
	"encoding/json"
	"fmt"
	"strconv"
	"strings"
)

// Exchange kinds.
const (
	ExBlocks   = "blocks"   // batch of eth_getBlockByNumber(n,true)
	ExHeaders  = "headers"  // batch of eth_getBlockByNumber(n,false)
	ExReceipts = "receipts" // batch of eth_getBlockReceipts(n)
	ExLogs     = "logs"     // batch [eth_getBlockByNumber(to,false), eth_getLogs]
	ExTrace    = "trace"    // single trace_block(n)
	ExHead     = "head"     // single eth_getBlockByNumber("latest"|n, *)
	ExOther    = "other"
)

// Exchange is one HTTP request/response of a client call as served.
type Exchange struct {
	Seq    int      `json:"seq"`
	Kind   string   `json:"kind"`
	Batch  bool     `json:"batch"`
	Asked  []uint64 `json:"asked"` // requested block number per call (logs: [to, from]; latest: none)
	Elems  []string `json:"-"`     // response elements after element-level mutation
	Status int      `json:"status"`
	Body   string   `json:"body"` // body as sent
}

// Classify tells which kind of exchange a request is.
func Classify(info *ReqInfo) (kind string, asked []uint64) {
	if len(info.Calls) == 0 {
		return ExOther, nil
	}
	all := func(method string) bool {
		for _, c := range info.Calls {
			if c.Method != method {
				return false
			}
		}
		return true
	}
	for _, c := range info.Calls {
		asked = append(asked, c.Num)
	}
	switch {
	case info.Batch && len(info.Calls) == 2 && info.Calls[0].Method == "eth_getBlockByNumber" && info.Calls[1].Method == "eth_getLogs":
		f := info.Calls[1].Filter
		if f != nil {
			asked = []uint64{info.Calls[0].Num, f.From}
		}
		return ExLogs, asked
	case info.Batch && all("eth_getBlockByNumber"):
		if info.Calls[0].Full {
			return ExBlocks, asked
		}
		return ExHeaders, asked
	case info.Batch && all("eth_getBlockReceipts"):
		return ExReceipts, asked
	case !info.Batch && info.Calls[0].Method == "trace_block":
		return ExTrace, asked
	case !info.Batch && info.Calls[0].Method == "eth_getBlockByNumber":
		if info.Calls[0].BlockArg == "latest" {
			return ExHead, nil
		}
		return ExHead, asked
	}
	return ExOther, asked
}

// Mut is one mutation of one exchange.
type Mut struct {
	Seq  int    `json:"seq"`
	Kind string `json:"kind"`
	Elem int    `json:"elem"` // batch element (-1: body level)
	Item int    `json:"item"` // item of the element's result array / tx of a full block (-1: none)
	Sub  int    `json:"sub"`  // log nested in a receipt (-1: none)
	Arg  int64  `json:"arg"`  // kind specific (target number, sixteenth, status, other seq)
	Hash string `json:"hash,omitempty"`
}

func (m Mut) String() string {
	return fmt.Sprintf("%s@seq%d/e%d/i%d/s%d/a%d", m.Kind, m.Seq, m.Elem, m.Item, m.Sub, m.Arg)
}

// PosClass is a coarse, value-independent position class for signatures.
func (m Mut) PosClass(nElems int) string {
	switch {
	case m.Elem < 0:
		return "body"
	case nElems <= 1:
		return "only"
	case m.Elem == 0:
		return "first"
	case m.Elem == nElems-1:
		return "last"
	}
	return "middle"
}

func (m Mut) BodyLevel() bool { return m.Elem < 0 }

// HTTPStatus is non-zero for status mutations.
func (m Mut) HTTPStatus() int {
	if m.Kind == "http-status" {
		return int(m.Arg)
	}
	return 0
}

// Affects reports whether the mutation touches exchange seq.
func (m Mut) Affects(seq int) bool {
	if m.Kind == "swap-response" {
		return seq == m.Seq || seq == int(m.Arg)
	}
	return seq == m.Seq
}

func parseObj(s string) (map[string]any, bool) {
	d := json.NewDecoder(strings.NewReader(s))
	d.UseNumber()
	var v any
	if d.Decode(&v) != nil {
		return nil, false
	}
	o, ok := v.(map[string]any)
	return o, ok
}

func render(v any) string {
	var buf bytes.Buffer
	e := json.NewEncoder(&buf)
	e.SetEscapeHTML(false)
	if e.Encode(v) != nil {
		return "null"
	}
	return strings.TrimSpace(buf.String())
}

func flipHex(s string) string {
	if len(s) < 3 {
		return "0x01"
	}
	b := []byte(s)
	last := b[len(b)-1]
	if last == '7' {
		b[len(b)-1] = '8'
	} else {
		b[len(b)-1] = '7'
	}
	return string(b)
}

// ApplyBody applies a body-level mutation.
func (m Mut) ApplyBody(body string) string {
	switch m.Kind {
	case "truncate":
		return body[:len(body)*int(m.Arg)/16]
	case "garbage":
		return "<html>502 bad gateway</html>"
	case "body-null":
		return "null"
	case "body-empty-array":
		return "[]"
	case "body-object":
		return `{"jsonrpc":"2.0","id":null}`
	case "body-error-object":
		return `{"jsonrpc":"2.0","id":null,"error":{"code":-32600,"message":"verif batch rejected"}}`
	case "body-wrapped-array":
		return "[" + body + "]"
	case "body-string":
		return `"ok"`
	}
	return body
}

// itemsOf returns the array that holds the items of an element's result.
func itemsOf(kind string, obj map[string]any) ([]any, func([]any)) {
	switch kind {
	case ExReceipts, ExLogs, ExTrace:
		arr, ok := obj["result"].([]any)
		if !ok {
			return nil, nil
		}
		return arr, func(a []any) { obj["result"] = a }
	case ExBlocks:
		res, ok := obj["result"].(map[string]any)
		if !ok {
			return nil, nil
		}
		arr, ok := res["transactions"].([]any)
		if !ok {
			return nil, nil
		}
		return arr, func(a []any) { res["transactions"] = a }
	}
	return nil, nil
}

func setBlockNum(kind string, it map[string]any, n int64) {
	if kind == ExTrace {
		it["blockNumber"] = json.Number(strconv.FormatInt(n, 10))
		return
	}
	it["blockNumber"] = fmt.Sprintf("0x%x", n)
}

func txKey(kind string) string {
	if kind == ExTrace {
		return "transactionPosition"
	}
	return "transactionIndex"
}

// ApplyElems applies an element-level mutation to the elements of exchange
// `seq` of kind `kind`. base holds the unmutated exchanges (for swap-response).
func (m Mut) ApplyElems(seq int, kind string, elems []string, base []Exchange) []string {
	out := append([]string(nil), elems...)
	if m.Kind == "swap-response" {
		other := int(m.Arg)
		if seq == m.Seq {
			other = int(m.Arg)
		} else {
			other = m.Seq
		}
		if other < len(base) && len(base[other].Elems) == len(out) {
			return append([]string(nil), base[other].Elems...)
		}
		return out
	}
	if m.Elem < 0 || m.Elem >= len(out) {
		return out
	}
	k := m.Elem
	switch m.Kind {
	case "drop-elem":
		return append(out[:k:k], out[k+1:]...)
	case "dup-elem":
		res := append([]string(nil), out[:k+1]...)
		res = append(res, out[k])
		return append(res, out[k+1:]...)
	case "swap-elems":
		if k+1 < len(out) {
			out[k], out[k+1] = out[k+1], out[k]
		}
		return out
	case "elem-null":
		out[k] = "null"
		return out
	case "elem-number":
		out[k] = "7"
		return out
	}
	obj, ok := parseObj(out[k])
	if !ok {
		return out
	}
	isBlockElem := kind == ExBlocks || kind == ExHeaders || kind == ExHead || (kind == ExLogs && k == 0)
	itemKind := kind
	switch m.Kind {
	case "null-result":
		obj["result"] = nil
	case "remove-result":
		delete(obj, "result")
	case "error-replace":
		delete(obj, "result")
		obj["error"] = map[string]any{"code": -32000, "message": "verif corrupted"}
	case "error-add":
		obj["error"] = map[string]any{"code": -32000, "message": "verif corrupted"}
	case "error-code0":
		delete(obj, "result")
		obj["error"] = map[string]any{"code": 0, "message": "verif corrupted"}
	case "result-wrong-type":
		switch obj["result"].(type) {
		case []any:
			obj["result"] = map[string]any{}
		default:
			obj["result"] = []any{}
		}
	case "result-string":
		obj["result"] = "0x1"
	case "empty-result":
		// a backend that has not got the block's receipts / traces / logs yet and answers with an empty list
		if _, ok := obj["result"].([]any); !ok {
			return out
		}
		obj["result"] = []any{}
	default:
		if isBlockElem && m.Item < 0 {
			res, ok := obj["result"].(map[string]any)
			if !ok {
				return out
			}
			switch m.Kind {
			case "renumber-below", "renumber-above", "renumber-inrange", "renumber-far":
				res["number"] = fmt.Sprintf("0x%x", m.Arg)
			case "number-wrong-type":
				res["number"] = json.Number(strconv.FormatInt(m.Arg, 10))
			case "break-parent":
				s, _ := res["parentHash"].(string)
				res["parentHash"] = flipHex(s)
			case "change-hash":
				s, _ := res["hash"].(string)
				res["hash"] = flipHex(s)
			case "benign-time":
				res["timestamp"] = "0x7fffffff"
			}
			break
		}
		if kind == ExLogs && k == 0 {
			return out
		}
		arr, set := itemsOf(itemKind, obj)
		if arr == nil || m.Item < 0 || m.Item >= len(arr) {
			return out
		}
		i := m.Item
		switch m.Kind {
		case "drop-item":
			set(append(append(make([]any, 0), arr[:i]...), arr[i+1:]...))
		case "dup-item":
			n := append([]any(nil), arr[:i+1]...)
			n = append(n, arr[i])
			set(append(n, arr[i+1:]...))
		case "swap-items":
			if i+1 < len(arr) {
				arr[i], arr[i+1] = arr[i+1], arr[i]
			}
		default:
			it, ok := arr[i].(map[string]any)
			if !ok {
				return out
			}
			target := it
			if m.Sub >= 0 {
				ls, ok := it["logs"].([]any)
				if !ok || m.Sub >= len(ls) {
					return out
				}
				if m.Kind == "nested-drop" {
					it["logs"] = append(append(make([]any, 0), ls[:m.Sub]...), ls[m.Sub+1:]...)
					break
				}
				target, ok = ls[m.Sub].(map[string]any)
				if !ok {
					return out
				}
			}
			nk := kind
			if m.Sub >= 0 {
				nk = ExReceipts
			}
			switch strings.TrimPrefix(m.Kind, "nested-") {
			case "item-out-below", "item-out-above", "item-out-far", "item-renumber-inrange":
				setBlockNum(nk, target, m.Arg)
			case "item-move-block":
				setBlockNum(nk, target, m.Arg)
				target["blockHash"] = m.Hash
			case "item-txidx":
				if nk == ExTrace {
					target[txKey(nk)] = json.Number(strconv.FormatInt(m.Arg, 10))
				} else {
					target[txKey(nk)] = fmt.Sprintf("0x%x", m.Arg)
				}
			case "item-blockhash":
				s, _ := target["blockHash"].(string)
				target["blockHash"] = flipHex(s)
			case "item-blocknum-wrong-type":
				if nk == ExTrace {
					target["blockNumber"] = fmt.Sprintf("0x%x", m.Arg)
				} else {
					target["blockNumber"] = json.Number(strconv.FormatInt(m.Arg, 10))
				}
			case "item-blocknum-garbage":
				// a string where the number belongs that is no quantity at all
				target["blockNumber"] = []string{"0xzz", "0x", "", "0x-1", "0x10000000000000000"}[int(m.Arg)%5]
			case "benign-item":
				switch {
				case kind == ExBlocks:
					target["value"] = "0x7e57"
				case kind == ExTrace:
					if a, ok := target["action"].(map[string]any); ok {
						a["value"] = "0x7e57"
					}
				case kind == ExReceipts && m.Sub < 0:
					target["gasUsed"] = "0x7e57"
				default:
					target["data"] = "0x7e57"
				}
			}
		}
	}
	out[k] = render(obj)
	return out
}

// Enumerate lists every single mutation applicable to the recorded (correct)
// exchanges of one client call for blocks start..start+limit-1.
// hashOf gives the canonical hash ("0x…") of a block number (for item-move-block).
func Enumerate(base []Exchange, start, limit uint64, hashOf func(uint64) string) []Mut {
	var ms []Mut
	s, l := int64(start), int64(limit)
	for _, ex := range base {
		add := func(kind string, elem, item, sub int, arg int64) {
			ms = append(ms, Mut{Seq: ex.Seq, Kind: kind, Elem: elem, Item: item, Sub: sub, Arg: arg})
		}
		// body level
		for k := int64(0); k < 16; k++ {
			add("truncate", -1, -1, -1, k)
		}
		for _, st := range []int64{301, 400, 429, 500, 503} {
			add("http-status", -1, -1, -1, st)
		}
		for _, k := range []string{"garbage", "body-null", "body-string"} {
			add(k, -1, -1, -1, 0)
		}
		if ex.Batch {
			add("body-empty-array", -1, -1, -1, 0)
			add("body-object", -1, -1, -1, 0)
			add("body-error-object", -1, -1, -1, 0)
		} else {
			add("body-wrapped-array", -1, -1, -1, 0)
		}
		if ex.Kind == ExTrace && ex.Seq+1 < len(base) && base[ex.Seq+1].Kind == ExTrace {
			add("swap-response", 0, -1, -1, int64(ex.Seq+1))
		}
		for k, el := range ex.Elems {
			if ex.Batch {
				add("drop-elem", k, -1, -1, 0)
				add("dup-elem", k, -1, -1, 0)
				if k+1 < len(ex.Elems) {
					add("swap-elems", k, -1, -1, 0)
				}
				add("elem-null", k, -1, -1, 0)
				add("elem-number", k, -1, -1, 0)
			}
			for _, kind := range []string{"null-result", "remove-result", "error-replace", "error-add", "error-code0", "result-wrong-type", "result-string"} {
				add(kind, k, -1, -1, 0)
			}
			obj, ok := parseObj(el)
			if !ok {
				continue
			}
			if arr, isArr := obj["result"].([]any); isArr && len(arr) > 0 {
				add("empty-result", k, -1, -1, 0)
			}
			isBlockElem := ex.Kind == ExBlocks || ex.Kind == ExHeaders || ex.Kind == ExHead || (ex.Kind == ExLogs && k == 0)
			if isBlockElem {
				own := s + int64(k)
				if ex.Kind == ExLogs {
					own = s + l - 1
				}
				add("renumber-below", k, -1, -1, s-1)
				add("renumber-above", k, -1, -1, s+l)
				add("renumber-far", k, -1, -1, s+l+1000)
				if l > 1 {
					other := own + 1
					if other >= s+l {
						other = own - 1
					}
					add("renumber-inrange", k, -1, -1, other)
				}
				add("number-wrong-type", k, -1, -1, own)
				add("break-parent", k, -1, -1, 0)
				add("change-hash", k, -1, -1, 0)
				add("benign-time", k, -1, -1, 0)
			}
			if ex.Kind == ExLogs && k == 0 {
				continue
			}
			arr, _ := itemsOf(ex.Kind, obj)
			for i := range arr {
				// positions: first two and the last item of an element
				if i > 1 && i != len(arr)-1 {
					continue
				}
				it, ok := arr[i].(map[string]any)
				if !ok {
					continue
				}
				if ex.Kind == ExBlocks {
					add("benign-item", k, i, -1, 0)
					continue
				}
				own := itemBlockNum(it)
				add("drop-item", k, i, -1, 0)
				add("dup-item", k, i, -1, 0)
				if i+1 < len(arr) {
					add("swap-items", k, i, -1, 0)
				}
				add("item-out-below", k, i, -1, s-1)
				add("item-out-above", k, i, -1, s+l)
				add("item-out-far", k, i, -1, s+l+1)
				if l > 1 {
					other := own + 1
					if other >= s+l {
						other = own - 1
					}
					add("item-renumber-inrange", k, i, -1, other)
					m := Mut{Seq: ex.Seq, Kind: "item-move-block", Elem: k, Item: i, Sub: -1, Arg: other, Hash: hashOf(uint64(other))}
					ms = append(ms, m)
				}
				add("item-txidx", k, i, -1, itemTxIdx(ex.Kind, it)+1)
				add("item-txidx", k, i, -1, 57)
				add("item-blockhash", k, i, -1, 0)
				add("item-blocknum-wrong-type", k, i, -1, own)
				add("item-blocknum-garbage", k, i, -1, own)
				add("benign-item", k, i, -1, 0)
				if ex.Kind == ExReceipts {
					ls, _ := it["logs"].([]any)
					for j := range ls {
						if j > 0 && j != len(ls)-1 {
							continue
						}
						add("nested-item-out-below", k, i, j, s-1)
						add("nested-item-out-above", k, i, j, s+l)
						if l > 1 {
							other := own + 1
							if other >= s+l {
								other = own - 1
							}
							add("nested-item-renumber-inrange", k, i, j, other)
						}
						add("nested-item-txidx", k, i, j, itemTxIdx(ex.Kind, it)+1)
						add("nested-benign-item", k, i, j, 0)
						add("nested-drop", k, i, j, 0)
					}
				}
			}
		}
	}
	return ms
}

func itemBlockNum(it map[string]any) int64 {
	switch v := it["blockNumber"].(type) {
	case json.Number:
		n, _ := v.Int64()
		return n
	case string:
		n, _ := strconv.ParseInt(strings.TrimPrefix(v, "0x"), 16, 64)
		return n
	}
	return 0
}

func itemTxIdx(kind string, it map[string]any) int64 {
	switch v := it[txKey(kind)].(type) {
	case json.Number:
		n, _ := v.Int64()
		return n
	case string:
		n, _ := strconv.ParseInt(strings.TrimPrefix(v, "0x"), 16, 64)
		return n
	}
	return 0
}
