// Package simnode is a simulated Ethereum JSON-RPC node: it owns a block tree,
// serves eth_getBlockByNumber / eth_getLogs / eth_getBlockReceipts / trace_block
// (single and batched) the way geth/erigon shape their answers, can grow, reorg,
// delay, fail or cut any response, can run a chain event between any two
// requests, and logs which block version it served to whom.
package simnode

import (
	"crypto/sha256"
	"encoding/binary"
	"encoding/hex"
	"fmt"
	"golang.org/x/crypto/sha3"
	"math/big"
	"sync"
)

type Log struct {
	Idx    uint64 // block-wide log index
	Addr   []byte // 20 bytes
	Topics [][]byte
	Data   []byte
	// Meta is harness-side information about how the log was made (e.g. the
	// values it encodes); it is never rendered.
	Meta any
}

type Trace struct {
	From, To []byte
	CallType string
	Value    *big.Int
}

type Tx struct {
	Idx      uint64
	Hash     []byte
	Type     byte
	Nonce    uint64
	Gas      uint64
	GasPrice *big.Int
	MaxPrio  *big.Int
	MaxFee   *big.Int
	Value    *big.Int
	From     []byte
	To       []byte // nil = contract creation
	Input    []byte

	// receipt
	Status       byte
	GasUsed      uint64
	EffGasPrice  *big.Int
	ContractAddr []byte // nil unless creation

	Logs   []Log
	Traces []Trace
}

// Block is one version of a block; Version is unique over the life of a chain,
// so an orphaned block and its replacement at the same height differ in
// Version, Hash and every derived tx hash.
type Block struct {
	Num     uint64
	Version uint64
	Hash    []byte
	Parent  []byte
	Time    uint64
	Bloom   []byte
	Txs     []Tx
	// Rewards are the block and uncle reward traces some chains (proof-of-work era, AuRa) report at the end of
	// trace_block, with a null transaction hash and position; From is the author.
	Rewards []Trace
}

func (b *Block) HashHex() string { return hex.EncodeToString(b.Hash) }

// Content fills the transactions of a new block version.
type Content func(b *Block)

func H(tag string, parts ...uint64) []byte {
	h := sha256.New()
	h.Write([]byte(tag))
	var w [8]byte
	for _, p := range parts {
		binary.BigEndian.PutUint64(w[:], p)
		h.Write(w[:])
	}
	return h.Sum(nil)
}

// Chain is a block tree with a canonical branch.
type Chain struct {
	mu      sync.Mutex
	id      uint64
	canon   []*Block          // index = block number (genesis = 0)
	all     map[string]*Block // every version ever created, by hash hex
	byNum   map[uint64][]*Block
	nextVer uint64
	content Content
	events  int
}

func NewChain(id uint64, content Content) *Chain {
	c := &Chain{id: id, all: map[string]*Block{}, byNum: map[uint64][]*Block{}, content: content}
	c.mu.Lock()
	c.appendLocked()
	c.mu.Unlock()
	return c
}

func (c *Chain) appendLocked() *Block {
	num := uint64(len(c.canon))
	c.nextVer++
	b := &Block{Num: num, Version: c.nextVer}
	b.Hash = H("blk", c.id, b.Version)
	if num > 0 {
		b.Parent = c.canon[num-1].Hash
	} else {
		b.Parent = make([]byte, 32)
	}
	b.Time = 1_600_000_000 + num*12 + b.Version%7
	b.Bloom = make([]byte, 256)
	if c.content != nil {
		c.content(b)
	}
	// normalise derived fields
	var li uint64
	for i := range b.Txs {
		tx := &b.Txs[i]
		tx.Idx = uint64(i)
		if tx.Hash == nil {
			tx.Hash = H("tx", c.id, b.Version, uint64(i))
		}
		for j := range tx.Logs {
			tx.Logs[j].Idx = li
			li++
			// the header's bloom filter, as a node computes it (yellow paper 4.3.1): the address and every topic of
			// every log of the block
			bloomAdd(b.Bloom, tx.Logs[j].Addr)
			for _, t := range tx.Logs[j].Topics {
				bloomAdd(b.Bloom, t)
			}
		}
	}
	c.canon = append(c.canon, b)
	c.all[b.HashHex()] = b
	c.byNum[num] = append(c.byNum[num], b)
	return b
}

// Grow appends n new canonical blocks.
func (c *Chain) Grow(n int) {
	c.mu.Lock()
	defer c.mu.Unlock()
	for i := 0; i < n; i++ {
		c.appendLocked()
	}
	c.events++
}

// Reorg replaces the top `depth` blocks by `newLen` fresh ones (newLen may be
// smaller, equal or larger than depth). depth is clipped so genesis stays.
func (c *Chain) Reorg(depth, newLen int) (forkNum uint64) {
	c.mu.Lock()
	defer c.mu.Unlock()
	if depth > len(c.canon)-1 {
		depth = len(c.canon) - 1
	}
	c.canon = c.canon[:len(c.canon)-depth]
	forkNum = uint64(len(c.canon)) // first replaced height
	for i := 0; i < newLen; i++ {
		c.appendLocked()
	}
	c.events++
	return forkNum
}

func (c *Chain) Head() *Block {
	c.mu.Lock()
	defer c.mu.Unlock()
	return c.canon[len(c.canon)-1]
}

func (c *Chain) Len() int {
	c.mu.Lock()
	defer c.mu.Unlock()
	return len(c.canon)
}

// At returns the canonical block at height n or nil.
func (c *Chain) At(n uint64) *Block {
	c.mu.Lock()
	defer c.mu.Unlock()
	if n >= uint64(len(c.canon)) {
		return nil
	}
	return c.canon[n]
}

// Canon returns a copy of the canonical branch (pointers to immutable blocks).
func (c *Chain) Canon() []*Block {
	c.mu.Lock()
	defer c.mu.Unlock()
	return append([]*Block(nil), c.canon...)
}

func (c *Chain) ByHash(h []byte) *Block {
	c.mu.Lock()
	defer c.mu.Unlock()
	return c.all[hex.EncodeToString(h)]
}

// VersionsAt returns every version ever created at height n.
func (c *Chain) VersionsAt(n uint64) []*Block {
	c.mu.Lock()
	defer c.mu.Unlock()
	return append([]*Block(nil), c.byNum[n]...)
}

func (c *Chain) Versions() int {
	c.mu.Lock()
	defer c.mu.Unlock()
	return len(c.all)
}

func (c *Chain) IsCanonical(h []byte) bool {
	b := c.ByHash(h)
	if b == nil {
		return false
	}
	cb := c.At(b.Num)
	return cb != nil && cb.Version == b.Version
}

func (c *Chain) String() string {
	c.mu.Lock()
	defer c.mu.Unlock()
	s := ""
	for _, b := range c.canon {
		s += fmt.Sprintf("%d:v%d ", b.Num, b.Version)
	}
	return s
}

func bloomAdd(bloom, d []byte) {
	h := sha3.NewLegacyKeccak256()
	h.Write(d)
	k := h.Sum(nil)
	for _, i := range []int{0, 2, 4} {
		bit := (int(k[i])<<8 | int(k[i+1])) & 2047
		bloom[255-bit/8] |= 1 << (bit % 8)
	}
}
