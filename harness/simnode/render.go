package simnode

import (
	"encoding/hex"
	"fmt"
	"math/big"
	"strings"
)

func hx(b []byte) string { return `"0x` + hex.EncodeToString(b) + `"` }

func hxOrNull(b []byte) string {
	if b == nil {
		return "null"
	}
	return hx(b)
}

func qu(n uint64) string { return fmt.Sprintf(`"0x%x"`, n) }

func qb(x *big.Int) string {
	if x == nil {
		return `"0x0"`
	}
	return `"0x` + x.Text(16) + `"`
}

// RenderHeaderFields renders the header members (without braces).
func renderHeaderFields(b *Block) string {
	return fmt.Sprintf(`"number":%s,"hash":%s,"parentHash":%s,"logsBloom":%s,"timestamp":%s,"miner":"0x0000000000000000000000000000000000000000","gasLimit":"0x1c9c380","gasUsed":"0x5208"`,
		qu(b.Num), hx(b.Hash), hx(b.Parent), hx(b.Bloom), qu(b.Time))
}

func RenderTx(b *Block, tx *Tx) string {
	return fmt.Sprintf(`{"blockHash":%s,"blockNumber":%s,"hash":%s,"transactionIndex":%s,"type":%s,"nonce":%s,"gas":%s,"gasPrice":%s,"maxPriorityFeePerGas":%s,"maxFeePerGas":%s,"from":%s,"to":%s,"value":%s,"input":%s,"chainId":"0x1","v":"0x1","r":"0x2","s":"0x3"}`,
		hx(b.Hash), qu(b.Num), hx(tx.Hash), qu(tx.Idx), qu(uint64(tx.Type)), qu(tx.Nonce), qu(tx.Gas), qb(tx.GasPrice), qb(tx.MaxPrio), qb(tx.MaxFee),
		hx(tx.From), hxOrNull(tx.To), qb(tx.Value), hx(tx.Input))
}

// RenderBlock renders the result of eth_getBlockByNumber.
func RenderBlock(b *Block, full bool) string {
	if b == nil {
		return "null"
	}
	var txs []string
	for i := range b.Txs {
		if full {
			txs = append(txs, RenderTx(b, &b.Txs[i]))
		} else {
			txs = append(txs, hx(b.Txs[i].Hash))
		}
	}
	return "{" + renderHeaderFields(b) + `,"transactions":[` + strings.Join(txs, ",") + "]}"
}

func RenderLog(b *Block, tx *Tx, l *Log) string {
	var ts []string
	for _, t := range l.Topics {
		ts = append(ts, hx(t))
	}
	return fmt.Sprintf(`{"address":%s,"topics":[%s],"data":%s,"blockNumber":%s,"transactionHash":%s,"transactionIndex":%s,"blockHash":%s,"logIndex":%s,"removed":false}`,
		hx(l.Addr), strings.Join(ts, ","), hx(l.Data), qu(b.Num), hx(tx.Hash), qu(tx.Idx), hx(b.Hash), qu(l.Idx))
}

func RenderReceipt(b *Block, tx *Tx) string {
	var ls []string
	for i := range tx.Logs {
		ls = append(ls, RenderLog(b, tx, &tx.Logs[i]))
	}
	return fmt.Sprintf(`{"blockHash":%s,"blockNumber":%s,"transactionHash":%s,"transactionIndex":%s,"type":%s,"from":%s,"to":%s,"status":%s,"gasUsed":%s,"cumulativeGasUsed":"0x5208","effectiveGasPrice":%s,"contractAddress":%s,"logs":[%s],"logsBloom":%s}`,
		hx(b.Hash), qu(b.Num), hx(tx.Hash), qu(tx.Idx), qu(uint64(tx.Type)), hx(tx.From), hxOrNull(tx.To), qu(uint64(tx.Status)), qu(tx.GasUsed), qb(tx.EffGasPrice),
		hxOrNull(tx.ContractAddr), strings.Join(ls, ","), hx(b.Bloom))
}

// RenderReceipts renders the result of eth_getBlockReceipts.
func RenderReceipts(b *Block) string {
	if b == nil {
		return "null"
	}
	var rs []string
	for i := range b.Txs {
		rs = append(rs, RenderReceipt(b, &b.Txs[i]))
	}
	return "[" + strings.Join(rs, ",") + "]"
}

func RenderTrace(b *Block, tx *Tx, i int, t *Trace) string {
	ta := "[]"
	if i > 0 {
		ta = fmt.Sprintf("[%d]", i-1)
	}
	return fmt.Sprintf(`{"action":{"from":%s,"callType":%q,"gas":"0x1","input":"0x","to":%s,"value":%s},"blockHash":%s,"blockNumber":%d,"result":{"gasUsed":"0x0","output":"0x"},"subtraces":0,"traceAddress":%s,"transactionHash":%s,"transactionPosition":%d,"type":"call"}`,
		hx(t.From), t.CallType, hx(t.To), qb(t.Value), hx(b.Hash), b.Num, ta, hx(tx.Hash), tx.Idx)
}

// RenderTraces renders the result of trace_block.
func RenderTraces(b *Block) string {
	if b == nil {
		return "null"
	}
	var ts []string
	for i := range b.Txs {
		tx := &b.Txs[i]
		for j := range tx.Traces {
			ts = append(ts, RenderTrace(b, tx, j, &tx.Traces[j]))
		}
	}
	for i := range b.Rewards {
		rw := &b.Rewards[i]
		kind := "block"
		if i > 0 {
			kind = "uncle"
		}
		ts = append(ts, fmt.Sprintf(`{"action":{"author":%s,"rewardType":%q,"value":%s},"blockHash":%s,"blockNumber":%d,"result":null,"subtraces":0,"traceAddress":[],"transactionHash":null,"transactionPosition":null,"type":"reward"}`,
			hx(rw.From), kind, qb(rw.Value), hx(b.Hash), b.Num))
	}
	return "[" + strings.Join(ts, ",") + "]"
}

// LogFilter is the parsed filter object of eth_getLogs.
type LogFilter struct {
	From, To  uint64
	Addresses [][]byte   // nil = any
	Topics    [][][]byte // per position: nil = any, else alternatives
}

func (f *LogFilter) Match(l *Log) bool {
	if f.Addresses != nil {
		ok := false
		for _, a := range f.Addresses {
			if string(a) == string(l.Addr) {
				ok = true
				break
			}
		}
		if !ok {
			return false
		}
	}
	for i, alts := range f.Topics {
		if alts == nil {
			continue
		}
		if i >= len(l.Topics) {
			return false
		}
		ok := false
		for _, t := range alts {
			if string(t) == string(l.Topics[i]) {
				ok = true
				break
			}
		}
		if !ok {
			return false
		}
	}
	return true
}

// RenderLogs renders the result of eth_getLogs over canonical blocks.
func RenderLogs(blocks []*Block, f *LogFilter) string {
	var ls []string
	for _, b := range blocks {
		if b == nil || b.Num < f.From || b.Num > f.To {
			continue
		}
		for i := range b.Txs {
			tx := &b.Txs[i]
			for j := range tx.Logs {
				if f.Match(&tx.Logs[j]) {
					ls = append(ls, RenderLog(b, tx, &tx.Logs[j]))
				}
			}
		}
	}
	return "[" + strings.Join(ls, ",") + "]"
}
