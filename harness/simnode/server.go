package simnode

import (
	"encoding/hex"
	"encoding/json"
	"fmt"
	"io"
	"net"
	"net/http"
	"strconv"
	"strings"
	"sync"
	"sync/atomic"
	"time"
)

type FailKind int

const (
	FailNone     FailKind = iota
	FailRPCError          // JSON-RPC error member instead of result (element ElemErr, or all if -1)
	FailHTTP              // non-2xx status
	FailCut               // connection closed without a response
	FailTruncate          // 200 with half of the body
	FailGarbage           // 200 with an undecodable body
)

func (k FailKind) String() string {
	return [...]string{"none", "rpc-error", "http-status", "cut", "truncate", "garbage"}[k]
}

// Action is what a hook asks the node to do with one HTTP request.
type Action struct {
	Delay   time.Duration
	Before  func() // runs before the response is computed (e.g. a chain event)
	Fail    FailKind
	ElemErr int // for FailRPCError: which batch element (-1 = every element)
	Status  int // for FailHTTP
	// KeepBody: with FailHTTP, send the computed (possibly rewritten) JSON body
	// together with the non-2xx status instead of a plain-text error page.
	KeepBody bool
	// Rewrite may replace the rendered response elements (one complete JSON-RPC
	// response object per call) before they are sent; used by the corruption engine.
	Rewrite func(elems []string) []string
	// RewriteBody may replace the whole body.
	RewriteBody func(body string) string
	// Behind > 0: the request is answered by a backend that has not seen the last Behind blocks yet (a lagging
	// node behind a load balancer): "latest" is its own head, later blocks/receipts/traces are null, later logs absent.
	Behind int
}

// Call is one JSON-RPC call of a request.
type Call struct {
	ID     json.RawMessage
	Method string
	Params []json.RawMessage

	// parsed
	BlockArg string // "latest" or decimal number, for block/receipt/trace calls
	Num      uint64
	Full     bool
	Filter   *LogFilter
	RawAddr  string // JSON of the address member of an eth_getLogs filter
	RawTopic string
}

// ReqInfo describes one HTTP request.
type ReqInfo struct {
	Node   *Node
	Seq    int  // ordinal among non-poller requests since the last ResetStep (0-based); -1 for the poller
	Global int  // ordinal among all requests of the node
	Poller bool // the client's background head poller (fixed id "1")
	Batch  bool
	Calls  []Call
	Tag    string // path suffix after /n/<id>/
}

func (r *ReqInfo) Methods() string {
	var ms []string
	for _, c := range r.Calls {
		ms = append(ms, c.Method)
	}
	return strings.Join(ms, "+")
}

// ServedBlock is one block version a response exposed.
type ServedBlock struct {
	Num  uint64
	Hash string // hex; "" when the result was null
}

// Served is the log entry of one call.
type Served struct {
	Seq     int
	Global  int
	Poller  bool
	Method  string
	Arg     string
	Full    bool
	Batched bool   // the call arrived inside a JSON array
	Failed  string // fault kind if the request was failed
	Blocks  []ServedBlock
	Addr    string
	Topics  string
}

type Node struct {
	ID    string
	Chain *Chain
	base  string

	mu      sync.Mutex
	retired bool
	seq     int
	global  int
	log     []Served
	hook    func(*ReqInfo) Action

	inflight    int32
	maxInflight int32
	requests    int64
}

type Server struct {
	ln    net.Listener
	mu    sync.Mutex
	nodes map[string]*Node
	next  int
}

var (
	globalSrv  *Server
	globalOnce sync.Once
)

// Global returns the process-wide server (started on first use).
func Global() *Server {
	globalOnce.Do(func() {
		ln, err := net.Listen("tcp", "127.0.0.1:0")
		if err != nil {
			panic(err)
		}
		s := &Server{ln: ln, nodes: map[string]*Node{}}
		hs := &http.Server{Handler: s, ReadHeaderTimeout: time.Minute}
		go hs.Serve(ln)
		globalSrv = s
	})
	return globalSrv
}

func (s *Server) NewNode(ch *Chain) *Node {
	s.mu.Lock()
	defer s.mu.Unlock()
	s.next++
	n := &Node{ID: fmt.Sprintf("%d", s.next), Chain: ch}
	n.base = fmt.Sprintf("http://%s/n/%s", s.ln.Addr().String(), n.ID)
	s.nodes[n.ID] = n
	return n
}

// URL of the node; tag is appended as a path element ("" for none). A tag
// containing "nocache" switches the real client's caches off.
func (n *Node) URL(tag string) string {
	if tag == "" {
		return n.base
	}
	return n.base + "/" + tag
}

// Retire makes every further request fail with HTTP 500, which ends the
// client's background poller goroutine.
func (n *Node) Retire() {
	n.mu.Lock()
	n.retired = true
	n.mu.Unlock()
	g := Global()
	g.mu.Lock()
	delete(g.nodes, n.ID)
	g.mu.Unlock()
}

func (n *Node) SetHook(h func(*ReqInfo) Action) {
	n.mu.Lock()
	n.hook = h
	n.mu.Unlock()
}

// ResetStep restarts the per-step request ordinal.
func (n *Node) ResetStep() {
	n.mu.Lock()
	n.seq = 0
	n.mu.Unlock()
}

func (n *Node) StepSeq() int {
	n.mu.Lock()
	defer n.mu.Unlock()
	return n.seq
}

// TakeLog returns and clears the served log.
func (n *Node) TakeLog() []Served {
	n.mu.Lock()
	defer n.mu.Unlock()
	l := n.log
	n.log = nil
	return l
}

// Inflight is the number of requests being served right now.
func (n *Node) Inflight() int { return int(atomic.LoadInt32(&n.inflight)) }

func (n *Node) MaxInflight() int  { return int(atomic.LoadInt32(&n.maxInflight)) }
func (n *Node) Requests() int64   { return atomic.LoadInt64(&n.requests) }
func (n *Node) ResetMaxInflight() { atomic.StoreInt32(&n.maxInflight, 0) }

func (s *Server) ServeHTTP(w http.ResponseWriter, r *http.Request) {
	parts := strings.SplitN(strings.TrimPrefix(r.URL.Path, "/n/"), "/", 2)
	s.mu.Lock()
	n := s.nodes[parts[0]]
	s.mu.Unlock()
	if n == nil {
		http.Error(w, "retired", http.StatusInternalServerError)
		return
	}
	tag := ""
	if len(parts) > 1 {
		tag = parts[1]
	}
	n.serve(w, r, tag)
}

func parseNum(raw json.RawMessage) (string, uint64, bool) {
	var s string
	if json.Unmarshal(raw, &s) != nil {
		return "", 0, false
	}
	if s == "latest" {
		return s, 0, true
	}
	if !strings.HasPrefix(s, "0x") {
		return s, 0, false
	}
	v, err := strconv.ParseUint(s[2:], 16, 64)
	if err != nil {
		return s, 0, false
	}
	return strconv.FormatUint(v, 10), v, true
}

func unhex(s string) []byte {
	s = strings.TrimPrefix(s, "0x")
	b, _ := hex.DecodeString(s)
	return b
}

func parseFilter(raw json.RawMessage) *LogFilter {
	var fo struct {
		From    string          `json:"fromBlock"`
		To      string          `json:"toBlock"`
		Address json.RawMessage `json:"address"`
		Topics  json.RawMessage `json:"topics"`
	}
	if json.Unmarshal(raw, &fo) != nil {
		return nil
	}
	f := &LogFilter{}
	f.From, _ = strconv.ParseUint(strings.TrimPrefix(fo.From, "0x"), 16, 64)
	f.To, _ = strconv.ParseUint(strings.TrimPrefix(fo.To, "0x"), 16, 64)
	if len(fo.Address) > 0 && string(fo.Address) != "null" {
		var one string
		var many []string
		switch {
		case json.Unmarshal(fo.Address, &one) == nil:
			f.Addresses = [][]byte{unhex(one)}
		case json.Unmarshal(fo.Address, &many) == nil:
			if len(many) > 0 { // geth: an empty list means "any"
				f.Addresses = [][]byte{}
				for _, a := range many {
					f.Addresses = append(f.Addresses, unhex(a))
				}
			}
		}
	}
	if len(fo.Topics) > 0 && string(fo.Topics) != "null" {
		var pos []json.RawMessage
		if json.Unmarshal(fo.Topics, &pos) == nil {
			for _, p := range pos {
				var one string
				var many []string
				switch {
				case string(p) == "null":
					f.Topics = append(f.Topics, nil)
				case json.Unmarshal(p, &one) == nil:
					f.Topics = append(f.Topics, [][]byte{unhex(one)})
				case json.Unmarshal(p, &many) == nil:
					if len(many) == 0 {
						f.Topics = append(f.Topics, nil)
						break
					}
					var alts [][]byte
					for _, t := range many {
						alts = append(alts, unhex(t))
					}
					f.Topics = append(f.Topics, alts)
				default:
					f.Topics = append(f.Topics, nil)
				}
			}
		}
	}
	return f
}

func (n *Node) serve(w http.ResponseWriter, r *http.Request, tag string) {
	cur := atomic.AddInt32(&n.inflight, 1)
	defer atomic.AddInt32(&n.inflight, -1)
	for {
		m := atomic.LoadInt32(&n.maxInflight)
		if cur <= m || atomic.CompareAndSwapInt32(&n.maxInflight, m, cur) {
			break
		}
	}
	atomic.AddInt64(&n.requests, 1)
	body, err := io.ReadAll(r.Body)
	if err != nil {
		http.Error(w, "read", 400)
		return
	}
	type rawCall struct {
		ID     json.RawMessage   `json:"id"`
		Method string            `json:"method"`
		Params []json.RawMessage `json:"params"`
	}
	var (
		raws  []rawCall
		batch bool
	)
	trim := strings.TrimSpace(string(body))
	if strings.HasPrefix(trim, "[") {
		batch = true
		if err := json.Unmarshal(body, &raws); err != nil {
			http.Error(w, "bad json", 400)
			return
		}
	} else {
		var one rawCall
		if err := json.Unmarshal(body, &one); err != nil {
			http.Error(w, "bad json", 400)
			return
		}
		raws = []rawCall{one}
	}
	info := &ReqInfo{Node: n, Batch: batch, Tag: tag}
	for _, rc := range raws {
		c := Call{ID: rc.ID, Method: rc.Method, Params: rc.Params}
		switch rc.Method {
		case "eth_getBlockByNumber":
			if len(rc.Params) >= 1 {
				c.BlockArg, c.Num, _ = parseNum(rc.Params[0])
			}
			if len(rc.Params) >= 2 {
				json.Unmarshal(rc.Params[1], &c.Full)
			}
		case "eth_getBlockReceipts", "trace_block":
			if len(rc.Params) >= 1 {
				c.BlockArg, c.Num, _ = parseNum(rc.Params[0])
			}
		case "eth_getLogs":
			if len(rc.Params) >= 1 {
				c.Filter = parseFilter(rc.Params[0])
				var fo struct {
					Address json.RawMessage `json:"address"`
					Topics  json.RawMessage `json:"topics"`
				}
				json.Unmarshal(rc.Params[0], &fo)
				c.RawAddr, c.RawTopic = string(fo.Address), string(fo.Topics)
			}
		}
		info.Calls = append(info.Calls, c)
	}
	info.Poller = !batch && len(raws) == 1 && string(raws[0].ID) == `"1"` && raws[0].Method == "eth_getBlockByNumber"

	n.mu.Lock()
	if n.retired {
		n.mu.Unlock()
		http.Error(w, "retired", http.StatusInternalServerError)
		return
	}
	info.Global = n.global
	n.global++
	if info.Poller {
		info.Seq = -1
	} else {
		info.Seq = n.seq
		n.seq++
	}
	hook := n.hook
	n.mu.Unlock()

	var act Action
	act.ElemErr = -1
	if hook != nil {
		act = hook(info)
	}
	if act.Delay > 0 {
		time.Sleep(act.Delay)
	}
	if act.Before != nil {
		act.Before()
	}

	// compute responses against a consistent view of the canonical chain
	canon := n.Chain.Canon()
	if act.Behind > 0 {
		canon = canon[:max(1, len(canon)-act.Behind)]
	}
	at := func(c *Call) *Block {
		if c.BlockArg == "latest" {
			return canon[len(canon)-1]
		}
		if c.BlockArg == "" || c.Num >= uint64(len(canon)) {
			return nil
		}
		return canon[c.Num]
	}
	var (
		elems  []string
		served []Served
	)
	for i := range info.Calls {
		c := &info.Calls[i]
		id := string(c.ID)
		if id == "" {
			id = "null"
		}
		sv := Served{Seq: info.Seq, Global: info.Global, Poller: info.Poller, Method: c.Method, Arg: c.BlockArg, Full: c.Full, Batched: batch}
		var result string
		switch c.Method {
		case "eth_getBlockByNumber":
			b := at(c)
			result = RenderBlock(b, c.Full)
			if b != nil {
				sv.Blocks = []ServedBlock{{b.Num, b.HashHex()}}
			} else {
				sv.Blocks = []ServedBlock{{c.Num, ""}}
			}
		case "eth_getBlockReceipts":
			b := at(c)
			result = RenderReceipts(b)
			if b != nil {
				sv.Blocks = []ServedBlock{{b.Num, b.HashHex()}}
			}
		case "trace_block":
			b := at(c)
			result = RenderTraces(b)
			if b != nil {
				sv.Blocks = []ServedBlock{{b.Num, b.HashHex()}}
			}
		case "eth_getLogs":
			if c.Filter == nil {
				result = "[]"
				break
			}
			result = RenderLogs(canon, c.Filter)
			sv.Arg = fmt.Sprintf("%d-%d", c.Filter.From, c.Filter.To)
			sv.Addr, sv.Topics = c.RawAddr, c.RawTopic
			for _, b := range canon {
				if b.Num >= c.Filter.From && b.Num <= c.Filter.To {
					sv.Blocks = append(sv.Blocks, ServedBlock{b.Num, b.HashHex()})
				}
			}
		default:
			elems = append(elems, fmt.Sprintf(`{"jsonrpc":"2.0","id":%s,"error":{"code":-32601,"message":"method not found"}}`, id))
			served = append(served, sv)
			continue
		}
		if act.Fail == FailRPCError && (act.ElemErr < 0 || act.ElemErr == i) {
			elems = append(elems, fmt.Sprintf(`{"jsonrpc":"2.0","id":%s,"error":{"code":-32000,"message":"verif injected error"}}`, id))
			sv.Failed = act.Fail.String()
		} else {
			elems = append(elems, fmt.Sprintf(`{"jsonrpc":"2.0","id":%s,"result":%s}`, id, result))
		}
		served = append(served, sv)
	}
	if act.Fail != FailNone && act.Fail != FailRPCError {
		for i := range served {
			served[i].Failed = act.Fail.String()
		}
	}
	if act.Rewrite != nil {
		elems = act.Rewrite(elems)
	}
	var out string
	if batch {
		out = "[" + strings.Join(elems, ",") + "]"
	} else if len(elems) > 0 {
		out = elems[0]
	}
	if act.RewriteBody != nil {
		out = act.RewriteBody(out)
	}
	n.mu.Lock()
	n.log = append(n.log, served...)
	n.mu.Unlock()

	switch act.Fail {
	case FailHTTP:
		st := act.Status
		if st == 0 {
			st = 500
		}
		if act.KeepBody {
			w.Header().Set("Content-Type", "application/json")
			w.WriteHeader(st)
			io.WriteString(w, out)
			return
		}
		http.Error(w, "verif injected status", st)
		return
	case FailCut:
		if hj, ok := w.(http.Hijacker); ok {
			conn, _, err := hj.Hijack()
			if err == nil {
				conn.Close()
				return
			}
		}
		panic(http.ErrAbortHandler)
	case FailTruncate:
		w.Header().Set("Content-Type", "application/json")
		w.Header().Set("Content-Length", strconv.Itoa(len(out)/2))
		w.WriteHeader(200)
		io.WriteString(w, out[:len(out)/2])
		return
	case FailGarbage:
		w.Header().Set("Content-Type", "application/json")
		io.WriteString(w, `<html>502 bad gateway</html>`)
		return
	}
	w.Header().Set("Content-Type", "application/json")
	io.WriteString(w, out)
}
