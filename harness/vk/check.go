package vk

import (
	"fmt"
	"sort"
	"sync"
)

// Violation is one refutation found by a monitor. Key is a stable, specific
// identifier of the failing input class / call site / history shape; it is what
// KNOWN_FINDINGS.txt lists, so a different violation of the same property has a
// different key and is still reported.
type Violation struct {
	Key    string `json:"key"`
	Msg    string `json:"msg"`
	Detail any    `json:"detail,omitempty"`
}

// Result is what one case observed.
type Result struct {
	Sigs         []string            `json:"sigs,omitempty"` // coverage signatures of the non-trivial things this case did
	Obs          map[string]int64    `json:"obs,omitempty"` // summed over cases
	Max          map[string]int64    `json:"max,omitempty"` // max over cases
	Sets         map[string][]string `json:"sets,omitempty"`
	Sample       any                 `json:"sample,omitempty"`
	Violations   []Violation         `json:"violations,omitempty"`
	Inconclusive string              `json:"inconclusive,omitempty"`
}

// Case is the context handed to a check's Run function.
type Case struct {
	Prop   string
	Tier   string
	Seed   uint64
	Index  int
	R      *RNG
	Replay bool
	Res    Result
	mu     sync.Mutex
	sigset map[string]bool
}

func (c *Case) Thorough() bool { return c.Tier == "thorough" }

func (c *Case) Obs(name string, n int64) {
	c.mu.Lock()
	defer c.mu.Unlock()
	if c.Res.Obs == nil {
		c.Res.Obs = map[string]int64{}
	}
	c.Res.Obs[name] += n
}

func (c *Case) MaxObs(name string, n int64) {
	c.mu.Lock()
	defer c.mu.Unlock()
	if c.Res.Max == nil {
		c.Res.Max = map[string]int64{}
	}
	if n > c.Res.Max[name] {
		c.Res.Max[name] = n
	}
}

// Seen records a distinct thing observed (merged as a set across cases).
func (c *Case) Seen(set, item string) {
	c.mu.Lock()
	defer c.mu.Unlock()
	if c.Res.Sets == nil {
		c.Res.Sets = map[string][]string{}
	}
	for _, x := range c.Res.Sets[set] {
		if x == item {
			return
		}
	}
	if len(c.Res.Sets[set]) < 400 {
		c.Res.Sets[set] = append(c.Res.Sets[set], item)
	}
}

func (c *Case) Violate(key string, detail any, format string, args ...any) {
	c.mu.Lock()
	defer c.mu.Unlock()
	for _, v := range c.Res.Violations {
		if v.Key == key {
			return
		}
	}
	if len(c.Res.Violations) >= 20 {
		return
	}
	c.Res.Violations = append(c.Res.Violations, Violation{Key: key, Msg: fmt.Sprintf(format, args...), Detail: detail})
}

func (c *Case) Inconclusive(format string, args ...any) {
	c.mu.Lock()
	defer c.mu.Unlock()
	if c.Res.Inconclusive == "" {
		c.Res.Inconclusive = fmt.Sprintf(format, args...)
	}
}

// SetSig records one coverage signature (a case may record several; the run's
// distinct_nontrivial is the size of the union over all cases).
func (c *Case) SetSig(format string, args ...any) {
	s := fmt.Sprintf(format, args...)
	c.mu.Lock()
	defer c.mu.Unlock()
	if c.sigset == nil {
		c.sigset = map[string]bool{}
	}
	if c.sigset[s] || len(c.sigset) >= 5000 {
		return
	}
	c.sigset[s] = true
	c.Res.Sigs = append(c.Res.Sigs, s)
}

// Evals counts individual inputs/executions tried inside this case; when any
// case reports it, the run's "evaluations" is the sum instead of the case count.
func (c *Case) Evals(n int64) { c.Obs("evaluations", n) }

func (c *Case) Sample(v any) {
	c.mu.Lock()
	defer c.mu.Unlock()
	c.Res.Sample = v
}

// Check describes one property's machinery.
type Check struct {
	ID          string
	Level       string // MANIFEST/EVIDENCE level
	Technique   string
	Rule        string // how cases are generated and what makes one distinct/non-trivial
	Assumptions []string
	NCases      func(tier string) int
	Run         func(c *Case)
	// MinObs: minimum summed observation counts per tier; a run below them
	// observed too little and is inconclusive rather than a pass.
	MinObs func(tier string) map[string]int64
	// Exhaustive reports whether the tier enumerates a finite space completely.
	Exhaustive func(tier string) bool
	// Race: the worker must be the -race build; race reports are the oracle.
	Race bool
	// CrashIsViolation: a worker crash with shovel frames on the stack is a
	// violation of this property (otherwise it is reported inconclusive).
	CrashIsViolation bool
	// CaseTimeoutS: watchdog per case (seconds, generous). Firing = inconclusive.
	CaseTimeoutS int
	// MaxProcs limits worker processes (0 = all cores).
	MaxProcs int
	// Extra is added to evidence coverage verbatim.
	Extra func(tier string) map[string]any
}

var registry = map[string]*Check{}

func Register(c *Check) {
	if _, dup := registry[c.ID]; dup {
		panic("duplicate check " + c.ID)
	}
	registry[c.ID] = c
}

func Lookup(id string) *Check { return registry[id] }

func IDs() []string {
	var ids []string
	for id := range registry {
		ids = append(ids, id)
	}
	sort.Strings(ids)
	return ids
}
