package vk

import (
	"os"
	"path/filepath"
	"sort"
	"strings"
)

type raceReport struct {
	Key  string
	Text string
}

// parseRaceLogs reads every race.* log in dir and returns one entry per report
// block. Key is "race:<innermost shovel frame A>|<innermost shovel frame B>"
// (sorted) when both access stacks contain a shovel frame, else "".
func parseRaceLogs(dir string) []raceReport {
	files, _ := filepath.Glob(filepath.Join(dir, "race.*"))
	sort.Strings(files)
	var res []raceReport
	for _, f := range files {
		b, err := os.ReadFile(f)
		if err != nil {
			continue
		}
		res = append(res, ParseRaceText(string(b))...)
	}
	return res
}

func ParseRaceText(s string) []raceReport {
	var res []raceReport
	for _, blk := range strings.Split(s, "==================") {
		if !strings.Contains(blk, "WARNING: DATA RACE") {
			continue
		}
		secs := strings.Split(strings.TrimSpace(blk), "\n\n")
		var frames []string
		for _, sec := range secs {
			head := strings.TrimSpace(sec)
			if strings.HasPrefix(head, "WARNING: DATA RACE") {
				// first access section follows the warning line in the same paragraph
				if i := strings.IndexByte(head, '\n'); i >= 0 {
					head = strings.TrimSpace(head[i+1:])
				}
			}
			if !(strings.HasPrefix(head, "Read at") || strings.HasPrefix(head, "Write at") ||
				strings.HasPrefix(head, "Previous read at") || strings.HasPrefix(head, "Previous write at") ||
				strings.HasPrefix(head, "Atomic") || strings.HasPrefix(head, "Previous atomic")) {
				continue
			}
			fr := ""
			for _, ln := range strings.Split(head, "\n") {
				ln = strings.TrimSpace(ln)
				if strings.HasPrefix(ln, shovelPkg) {
					fr = strings.TrimPrefix(ln, shovelPkg)
					if i := strings.LastIndex(fr, "("); i > 0 {
						fr = fr[:i]
					}
					break
				}
			}
			frames = append(frames, fr)
		}
		key := ""
		if len(frames) >= 2 && frames[0] != "" && frames[1] != "" {
			p := []string{frames[0], frames[1]}
			sort.Strings(p)
			key = "race:" + p[0] + "|" + p[1]
		}
		res = append(res, raceReport{Key: key, Text: strings.TrimSpace(blk)})
	}
	return res
}
