package vk

import (
	"bufio"
	"encoding/json"
	"fmt"
	"os"
	"regexp"
	"runtime"
	"runtime/debug"
	"strings"
	"time"
)

type workerLine struct {
	T   string  `json:"t"` // begin | end
	I   int     `json:"i"`
	Res *Result `json:"res,omitempty"`
}

const shovelPkg = "github.com/indexsupply/shovel/"

var frameRe = regexp.MustCompile(`^(github\.com/indexsupply/shovel/[^\s(]+(?:\([^)]*\))?[^\s(]*)\(`)

// TopShovelFrame returns the innermost function of shovel found in a Go stack
// dump (panic output or debug.Stack), without arguments or line numbers.
func TopShovelFrame(stack string) string {
	for _, ln := range strings.Split(stack, "\n") {
		ln = strings.TrimSpace(ln)
		if !strings.HasPrefix(ln, shovelPkg) {
			continue
		}
		// function line looks like: github.com/indexsupply/shovel/dig.scan({...}, ...)
		if i := strings.LastIndex(ln, "("); i > 0 {
			fn := ln[:i]
			fn = strings.TrimPrefix(fn, shovelPkg)
			return fn
		}
	}
	return ""
}

// RunOne executes a single case with panic recovery.
func RunOne(ck *Check, tier string, seed uint64, idx int, replay bool) *Result {
	c := &Case{Prop: ck.ID, Tier: tier, Seed: seed, Index: idx, Replay: replay}
	c.R = NewRNG(Derive(seed, HashString(ck.ID), uint64(idx)))
	func() {
		defer func() {
			if r := recover(); r != nil {
				st := string(debug.Stack())
				fr := TopShovelFrame(stripHarnessPrefix(st))
				switch {
				case fr != "" && ck.CrashIsViolation:
					c.Violate("panic:"+fr, map[string]any{"panic": fmt.Sprint(r), "stack": trimStack(st)}, "panic in %s: %v", fr, r)
				default:
					c.Inconclusive("harness panic: %v\n%s", r, trimStack(st))
				}
			}
		}()
		ck.Run(c)
	}()
	return &c.Res
}

// the stack of a recovered panic starts with debug.Stack/the deferred func/panic frames.
func stripHarnessPrefix(st string) string {
	if i := strings.Index(st, "panic("); i >= 0 {
		return st[i:]
	}
	return st
}

func trimStack(st string) string {
	lines := strings.Split(st, "\n")
	if len(lines) > 40 {
		lines = lines[:40]
	}
	return strings.Join(lines, "\n")
}

// WorkerMain runs the cases of one shard and writes begin/end lines so that a
// process-fatal event is attributed to the case in flight.
func WorkerMain(prop, tier string, seed uint64, shard, nshards, from int, out string) int {
	ck := Lookup(prop)
	if ck == nil {
		fmt.Fprintf(os.Stderr, "unknown property %s\n", prop)
		return 2
	}
	f, err := os.OpenFile(out, os.O_CREATE|os.O_WRONLY|os.O_APPEND, 0o644)
	if err != nil {
		fmt.Fprintln(os.Stderr, err)
		return 2
	}
	defer f.Close()
	w := bufio.NewWriter(f)
	emit := func(l workerLine) {
		b, err := json.Marshal(l)
		if err != nil {
			// a sample or detail was not serialisable: keep the verdict, drop the payload
			if l.Res != nil {
				l.Res.Sample = fmt.Sprintf("unserialisable sample: %v", err)
				for i := range l.Res.Violations {
					l.Res.Violations[i].Detail = fmt.Sprint(l.Res.Violations[i].Detail)
				}
				b, _ = json.Marshal(l)
			}
		}
		w.Write(b)
		w.WriteByte('\n')
		w.Flush()
	}
	n := ck.NCases(tier)
	timeout := time.Duration(ck.CaseTimeoutS) * time.Second
	if timeout == 0 {
		timeout = 180 * time.Second
	}
	for i := 0; i < n; i++ {
		if i%nshards != shard || i < from {
			continue
		}
		emit(workerLine{T: "begin", I: i})
		done := make(chan *Result, 1)
		go func() { done <- RunOne(ck, tier, seed, i, false) }()
		select {
		case res := <-done:
			emit(workerLine{T: "end", I: i, Res: res})
		case <-time.After(timeout):
			buf := make([]byte, 1<<20)
			buf = buf[:runtime.Stack(buf, true)]
			fmt.Fprintf(os.Stderr, "WATCHDOG case %d exceeded %s\n%s\n", i, timeout, buf)
			w.Flush()
			return 3
		}
	}
	return 0
}
