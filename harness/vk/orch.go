package vk

import (
	"bufio"
	"encoding/json"
	"fmt"
	"os"
	"os/exec"
	"path/filepath"
	"runtime"
	"sort"
	"strconv"
	"strings"
	"sync"
	"time"
)

// Root of the verification tree (directory holding MANIFEST.json).
func VerifRoot() string {
	if r := os.Getenv("VERIF_ROOT"); r != "" {
		return r
	}
	return "/verif"
}

type knownFinding struct {
	Prop, Key, Text string
}

func loadKnown() ([]knownFinding, error) {
	b, err := os.ReadFile(filepath.Join(VerifRoot(), "KNOWN_FINDINGS.txt"))
	if err != nil {
		if os.IsNotExist(err) {
			return nil, nil
		}
		return nil, err
	}
	var res []knownFinding
	for _, ln := range strings.Split(string(b), "\n") {
		ln = strings.TrimSpace(ln)
		if !strings.HasPrefix(ln, "known:") {
			continue // comments and fixed: lines suppress nothing
		}
		fs := strings.Fields(strings.TrimPrefix(ln, "known:"))
		if len(fs) < 2 || !strings.HasPrefix(fs[0], "property=") || !strings.HasPrefix(fs[1], "key=") {
			return nil, fmt.Errorf("malformed known-finding line: %q", ln)
		}
		res = append(res, knownFinding{
			Prop: strings.TrimPrefix(fs[0], "property="),
			Key:  strings.TrimPrefix(fs[1], "key="),
			Text: strings.Join(fs[2:], " "),
		})
	}
	return res, nil
}

type crash struct {
	Case   int
	Exit   int
	Stderr string
	Full   string
}

type foundViolation struct {
	Violation
	Case  int
	Count int
}

// Orchestrate runs all cases of a property over worker processes, merges what
// they observed, classifies violations and writes evidence. Returns exit code.
func Orchestrate(prop, tier string, seed uint64, workerExe string) int {
	t0 := time.Now()
	ck := Lookup(prop)
	if ck == nil {
		fmt.Printf("unknown property %s\n", prop)
		return 2
	}
	known, err := loadKnown()
	if err != nil {
		fmt.Println(err)
		return 2
	}
	n := ck.NCases(tier)
	nprocs := runtime.NumCPU()
	if nprocs > 16 {
		nprocs = 16
	}
	if ck.MaxProcs > 0 && nprocs > ck.MaxProcs {
		nprocs = ck.MaxProcs
	}
	if nprocs > n {
		nprocs = n
	}
	if nprocs < 1 {
		nprocs = 1
	}
	runDir := filepath.Join(VerifRoot(), ".build", "run", fmt.Sprintf("%s-%d", prop, os.Getpid()))
	os.RemoveAll(runDir)
	if err := os.MkdirAll(runDir, 0o755); err != nil {
		fmt.Println(err)
		return 2
	}
	defer os.RemoveAll(runDir)

	var (
		mu      sync.Mutex
		results = map[int]*Result{}
		crashes []crash
		wg      sync.WaitGroup
	)
	for sh := 0; sh < nprocs; sh++ {
		sh := sh
		wg.Add(1)
		go func() {
			defer wg.Done()
			from := 0
			for attempt := 0; attempt < 200; attempt++ {
				out := filepath.Join(runDir, fmt.Sprintf("out.%d.%d.jsonl", sh, attempt))
				errp := filepath.Join(runDir, fmt.Sprintf("err.%d.%d.txt", sh, attempt))
				ef, _ := os.Create(errp)
				cmd := exec.Command(workerExe, "worker", prop,
					"--tier", tier, "--seed", strconv.FormatUint(seed, 10),
					"--shard", fmt.Sprintf("%d/%d", sh, nprocs), "--from", strconv.Itoa(from), "--out", out)
				cmd.Stdout = ef
				cmd.Stderr = ef
				cmd.Env = append(os.Environ(), "GOTRACEBACK=all")
				if ck.Race {
					cmd.Env = append(cmd.Env, "GORACE=halt_on_error=0 exitcode=0 history_size=3 log_path="+filepath.Join(runDir, fmt.Sprintf("race.%d.%d", sh, attempt)))
				}
				runErr := cmd.Run()
				ef.Close()
				inflight, last := readWorkerOut(out, &mu, results)
				if runErr == nil {
					return
				}
				code := 1
				if ee, ok := runErr.(*exec.ExitError); ok {
					code = ee.ExitCode()
				}
				eb, _ := os.ReadFile(errp)
				mu.Lock()
				crashes = append(crashes, crash{Case: inflight, Exit: code, Stderr: panicExcerpt(string(eb)), Full: tail(string(eb), 400000)})
				mu.Unlock()
				if inflight < 0 {
					// died outside any case: do not loop forever
					if last < 0 {
						return
					}
					from = last + 1
				} else {
					from = inflight + 1
				}
			}
		}()
	}
	wg.Wait()

	// ---- merge
	var (
		obs          = map[string]int64{}
		maxes        = map[string]int64{}
		sets         = map[string]map[string]bool{}
		sigs         = map[string]bool{}
		samples      []any
		viol         = map[string]*foundViolation{}
		inconclusive []string
		evaluated    int
	)
	idxs := make([]int, 0, len(results))
	for i := range results {
		idxs = append(idxs, i)
	}
	sort.Ints(idxs)
	addViol := func(v Violation, cs int) {
		if fv, ok := viol[v.Key]; ok {
			fv.Count++
			return
		}
		viol[v.Key] = &foundViolation{Violation: v, Case: cs, Count: 1}
	}
	for _, i := range idxs {
		r := results[i]
		evaluated++
		for k, v := range r.Obs {
			obs[k] += v
		}
		for k, v := range r.Max {
			if v > maxes[k] {
				maxes[k] = v
			}
		}
		for k, vs := range r.Sets {
			if sets[k] == nil {
				sets[k] = map[string]bool{}
			}
			for _, v := range vs {
				sets[k][v] = true
			}
		}
		for _, sg := range r.Sigs {
			sigs[sg] = true
		}
		if r.Sample != nil && len(samples) < 4 {
			samples = append(samples, map[string]any{"case": i, "sample": r.Sample})
		}
		for _, v := range r.Violations {
			addViol(v, i)
		}
		if r.Inconclusive != "" {
			inconclusive = append(inconclusive, fmt.Sprintf("case %d: %s", i, firstLine(r.Inconclusive)))
		}
	}
	for _, cr := range crashes {
		fr := TopShovelFrame(afterPanic(cr.Stderr))
		switch {
		case cr.Exit == 3:
			inconclusive = append(inconclusive, fmt.Sprintf("case %d: watchdog fired", cr.Case))
			os.MkdirAll(filepath.Join(VerifRoot(), "replays"), 0o755)
			os.WriteFile(filepath.Join(VerifRoot(), "replays", fmt.Sprintf("%s-watchdog-%d.txt", prop, cr.Case)), []byte(cr.Full), 0o644)
		case fr != "" && ck.CrashIsViolation && cr.Case >= 0:
			addViol(Violation{
				Key:    "crash:" + fr,
				Msg:    fmt.Sprintf("worker process died in %s: %s", fr, firstLine(afterPanic(cr.Stderr))),
				Detail: map[string]any{"stderr_tail": tail(cr.Stderr, 4000)},
			}, cr.Case)
		default:
			inconclusive = append(inconclusive, fmt.Sprintf("case %d: worker exit %d: %s", cr.Case, cr.Exit, firstLine(afterPanic(cr.Stderr))))
			os.MkdirAll(filepath.Join(VerifRoot(), "replays"), 0o755)
			os.WriteFile(filepath.Join(VerifRoot(), "replays", fmt.Sprintf("%s-crash-%d.txt", prop, cr.Case)), []byte(cr.Stderr), 0o644)
		}
	}
	if ck.Race {
		reps := parseRaceLogs(runDir)
		obs["race_reports_total"] += int64(len(reps))
		for _, rp := range reps {
			if rp.Key == "" {
				inconclusive = append(inconclusive, "race report without two shovel stacks: "+firstLine(rp.Text))
				continue
			}
			addViol(Violation{Key: rp.Key, Msg: "data race: " + rp.Key, Detail: map[string]any{"report": tail(rp.Text, 6000)}}, -1)
		}
	}
	if evaluated < n {
		missing := n - evaluated - countCrashed(crashes)
		if missing > 0 {
			inconclusive = append(inconclusive, fmt.Sprintf("%d of %d cases produced no result", missing, n))
		}
	}
	if ck.MinObs != nil {
		for k, min := range ck.MinObs(tier) {
			got := obs[k]
			if m, ok := maxes[k]; ok && m > got {
				got = m
			}
			if got < min {
				inconclusive = append(inconclusive, fmt.Sprintf("observed too little: %s=%d < %d", k, got, min))
			}
		}
	}

	// ---- classify
	knownHits := map[string]int{}
	var unlisted []*foundViolation
	keys := make([]string, 0, len(viol))
	for k := range viol {
		keys = append(keys, k)
	}
	sort.Strings(keys)
	for _, k := range keys {
		fv := viol[k]
		listed := false
		for _, kf := range known {
			if kf.Prop == prop && kf.Key == fv.Key {
				knownHits[kf.Key] += fv.Count
				listed = true
			}
		}
		if !listed {
			unlisted = append(unlisted, fv)
		}
	}
	os.MkdirAll(filepath.Join(VerifRoot(), "replays"), 0o755)
	for _, fv := range unlisted {
		path := filepath.Join(VerifRoot(), "replays", fmt.Sprintf("%s-%016x.json", prop, HashString(fv.Key)))
		rep := map[string]any{
			"property": prop, "tier": tier, "seed": seed, "case": fv.Case,
			"key": fv.Key, "msg": fv.Msg, "detail": fv.Detail, "occurrences": fv.Count,
			"replay_cmd": fmt.Sprintf("./run.sh replay %s", path),
		}
		b, _ := json.MarshalIndent(rep, "", " ")
		os.WriteFile(path, b, 0o644)
		fmt.Printf("VIOLATION property=%s replay=%s\n", prop, path)
		fmt.Printf("  key=%s cases=%d first_case=%d: %s\n", fv.Key, fv.Count, fv.Case, firstLine(fv.Msg))
	}
	var knownObserved []map[string]any
	for _, kf := range known {
		if kf.Prop != prop {
			continue
		}
		fmt.Printf("KNOWN-FINDING: property=%s %s [key=%s observed=%d]\n", prop, kf.Text, kf.Key, knownHits[kf.Key])
		knownObserved = append(knownObserved, map[string]any{"key": kf.Key, "observed": knownHits[kf.Key], "text": kf.Text})
	}
	for i, s := range inconclusive {
		if i >= 10 {
			fmt.Printf("INCONCLUSIVE property=%s reason=(%d more)\n", prop, len(inconclusive)-i)
			break
		}
		fmt.Printf("INCONCLUSIVE property=%s reason=%s\n", prop, s)
	}

	// ---- evidence
	setsOut := map[string]any{}
	for k, m := range sets {
		var xs []string
		for x := range m {
			xs = append(xs, x)
		}
		sort.Strings(xs)
		setsOut[k+"_count"] = len(xs)
		if len(xs) > 60 {
			xs = xs[:60]
		}
		setsOut[k] = xs
	}
	if len(samples) == 0 {
		samples = append(samples, "no sample recorded")
	}
	evals := int64(evaluated)
	if v, ok := obs["evaluations"]; ok && v > 0 {
		// cases may count the individual executions they ran; never report fewer than the cases themselves
		if v > evals {
			evals = v
		}
		delete(obs, "evaluations")
	}
	cov := map[string]any{
		"evaluations":         evals,
		"cases":               evaluated,
		"distinct_nontrivial": len(sigs),
		"rule":                ck.Rule,
		"samples":             samples,
		"exhaustive":          ck.Exhaustive != nil && ck.Exhaustive(tier),
		"observed":            obs,
		"observed_max":        maxes,
		"observed_sets":       setsOut,
		"cases_planned":       n,
		"worker_processes":    nprocs,
		"worker_crashes":      len(crashes),
		"inconclusive":        inconclusive,
		"known_findings":      knownObserved,
		"technique":           ck.Technique,
	}
	if ck.Extra != nil {
		for k, v := range ck.Extra(tier) {
			cov[k] = v
		}
	}
	ev := map[string]any{
		"property_id": prop,
		"tier":        tier,
		"seed":        int64(seed),
		"level":       ck.Level,
		"coverage":    cov,
		"assumptions": ck.Assumptions,
		"wall_s":      time.Since(t0).Seconds(),
		"violations":  len(unlisted),
	}
	b, _ := json.MarshalIndent(ev, "", " ")
	os.MkdirAll(filepath.Join(VerifRoot(), "evidence"), 0o755)
	if err := os.WriteFile(filepath.Join(VerifRoot(), "evidence", prop+".json"), b, 0o644); err != nil {
		fmt.Println("writing evidence:", err)
		return 2
	}
	fmt.Printf("%s tier=%s seed=%d cases=%d distinct=%d violations=%d known=%d inconclusive=%d wall=%.1fs\n",
		prop, tier, seed, evaluated, len(sigs), len(unlisted), len(knownHits), len(inconclusive), time.Since(t0).Seconds())
	switch {
	case len(unlisted) > 0:
		return 1
	case len(inconclusive) > 0:
		return 2
	}
	return 0
}

func countCrashed(cs []crash) int {
	n := 0
	for _, c := range cs {
		if c.Case >= 0 {
			n++
		}
	}
	return n
}

func readWorkerOut(path string, mu *sync.Mutex, results map[int]*Result) (inflight, last int) {
	inflight, last = -1, -1
	f, err := os.Open(path)
	if err != nil {
		return
	}
	defer f.Close()
	sc := bufio.NewScanner(f)
	sc.Buffer(make([]byte, 1<<20), 1<<28)
	for sc.Scan() {
		var l workerLine
		if err := json.Unmarshal(sc.Bytes(), &l); err != nil {
			continue
		}
		switch l.T {
		case "begin":
			inflight = l.I
		case "end":
			inflight = -1
			last = l.I
			if l.Res != nil {
				mu.Lock()
				results[l.I] = l.Res
				mu.Unlock()
			}
		}
	}
	return
}

// panicExcerpt keeps the panic header with the panicking goroutine's stack
// (with GOTRACEBACK=all every goroutine follows) or, failing that, the tail.
func panicExcerpt(s string) string {
	for _, m := range []string{"panic: ", "fatal error: ", "FAKEPG INTERNAL PANIC"} {
		if i := strings.Index(s, m); i >= 0 {
			rest := s[i:]
			// the first goroutine block after the header is the panicking one
			if j := strings.Index(rest, "\n\ngoroutine "); j >= 0 {
				if k := strings.Index(rest[j+2:], "\n\n"); k >= 0 {
					rest = rest[:j+2+k]
				}
			}
			if len(rest) > 8000 {
				rest = rest[:8000]
			}
			return rest
		}
	}
	return tail(s, 8000)
}

func tail(s string, n int) string {
	if len(s) <= n {
		return s
	}
	return s[len(s)-n:]
}

func firstLine(s string) string {
	s = strings.TrimSpace(s)
	if i := strings.IndexByte(s, '\n'); i >= 0 {
		s = s[:i]
	}
	if len(s) > 300 {
		s = s[:300]
	}
	return s
}

func afterPanic(s string) string {
	for _, m := range []string{"panic: ", "fatal error: "} {
		if i := strings.Index(s, m); i >= 0 {
			return s[i:]
		}
	}
	return s
}

// Replay re-executes the single case recorded in a replay file.
func Replay(path string) int {
	b, err := os.ReadFile(path)
	if err != nil {
		fmt.Println(err)
		return 2
	}
	var rep struct {
		Property string `json:"property"`
		Tier     string `json:"tier"`
		Seed     uint64 `json:"seed"`
		Case     int    `json:"case"`
		Key      string `json:"key"`
	}
	if err := json.Unmarshal(b, &rep); err != nil {
		fmt.Println(err)
		return 2
	}
	ck := Lookup(rep.Property)
	if ck == nil {
		fmt.Println("unknown property", rep.Property)
		return 2
	}
	if rep.Case < 0 {
		fmt.Println("this violation is not attributed to a single case (race report); re-run the check with the same VERIF_SEED")
		return 2
	}
	res := RunOne(ck, rep.Tier, rep.Seed, rep.Case, true)
	out, _ := json.MarshalIndent(res, "", " ")
	fmt.Println(string(out))
	for _, v := range res.Violations {
		if v.Key == rep.Key {
			fmt.Printf("REPRODUCED property=%s key=%s\n", rep.Property, rep.Key)
			return 1
		}
	}
	fmt.Println("not reproduced")
	return 0
}
