// Package vk is the verification kit shared by all checks: deterministic PRNG,
// case/result types, the worker loop and the orchestrator.
package vk

import (
	"encoding/binary"
	"math/big"
)

// RNG is splitmix64. Every random choice of a case derives from
// (property, VERIF_SEED, case index); nothing reads the wall clock.
type RNG struct{ s uint64 }

func NewRNG(seed uint64) *RNG { return &RNG{s: seed} }

func mix(z uint64) uint64 {
	z = (z ^ (z >> 30)) * 0xbf58476d1ce4e5b9
	z = (z ^ (z >> 27)) * 0x94d049bb133111eb
	return z ^ (z >> 31)
}

// Derive folds labels into a seed.
func Derive(seed uint64, labels ...uint64) uint64 {
	s := mix(seed + 0x9e3779b97f4a7c15)
	for _, l := range labels {
		s = mix(s ^ mix(l+0x9e3779b97f4a7c15))
	}
	return s
}

func HashString(s string) uint64 {
	h := uint64(1469598103934665603)
	for i := 0; i < len(s); i++ {
		h ^= uint64(s[i])
		h *= 1099511628211
	}
	return h
}

func (r *RNG) U64() uint64 {
	r.s += 0x9e3779b97f4a7c15
	return mix(r.s)
}

// Fork returns an independent generator.
func (r *RNG) Fork() *RNG { return &RNG{s: r.U64()} }

func (r *RNG) Intn(n int) int {
	if n <= 0 {
		return 0
	}
	return int(r.U64() % uint64(n))
}

// Range returns a value in [lo, hi].
func (r *RNG) Range(lo, hi int) int {
	if hi <= lo {
		return lo
	}
	return lo + r.Intn(hi-lo+1)
}

func (r *RNG) Bool() bool { return r.U64()&1 == 1 }

// Chance returns true with probability num/den.
func (r *RNG) Chance(num, den int) bool { return r.Intn(den) < num }

func (r *RNG) Bytes(n int) []byte {
	b := make([]byte, n)
	for i := 0; i < n; i += 8 {
		var w [8]byte
		binary.LittleEndian.PutUint64(w[:], r.U64())
		copy(b[i:], w[:])
	}
	return b
}

func (r *RNG) BigBits(bits int) *big.Int {
	if bits <= 0 {
		return new(big.Int)
	}
	b := r.Bytes((bits + 7) / 8)
	x := new(big.Int).SetBytes(b)
	return x.And(x, new(big.Int).Sub(new(big.Int).Lsh(big.NewInt(1), uint(bits)), big.NewInt(1)))
}

func Pick[T any](r *RNG, xs []T) T { return xs[r.Intn(len(xs))] }

func Shuffle[T any](r *RNG, xs []T) {
	for i := len(xs) - 1; i > 0; i-- {
		j := r.Intn(i + 1)
		xs[i], xs[j] = xs[j], xs[i]
	}
}
