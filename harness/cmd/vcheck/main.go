// vcheck: orchestrator and worker of the runtime-monitoring checks.
//
//	vcheck run <Cxx> [--tier quick|thorough] [--seed N] [--worker-exe path]
//	vcheck worker <Cxx> --tier T --seed N --shard k/n --from i --out file
//	vcheck replay <file>
//	vcheck list
package main

import (
	"fmt"
	"io"
	"log/slog"
	"os"
	"strconv"
	"strings"

	"verif/harness/checks"
	"verif/harness/vk"
)

func main() {
	if len(os.Args) < 2 {
		usage()
	}
	// shovel logs through slog.Default; discard in every mode
	if os.Getenv("VERIF_LOG") == "" {
		slog.SetDefault(slog.New(slog.NewTextHandler(io.Discard, &slog.HandlerOptions{Level: slog.LevelError + 100})))
	}
	args := os.Args[2:]
	opt := func(name, def string) string {
		for i := 0; i+1 < len(args); i++ {
			if args[i] == "--"+name {
				return args[i+1]
			}
		}
		return def
	}
	switch os.Args[1] {
	case "list":
		for _, id := range vk.IDs() {
			fmt.Println(id)
		}
	case "run":
		if len(args) < 1 {
			usage()
		}
		tier := opt("tier", envOr("VERIF_TIER", "quick"))
		if tier != "quick" && tier != "thorough" {
			usage()
		}
		seed := parseU(opt("seed", envOr("VERIF_SEED", "1")))
		exe := opt("worker-exe", "")
		if exe == "" {
			var err error
			exe, err = os.Executable()
			if err != nil {
				fmt.Println(err)
				os.Exit(2)
			}
		}
		os.Exit(vk.Orchestrate(args[0], tier, seed, exe))
	case "worker":
		if len(args) < 1 {
			usage()
		}
		sh := strings.Split(opt("shard", "0/1"), "/")
		k, _ := strconv.Atoi(sh[0])
		n, _ := strconv.Atoi(sh[1])
		from, _ := strconv.Atoi(opt("from", "0"))
		os.Exit(vk.WorkerMain(args[0], opt("tier", "quick"), parseU(opt("seed", "1")), k, n, from, opt("out", "/dev/stdout")))
	case "firstuse":
		if len(args) < 1 {
			usage()
		}
		os.Exit(checks.FirstUseMain(parseU(args[0])))
	case "replay":
		if len(args) < 1 {
			usage()
		}
		os.Exit(vk.Replay(args[0]))
	default:
		usage()
	}
}

func envOr(k, def string) string {
	if v := os.Getenv(k); v != "" {
		return v
	}
	return def
}

func parseU(s string) uint64 {
	if v, err := strconv.ParseUint(s, 10, 64); err == nil {
		return v
	}
	if v, err := strconv.ParseInt(s, 10, 64); err == nil {
		return uint64(v)
	}
	return vk.HashString(s)
}

func usage() {
	fmt.Fprintln(os.Stderr, "usage: vcheck run <Cxx> [--tier quick|thorough] [--seed N] | worker ... | replay <file> | list")
	os.Exit(2)
}
