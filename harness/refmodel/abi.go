// Package refmodel is the reference model the monitors compare shovel against.
// Nothing here imports shovel's decoding code; dig is imported only for the
// *declaration* structs (what the configuration JSON unmarshals into), so a
// generated declaration can be handed to the real decoder.
//
// abi.go: ABI type model, canonical signature printer, head/tail encoder and
// the expected-rows projection of C09's statement. Written from the Solidity
// "Contract ABI Specification" (formal specification of the encoding).
package refmodel

import (
	"bytes"
	"encoding/hex"
	"fmt"
	"math/big"
	"strconv"
	"strings"
	"sync"

	"github.com/indexsupply/shovel/dig"
)

type Kind int

const (
	KUint Kind = iota
	KInt
	KAddress
	KBool
	KBytesN
	KBytes
	KString
	KArray      // T[]
	KFixedArray // T[k]
	KTuple
)

type Type struct {
	Kind   Kind
	Bits   int     // uint/int
	N      int     // bytesN size or fixed array length
	Elem   *Type   // arrays
	Fields []Field // tuple
}

type Field struct {
	Name    string
	Type    Type
	Indexed bool   // only meaningful on top-level event inputs
	Column  string // non-empty = selected; leaf or array-of-elementary only
}

// ---- constructors (conveniences for generators and catalogues)

func Uint(bits int) Type         { return Type{Kind: KUint, Bits: bits} }
func Int(bits int) Type          { return Type{Kind: KInt, Bits: bits} }
func Address() Type              { return Type{Kind: KAddress} }
func Bool() Type                 { return Type{Kind: KBool} }
func BytesN(n int) Type          { return Type{Kind: KBytesN, N: n} }
func Bytes() Type                { return Type{Kind: KBytes} }
func String() Type               { return Type{Kind: KString} }
func ArrayOf(e Type) Type        { return Type{Kind: KArray, Elem: &e} }
func FixedOf(k int, e Type) Type { return Type{Kind: KFixedArray, N: k, Elem: &e} }
func TupleOf(fs ...Field) Type   { return Type{Kind: KTuple, Fields: fs} }

// F builds a field; column "" = not selected.
func F(name string, t Type, column string) Field { return Field{Name: name, Type: t, Column: column} }

func (t Type) IsArray() bool { return t.Kind == KArray || t.Kind == KFixedArray }

// IsElementary: one of the leaf types (static or dynamic).
func (t Type) IsElementary() bool { return t.Kind <= KString }

// Base strips all array levels.
func (t Type) Base() Type {
	for t.IsArray() {
		t = *t.Elem
	}
	return t
}

// ArrayDepth counts the array levels stripped by Base.
func (t Type) ArrayDepth() int {
	n := 0
	for t.IsArray() {
		n++
		t = *t.Elem
	}
	return n
}

func (t Type) print(tuple func(Type) string) string {
	switch t.Kind {
	case KUint:
		return "uint" + strconv.Itoa(t.Bits)
	case KInt:
		return "int" + strconv.Itoa(t.Bits)
	case KAddress:
		return "address"
	case KBool:
		return "bool"
	case KBytesN:
		return "bytes" + strconv.Itoa(t.N)
	case KBytes:
		return "bytes"
	case KString:
		return "string"
	case KArray:
		return t.Elem.print(tuple) + "[]"
	case KFixedArray:
		return t.Elem.print(tuple) + "[" + strconv.Itoa(t.N) + "]"
	case KTuple:
		return tuple(t)
	}
	panic(fmt.Sprintf("refmodel: unknown kind %d", t.Kind))
}

// Canonical is the type as it appears in a signature: "uint256",
// "(uint8,bytes)[3][]"; tuples are parenthesised component lists.
func (t Type) Canonical() string {
	return t.print(func(tt Type) string {
		parts := make([]string, len(tt.Fields))
		for i, f := range tt.Fields {
			parts[i] = f.Type.Canonical()
		}
		return "(" + strings.Join(parts, ",") + ")"
	})
}

// JSONType is the "type" member of a JSON ABI input: tuples print as "tuple".
func (t Type) JSONType() string {
	return t.print(func(Type) string { return "tuple" })
}

// IsDynamic per the spec: bytes, string, T[] for any T, T[k] for dynamic T,
// tuples with a dynamic member.
func (t Type) IsDynamic() bool {
	switch t.Kind {
	case KBytes, KString, KArray:
		return true
	case KFixedArray:
		return t.Elem.IsDynamic()
	case KTuple:
		for _, f := range t.Fields {
			if f.Type.IsDynamic() {
				return true
			}
		}
	}
	return false
}

// HeadSize is the number of bytes the value occupies in the head of its
// enclosing tuple: 32 (an offset) for dynamic types, the full size otherwise.
func (t Type) HeadSize() int {
	if t.IsDynamic() {
		return 32
	}
	switch t.Kind {
	case KFixedArray:
		return t.N * t.Elem.HeadSize()
	case KTuple:
		n := 0
		for _, f := range t.Fields {
			n += f.Type.HeadSize()
		}
		return n
	}
	return 32
}

var two256 = new(big.Int).Lsh(big.NewInt(1), 256)

func word(x *big.Int) []byte {
	if x.Sign() < 0 {
		x = new(big.Int).Add(two256, x)
	}
	if x.Sign() < 0 || x.BitLen() > 256 {
		panic("refmodel: integer does not fit a word")
	}
	return x.FillBytes(make([]byte, 32))
}

func wordInt(n int) []byte { return word(big.NewInt(int64(n))) }

// Word is the 32-byte word of an elementary static value.
func Word(t Type, v any) []byte {
	switch t.Kind {
	case KUint:
		x := v.(*big.Int)
		if x.Sign() < 0 || x.BitLen() > t.Bits {
			panic(fmt.Sprintf("refmodel: %s out of range for %s", x, t.Canonical()))
		}
		return word(x)
	case KInt:
		x := v.(*big.Int)
		lim := new(big.Int).Lsh(big.NewInt(1), uint(t.Bits-1))
		if x.Cmp(lim) >= 0 || x.Cmp(new(big.Int).Neg(lim)) < 0 {
			panic(fmt.Sprintf("refmodel: %s out of range for %s", x, t.Canonical()))
		}
		return word(x)
	case KAddress:
		b := v.([]byte)
		if len(b) != 20 {
			panic("refmodel: address must be 20 bytes")
		}
		w := make([]byte, 32)
		copy(w[12:], b)
		return w
	case KBool:
		w := make([]byte, 32)
		if v.(bool) {
			w[31] = 1
		}
		return w
	case KBytesN:
		b := v.([]byte)
		if len(b) != t.N {
			panic(fmt.Sprintf("refmodel: bytes%d value has %d bytes", t.N, len(b)))
		}
		w := make([]byte, 32)
		copy(w, b)
		return w
	}
	panic("refmodel: Word of non-static type " + t.Canonical())
}

func dynContent(t Type, v any) []byte {
	switch t.Kind {
	case KBytes:
		return v.([]byte)
	case KString:
		return []byte(v.(string))
	}
	panic("refmodel: not bytes/string")
}

// encSeq is enc((X1..Xk)) of the spec: heads then tails; a dynamic member's
// head is the offset of its tail measured from the start of this encoding.
func encSeq(ts []Type, vs []any) []byte {
	if len(ts) != len(vs) {
		panic(fmt.Sprintf("refmodel: %d types, %d values", len(ts), len(vs)))
	}
	headLen := 0
	for _, t := range ts {
		headLen += t.HeadSize()
	}
	var head, tail []byte
	for i, t := range ts {
		e := EncodeValue(t, vs[i])
		if t.IsDynamic() {
			head = append(head, wordInt(headLen+len(tail))...)
			tail = append(tail, e...)
		} else {
			head = append(head, e...)
		}
	}
	return append(head, tail...)
}

func repeatType(t Type, n int) []Type {
	ts := make([]Type, n)
	for i := range ts {
		ts[i] = t
	}
	return ts
}

// EncodeValue is enc(X) of the spec for one value of type t. For a dynamic
// type this is what the tail holds (length word first for bytes/string/T[]).
func EncodeValue(t Type, v any) []byte {
	switch t.Kind {
	case KUint, KInt, KAddress, KBool, KBytesN:
		return Word(t, v)
	case KBytes, KString:
		c := dynContent(t, v)
		out := wordInt(len(c))
		out = append(out, c...)
		if pad := (32 - len(c)%32) % 32; pad > 0 {
			out = append(out, make([]byte, pad)...)
		}
		return out
	case KArray:
		vs := v.([]any)
		return append(wordInt(len(vs)), encSeq(repeatType(*t.Elem, len(vs)), vs)...)
	case KFixedArray:
		vs := v.([]any)
		if len(vs) != t.N {
			panic(fmt.Sprintf("refmodel: %s given %d elements", t.Canonical(), len(vs)))
		}
		return encSeq(repeatType(*t.Elem, t.N), vs)
	case KTuple:
		vs := v.([]any)
		ts := make([]Type, len(t.Fields))
		for i, f := range t.Fields {
			ts[i] = f.Type
		}
		return encSeq(ts, vs)
	}
	panic("refmodel: unknown kind")
}

// NonIndexed returns the entries of fields (and the parallel vals, which may be
// nil) that a log carries in its data.
func NonIndexed(fields []Field, vals []any) ([]Field, []any) {
	var fs []Field
	var vs []any
	for i, f := range fields {
		if f.Indexed {
			continue
		}
		fs = append(fs, f)
		if vals != nil {
			vs = append(vs, vals[i])
		}
	}
	return fs, vs
}

// EncodeTuple is the data of a log: the head/tail encoding of the non-indexed
// inputs. vals is parallel to fields; entries of indexed fields are ignored.
func EncodeTuple(fields []Field, vals []any) []byte {
	if len(fields) != len(vals) {
		panic(fmt.Sprintf("refmodel: %d fields, %d values", len(fields), len(vals)))
	}
	fs, vs := NonIndexed(fields, vals)
	ts := make([]Type, len(fs))
	for i, f := range fs {
		ts[i] = f.Type
	}
	return encSeq(ts, vs)
}

// EventSignature is "Name(type1,type2,...)" over all inputs, indexed or not.
func EventSignature(name string, inputs []Field) string {
	parts := make([]string, len(inputs))
	for i, f := range inputs {
		parts[i] = f.Type.Canonical()
	}
	return name + "(" + strings.Join(parts, ",") + ")"
}

// ToDigInputs renders the declaration the way shovel's configuration JSON
// gives it: "type" strings, components for tuples, column selections.
func ToDigInputs(inputs []Field) []dig.Input {
	res := make([]dig.Input, len(inputs))
	for i, f := range inputs {
		in := dig.Input{Indexed: f.Indexed, Name: f.Name, Type: f.Type.JSONType(), Column: f.Column}
		if b := f.Type.Base(); b.Kind == KTuple {
			in.Components = ToDigInputs(b.Fields)
		}
		res[i] = in
	}
	return res
}

func ToDigEvent(name string, inputs []Field) dig.Event {
	return dig.Event{Anon: false, Name: name, Type: "event", Inputs: ToDigInputs(inputs)}
}

// ---- selection

// SelectedLeaves lists, in declaration (depth-first) order, the selected
// elementary types of the non-indexed inputs: one per result column.
func SelectedLeaves(fields []Field) []SelectedLeaf {
	var res []SelectedLeaf
	var walk func(fs []Field, top bool, depth int, path string)
	walk = func(fs []Field, top bool, depth int, path string) {
		for _, f := range fs {
			if top && f.Indexed {
				continue
			}
			b := f.Type.Base()
			d := depth + f.Type.ArrayDepth()
			p := path + "/" + f.Name
			if b.Kind == KTuple {
				walk(b.Fields, false, d, p)
				continue
			}
			if f.Column != "" {
				res = append(res, SelectedLeaf{Field: f, Leaf: b, ArrayDepth: d, Path: p})
			}
		}
	}
	walk(fields, true, 0, "")
	return res
}

type SelectedLeaf struct {
	Field      Field  // the declaring field (its Type may be an array of Leaf)
	Leaf       Type   // elementary type of the cell
	ArrayDepth int    // array levels between the event and the cell
	Path       string // "/a/b"
}

// SelectionInDomain reports whether the selection stays inside the statement's
// domain: no selected leaf whose path holds an array level *below* a tuple that
// is itself (directly or through further arrays/tuples) an array element.
func SelectionInDomain(fields []Field) bool {
	ok := true
	var walk func(t Type, column string, arrAbove, tupleUnderArr bool)
	walk = func(t Type, column string, arrAbove, tupleUnderArr bool) {
		switch {
		case t.IsArray():
			if tupleUnderArr && hasSel(*t.Elem, column) {
				ok = false
			}
			walk(*t.Elem, column, true, tupleUnderArr)
		case t.Kind == KTuple:
			for _, f := range t.Fields {
				walk(f.Type, f.Column, arrAbove, arrAbove)
			}
		}
	}
	for _, f := range fields {
		if f.Indexed {
			continue
		}
		walk(f.Type, f.Column, false, false)
	}
	return ok
}

func hasSel(t Type, column string) bool {
	b := t.Base()
	if b.Kind != KTuple {
		return column != ""
	}
	for _, f := range b.Fields {
		if hasSel(f.Type, f.Column) {
			return true
		}
	}
	return false
}

// HasSelection reports whether anything below the field is selected.
func HasSelection(f Field) bool { return hasSel(f.Type, f.Column) }

// ExpectedRows computes, from the VALUES, the rows C09's statement demands for
// the non-indexed inputs.
//
// Columns are the selected leaves in declaration order. A selected leaf under
// no array is a scalar and is broadcast to every row. Under arrays, the row
// unit is the element of the innermost array level above the leaf: one row per
// such element in traversal order (for T[][] one row per innermost element; for
// an array of tuples one row per tuple holding all selected members). Rows of
// sibling arrays are concatenated, each array's rows holding nil in the other
// arrays' columns. If no row was produced (no selected array, or all empty) the
// result is one row holding the scalars. Cells: the 32-byte word for static
// leaves, the content bytes for bytes/string; nil and empty are equivalent.
func ExpectedRows(fields []Field, vals []any) [][][]byte {
	if len(fields) != len(vals) {
		panic(fmt.Sprintf("refmodel: %d fields, %d values", len(fields), len(vals)))
	}
	fs, vs := NonIndexed(fields, vals)
	ncols := len(SelectedLeaves(fs))
	scalars := make([][]byte, ncols)
	var rows [][][]byte
	col := 0
	// walk visits types in declaration order; col numbering restarts for every
	// element of an array, so it is passed and returned explicitly.
	var walk func(t Type, column string, v any, cur [][]byte, col int) int
	walk = func(t Type, column string, v any, cur [][]byte, col int) int {
		switch {
		case t.Kind == KTuple:
			tv := v.([]any)
			for i, f := range t.Fields {
				col = walk(f.Type, f.Column, tv[i], cur, col)
			}
			return col
		case t.IsArray():
			width := countSel(*t.Elem, column)
			if width == 0 {
				return col
			}
			for _, e := range v.([]any) {
				r := cur
				if !t.Elem.IsArray() {
					r = make([][]byte, ncols)
					rows = append(rows, r)
				}
				walk(*t.Elem, column, e, r, col)
			}
			return col + width
		default:
			if column == "" {
				return col
			}
			var cell []byte
			if t.Kind == KBytes || t.Kind == KString {
				cell = append([]byte(nil), dynContent(t, v)...)
			} else {
				cell = Word(t, v)
			}
			if cur == nil {
				scalars[col] = cell
			} else {
				cur[col] = cell
			}
			return col + 1
		}
	}
	for i, f := range fs {
		col = walk(f.Type, f.Column, vs[i], nil, col)
	}
	if len(rows) == 0 {
		rows = append(rows, make([][]byte, ncols))
	}
	for _, r := range rows {
		for j := range r {
			if len(scalars[j]) > 0 {
				r[j] = scalars[j]
			}
		}
	}
	return rows
}

func countSel(t Type, column string) int {
	b := t.Base()
	if b.Kind != KTuple {
		if column != "" {
			return 1
		}
		return 0
	}
	n := 0
	for _, f := range b.Fields {
		n += countSel(f.Type, f.Column)
	}
	return n
}

// RowsEqual compares decoded rows with expected rows, nil ≡ empty. It returns
// a short description of the first difference.
func RowsEqual(got, want [][][]byte) (bool, string) {
	if len(got) != len(want) {
		return false, fmt.Sprintf("%d rows, want %d", len(got), len(want))
	}
	for i := range want {
		if len(got[i]) != len(want[i]) {
			return false, fmt.Sprintf("row %d has %d cells, want %d", i, len(got[i]), len(want[i]))
		}
		for j := range want[i] {
			if !bytes.Equal(got[i][j], want[i][j]) {
				return false, fmt.Sprintf("row %d col %d = %s, want %s", i, j, hexShort(got[i][j]), hexShort(want[i][j]))
			}
		}
	}
	return true, ""
}

func hexShort(b []byte) string {
	if b == nil {
		return "nil"
	}
	if len(b) > 40 {
		return hex.EncodeToString(b[:40]) + fmt.Sprintf("..(%d bytes)", len(b))
	}
	return hex.EncodeToString(b)
}

// HexRows renders rows for samples and violation details.
func HexRows(rows [][][]byte) [][]string {
	out := make([][]string, len(rows))
	for i, r := range rows {
		out[i] = make([]string, len(r))
		for j, c := range r {
			out[i][j] = hexShort(c)
		}
	}
	return out
}

// Describe prints a declaration: canonical types with '*' on selected fields,
// e.g. "(uint256 a*, (uint8 x, bytes y*)[] b)".
func Describe(fields []Field) string {
	var p func(fs []Field) string
	p = func(fs []Field) string {
		parts := make([]string, len(fs))
		for i, f := range fs {
			b := f.Type.Base()
			var s string
			if b.Kind == KTuple {
				s = p(b.Fields) + strings.TrimPrefix(f.Type.JSONType(), "tuple")
			} else {
				s = f.Type.Canonical()
			}
			if f.Indexed {
				s += " indexed"
			}
			s += " " + f.Name
			if f.Column != "" {
				s += "*"
			}
			parts[i] = s
		}
		return "(" + strings.Join(parts, ", ") + ")"
	}
	return p(fields)
}

// ---- self test

var (
	selfOnce sync.Once
	selfErr  error
)

// SelfTest validates the reference model against known answers: Keccak-256
// against x/crypto and fixed vectors; the encoder against the worked examples
// of the Solidity ABI specification (hand-transcribed words); the row rule
// against small hand-computed cases. Runs once per process.
func SelfTest() error {
	selfOnce.Do(func() { selfErr = selfTest() })
	return selfErr
}

func hexWords(s string) []byte {
	s = strings.Map(func(r rune) rune {
		if r >= '0' && r <= '9' || r >= 'a' && r <= 'f' {
			return r
		}
		return -1
	}, s)
	b, err := hex.DecodeString(s)
	if err != nil {
		panic(err)
	}
	return b
}

func bi(x int64) *big.Int { return big.NewInt(x) }

func selfTest() (err error) {
	defer func() {
		if r := recover(); r != nil {
			err = fmt.Errorf("refmodel self-test panicked: %v", r)
		}
	}()
	if err := keccakSelfTest(); err != nil {
		return err
	}
	type vec struct {
		name   string
		fields []Field
		vals   []any
		want   string
	}
	u256, u32 := Uint(256), Uint(32)
	vecs := []vec{
		{ // spec: baz(uint32 x, bool y) with (69, true)
			"baz(uint32,bool)",
			[]Field{F("x", u32, ""), F("y", Bool(), "")},
			[]any{bi(69), true},
			`0000000000000000000000000000000000000000000000000000000000000045
			 0000000000000000000000000000000000000000000000000000000000000001`,
		},
		{ // spec: bar(bytes3[2]) with ["abc","def"]
			"bar(bytes3[2])",
			[]Field{F("a", FixedOf(2, BytesN(3)), "")},
			[]any{[]any{[]byte("abc"), []byte("def")}},
			`6162630000000000000000000000000000000000000000000000000000000000
			 6465660000000000000000000000000000000000000000000000000000000000`,
		},
		{ // spec: sam(bytes,bool,uint256[]) with ("dave", true, [1,2,3])
			"sam(bytes,bool,uint256[])",
			[]Field{F("a", Bytes(), ""), F("b", Bool(), ""), F("c", ArrayOf(u256), "")},
			[]any{[]byte("dave"), true, []any{bi(1), bi(2), bi(3)}},
			`0000000000000000000000000000000000000000000000000000000000000060
			 0000000000000000000000000000000000000000000000000000000000000001
			 00000000000000000000000000000000000000000000000000000000000000a0
			 0000000000000000000000000000000000000000000000000000000000000004
			 6461766500000000000000000000000000000000000000000000000000000000
			 0000000000000000000000000000000000000000000000000000000000000003
			 0000000000000000000000000000000000000000000000000000000000000001
			 0000000000000000000000000000000000000000000000000000000000000002
			 0000000000000000000000000000000000000000000000000000000000000003`,
		},
		{ // spec "use of dynamic types": f(uint256,uint32[],bytes10,bytes) with (0x123, [0x456,0x789], "1234567890", "Hello, world!")
			"f(uint256,uint32[],bytes10,bytes)",
			[]Field{F("a", u256, ""), F("b", ArrayOf(u32), ""), F("c", BytesN(10), ""), F("d", Bytes(), "")},
			[]any{bi(0x123), []any{bi(0x456), bi(0x789)}, []byte("1234567890"), []byte("Hello, world!")},
			`0000000000000000000000000000000000000000000000000000000000000123
			 0000000000000000000000000000000000000000000000000000000000000080
			 3132333435363738393000000000000000000000000000000000000000000000
			 00000000000000000000000000000000000000000000000000000000000000e0
			 0000000000000000000000000000000000000000000000000000000000000002
			 0000000000000000000000000000000000000000000000000000000000000456
			 0000000000000000000000000000000000000000000000000000000000000789
			 000000000000000000000000000000000000000000000000000000000000000d
			 48656c6c6f2c20776f726c642100000000000000000000000000000000000000`,
		},
		{ // spec: g(uint256[][],string[]) with ([[1,2],[3]], ["one","two","three"])
			"g(uint256[][],string[])",
			[]Field{F("a", ArrayOf(ArrayOf(u256)), ""), F("b", ArrayOf(String()), "")},
			[]any{
				[]any{[]any{bi(1), bi(2)}, []any{bi(3)}},
				[]any{"one", "two", "three"},
			},
			`0000000000000000000000000000000000000000000000000000000000000040
			 0000000000000000000000000000000000000000000000000000000000000140
			 0000000000000000000000000000000000000000000000000000000000000002
			 0000000000000000000000000000000000000000000000000000000000000040
			 00000000000000000000000000000000000000000000000000000000000000a0
			 0000000000000000000000000000000000000000000000000000000000000002
			 0000000000000000000000000000000000000000000000000000000000000001
			 0000000000000000000000000000000000000000000000000000000000000002
			 0000000000000000000000000000000000000000000000000000000000000001
			 0000000000000000000000000000000000000000000000000000000000000003
			 0000000000000000000000000000000000000000000000000000000000000003
			 0000000000000000000000000000000000000000000000000000000000000060
			 00000000000000000000000000000000000000000000000000000000000000a0
			 00000000000000000000000000000000000000000000000000000000000000e0
			 0000000000000000000000000000000000000000000000000000000000000003
			 6f6e650000000000000000000000000000000000000000000000000000000000
			 0000000000000000000000000000000000000000000000000000000000000003
			 74776f0000000000000000000000000000000000000000000000000000000000
			 0000000000000000000000000000000000000000000000000000000000000005
			 7468726565000000000000000000000000000000000000000000000000000000`,
		},
		{ // hand-computed: a static tuple is inlined, a dynamic tuple goes to the tail,
			// int8 -1 is sign-extended, address is left-padded
			"h((int8,address),(bool,string),uint8[2][2])",
			[]Field{
				F("a", TupleOf(F("p", Int(8), ""), F("q", Address(), "")), ""),
				F("b", TupleOf(F("r", Bool(), ""), F("s", String(), "")), ""),
				F("c", FixedOf(2, FixedOf(2, Uint(8))), ""),
			},
			[]any{
				[]any{bi(-1), hexWords("00112233445566778899aabbccddeeff00112233")},
				[]any{true, "hi"},
				[]any{[]any{bi(1), bi(2)}, []any{bi(3), bi(4)}},
			},
			`ffffffffffffffffffffffffffffffffffffffffffffffffffffffffffffffff
			 00000000000000000000000000112233445566778899aabbccddeeff00112233
			 00000000000000000000000000000000000000000000000000000000000000e0
			 0000000000000000000000000000000000000000000000000000000000000001
			 0000000000000000000000000000000000000000000000000000000000000002
			 0000000000000000000000000000000000000000000000000000000000000003
			 0000000000000000000000000000000000000000000000000000000000000004
			 0000000000000000000000000000000000000000000000000000000000000001
			 0000000000000000000000000000000000000000000000000000000000000040
			 0000000000000000000000000000000000000000000000000000000000000002
			 6869000000000000000000000000000000000000000000000000000000000000`,
		},
		{ // hand-computed: fixed array of dynamic elements is itself dynamic; offsets
			// inside it are relative to its own start; empty bytes is a lone zero word
			"k(bytes[2],uint256)",
			[]Field{F("a", FixedOf(2, Bytes()), ""), F("b", u256, "")},
			[]any{[]any{[]byte{}, []byte{0xab}}, bi(7)},
			`0000000000000000000000000000000000000000000000000000000000000040
			 0000000000000000000000000000000000000000000000000000000000000007
			 0000000000000000000000000000000000000000000000000000000000000040
			 0000000000000000000000000000000000000000000000000000000000000060
			 0000000000000000000000000000000000000000000000000000000000000000
			 0000000000000000000000000000000000000000000000000000000000000001
			 ab00000000000000000000000000000000000000000000000000000000000000`,
		},
	}
	for _, v := range vecs {
		got := EncodeTuple(v.fields, v.vals)
		if want := hexWords(v.want); !bytes.Equal(got, want) {
			return fmt.Errorf("refmodel.EncodeTuple %s:\n got %x\nwant %x", v.name, got, want)
		}
		if sig := EventSignature(v.name[:strings.Index(v.name, "(")], v.fields); sig != v.name {
			return fmt.Errorf("refmodel.EventSignature = %q, want %q", sig, v.name)
		}
	}
	// EncodeValue of string[][] (tail content) — the nested-list example used by shovel's own test data
	nested := EncodeValue(ArrayOf(ArrayOf(String())), []any{[]any{"hello", "world"}, []any{"bye"}})
	if want := hexWords(`
		0000000000000000000000000000000000000000000000000000000000000002
		0000000000000000000000000000000000000000000000000000000000000040
		0000000000000000000000000000000000000000000000000000000000000120
		0000000000000000000000000000000000000000000000000000000000000002
		0000000000000000000000000000000000000000000000000000000000000040
		0000000000000000000000000000000000000000000000000000000000000080
		0000000000000000000000000000000000000000000000000000000000000005
		68656c6c6f000000000000000000000000000000000000000000000000000000
		0000000000000000000000000000000000000000000000000000000000000005
		776f726c64000000000000000000000000000000000000000000000000000000
		0000000000000000000000000000000000000000000000000000000000000001
		0000000000000000000000000000000000000000000000000000000000000020
		0000000000000000000000000000000000000000000000000000000000000003
		6279650000000000000000000000000000000000000000000000000000000000`); !bytes.Equal(nested, want) {
		return fmt.Errorf("refmodel.EncodeValue string[][]:\n got %x\nwant %x", nested, want)
	}
	// signatures / JSON types
	tt := ArrayOf(FixedOf(3, TupleOf(F("a", Uint(8), ""), F("b", Bytes(), ""))))
	if tt.Canonical() != "(uint8,bytes)[3][]" || tt.JSONType() != "tuple[3][]" {
		return fmt.Errorf("refmodel type printing: %q %q", tt.Canonical(), tt.JSONType())
	}
	nt := TupleOf(F("a", TupleOf(F("x", Address(), ""), F("y", ArrayOf(Int(24)), "")), ""), F("b", FixedOf(12, String()), ""))
	if nt.Canonical() != "((address,int24[]),string[12])" || !nt.IsDynamic() || nt.HeadSize() != 32 {
		return fmt.Errorf("refmodel nested tuple printing: %q", nt.Canonical())
	}
	if st := FixedOf(3, TupleOf(F("a", Uint(8), ""), F("b", FixedOf(2, Bool()), ""))); st.IsDynamic() || st.HeadSize() != 3*96 {
		return fmt.Errorf("refmodel head size of %s = %d", st.Canonical(), st.HeadSize())
	}
	// row rule, hand-computed
	w := func(n int64) []byte { return word(bi(n)) }
	type rv struct {
		name   string
		fields []Field
		vals   []any
		want   [][][]byte
	}
	rvs := []rv{
		{"scalars once",
			[]Field{F("a", u256, "a"), F("b", String(), ""), F("c", Bytes(), "c")},
			[]any{bi(42), "skip", []byte("foo")},
			[][][]byte{{w(42), []byte("foo")}}},
		{"scalar broadcast over array",
			[]Field{F("a", u256, "a"), F("b", ArrayOf(u256), "b")},
			[]any{bi(42), []any{bi(43), bi(44)}},
			[][][]byte{{w(42), w(43)}, {w(42), w(44)}}},
		{"empty array -> one row of scalars",
			[]Field{F("a", u256, "a"), F("b", ArrayOf(u256), "b")},
			[]any{bi(42), []any{}},
			[][][]byte{{w(42), nil}}},
		{"sibling arrays concatenate",
			[]Field{F("a", ArrayOf(u256), "a"), F("s", Bool(), "s"), F("b", FixedOf(2, String()), "b")},
			[]any{[]any{bi(1)}, true, []any{"x", ""}},
			[][][]byte{{w(1), w(1), nil}, {nil, w(1), []byte("x")}, {nil, w(1), nil}}},
		{"nested arrays: innermost elements in traversal order",
			[]Field{F("a", ArrayOf(ArrayOf(String())), "a")},
			[]any{[]any{[]any{"hello", "world"}, []any{}, []any{"bye"}}},
			[][][]byte{{[]byte("hello")}, {[]byte("world")}, {[]byte("bye")}}},
		{"array of tuples: one row per tuple, unselected member skipped",
			[]Field{F("t", ArrayOf(TupleOf(F("x", Uint(8), "x"), F("y", Bytes(), ""), F("z", Address(), "z"))), ""), F("k", Int(16), "k")},
			[]any{[]any{
				[]any{bi(1), []byte("q"), make([]byte, 20)},
				[]any{bi(2), []byte{}, bytes.Repeat([]byte{0xff}, 20)},
			}, bi(-2)},
			[][][]byte{
				{w(1), make([]byte, 32), word(bi(-2))},
				{w(2), append(make([]byte, 12), bytes.Repeat([]byte{0xff}, 20)...), word(bi(-2))},
			}},
		{"indexed inputs are not part of the data",
			[]Field{{Name: "i", Type: Address(), Indexed: true, Column: "i"}, F("a", Uint(8), "a")},
			[]any{make([]byte, 20), bi(5)},
			[][][]byte{{w(5)}}},
	}
	for _, v := range rvs {
		got := ExpectedRows(v.fields, v.vals)
		if ok, why := RowsEqual(got, v.want); !ok {
			return fmt.Errorf("refmodel.ExpectedRows %q: %s", v.name, why)
		}
	}
	// domain predicate
	in := []Field{F("t", ArrayOf(TupleOf(F("x", Uint(8), "x"), F("y", ArrayOf(Uint(8)), ""))), "")}
	out := []Field{F("t", ArrayOf(TupleOf(F("x", Uint(8), ""), F("y", ArrayOf(Uint(8)), "y"))), "")}
	out2 := []Field{F("t", FixedOf(2, TupleOf(F("u", TupleOf(F("y", FixedOf(2, Uint(8)), "y")), ""))), "")}
	in2 := []Field{F("t", TupleOf(F("y", ArrayOf(ArrayOf(Uint(8))), "y"), F("z", ArrayOf(TupleOf(F("q", Bool(), "q"))), "")), "")}
	if !SelectionInDomain(in) || SelectionInDomain(out) || SelectionInDomain(out2) || !SelectionInDomain(in2) {
		return fmt.Errorf("refmodel.SelectionInDomain misclassifies")
	}
	return nil
}
