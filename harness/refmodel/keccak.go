package refmodel

import (
	"bytes"
	"encoding/binary"
	"encoding/hex"
	"fmt"
	"math/bits"

	"golang.org/x/crypto/sha3"
)

// Own Keccak-256 (the pre-standard variant Ethereum uses: Keccak[c=512] with
// the original multi-rate padding 0x01 .. 0x80, not SHA-3's 0x06). Written from
// the Keccak reference: round constants come from the degree-8 LFSR, rotation
// offsets from the (x,y) -> (y, 2x+3y) walk, so no table is copied from the
// library it is compared against.

var (
	keccakRC  [24]uint64
	keccakRot [25]uint // indexed x + 5*y
)

func init() {
	// rc(t): LFSR x^8 + x^6 + x^5 + x^4 + 1
	lfsr := byte(1)
	rcBit := func() bool {
		out := lfsr&1 == 1
		hi := lfsr&0x80 != 0
		lfsr <<= 1
		if hi {
			lfsr ^= 0x71
		}
		return out
	}
	for r := 0; r < 24; r++ {
		var c uint64
		for j := 0; j <= 6; j++ {
			if rcBit() {
				c |= 1 << ((1 << uint(j)) - 1)
			}
		}
		keccakRC[r] = c
	}
	// rho offsets
	x, y := 1, 0
	for t := 0; t < 24; t++ {
		keccakRot[x+5*y] = uint(((t + 1) * (t + 2) / 2) % 64)
		x, y = y, (2*x+3*y)%5
	}
}

func keccakF1600(a *[25]uint64) {
	var c [5]uint64
	var b [25]uint64
	for round := 0; round < 24; round++ {
		// theta
		for x := 0; x < 5; x++ {
			c[x] = a[x] ^ a[x+5] ^ a[x+10] ^ a[x+15] ^ a[x+20]
		}
		for x := 0; x < 5; x++ {
			d := c[(x+4)%5] ^ bits.RotateLeft64(c[(x+1)%5], 1)
			for y := 0; y < 5; y++ {
				a[x+5*y] ^= d
			}
		}
		// rho + pi: B[y, 2x+3y] = rot(A[x,y], r[x,y])
		for x := 0; x < 5; x++ {
			for y := 0; y < 5; y++ {
				b[y+5*((2*x+3*y)%5)] = bits.RotateLeft64(a[x+5*y], int(keccakRot[x+5*y]))
			}
		}
		// chi
		for y := 0; y < 5; y++ {
			for x := 0; x < 5; x++ {
				a[x+5*y] = b[x+5*y] ^ (^b[(x+1)%5+5*y] & b[(x+2)%5+5*y])
			}
		}
		// iota
		a[0] ^= keccakRC[round]
	}
}

// Keccak256 returns the 32-byte legacy Keccak-256 digest of b.
func Keccak256(b []byte) []byte {
	const rate = 136
	var st [25]uint64
	absorb := func(blk []byte) {
		for i := 0; i < rate/8; i++ {
			st[i] ^= binary.LittleEndian.Uint64(blk[8*i:])
		}
		keccakF1600(&st)
	}
	for len(b) >= rate {
		absorb(b[:rate])
		b = b[rate:]
	}
	var last [rate]byte
	copy(last[:], b)
	last[len(b)] ^= 0x01
	last[rate-1] ^= 0x80
	absorb(last[:])
	out := make([]byte, 32)
	for i := 0; i < 4; i++ {
		binary.LittleEndian.PutUint64(out[8*i:], st[i])
	}
	return out
}

func keccakSelfTest() error {
	kat := []struct{ in, want string }{
		{"", "c5d2460186f7233c927e7db2dcc703c0e500b653ca82273b7bfad8045d85a470"},
		{"Transfer(address,address,uint256)", "ddf252ad1be2c89b69c2b068fc378daa952ba7f163c4a11628f55a4df523b3ef"},
		{"Approval(address,address,uint256)", "8c5be1e5ebec7d5bd14f71427d1e84f3dd0314c0f7b2291e5b200ac8c7c3b925"},
		{"Deposit(address,uint256)", "e1fffcc4923d04b559f4d29a8bfc6cda04eb5b0d3c460751c2402c5c5cc9109c"},
		{"Withdrawal(address,uint256)", "7fcf532c15f0a6db0bd6d0e038bea71d30d808c7d98cb3bf7268a95bf5081b65"},
	}
	for _, k := range kat {
		if got := hex.EncodeToString(Keccak256([]byte(k.in))); got != k.want {
			return fmt.Errorf("refmodel.Keccak256(%q) = %s, want %s", k.in, got, k.want)
		}
	}
	// every length around the rate boundaries, deterministic content
	buf := make([]byte, 700)
	x := uint32(2463534242)
	for i := range buf {
		x ^= x << 13
		x ^= x >> 17
		x ^= x << 5
		buf[i] = byte(x)
	}
	for n := 0; n <= len(buf); n++ {
		h := sha3.NewLegacyKeccak256()
		h.Write(buf[:n])
		if want := h.Sum(nil); !bytes.Equal(Keccak256(buf[:n]), want) {
			return fmt.Errorf("refmodel.Keccak256 differs from x/crypto legacy Keccak-256 at length %d", n)
		}
	}
	return nil
}
