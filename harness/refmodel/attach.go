package refmodel

// attach.go: the "faithful attachment" oracle of C07, written from the property
// statement only (it imports nothing of shovel). Given the HTTP exchanges a
// source served for one block request (start, limit) it decides
//
//   - whether the response set is inconsistent in one of the ways the statement
//     lists (then the request MUST fail), and otherwise
//   - what the request may return: exactly blocks start..start+limit-1, each
//     with the header the responses give for that number, and every log,
//     receipt and trace present in the responses attached, unchanged, to the
//     block and transaction it names.
//
// All identifiers carry the Att prefix (the package is shared).

import (
	"encoding/json"
	"fmt"
	"sort"
	"strings"
)

type AttExchange struct {
	Kind   string   // blocks | headers | receipts | logs | trace
	Batch  bool     // request was a JSON-RPC batch
	Asked  []uint64 // requested block number per call (logs: [to, from])
	Status int
	Body   string
}

type AttReason struct {
	Method string `json:"method"`
	Kind   string `json:"kind"`
}

func (r AttReason) String() string { return r.Method + ":" + r.Kind }

type AttLog struct {
	Block  uint64   `json:"block"`
	Tx     uint64   `json:"tx"`
	Idx    uint64   `json:"logIndex"`
	Addr   string   `json:"address"`
	Topics []string `json:"topics"`
	Data   string   `json:"data"`
}

func (l AttLog) Content() string {
	return fmt.Sprintf("log#%d %s [%s] %s", l.Idx, l.Addr, strings.Join(l.Topics, ","), l.Data)
}

type AttTrace struct {
	From, To, CallType, Value string
}

func (t AttTrace) Content() string {
	return fmt.Sprintf("trace %s>%s %s %s", t.From, t.To, t.CallType, t.Value)
}

type AttTx struct {
	Idx    uint64
	Hashes map[string]bool     // every transaction hash some response gives this tx
	Body   map[string]string   // from a full block (nil if none)
	Rcpts  []map[string]string // every receipt naming this tx
	// RcptAmbiguous: several different receipts name this tx, or a receipt and a log
	// nested in it disagree about the tx: the statement does not say which wins.
	RcptAmbiguous bool
	RcptLogs      []AttLog            // logs of those receipts (and nested logs naming this tx), response order
	Logs          map[uint64][]AttLog // eth_getLogs logs by logIndex (several if the responses conflict)
	Traces        []AttTrace          // response order
}

type AttBlock struct {
	Num        uint64
	HasHeader  bool
	Hash       string
	Parent     string
	Time       uint64
	ItemHashes map[string]bool // block hashes carried by the items naming this block
	FullTxs    bool            // transaction list known from a full block
	Txs        map[uint64]*AttTx
}

func (b *AttBlock) tx(i uint64) *AttTx {
	t := b.Txs[i]
	if t == nil {
		t = &AttTx{Idx: i, Hashes: map[string]bool{}, Logs: map[uint64][]AttLog{}}
		b.Txs[i] = t
	}
	return t
}

type AttVerdict struct {
	Start, Limit uint64
	Hashed       bool        // the plan supplies block hashes (headers or full blocks)
	MustErr      []AttReason // non-empty: the request must fail
	Notes        []AttReason // tolerated peculiarities of the response set
	Blocks       []*AttBlock // faithful attachment (meaningful when MustErr is empty)
}

func (v *AttVerdict) must(method, kind string) {
	for _, r := range v.MustErr {
		if r.Method == method && r.Kind == kind {
			return
		}
	}
	v.MustErr = append(v.MustErr, AttReason{method, kind})
}

func (v *AttVerdict) note(method, kind string) {
	for _, r := range v.Notes {
		if r.Method == method && r.Kind == kind {
			return
		}
	}
	v.Notes = append(v.Notes, AttReason{method, kind})
}

func (v *AttVerdict) block(n uint64) *AttBlock {
	if n < v.Start || n >= v.Start+v.Limit {
		return nil
	}
	return v.Blocks[n-v.Start]
}

// ---- strict field readers (a wrong JSON type makes the body undecodable)

func attHexDigits(s string) bool {
	for i := 0; i < len(s); i++ {
		c := s[i]
		if !(c >= '0' && c <= '9' || c >= 'a' && c <= 'f' || c >= 'A' && c <= 'F') {
			return false
		}
	}
	return true
}

func attQuantity(v any) (uint64, bool) {
	s, ok := v.(string)
	if !ok || !strings.HasPrefix(s, "0x") || len(s) < 3 || len(s) > 18 || !attHexDigits(s[2:]) {
		return 0, false
	}
	var n uint64
	for i := 2; i < len(s); i++ {
		c := s[i]
		var d byte
		switch {
		case c <= '9':
			d = c - '0'
		case c >= 'a':
			d = c - 'a' + 10
		default:
			d = c - 'A' + 10
		}
		n = n<<4 | uint64(d)
	}
	return n, true
}

// attBig normalises an arbitrary-size quantity to lower-case hex without leading zeros.
func attBig(v any) (string, bool) {
	s, ok := v.(string)
	if !ok || !strings.HasPrefix(s, "0x") || len(s) < 3 || !attHexDigits(s[2:]) {
		return "", false
	}
	d := strings.TrimLeft(strings.ToLower(s[2:]), "0")
	if d == "" {
		d = "0"
	}
	return d, true
}

func attBytes(v any, nullable bool) (string, bool) {
	if v == nil {
		return "", nullable
	}
	s, ok := v.(string)
	if !ok || !strings.HasPrefix(s, "0x") || len(s)%2 != 0 || !attHexDigits(s[2:]) {
		return "", false
	}
	return strings.ToLower(s[2:]), true
}

func attJSONUint(v any) (uint64, bool) {
	n, ok := v.(json.Number)
	if !ok {
		return 0, false
	}
	var x uint64
	s := n.String()
	if s == "" {
		return 0, false
	}
	for i := 0; i < len(s); i++ {
		if s[i] < '0' || s[i] > '9' || i > 18 {
			return 0, false
		}
		x = x*10 + uint64(s[i]-'0')
	}
	return x, true
}

// attPos is the position class of element k among n (keys stay value-independent).
func attPos(k, n int) string {
	switch {
	case n <= 1:
		return "only"
	case k == 0:
		return "first"
	case k == n-1:
		return "last"
	}
	return "middle"
}

// attItemPos: receipts and traces arrive as one list per block, so the position
// of an item in its list is part of the (value-independent) reason.
func attItemPos(i int) string {
	if i == 0 {
		return "-first"
	}
	return "-later"
}

func attMethod(kind string, elem int) string {
	switch kind {
	case "blocks", "headers":
		return "eth_getBlockByNumber"
	case "receipts":
		return "eth_getBlockReceipts"
	case "logs":
		if elem == 0 {
			return "eth_getLogs/head"
		}
		return "eth_getLogs"
	case "trace":
		return "trace_block"
	}
	return kind
}

// Attach computes the verdict for one request of blocks start..start+limit-1.
func Attach(start, limit uint64, exs []AttExchange) *AttVerdict {
	v := &AttVerdict{Start: start, Limit: limit}
	for i := uint64(0); i < limit; i++ {
		v.Blocks = append(v.Blocks, &AttBlock{Num: start + i, ItemHashes: map[string]bool{}, Txs: map[uint64]*AttTx{}})
	}
	for _, ex := range exs {
		if ex.Kind == "blocks" || ex.Kind == "headers" {
			v.Hashed = true
		}
	}
	for _, ex := range exs {
		v.exchange(ex)
	}
	return v
}

func (v *AttVerdict) exchange(ex AttExchange) {
	m0 := attMethod(ex.Kind, 1)
	if ex.Status/100 != 2 {
		v.must(m0, "http-status")
		return
	}
	d := json.NewDecoder(strings.NewReader(ex.Body))
	d.UseNumber()
	var body any
	if err := d.Decode(&body); err != nil {
		v.must(m0, "undecodable")
		return
	}
	var elems []any
	if body == nil {
		v.must(m0, "missing-result")
		return
	}
	if ex.Batch {
		arr, ok := body.([]any)
		if !ok {
			v.must(m0, "undecodable")
			return
		}
		elems = arr
	} else {
		if _, ok := body.(map[string]any); !ok {
			v.must(m0, "undecodable")
			return
		}
		elems = []any{body}
	}
	want := 1
	switch ex.Kind {
	case "blocks", "headers", "receipts":
		want = len(ex.Asked)
	case "logs":
		want = 2
	}
	if len(elems) < want {
		v.must(m0, "missing-result") // a request of the batch got no response element
	}
	if len(elems) > want {
		v.note(m0, "surplus-element")
	}
	var prev *AttBlock
	var receiptsNamed map[uint64]int // block number -> batch element whose receipts name it
	for k, el := range elems {
		method := attMethod(ex.Kind, k)
		if ex.Kind == "logs" && k >= 2 {
			method = m0
		}
		if el == nil {
			v.must(method, "missing-result")
			prev = nil
			continue
		}
		obj, ok := el.(map[string]any)
		if !ok {
			v.must(method, "undecodable")
			prev = nil
			continue
		}
		if e, has := obj["error"]; has && e != nil {
			kind := "error-member"
			if eo, ok := e.(map[string]any); ok {
				if code, ok := eo["code"].(json.Number); ok && code.String() == "0" {
					kind = "error-member-code0"
				}
			}
			v.must(method, kind)
			prev = nil
			continue
		}
		res, has := obj["result"]
		if !has || res == nil {
			v.must(method, "missing-result")
			prev = nil
			continue
		}
		switch ex.Kind {
		case "blocks", "headers":
			if k >= want {
				continue // surplus element: contributes nothing
			}
			b := v.blockElem(method, res, ex.Asked[k], ex.Kind == "blocks", attPos(k, want))
			if b != nil && prev != nil && b.Parent != prev.Hash {
				v.must(method, "broken-parent-link")
			}
			prev = b
		case "receipts":
			asked, known := uint64(0), false
			if k < len(ex.Asked) {
				asked, known = ex.Asked[k], true
			}
			if receiptsNamed == nil {
				receiptsNamed = map[uint64]int{}
			}
			v.receiptsElem(method, res, asked, known, k, receiptsNamed)
		case "logs":
			switch k {
			case 0:
				r, ok := res.(map[string]any)
				if !ok {
					v.must(method, "undecodable")
					break
				}
				if n, ok := attQuantity(r["number"]); !ok {
					v.must(method, "undecodable")
				} else if len(ex.Asked) > 0 && n != ex.Asked[0] {
					v.note(method, "head-names-other-block")
				}
			case 1:
				v.logsElem(method, res)
			}
		case "trace":
			asked, known := uint64(0), false
			if len(ex.Asked) > 0 {
				asked, known = ex.Asked[0], true
			}
			v.traceElem(method, res, asked, known)
		}
	}
}

func (v *AttVerdict) blockElem(method string, res any, asked uint64, full bool, pos string) *AttBlock {
	r, ok := res.(map[string]any)
	if !ok {
		v.must(method, "undecodable")
		return nil
	}
	num, ok1 := attQuantity(r["number"])
	hash, ok2 := attBytes(r["hash"], false)
	parent, ok3 := attBytes(r["parentHash"], false)
	tm, ok4 := attQuantity(r["timestamp"])
	if !ok1 || !ok2 || !ok3 || !ok4 {
		v.must(method, "undecodable")
		return nil
	}
	if num != asked {
		v.must(method, "wrong-number-"+pos)
		// still usable for the parent-link check of its neighbours
		return &AttBlock{Num: num, Hash: hash, Parent: parent}
	}
	b := v.block(num)
	if b == nil {
		v.must(method, "wrong-number-"+pos)
		return nil
	}
	b.HasHeader, b.Hash, b.Parent, b.Time = true, hash, parent, tm
	if full {
		txs, ok := r["transactions"].([]any)
		if !ok {
			v.must(method, "undecodable")
			return b
		}
		b.FullTxs = true
		for _, t := range txs {
			to, ok := t.(map[string]any)
			if !ok {
				v.must(method, "undecodable")
				continue
			}
			idx, ok := attQuantity(to["transactionIndex"])
			if !ok {
				v.must(method, "undecodable")
				continue
			}
			tx := b.tx(idx)
			body := map[string]string{}
			bad := false
			for _, f := range []string{"hash", "from", "input"} {
				s, ok := attBytes(to[f], false)
				bad = bad || !ok
				body[f] = s
			}
			s, ok := attBytes(to["to"], true)
			bad = bad || !ok
			body["to"] = s
			for _, f := range []string{"nonce", "type", "gas"} {
				n, ok := attQuantity(to[f])
				bad = bad || !ok
				body[f] = fmt.Sprint(n)
			}
			for _, f := range []string{"value", "gasPrice"} {
				s, ok := attBig(to[f])
				bad = bad || !ok
				body[f] = s
			}
			if bad {
				v.must(method, "undecodable")
				continue
			}
			tx.Body = body
			tx.Hashes[body["hash"]] = true
		}
	}
	return b
}

// item header shared by receipts, logs and traces: the block and tx it names.
func (v *AttVerdict) named(method string, it map[string]any, trace bool, pos string) (b *AttBlock, txi uint64, ok bool) {
	var num uint64
	var ok1, ok2 bool
	if trace {
		num, ok1 = attJSONUint(it["blockNumber"])
		txi, ok2 = attJSONUint(it["transactionPosition"])
	} else {
		num, ok1 = attQuantity(it["blockNumber"])
		txi, ok2 = attQuantity(it["transactionIndex"])
	}
	bh, ok3 := attBytes(it["blockHash"], false)
	if !ok1 || !ok2 || !ok3 {
		v.must(method, "undecodable")
		return nil, 0, false
	}
	b = v.block(num)
	if b == nil {
		v.must(method, "item-out-of-range"+pos)
		return nil, 0, false
	}
	if b.HasHeader && bh != b.Hash {
		v.must(method, "item-blockhash-contradicts-header"+pos)
		return nil, 0, false
	}
	b.ItemHashes[bh] = true
	return b, txi, true
}

func attLogOf(it map[string]any) (AttLog, bool) {
	var l AttLog
	var ok bool
	if l.Idx, ok = attQuantity(it["logIndex"]); !ok {
		return l, false
	}
	if l.Addr, ok = attBytes(it["address"], false); !ok {
		return l, false
	}
	if l.Data, ok = attBytes(it["data"], false); !ok {
		return l, false
	}
	ts, ok := it["topics"].([]any)
	if !ok {
		return l, false
	}
	for _, t := range ts {
		s, ok := attBytes(t, false)
		if !ok {
			return l, false
		}
		l.Topics = append(l.Topics, s)
	}
	return l, true
}

func (v *AttVerdict) receiptsElem(method string, res any, asked uint64, askedKnown bool, elem int, namedBy map[uint64]int) {
	arr, ok := res.([]any)
	if !ok {
		v.must(method, "undecodable")
		return
	}
	if len(arr) == 0 && askedKnown {
		// no receipt at all for a block the same response set shows with transactions: the backend has not got
		// them yet (or lost them); taking it for "nothing happened" stores zero status, gas and contract address
		if b := v.block(asked); b != nil && b.FullTxs {
			for _, t := range b.Txs {
				if t.Body != nil {
					v.must(method, "empty-result-for-block-with-transactions")
					break
				}
			}
		}
	}
	var firstBlock *AttBlock
	for xi, x := range arr {
		it, ok := x.(map[string]any)
		if !ok {
			v.must(method, "undecodable")
			continue
		}
		b, txi, ok := v.named(method, it, false, attItemPos(xi))
		if !ok {
			continue
		}
		if (askedKnown && b.Num != asked) || (firstBlock != nil && b != firstBlock) {
			v.note(method, "item-names-other-block")
		}
		// two elements of one batch that carry the receipts of the same block: one request was answered twice and
		// another one not at all (a duplicated element) — what comes back is partial data
		if first, seen := namedBy[b.Num]; seen && first != elem {
			v.must(method, "duplicate-result")
		} else if !seen {
			namedBy[b.Num] = elem
		}
		if firstBlock == nil {
			firstBlock = b
		}
		rc := map[string]string{}
		bad := false
		for _, f := range []string{"transactionHash", "from"} {
			s, ok := attBytes(it[f], false)
			bad = bad || !ok
			rc[f] = s
		}
		for _, f := range []string{"to", "contractAddress"} {
			s, ok := attBytes(it[f], true)
			bad = bad || !ok
			rc[f] = s
		}
		for _, f := range []string{"status", "gasUsed", "type"} {
			n, ok := attQuantity(it[f])
			bad = bad || !ok
			rc[f] = fmt.Sprint(n)
		}
		s, ok := attBig(it["effectiveGasPrice"])
		bad = bad || !ok
		rc["effectiveGasPrice"] = s
		logs, ok := it["logs"].([]any)
		if bad || !ok {
			v.must(method, "undecodable")
			continue
		}
		tx := b.tx(txi)
		rc["#logs"] = fmt.Sprint(logs) // receipts with different log lists are different receipts
		for _, o := range tx.Rcpts {
			if fmt.Sprint(o) != fmt.Sprint(rc) {
				tx.RcptAmbiguous = true
			}
		}
		tx.Rcpts = append(tx.Rcpts, rc)
		tx.Hashes[rc["transactionHash"]] = true
		for _, lx := range logs {
			lo, ok := lx.(map[string]any)
			if !ok {
				v.must(method, "undecodable")
				continue
			}
			l, ok := attLogOf(lo)
			if !ok {
				v.must(method, "undecodable")
				continue
			}
			lb, ltx := b, txi
			if _, has := lo["blockNumber"]; has {
				// a nested log names its block and tx redundantly; outside the requested
				// range it is a log moved out of range, inside the range a disagreement
				// with the enclosing receipt is ambiguous (either attachment is accepted)
				num, ok1 := attQuantity(lo["blockNumber"])
				ti, ok2 := attQuantity(lo["transactionIndex"])
				if !ok1 || !ok2 {
					v.must(method, "undecodable")
					continue
				}
				nb := v.block(num)
				if nb == nil {
					v.must(method+"/log", "item-out-of-range")
					continue
				}
				lb, ltx = nb, ti
			}
			if lb != b || ltx != txi {
				v.note(method+"/log", "nested-log-disagrees-with-receipt")
				tx.RcptAmbiguous = true
				lb.tx(ltx).RcptAmbiguous = true
			}
			l.Block, l.Tx = lb.Num, ltx
			t := lb.tx(ltx)
			t.RcptLogs = append(t.RcptLogs, l)
		}
	}
}

func (v *AttVerdict) logsElem(method string, res any) {
	arr, ok := res.([]any)
	if !ok {
		v.must(method, "undecodable")
		return
	}
	seenTx := map[[2]uint64]bool{}
	for _, x := range arr {
		it, ok := x.(map[string]any)
		if !ok {
			v.must(method, "undecodable")
			continue
		}
		l, ok := attLogOf(it)
		if !ok {
			v.must(method, "undecodable")
			continue
		}
		th, ok := attBytes(it["transactionHash"], false)
		if !ok {
			v.must(method, "undecodable")
			continue
		}
		lpos := "-first-of-tx"
		if num, ok := attQuantity(it["blockNumber"]); ok {
			if ti, ok := attQuantity(it["transactionIndex"]); ok {
				k := [2]uint64{num, ti}
				if seenTx[k] {
					lpos = "-later-of-tx"
				}
				seenTx[k] = true
			}
		}
		b, txi, ok := v.named(method, it, false, lpos)
		if !ok {
			continue
		}
		l.Block, l.Tx = b.Num, txi
		tx := b.tx(txi)
		tx.Hashes[th] = true
		dup := false
		for _, o := range tx.Logs[l.Idx] {
			if o.Content() == l.Content() {
				dup = true
			}
		}
		if !dup {
			tx.Logs[l.Idx] = append(tx.Logs[l.Idx], l)
		}
	}
}

func (v *AttVerdict) traceElem(method string, res any, asked uint64, askedKnown bool) {
	arr, ok := res.([]any)
	if !ok {
		v.must(method, "undecodable")
		return
	}
	if len(arr) == 0 {
		v.note(method, "empty-trace-result")
	}
	var firstBlock *AttBlock
	for xi, x := range arr {
		it, ok := x.(map[string]any)
		if !ok {
			v.must(method, "undecodable")
			continue
		}
		act, ok := it["action"].(map[string]any)
		if !ok {
			v.must(method, "undecodable")
			continue
		}
		var t AttTrace
		var ok1, ok2, ok3, ok4 bool
		t.From, ok1 = attBytes(act["from"], true)
		t.To, ok2 = attBytes(act["to"], true)
		t.CallType, ok3 = act["callType"].(string)
		t.Value, ok4 = attBig(act["value"])
		th, ok5 := attBytes(it["transactionHash"], true)
		if !ok1 || !ok2 || !ok3 || !ok4 || !ok5 {
			v.must(method, "undecodable")
			continue
		}
		b, txi, ok := v.named(method, it, true, attItemPos(xi))
		if !ok {
			continue
		}
		if (askedKnown && b.Num != asked) || (firstBlock != nil && b != firstBlock) {
			v.note(method, "item-names-other-block")
		}
		if firstBlock == nil {
			firstBlock = b
		}
		tx := b.tx(txi)
		if th != "" {
			tx.Hashes[th] = true
		}
		tx.Traces = append(tx.Traces, t)
	}
}

// SortedTxs returns the transactions of a block ordered by index.
func (b *AttBlock) SortedTxs() []*AttTx {
	var ts []*AttTx
	for _, t := range b.Txs {
		ts = append(ts, t)
	}
	sort.Slice(ts, func(i, j int) bool { return ts[i].Idx < ts[j].Idx })
	return ts
}
