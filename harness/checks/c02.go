package checks

import (
	"fmt"
	"strings"

	"verif/harness/model"
	"verif/harness/vk"
)

// C02 — rows and recorded position commit atomically; no partial state after
// failure. Fault enumeration: for every I/O operation of every step of a base
// scenario and every fault kind, re-run the scenario with that single fault.

const c02Shards = 16

// the quick tier runs a spread of the thorough tier's bases: log integration with three one-block partitions,
// trace and transaction integrations with batch 8 over 3 workers (the latter with reorgs), the defaults, a log
// integration with reorgs and three partitions, a trace integration with reorgs
var c02QuickBases = []int{7, 14, 15, 0, 10, 5, c02OddLogBase}

const c02OddLogBase = 1000

func c02Bases(tier string) int {
	if tier == "thorough" {
		return 48
	}
	return len(c02QuickBases)
}

func c02Random(tier string) int {
	if tier == "thorough" {
		return 3000
	}
	return 64
}

func init() {
	vk.Register(&vk.Check{
		ID:        "C02",
		Level:     "fault_enumeration",
		Technique: "exhaustive single-fault injection at every SQL operation and JSON-RPC call of every step (error reply, connection drop before/after, process death), state invariant evaluated at every commit boundary of the fake Postgres, retry-to-golden comparison",
		Rule: "base scenarios (growth-only and reorg histories × log/tx/trace mode × batch {1,3,8} × concurrency {1,3} × notifications) are run fault-free (golden); then every (step, I/O operation, fault kind) triple is executed as its own run; " +
			"random cases inject 2–5 faults into random scenarios. signature = (mode, history kind, op kind, fault kind, outcome class); trivial = the fault point was not reached.",
		Assumptions: []string{
			"every database state another session can observe = every commit boundary of fakepg (states that depend on PostgreSQL's lock manager are out of reach)",
			"process death = all connections dropped at that operation, pool/clients/tasks discarded, start-up repeated from the configuration file",
			"rows of a covered block must equal the projection of some version of that block the source produced (sound under reorgs)",
			"final comparison ignores the statistics columns of shovel.task_updates and the batching of the position history",
		},
		NCases: func(tier string) int {
			return c02Bases(tier)*c02Shards + c02Random(tier)
		},
		Run:              c02Run,
		CrashIsViolation: true,
		CaseTimeoutS:     300,
		Exhaustive:       func(string) bool { return false },
		MinObs: func(tier string) map[string]int64 {
			return map[string]int64{"fault_runs": 500, "fault_hit": 400, "states_checked": 5000, "retries_completed": 300, "crash_restarts": 50, "reorg_base_runs": 1}
		},
		Extra: func(tier string) map[string]any {
			return map[string]any{"single_faults_exhaustive_for_base_scenarios": true, "base_scenarios": c02Bases(tier)}
		},
	})
}

func c02Base(seed uint64, b int) *pipeScenario {
	r := vk.NewRNG(vk.Derive(seed, 0xC02, uint64(b)))
	ps := &pipeScenario{Seed: r.U64()}
	ps.Mode = b % 3
	reorg := (b/3)%2 == 1
	ps.Batch = []int{1, 3, 8}[(b/6)%3]
	ps.Conc = []int{1, 3}[(b/2)%2]
	if b >= 18 {
		ps.Batch = r.Range(1, 9)
		ps.Conc = r.Range(1, 3)
	}
	if b == c02OddLogBase {
		// a log integration whose partitions hold an odd number (> 1) of blocks
		ps.Mode, ps.Batch, ps.Conc, reorg = int(model.ModeLog), 5, 1, false
	}
	ps.Notify = b%4 == 1
	ps.Initial = r.Range(4, 9)
	ps.StartK = []int{1, 2, 0, 3}[r.Intn(4)]
	ps.HashPlan = reorg
	if b == c02OddLogBase {
		ps.StartK, ps.Initial = 1, r.Range(8, 12) // full batches of five, then a short odd one
	}
	nsteps := r.Range(3, 6)
	for i := 0; i < nsteps; i++ {
		ps.Hist = append(ps.Hist, histOp{Kind: "step"})
		switch {
		case reorg && i%2 == 1:
			ps.Hist = append(ps.Hist, histOp{Kind: "reorg", Depth: r.Range(1, 3), NewLen: r.Range(1, 4)})
		case r.Chance(1, 2):
			ps.Hist = append(ps.Hist, histOp{Kind: "grow", N: r.Range(1, 4)})
		}
	}
	ps.FinalGrow = 1
	return ps
}

var sqlFaults = []string{"error", "drop-before", "drop-after", "crash-before", "crash-after"}
var rpcFaults = []string{"rpc-error", "http", "cut", "truncate", "crash"}

func stripOcc(s string) (string, int) {
	i := strings.LastIndexByte(s, '#')
	var k int
	fmt.Sscanf(s[i+1:], "%d", &k)
	return s[:i], k
}

func c02Run(c *vk.Case) {
	nb := c02Bases(c.Tier)
	if c.Index >= nb*c02Shards {
		c02Random1(c)
		return
	}
	b, shard := c.Index/c02Shards, c.Index%c02Shards
	if nb == len(c02QuickBases) {
		b = c02QuickBases[b]
	} else if b == nb-1 {
		b = c02OddLogBase
	}
	ps := c02Base(c.Seed, b)
	golden := ps.run(c, runOpts{Snapshots: true, KP: "golden:"})
	if golden == nil || len(c.Res.Violations) > 0 {
		return // the fault-free run itself violates the invariant: reported with the golden: prefix
	}
	if golden.SetupErr != "" {
		c.Violate("setup-rejected", map[string]any{"scenario": ps.Describe(), "error": golden.SetupErr, "config": golden.ConfJSON}, "base scenario rejected: %s", golden.SetupErr)
		return
	}
	if !golden.Idle {
		c.Violate("golden:no-quiescence", map[string]any{"scenario": ps.Describe(), "trace": lastN(golden.Trace, 30), "last_error": golden.LastErr, "config": golden.ConfJSON},
			"the fault-free run did not reach the head within the step bound (last error: %s)", golden.LastErr)
		return
	}
	hasReorg := false
	for _, h := range ps.Hist {
		if h.Kind == "reorg" {
			hasReorg = true
		}
	}
	if shard == 0 && hasReorg {
		c.Obs("reorg_base_runs", 1)
	}
	// enumerate fault points of the golden run
	var faults []faultSpec
	idleSeen := 0
	for _, st := range golden.Steps {
		if errClass(st.Err) == "nothing-new" {
			idleSeen++
			if idleSeen > 1 {
				continue // further idle steps repeat the first one
			}
		}
		for _, op := range st.SQLOps {
			for _, k := range sqlFaults {
				faults = append(faults, faultSpec{Step: st.Idx, SQLOrd: op.Ordinal, Kind: k})
			}
		}
		for _, s := range st.RPCSigs {
			sig, occ := stripOcc(s)
			for _, k := range rpcFaults {
				faults = append(faults, faultSpec{Step: st.Idx, SQLOrd: -1, RPCSig: sig, RPCOcc: occ, Kind: k})
			}
			if strings.Contains(sig, "+") {
				// a batch of several calls: the error member on the last element only
				faults = append(faults, faultSpec{Step: st.Idx, SQLOrd: -1, RPCSig: sig, RPCOcc: occ, Kind: "rpc-error-last"})
			}
		}
	}
	c.Obs("fault_points_total_in_shard0", int64(b2i(shard == 0)*len(faults)))
	goldenFinal := golden.Final.digest(false)
	for i := range faults {
		if i%c02Shards != shard {
			continue
		}
		f := faults[i]
		c02OneFault(c, ps, golden, goldenFinal, &f)
		if len(c.Res.Violations) >= 8 {
			break
		}
	}
	if shard == 0 {
		c.Sample(map[string]any{"scenario": ps.Describe(), "plan": golden.Plan, "fault_points": len(faults), "golden_trace": lastN(golden.Trace, 30),
			"first_step_sql_ops": opKinds(golden.Steps[0]), "first_step_rpcs": golden.Steps[0].RPCSigs})
	}
}

func b2i(b bool) int {
	if b {
		return 1
	}
	return 0
}

func opKinds(st stepRec) []string {
	var ks []string
	for _, op := range st.SQLOps {
		ks = append(ks, op.Kind)
	}
	return ks
}

func c02OneFault(c *vk.Case, ps *pipeScenario, golden *pipeRun, goldenFinal string, f *faultSpec) {
	nviol := len(c.Res.Violations)
	kp := "fault:"
	run := ps.run(c, runOpts{Snapshots: true, Fault: f, KP: kp})
	c.Obs("fault_runs", 1)
	c.Evals(1)
	if run == nil {
		return
	}
	if !run.FaultHit {
		c.Obs("fault_not_reached", 1)
		return
	}
	c.Obs("fault_hit", 1)
	if strings.HasPrefix(f.Kind, "crash") {
		c.Obs("crash_restarts", 1)
	}
	gs := golden.Steps[f.Step]
	opk := "rpc"
	if f.SQLOrd >= 0 {
		opk = "sql"
		for _, op := range gs.SQLOps {
			if op.Ordinal == f.SQLOrd {
				opk = "sql-" + op.Kind
			}
		}
	} else {
		opk = "rpc-" + methodOf(f.RPCSig)
	}
	detail := map[string]any{"scenario": ps.Describe(), "config": run.ConfJSON, "fault": f.String(), "op": opk, "plan": run.Plan,
		"golden_trace": lastN(golden.Trace, 30), "faulted_trace": lastN(run.Trace, 30)}
	if len(c.Res.Violations) > nviol {
		return // invariant already violated inside the run
	}
	if f.Step < len(run.Steps) {
		fs := run.Steps[f.Step]
		pre := ""
		if f.Step > 0 {
			pre = golden.Steps[f.Step-1].After
		}
		allowed := map[string]string{pre: "previous state", gs.After: "completed state"}
		for i, s := range gs.States {
			allowed[s] = fmt.Sprintf("state after commit %d", i+1)
		}
		what, ok := allowed[fs.After]
		outcome := "unknown"
		switch {
		case !ok:
			c.Violate(kp+"state-off-path:"+opk+":"+f.Kind, merge(detail, map[string]any{"err": fmt.Sprint(fs.Err)}),
				"after a %s at %s the committed state is none of: the previous state, a state the fault-free step passes through, the completed state", f.Kind, opk)
		case fs.After == pre:
			outcome = "previous"
		case fs.After == gs.After:
			outcome = "completed"
		default:
			outcome = "rolled-back"
			if !gs.Deleted {
				c.Violate(kp+"intermediate-state-without-reorg:"+opk+":"+f.Kind, detail, "the failed step left %s although the step had not detected a reorg", what)
			}
		}
		if fs.Err == nil && fs.After != gs.After {
			c.Violate(kp+"nil-but-incomplete:"+opk+":"+f.Kind, detail, "the faulted step returned nil but left %s", what)
		}
		if fs.Err != nil && fs.After == gs.After && fs.After != pre {
			// the whole step is committed although it reported failure: only an
			// ambiguous final COMMIT (connection lost after the server committed) can do that
			if !(strings.HasSuffix(f.Kind, "after") && opk == "sql-commit") {
				c.Violate(kp+"failed-but-committed:"+opk+":"+f.Kind, merge(detail, map[string]any{"err": fs.Err.Error()}), "the step reported %v but its effects are committed", fs.Err)
			}
		}
		c.SetSig("%s reorg=%v %s %s -> %s", golden.Plan, gs.Deleted, opk, f.Kind, outcome)
	}
	if !run.Idle {
		c.Violate(kp+"retry-does-not-complete:"+opk+":"+f.Kind, merge(detail, map[string]any{"last_error": run.LastErr}),
			"after the fault cleared the integration did not reach the head again (last error: %s)", run.LastErr)
		return
	}
	c.Obs("retries_completed", 1)
	floor := max(golden.First, run.First) // without a configured start a pair begins at the head it finds when it first succeeds
	if run.Final.digestFrom(floor) != golden.Final.digestFrom(floor) {
		c.Violate(kp+"final-state-differs:"+opk+":"+f.Kind, merge(detail, map[string]any{"golden_rows": len(golden.Final.rows), "faulted_rows": len(run.Final.rows), "diff_golden_vs_faulted": diffStates(golden.Final, run.Final, floor)}),
			"after retrying, table/position differ from the fault-free run (%d vs %d rows)", len(run.Final.rows), len(golden.Final.rows))
	}
}

func methodOf(sig string) string {
	sig = strings.TrimPrefix(sig, "[")
	if i := strings.IndexByte(sig, '('); i > 0 {
		m := sig[:i]
		if strings.Contains(sig, "eth_getLogs") {
			return "eth_getLogs"
		}
		if strings.Contains(sig, "latest") {
			return "latest"
		}
		return m
	}
	return sig
}

// c02Random1: a random scenario with 2–5 faults of mixed kinds in ONE run. The
// run diverges from the golden one after the first fault, so only the state
// invariant at every commit boundary, completion of the retry and the final
// state are decided.
func c02Random1(c *vk.Case) {
	r := c.R
	ps := c02Base(r.U64(), r.Intn(48))
	golden := ps.run(c, runOpts{Snapshots: true, KP: "golden:"})
	if golden == nil || len(c.Res.Violations) > 0 || golden.SetupErr != "" || !golden.Idle {
		return
	}
	n := r.Range(2, 5)
	var fs []*faultSpec
	var names []string
	for i := 0; i < n; i++ {
		st := golden.Steps[r.Intn(len(golden.Steps))]
		var f faultSpec
		switch {
		case len(st.RPCSigs) > 0 && r.Bool():
			sig, occ := stripOcc(vk.Pick(r, st.RPCSigs))
			f = faultSpec{Step: st.Idx, SQLOrd: -1, RPCSig: sig, RPCOcc: occ, Kind: vk.Pick(r, append([]string{"rpc-error-last"}, rpcFaults...))}
		case len(st.SQLOps) > 0:
			f = faultSpec{Step: st.Idx, SQLOrd: vk.Pick(r, st.SQLOps).Ordinal, Kind: vk.Pick(r, sqlFaults)}
		default:
			continue
		}
		fs = append(fs, &f)
		names = append(names, f.String())
	}
	if len(fs) == 0 {
		return
	}
	kp := "multi-fault:"
	run := ps.run(c, runOpts{Snapshots: true, Fault: fs[0], More: fs[1:], KP: kp})
	c.Obs("fault_runs", 1)
	c.Obs("random_cases", 1)
	c.Evals(1)
	if run == nil || len(c.Res.Violations) > 0 {
		return
	}
	c.Obs("fault_hit", int64(run.FaultsHit))
	detail := map[string]any{"scenario": ps.Describe(), "config": run.ConfJSON, "faults": names, "faulted_trace": lastN(run.Trace, 40)}
	if !run.Idle {
		c.Violate(kp+"retry-does-not-complete", merge(detail, map[string]any{"last_error": run.LastErr}), "after the faults cleared the integration did not reach the head again (last error: %s)", run.LastErr)
		return
	}
	c.Obs("retries_completed", 1)
	floor := max(golden.First, run.First)
	if run.Final.digestFrom(floor) != golden.Final.digestFrom(floor) {
		c.Violate(kp+"final-state-differs", merge(detail, map[string]any{"diff_golden_vs_faulted": diffStates(golden.Final, run.Final, floor), "golden_trace": lastN(golden.Trace, 40)}), "after retrying, table/position differ from the fault-free run")
	}
	c.SetSig("multi n=%d hit=%d plan=%s", len(fs), run.FaultsHit, run.Plan)
}
