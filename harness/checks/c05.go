package checks

import (
	"bytes"
	"fmt"
	"sort"

	"github.com/indexsupply/shovel/shovel"

	"verif/harness/fakepg"
	"verif/harness/gen"
	"verif/harness/model"
	"verif/harness/refmodel"
	"verif/harness/scen"
	"verif/harness/simnode"
	"verif/harness/vk"
)

// C05 — an integration with filter references never runs ahead of what it
// references; until all referenced integrations have recorded progress it does
// nothing; its lookups see the complete referenced data for the block.

func init() {
	vk.Register(&vk.Check{
		ID:        "C05",
		Level:     "exploration",
		Technique: "commit-boundary monitor (dependent's new position vs every referenced integration's position in the same snapshot) + bounded reference-projection oracle (required ⊆ rows ⊆ allowed) over adversarial task orders",
		Rule: "each case builds a dependency graph from filter references: 1–3 referenced integrations (log- or tx-indexing) and a dependent whose filter (on an event input or on a block field) references their tables, optionally a second-level dependent; " +
			"tasks are stepped in adversarial orders: dependent first while references never started, only some references started, references lagging by random amounts, references ahead, a reference stepping between the dependent's two transactions (hook). " +
			"signature = (graph shape, filter site, polarity, order pattern, observed outcome classes); trivial = the dependent never committed.",
		Assumptions: []string{
			"growth-only chains; all integrations of a graph run on the same source (the dependency is per source)",
			"reference lookups see the referenced table as of the dependent's step, which may already hold later blocks: rows whose value is referenced at or below the row's own block are required, rows whose value is referenced anywhere in the final table are allowed (reversed for !contains)",
			"every reference filter of one dependent has the same polarity (contains or !contains), so acceptance is monotone in the referenced data",
		},
		NCases: func(tier string) int {
			if tier == "thorough" {
				return 3000
			}
			return 200
		},
		Run:              c05Run,
		CrashIsViolation: true,
		CaseTimeoutS:     300,
		MinObs: func(tier string) map[string]int64 {
			return map[string]int64{"dependent_commits_checked": 400, "dependent_idle_while_refs_missing": 100, "dependent_rows_required": 300, "dependent_rows_rejected": 100, "between_tx_interleavings": 30, "cases_some_refs_unstarted": 15}
		},
	})
}

var c05Who = refmodel.Field{Name: "who", Type: refmodel.Address(), Column: "who"}

// c05RefDecl: a referenced integration whose table column "who" collects addresses.
func c05RefDecl(r *vk.RNG, name, table string, txMode bool) *model.Decl {
	d := &model.Decl{Name: name, Enabled: true, Table: table, ColTypes: map[string]string{}, InFilter: map[string]model.Filter{}}
	d.Sources = []model.SrcRef{{Name: namePoolSrc[0], Start: 1}}
	if txMode {
		d.Block = []model.BlockField{{Name: "tx_signer", Column: "who", ColType: "bytea"}, {Name: "tx_hash", Column: "tx_hash", ColType: "bytea"}}
		return d
	}
	d.EventName = "Reg" + name[len(name)-1:]
	who := c05Who
	who.Indexed = r.Bool()
	d.Inputs = []refmodel.Field{who, {Name: "n", Type: refmodel.Uint(64)}}
	return d
}

func c05Run(c *vk.Case) {
	r := c.R
	nref := r.Range(1, 3)
	pool := make([][]byte, 7)
	for i := range pool {
		pool[i] = r.Bytes(20)
	}
	neg := r.Chance(1, 4)
	op := "contains"
	if neg {
		op = "!contains"
	}
	var decls []*model.Decl
	var refs []*model.Decl
	for i := 0; i < nref; i++ {
		d := c05RefDecl(r, namePoolIG[i], namePoolTbl[i], r.Chance(1, 4))
		refs = append(refs, d)
		decls = append(decls, d)
	}
	// dependent
	dep := &model.Decl{Name: namePoolIG[3], Enabled: true, Table: namePoolTbl[3], ColTypes: map[string]string{}, InFilter: map[string]model.Filter{}}
	dep.Sources = []model.SrcRef{{Name: namePoolSrc[0], Start: 1}}
	site := r.Intn(3)
	dep.EventName = "Act"
	switch site {
	case 0: // filter on a non-indexed event input
		dep.Inputs = []refmodel.Field{{Name: "amt", Type: refmodel.Uint(128), Column: "amt"}, {Name: "addr", Type: refmodel.Address(), Column: "addr"}}
		dep.InFilter["addr"] = model.Filter{Op: op, Ref: &model.Ref{Integration: refs[0].Name, Column: "who"}}
	case 1: // filter on an indexed event input
		dep.Inputs = []refmodel.Field{{Name: "addr", Type: refmodel.Address(), Column: "addr", Indexed: true}, {Name: "amt", Type: refmodel.Uint(128), Column: "amt"}}
		dep.InFilter["addr"] = model.Filter{Op: op, Ref: &model.Ref{Integration: refs[0].Name, Column: "who"}}
	case 2: // filter on a block field
		dep.Inputs = []refmodel.Field{{Name: "amt", Type: refmodel.Uint(128), Column: "amt"}}
		dep.Block = []model.BlockField{{Name: "log_addr", Column: "log_addr", ColType: "bytea", Filter: model.Filter{Op: op, Ref: &model.Ref{Integration: refs[0].Name, Column: "who"}}}}
	}
	// further references from additional block fields
	extra := []string{"tx_signer", "tx_to"}
	for i := 1; i < nref; i++ {
		dep.Block = append(dep.Block, model.BlockField{Name: extra[i-1], Column: extra[i-1], ColType: "bytea", Filter: model.Filter{Op: op, Ref: &model.Ref{Integration: refs[i].Name, Column: "who"}}})
	}
	if nref > 1 {
		dep.FilterAgg = vk.Pick(r, []string{"and", "or", ""})
	}
	decls = append(decls, dep)

	// chain: registrations and actions over the address pool; tx signers/recipients from the pool too
	regMakers := []gen.LogMaker{}
	for _, rd := range refs {
		if rd.Mode() != model.ModeLog {
			continue
		}
		rd := rd
		regMakers = append(regMakers, func(r *vk.RNG) simnode.Log {
			return model.MakeLog(rd.EventName, rd.Inputs, []any{vk.Pick(r, pool), r.BigBits(60)}, pool[0])
		})
	}
	actMaker := func(r *vk.RNG) simnode.Log {
		var vals []any
		for _, f := range dep.Inputs {
			if f.Name == "addr" {
				vals = append(vals, vk.Pick(r, pool))
			} else {
				vals = append(vals, r.BigBits(100))
			}
		}
		return model.MakeLog(dep.EventName, dep.Inputs, vals, vk.Pick(r, pool))
	}
	makers := append(append([]gen.LogMaker{}, regMakers...), actMaker, actMaker)
	seed := r.U64()
	inner := gen.Content(gen.ChainOpts{Seed: seed, MinTxs: 1, MaxTxs: 3, MaxLogs: 3, Makers: makers})
	chain := simnode.NewChain(nextChainID(), func(b *simnode.Block) {
		inner(b)
		rr := vk.NewRNG(vk.Derive(seed, 0x505, b.Version))
		for i := range b.Txs {
			b.Txs[i].From = vk.Pick(rr, pool)
			if b.Txs[i].To != nil {
				b.Txs[i].To = vk.Pick(rr, pool)
			}
		}
	})
	chain.Grow(r.Range(6, 14))
	node := simnode.Global().NewNode(chain)
	spec := &scen.Spec{
		Sources: []scen.SourceSpec{{Name: namePoolSrc[0], ChainID: 3, Batch: r.Range(1, 5), Concurrency: r.Range(1, 2), Poll: "1h", Node: node}},
		Decls:   decls,
	}
	me := newMultiEnv(c, spec, "")
	if me == nil {
		return
	}
	defer me.close()
	if me.env.SetupErr != nil {
		c.Violate("setup-rejected:"+me.env.SetupStage, map[string]any{"config": string(me.env.ConfJSON), "error": me.env.SetupErr.Error()}, "configuration rejected at %s: %v", me.env.SetupStage, me.env.SetupErr)
		return
	}
	pairOf := func(ig string) *mPair {
		for _, p := range me.pairs {
			if p.ig == ig {
				return p
			}
		}
		return nil
	}
	depP := pairOf(dep.Name)
	var refP []*mPair
	for _, rd := range refs {
		refP = append(refP, pairOf(rd.Name))
	}
	if depP == nil {
		c.Inconclusive("dependent task missing")
		return
	}
	depP.pm.noContent = true
	refPos := func(p *mPair) (uint64, bool) { return p.pm.captureLive().position() }

	// between-transactions interleaving through the hook
	var between func()
	shovel.VerifSetSink(nil, func(name string, t *shovel.Task) {
		if name == "between-txs" && t == depP.task && between != nil {
			f := between
			between = nil
			f()
		}
	})
	defer shovel.VerifSetSink(nil, nil)

	stepDep := func() {
		before := depP.pm.captureLive()
		// what the dependent is allowed to reach: min over references of their position BEFORE this step
		// (a reference may also advance during the step; positions only grow, so the check is made on the commit snapshot)
		res := me.env.Step(depP.task)
		c.Obs("steps", 1)
		if res.Panic != "" {
			fr := vk.TopShovelFrame(res.Panic)
			c.Violate("panic:"+fr, merge(me.detail(), map[string]any{"panic": firstLines(res.Panic, 30)}), "Converge panicked in %s", fr)
			return
		}
		me.checkOwnership(res.Commits, nil)
		me.trackFirst(depP, res)
		committed := false
		for _, rec := range res.Commits {
			if rec.Aborted || len(rec.Tx.Effects) == 0 || rec.Snap == nil || rec.Tx.PairIG != dep.Name {
				continue
			}
			st := depP.pm.captureSnap(rec.Snap)
			pos, has := st.position()
			if !has {
				continue
			}
			committed = true
			c.Obs("dependent_commits_checked", 1)
			for i, rp := range refP {
				rs := rp.pm.captureSnap(rec.Snap)
				rpos, rhas := rs.position()
				if !rhas || rpos < pos {
					cls := "reference-behind"
					if !rhas {
						cls = "reference-without-position"
					}
					c.Violate("dependent-ahead:"+cls, merge(me.detail(), map[string]any{"dependent_position": pos, "reference": refs[i].Name, "reference_position": rpos, "reference_has_position": rhas, "nrefs": nref}),
						"the dependent recorded block %d while referenced integration %s stands at %d (has position: %v)", pos, refs[i].Name, rpos, rhas)
				}
			}
		}
		after := depP.pm.captureLive()
		missing := 0
		for _, rp := range refP {
			if _, ok := refPos(rp); !ok {
				missing++
			}
		}
		if missing > 0 {
			if committed || after.digest(true) != before.digest(true) {
				c.Violate("dependent-progress-while-reference-unstarted", merge(me.detail(), map[string]any{"unstarted_references": missing, "nrefs": nref}),
					"the dependent changed its rows/position although %d of %d referenced integrations have recorded nothing yet", missing, nref)
			}
			c.Obs("dependent_idle_while_refs_missing", 1)
		}
		pos, _ := after.position()
		me.trace = append(me.trace, fmt.Sprintf("dep:%s pos=%d", errClass(res.Err), pos))
	}
	stepRef := func(i int) {
		res := me.stepSeq(refP[i], false)
		_ = res
	}

	// adversarial order
	pattern := r.Intn(5)
	started := make([]bool, nref)
	switch pattern {
	case 0: // dependent first, references never started for a while
		for k := 0; k < 3; k++ {
			stepDep()
		}
	case 1: // only some references started
		if nref > 1 {
			c.Obs("cases_some_refs_unstarted", 1)
		}
		for i := 0; i < nref-1; i++ {
			stepRef(i)
			stepRef(i)
			started[i] = true
		}
		for k := 0; k < 3; k++ {
			stepDep()
		}
	case 2: // references far ahead
		for i := 0; i < nref; i++ {
			for k := 0; k < 6; k++ {
				stepRef(i)
			}
		}
	case 3: // lock-step
	case 4: // a reference steps between the dependent's two transactions
	}
	nops := r.Range(15, 40)
	for k := 0; k < nops && len(c.Res.Violations) == 0; k++ {
		switch x := r.Intn(8); {
		case x == 0:
			chain.Grow(r.Range(1, 3))
			me.trace = append(me.trace, "grow")
		case x <= 3:
			if pattern == 4 || r.Chance(1, 5) {
				i := r.Intn(nref)
				between = func() {
					c.Obs("between_tx_interleavings", 1)
					refP[i].task.Converge()
				}
			}
			stepDep()
			between = nil
		default:
			i := r.Intn(nref)
			if pattern == 1 && !started[nref-1] && i == nref-1 && k < nops/2 {
				continue // keep the last reference unstarted for the first half
			}
			stepRef(i)
			started[i] = true
		}
	}
	if len(c.Res.Violations) > 0 {
		return
	}
	// settle: everything runs to the head
	chain.Grow(1)
	if !me.settle(int(chain.Head().Num)*2+60, nil) {
		if len(c.Res.Violations) == 0 {
			c.Violate("no-quiescence", merge(me.detail(), map[string]any{"dep_last_error": depP.lastErr}), "not all pairs reached the head (dependent's last error: %s)", depP.lastErr)
		}
		return
	}
	// final: references equal their plain projection; the dependent lies between required and allowed
	for _, rp := range refP {
		rp.pm.first = rp.first
		rp.pm.quiescenceVerdict(chain.Head().Num, rp.plan, merge(me.detail(), map[string]any{"pair": rp.name()}))
	}
	if len(c.Res.Violations) > 0 {
		return
	}
	// referenced contents: value -> lowest block at which a row holds it
	firstSeen := map[string]map[string]uint64{}
	for i, rp := range refP {
		t, rows, _ := rp.pm.pairRows()
		m := map[string]uint64{}
		ci := t.ColIdx("who")
		for _, row := range rows {
			n, _ := rowBlockNum(t, row)
			if v, ok := row.Vals[ci].([]byte); ok {
				k := string(v)
				if cur, ok := m[k]; !ok || n < cur {
					m[k] = n
				}
			}
		}
		firstSeen[refs[i].Name] = m
	}
	mkLook := func(atBlock bool, n uint64) model.RefLookup {
		return func(ig, col string, v fakepg.Value) bool {
			b, _ := v.([]byte)
			f, ok := firstSeen[ig][string(b)]
			if !ok {
				return false
			}
			return !atBlock || f <= n
		}
	}
	t, rows, cursors := depP.pm.pairRows()
	if len(cursors) == 0 {
		c.Violate("dependent-never-started", me.detail(), "the dependent recorded no position although all references reached the head")
		return
	}
	byBlock := map[uint64][]model.Row{}
	for _, row := range model.StoredRows(t, rows) {
		n, _ := rowBlockNum(t, rowsByVals(t, row))
		byBlock[n] = append(byBlock[n], row)
	}
	cols := tableCols(t)
	for n := depP.first; n <= chain.Head().Num; n++ {
		b := chain.At(n)
		lo, hi := mkLook(true, n), mkLook(false, n)
		if neg {
			lo, hi = hi, lo // !contains: acceptance shrinks as the referenced table grows
		}
		req := model.ProjectBlock(dep, namePoolSrc[0], 3, b, lo)
		allow := model.ProjectBlock(dep, namePoolSrc[0], 3, b, hi)
		got := byBlock[n]
		_, missing := model.DiffRows(got, req, cols)
		extra, _ := model.DiffRows(got, allow, cols)
		c.Obs("dependent_rows_required", int64(len(req)))
		c.Obs("dependent_rows_rejected", int64(len(model.ProjectBlock(dep, namePoolSrc[0], 3, b, func(string, string, fakepg.Value) bool { return !neg }))-len(allow)))
		if len(missing) > 0 {
			c.Violate("dependent-rows-missing", merge(me.detail(), map[string]any{"block": n, "missing": shortList(missing, 4), "polarity": op, "site": site}),
				"block %d: %d row(s) whose value is referenced at or below that block are missing from the dependent's table", n, len(missing))
			break
		}
		if len(extra) > 0 {
			c.Violate("dependent-rows-unreferenced", merge(me.detail(), map[string]any{"block": n, "extra": shortList(extra, 4), "polarity": op, "site": site}),
				"block %d: %d row(s) in the dependent's table are not accepted by any state of the referenced tables", n, len(extra))
			break
		}
	}
	var outcomes []string
	for k := range map[string]bool{} {
		outcomes = append(outcomes, k)
	}
	sort.Strings(outcomes)
	if len(rows) > 0 || len(cursors) > 0 {
		c.SetSig("nref=%d site=%d op=%s agg=%s pattern=%d txref=%v", nref, site, op, dep.FilterAgg, pattern, refs[0].Mode() == model.ModeTx)
	}
	if c.Index < 4 {
		c.Sample(map[string]any{"config": string(me.env.ConfJSON), "pattern": pattern, "schedule": lastN(me.trace, 60)})
	}
	_ = bytes.Equal
}

// rowsByVals rebuilds a fakepg.Row from a model.Row (for helpers keyed on table rows).
func rowsByVals(t *fakepg.Table, m model.Row) *fakepg.Row {
	r := &fakepg.Row{Vals: make([]fakepg.Value, len(t.Cols))}
	for i, c := range t.Cols {
		r.Vals[i] = m[c.Name]
	}
	return r
}
