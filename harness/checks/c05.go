package checks

import (
	"fmt"
	"strings"
	"sync"

	"github.com/indexsupply/shovel/shovel"

	"verif/harness/fakepg"
	"verif/harness/gen"
	"verif/harness/model"
	"verif/harness/refmodel"
	"verif/harness/scen"
	"verif/harness/simnode"
	"verif/harness/vk"
)

// C05 — an integration with filter references never runs ahead of what it
// references; until all referenced integrations have recorded progress it does
// nothing; its lookups see the complete referenced data for the block.

func init() {
	vk.Register(&vk.Check{
		ID:        "C05",
		Level:     "exploration",
		Technique: "commit-boundary monitor (dependent's new position vs every referenced integration's position in the same snapshot) + bounded reference-projection oracle (required ⊆ rows ⊆ allowed) over adversarial task orders",
		Rule: "each case builds a dependency graph from filter references: 1–3 referenced integrations (log- or tx-indexing) and a dependent whose filter (on an event input or on a block field) references their tables; optionally a second referrer of the same integration, or a second-level dependent that looks up the first dependent's table; optionally two sources of one chain (every integration on both, dependency judged per source); optionally reorganisations (position monitor only). " +
			"tasks are stepped in adversarial orders: dependents first while references never started, only some references started, references started on the other source only, references lagging by random amounts, references ahead, a reference stepping between the dependent's two transactions (hook), a reference rolling back after a reorganisation while the dependent trails. " +
			"The monitor runs around every step of every dependent, also while settling: the highest block a commit records or writes rows for is at most the referenced integration's position for the same source (the larger of its value when the step began and in the commit snapshot). " +
			"signature = (graph shape, filter site, polarity, order pattern, sources, reorgs); trivial = the dependent never committed. Every reorg case ends with four rounds of an episode in which everything one dependent references digests a reorganisation inside that dependent's step (right before its own unwind statement); there the bound is the references' committed positions at the step's last dependency read.",
		Assumptions: []string{
			"the dependency is per source: all integrations of a graph are attached to the same sources",
			"reference lookups see the referenced table as of the dependent's step, which may already hold later blocks (and rows of the other source): rows whose value the own source's referenced rows hold at or below the row's own block are required, rows whose value is referenced anywhere in the final tables are allowed (reversed for !contains)",
			"every reference filter of one dependent has the same polarity (contains or !contains), so acceptance is monotone in the referenced data",
			"with reorganisations the content oracle is not applied (lookups may legitimately have seen rows that were orphaned later); positions and written block numbers are still judged",
		},
		NCases: func(tier string) int {
			if tier == "thorough" {
				return 3000
			}
			return 200
		},
		Run:              c05Run,
		CrashIsViolation: true,
		CaseTimeoutS:     300,
		MinObs: func(tier string) map[string]int64 {
			return map[string]int64{"dependent_commits_checked": 400, "dependent_idle_while_refs_missing": 100, "dependent_rows_required": 300, "dependent_rows_rejected": 100, "between_tx_interleavings": 30, "cases_some_refs_unstarted": 10, "cases_two_sources_one_chain": 20, "cases_with_reorgs": 20, "reorgs_applied": 20, "cases_two_referrers_of_one_integration": 30, "cases_second_level_dependent": 30, "second_level_commits_checked": 50, "idle_while_started_only_on_other_source": 5}
		},
	})
}

var c05Who = refmodel.Field{Name: "who", Type: refmodel.Address(), Column: "who"}

// c05RefDecl: a referenced integration whose table column "who" collects addresses.
func c05RefDecl(r *vk.RNG, name, table string, txMode bool) *model.Decl {
	d := &model.Decl{Name: name, Enabled: true, Table: table, ColTypes: map[string]string{}, InFilter: map[string]model.Filter{}}
	d.Sources = []model.SrcRef{{Name: namePoolSrc[0], Start: 1}}
	if txMode {
		d.Block = []model.BlockField{{Name: "tx_signer", Column: "who", ColType: "bytea"}, {Name: "tx_hash", Column: "tx_hash", ColType: "bytea"}}
		return d
	}
	d.EventName = "Reg" + name[len(name)-1:]
	who := c05Who
	who.Indexed = r.Bool()
	d.Inputs = []refmodel.Field{who, {Name: "n", Type: refmodel.Uint(64)}}
	return d
}

// c05Dep is one integration with reference filters.
type c05Dep struct {
	decl  *model.Decl
	neg   bool
	op    string
	site  int
	provs []c05Prov
	level int // 1: references plain integrations; 2: references another dependent's table
}

// c05Prov names the (integration, column) a filter looks up.
type c05Prov struct{ ig, col string }

var (
	c05IG  = []string{"ig-a", "ig-b", "ig-c", "ig-d", "ig-e"}
	c05Tbl = []string{"t_a", "t_b", "t_c", "t_d", "t_e"}
)

// c05MkDep builds a dependent: the first provider is looked up at `site`
// (0: non-indexed input, 1: indexed input, 2: block field log_addr), the
// others from further block fields.
func c05MkDep(r *vk.RNG, idx int, event string, provs []c05Prov, level int) *c05Dep {
	d := &c05Dep{neg: r.Chance(1, 4), site: r.Intn(3), provs: provs, level: level}
	d.op = "contains"
	if d.neg {
		d.op = "!contains"
	}
	dep := &model.Decl{Name: c05IG[idx], Enabled: true, Table: c05Tbl[idx], ColTypes: map[string]string{}, InFilter: map[string]model.Filter{}}
	dep.EventName = event
	ref := func(p c05Prov) model.Filter {
		return model.Filter{Op: d.op, Ref: &model.Ref{Integration: p.ig, Column: p.col}}
	}
	switch d.site {
	case 0:
		dep.Inputs = []refmodel.Field{{Name: "amt", Type: refmodel.Uint(128), Column: "amt"}, {Name: "addr", Type: refmodel.Address(), Column: "addr"}}
		dep.InFilter["addr"] = ref(provs[0])
	case 1:
		dep.Inputs = []refmodel.Field{{Name: "addr", Type: refmodel.Address(), Column: "addr", Indexed: true}, {Name: "amt", Type: refmodel.Uint(128), Column: "amt"}}
		dep.InFilter["addr"] = ref(provs[0])
	case 2:
		dep.Inputs = []refmodel.Field{{Name: "amt", Type: refmodel.Uint(128), Column: "amt"}}
		dep.Block = []model.BlockField{{Name: "log_addr", Column: "log_addr", ColType: "bytea", Filter: ref(provs[0])}}
	}
	extra := []string{"tx_signer", "tx_to"}
	for i := 1; i < len(provs) && i <= len(extra); i++ {
		dep.Block = append(dep.Block, model.BlockField{Name: extra[i-1], Column: extra[i-1], ColType: "bytea", Filter: ref(provs[i])})
	}
	if len(provs) > 1 {
		dep.FilterAgg = vk.Pick(r, []string{"and", "or", ""})
	}
	d.decl = dep
	return d
}

// the column of a dependent that holds addresses (what a second-level dependent looks up)
func (d *c05Dep) addrCol() string {
	if d.site == 2 {
		return "log_addr"
	}
	return "addr"
}

type c05DepPair struct {
	p     *mPair
	d     *c05Dep
	provP []*mPair
	// positions of the providers when the step began
	before []uint64
	// lastRead: positions of the providers when the step last asked the database for its dependencies' positions
	// (observed only in the episode that rewinds a reference inside the dependent's step; nil otherwise)
	lastRead []uint64
}

func c05Run(c *vk.Case) {
	r := c.R
	nref := r.Range(1, 3)
	pool := make([][]byte, 7)
	for i := range pool {
		pool[i] = r.Bytes(20)
	}
	nsrc := 1
	if r.Chance(1, 4) {
		nsrc = 2 // two sources of the same chain (the live + backfill setup)
	}
	reorgs := r.Chance(1, 4)
	srcNames := namePoolSrc[:nsrc]
	var srcRefs []model.SrcRef
	for _, s := range srcNames {
		srcRefs = append(srcRefs, model.SrcRef{Name: s, Start: 1})
	}
	var decls []*model.Decl
	var refs []*model.Decl
	for i := 0; i < nref; i++ {
		d := c05RefDecl(r, c05IG[i], c05Tbl[i], r.Chance(1, 4))
		refs = append(refs, d)
		decls = append(decls, d)
	}
	var deps []*c05Dep
	var provs []c05Prov
	for _, rd := range refs {
		provs = append(provs, c05Prov{rd.Name, "who"})
	}
	deps = append(deps, c05MkDep(r, 3, "Act", provs, 1))
	second := r.Intn(3) // 0: one dependent, 1: a sibling referencing the same integration, 2: a second-level dependent
	switch second {
	case 1:
		ps := []c05Prov{provs[0]}
		if nref > 1 && r.Bool() {
			ps = append(ps, provs[r.Range(1, nref-1)])
		}
		deps = append(deps, c05MkDep(r, 4, "Bct", ps, 1))
	case 2:
		ps := []c05Prov{{deps[0].decl.Name, deps[0].addrCol()}}
		if r.Bool() {
			ps = append(ps, provs[nref-1])
		}
		deps = append(deps, c05MkDep(r, 4, "Bct", ps, 2))
	}
	for _, d := range deps {
		decls = append(decls, d.decl)
	}
	for _, d := range decls {
		d.Sources = srcRefs
		if reorgs {
			// a field that makes the data plan carry parent hashes
			d.Block = append(d.Block, model.BlockField{Name: "block_time", Column: "block_time", ColType: "numeric"})
		}
	}

	// chain: registrations and actions over the address pool; tx signers/recipients from the pool too
	makers := []gen.LogMaker{}
	for _, rd := range refs {
		if rd.Mode() != model.ModeLog {
			continue
		}
		rd := rd
		makers = append(makers, func(r *vk.RNG) simnode.Log {
			return model.MakeLog(rd.EventName, rd.Inputs, []any{vk.Pick(r, pool), r.BigBits(60)}, pool[0])
		})
	}
	for _, d := range deps {
		d := d
		act := func(r *vk.RNG) simnode.Log {
			var vals []any
			for _, f := range d.decl.Inputs {
				if f.Name == "addr" {
					vals = append(vals, vk.Pick(r, pool))
				} else {
					vals = append(vals, r.BigBits(100))
				}
			}
			return model.MakeLog(d.decl.EventName, d.decl.Inputs, vals, vk.Pick(r, pool))
		}
		makers = append(makers, act, act)
	}
	seed := r.U64()
	inner := gen.Content(gen.ChainOpts{Seed: seed, MinTxs: 1, MaxTxs: 3, MaxLogs: 3, Makers: makers})
	chain := simnode.NewChain(nextChainID(), func(b *simnode.Block) {
		inner(b)
		rr := vk.NewRNG(vk.Derive(seed, 0x505, b.Version))
		for i := range b.Txs {
			b.Txs[i].From = vk.Pick(rr, pool)
			if b.Txs[i].To != nil {
				b.Txs[i].To = vk.Pick(rr, pool)
			}
		}
	})
	chain.Grow(r.Range(6, 14))
	spec := &scen.Spec{Decls: decls}
	for _, s := range srcNames {
		spec.Sources = append(spec.Sources, scen.SourceSpec{Name: s, ChainID: 3, Batch: r.Range(1, 5), Concurrency: r.Range(1, 2), Poll: "1h", Node: simnode.Global().NewNode(chain)})
	}
	me := newMultiEnv(c, spec, "")
	if me == nil {
		return
	}
	defer me.close()
	if me.env.SetupErr != nil {
		c.Violate("setup-rejected:"+me.env.SetupStage, map[string]any{"config": string(me.env.ConfJSON), "error": me.env.SetupErr.Error()}, "configuration rejected at %s: %v", me.env.SetupStage, me.env.SetupErr)
		return
	}
	if nsrc > 1 {
		c.Obs("cases_two_sources_one_chain", 1)
	}
	if reorgs {
		c.Obs("cases_with_reorgs", 1)
	}
	switch second {
	case 1:
		c.Obs("cases_two_referrers_of_one_integration", 1)
	case 2:
		c.Obs("cases_second_level_dependent", 1)
	}
	pairOf := func(src, ig string) *mPair {
		for _, p := range me.pairs {
			if p.ig == ig && p.src == src {
				return p
			}
		}
		return nil
	}
	// per source: the pairs of the referenced integrations and of the dependents
	refP := map[string][]*mPair{}
	var depPairs []*c05DepPair
	depOf := map[*mPair]*c05DepPair{}
	for _, s := range srcNames {
		for _, rd := range refs {
			p := pairOf(s, rd.Name)
			if p == nil {
				c.Inconclusive("task of %s/%s missing", s, rd.Name)
				return
			}
			refP[s] = append(refP[s], p)
		}
		for _, d := range deps {
			p := pairOf(s, d.decl.Name)
			if p == nil {
				c.Inconclusive("task of %s/%s missing", s, d.decl.Name)
				return
			}
			p.pm.noContent = true
			dp := &c05DepPair{p: p, d: d}
			for _, pv := range d.provs {
				dp.provP = append(dp.provP, pairOf(s, pv.ig))
			}
			depPairs = append(depPairs, dp)
			depOf[p] = dp
		}
	}
	position := func(p *mPair) (uint64, bool) { return p.pm.captureLive().position() }

	// between-transactions interleaving through the hook
	var between func()
	var betweenTask *shovel.Task
	shovel.VerifSetSink(nil, func(name string, t *shovel.Task) {
		if name == "between-txs" && t == betweenTask && between != nil {
			f := between
			between = nil
			f()
		}
	})
	defer shovel.VerifSetSink(nil, nil)

	// the monitor runs around every step of a dependent, whoever drives it (also while settling)
	var beforeState *pairState
	me.preStep = func(p *mPair) {
		dp := depOf[p]
		if dp == nil {
			return
		}
		beforeState = p.pm.captureLive()
		dp.lastRead = nil
		dp.before = dp.before[:0]
		for _, q := range dp.provP {
			n, _ := position(q)
			dp.before = append(dp.before, n)
		}
	}
	me.postStep = func(p *mPair, res *scen.StepResult) {
		dp := depOf[p]
		if dp == nil {
			return
		}
		committed := false
		for _, rec := range res.Commits {
			if rec.Aborted || len(rec.Tx.Effects) == 0 || rec.Snap == nil {
				continue
			}
			dc := p.pm.classify(rec)
			if len(dc.cursorIns) == 0 && len(dc.rowsIns) == 0 {
				continue
			}
			// the highest block this commit records or writes rows for
			var pos uint64
			for _, cr := range dc.cursorIns {
				if cr.num > pos {
					pos = cr.num
				}
			}
			for _, row := range dc.rowsIns {
				if n, ok := rowBlockNum(dc.tbl, row); ok && n > pos {
					pos = n
				}
			}
			committed = true
			c.Obs("dependent_commits_checked", 1)
			if dp.d.level == 2 {
				c.Obs("second_level_commits_checked", 1)
			}
			for i, q := range dp.provP {
				qs := q.pm.captureSnap(rec.Snap)
				qpos, qhas := qs.position()
				// the step read the provider's position at some moment between its start and this commit
				bound := qpos
				if dp.before[i] > bound {
					bound = dp.before[i]
				}
				if len(dp.lastRead) == len(dp.provP) {
					// the step's reads of the provider's position were observed: the last one decided how far it went
					bound = max(qpos, dp.lastRead[i])
				}
				if (!qhas && dp.before[i] == 0) || bound < pos {
					cls := "reference-behind"
					if !qhas && dp.before[i] == 0 {
						cls = "reference-without-position"
					}
					c.Violate("dependent-ahead:"+cls, merge(me.detail(), map[string]any{"dependent": p.name(), "dependent_block": pos, "reference": q.name(), "reference_position_at_commit": qpos, "reference_position_at_step_start": dp.before[i], "nrefs": len(dp.provP), "level": dp.d.level}),
						"%s recorded or wrote block %d while %s stood at %d when the step began and at %d at the commit", p.name(), pos, q.name(), dp.before[i], qpos)
				}
			}
		}
		after := p.pm.captureLive()
		missing := 0
		for i, q := range dp.provP {
			if _, ok := position(q); !ok && dp.before[i] == 0 {
				missing++
			}
		}
		if missing > 0 {
			if committed || after.digest(true) != beforeState.digest(true) {
				c.Violate("dependent-progress-while-reference-unstarted", merge(me.detail(), map[string]any{"dependent": p.name(), "unstarted_references": missing, "nrefs": len(dp.provP), "level": dp.d.level}),
					"%s changed its rows/position although %d of its %d referenced integrations have recorded nothing for that source", p.name(), missing, len(dp.provP))
			}
			c.Obs("dependent_idle_while_refs_missing", 1)
			if nsrc > 1 {
				for _, s := range srcNames {
					if s == p.src {
						continue
					}
					for _, pv := range dp.d.provs {
						if _, ok := position(pairOf(s, pv.ig)); ok {
							c.Obs("idle_while_started_only_on_other_source", 1)
						}
					}
				}
			}
		}
	}
	stepDep := func(dp *c05DepPair) {
		me.anyOwner = between != nil
		me.stepSeq(dp.p, false)
		me.anyOwner = false
	}
	stepRef := func(s string, i int) { me.stepSeq(refP[s][i], false) }
	depsOn := func(s string) []*c05DepPair {
		var out []*c05DepPair
		for _, dp := range depPairs {
			if dp.p.src == s {
				out = append(out, dp)
			}
		}
		return out
	}

	// adversarial order
	npat := 5
	if nsrc > 1 {
		npat = 6
	}
	pattern := r.Intn(npat)
	if reorgs && r.Chance(1, 2) {
		pattern = 6
	}
	started := map[string][]bool{}
	for _, s := range srcNames {
		started[s] = make([]bool, nref)
	}
	s0 := srcNames[0]
	switch pattern {
	case 0: // dependents first, references never started for a while
		for k := 0; k < 3; k++ {
			for _, dp := range depPairs {
				stepDep(dp)
			}
		}
	case 1: // only some references started
		if nref > 1 {
			c.Obs("cases_some_refs_unstarted", 1)
		}
		for _, s := range srcNames {
			for i := 0; i < nref-1; i++ {
				stepRef(s, i)
				stepRef(s, i)
				started[s][i] = true
			}
		}
		for k := 0; k < 3; k++ {
			for _, dp := range depPairs {
				stepDep(dp)
			}
		}
	case 2: // references far ahead
		for _, s := range srcNames {
			for i := 0; i < nref; i++ {
				for k := 0; k < 6; k++ {
					stepRef(s, i)
				}
			}
		}
	case 3: // lock-step
	case 4: // a reference steps between the dependent's two transactions
	case 5: // everything referenced runs ahead on the first source only; the dependents of the second source are stepped
		for i := 0; i < nref; i++ {
			for k := 0; k < 6; k++ {
				stepRef(s0, i)
			}
		}
		for _, dp := range depsOn(s0) {
			stepDep(dp)
			stepDep(dp)
		}
		for k := 0; k < 3; k++ {
			for _, dp := range depsOn(srcNames[1]) {
				stepDep(dp)
			}
		}
	case 6: // references far ahead, a dependent trails; the chain reorganises below the references' positions; they step once; the dependent keeps stepping
		for _, s := range srcNames {
			for i := 0; i < nref; i++ {
				for k := 0; k < 14; k++ {
					stepRef(s, i)
				}
			}
		}
		for _, dp := range depPairs {
			stepDep(dp)
		}
		d := r.Range(2, 4)
		chain.Reorg(d, d+1)
		c.Obs("reorgs_applied", 1)
		me.trace = append(me.trace, fmt.Sprintf("reorg(%d)", d))
		for _, s := range srcNames {
			for i := 0; i < nref; i++ {
				stepRef(s, i)
			}
		}
		for k := 0; k < 8 && len(c.Res.Violations) == 0; k++ {
			for _, dp := range depPairs {
				stepDep(dp)
			}
		}
	}
	nops := r.Range(15, 40)
	for k := 0; k < nops && len(c.Res.Violations) == 0; k++ {
		s := vk.Pick(r, srcNames)
		switch x := r.Intn(9); {
		case x == 0:
			chain.Grow(r.Range(1, 3))
			me.trace = append(me.trace, "grow")
		case x == 8:
			if reorgs {
				d := r.Range(1, 3)
				chain.Reorg(d, d+r.Intn(2))
				c.Obs("reorgs_applied", 1)
				me.trace = append(me.trace, fmt.Sprintf("reorg(%d)", d))
			}
		case x <= 3:
			dp := vk.Pick(r, depsOn(s))
			if pattern == 4 || r.Chance(1, 5) {
				q := vk.Pick(r, dp.provP)
				betweenTask = dp.p.task
				between = func() {
					c.Obs("between_tx_interleavings", 1)
					q.task.Converge()
				}
			}
			stepDep(dp)
			between = nil
		default:
			i := r.Intn(nref)
			if pattern == 1 && !started[s][nref-1] && i == nref-1 && k < nops/2 {
				continue // keep the last reference unstarted for the first half
			}
			if pattern == 5 && s != s0 && k < nops/2 {
				continue
			}
			stepRef(s, i)
			started[s][i] = true
		}
	}
	for episode := 0; episode < 4 && reorgs && len(c.Res.Violations) == 0; episode++ {
		// a reference digests a reorganisation INSIDE a dependent's step: the dependent has read its own position and is
		// waiting for the blocks that will show it the reorganisation when the reference rewinds and commits; coming
		// round again, the dependent asks for its dependencies' positions anew and has to go by what is committed then
		dp := vk.Pick(r, depPairs)
		for k := 0; k < 6 && len(c.Res.Violations) == 0; k++ {
			for _, q := range dp.provP {
				me.stepSeq(q, false)
			}
			stepDep(dp)
		}
		// the references move two blocks ahead of the dependent, then the dependent's own tip is replaced as well
		chain.Grow(2)
		for k := 0; k < 2; k++ {
			for _, q := range dp.provP {
				me.stepSeq(q, false)
			}
		}
		chain.Reorg(4, 4+r.Intn(2))
		c.Obs("reorgs_applied", 1)
		me.trace = append(me.trace, "grow(2), references step, reorg(4) + references rewind inside the dependent's step")
		var (
			hmu   sync.Mutex
			fired bool
			inRef bool
		)
		me.env.PG.SetFaultHook(func(op *fakepg.Op) fakepg.Fault {
			hmu.Lock()
			defer hmu.Unlock()
			if inRef {
				return fakepg.Fault{}
			}
			if !fired && op.Kind == "delete" && op.Table == "shovel.task_updates" {
				// the dependent has seen the reorganisation and unwinds its own position: before that statement runs,
				// everything it references digests the reorganisation in transactions of its own (store lock released)
				fired = true
				return fakepg.Fault{Kind: fakepg.FDelay, Call: func() {
					hmu.Lock()
					inRef = true
					hmu.Unlock()
					c.Obs("reference_rewinds_inside_dependent_step", 1)
					for _, q := range dp.provP {
						q.task.Converge()
					}
					hmu.Lock()
					inRef = false
					hmu.Unlock()
				}}
			}
			if strings.Contains(op.SQL, "distinct on (ig_name)") {
				// (the store lock is held here: read the committed state directly)
				var rd []uint64
				for _, q := range dp.provP {
					n, _ := q.pm.captureFrom(me.env.PG.TableByName, me.env.PG.CommittedRows).position()
					rd = append(rd, n)
				}
				dp.lastRead = rd
				c.Obs("dependency_reads_observed", 1)
			}
			return fakepg.Fault{}
		})
		me.anyOwner = true
		me.stepSeq(dp.p, false)
		me.anyOwner = false
		me.env.PG.SetFaultHook(nil)
	}
	if len(c.Res.Violations) > 0 {
		return
	}
	// settle: everything runs to the head
	chain.Grow(1)
	if !me.settle(int(chain.Head().Num)*2+60, nil) {
		if len(c.Res.Violations) == 0 {
			var errs []string
			for _, dp := range depPairs {
				errs = append(errs, dp.p.name()+": "+dp.p.lastErr)
			}
			c.Violate("no-quiescence", merge(me.detail(), map[string]any{"dependents_last_errors": errs}), "not all pairs reached the head (dependents' last errors: %v)", errs)
		}
		return
	}
	// final: references equal their plain projection; every dependent lies between required and allowed
	for _, s := range srcNames {
		for _, rp := range refP[s] {
			rp.pm.first = rp.first
			rp.pm.quiescenceVerdict(chain.Head().Num, rp.plan, merge(me.detail(), map[string]any{"pair": rp.name()}))
		}
	}
	if len(c.Res.Violations) > 0 {
		return
	}
	for _, dp := range depPairs {
		if _, _, cursors := dp.p.pm.pairRows(); len(cursors) == 0 {
			c.Violate("dependent-never-started", merge(me.detail(), map[string]any{"dependent": dp.p.name()}), "%s recorded no position although everything it references reached the head", dp.p.name())
			return
		}
	}
	if !reorgs {
		// looked-up contents per source: value -> lowest block at which a row of that source holds it
		firstSeen := map[string]map[string]map[string]uint64{}
		for _, s := range srcNames {
			firstSeen[s] = map[string]map[string]uint64{}
			for _, d := range deps {
				for _, pv := range d.provs {
					key := pv.ig + "." + pv.col
					if firstSeen[s][key] != nil {
						continue
					}
					t, rows, _ := pairOf(s, pv.ig).pm.pairRows()
					m := map[string]uint64{}
					firstSeen[s][key] = m
					if t == nil {
						continue
					}
					ci := t.ColIdx(pv.col)
					for _, row := range rows {
						n, _ := rowBlockNum(t, row)
						if v, ok := row.Vals[ci].([]byte); ok {
							k := string(v)
							if cur, ok := m[k]; !ok || n < cur {
								m[k] = n
							}
						}
					}
				}
			}
		}
		for _, dp := range depPairs {
			if c05Content(c, me, chain, dp, srcNames, firstSeen) {
				break
			}
		}
	}
	if len(c.Res.Violations) == 0 {
		d0 := deps[0]
		c.SetSig("nref=%d site=%d op=%s agg=%s pattern=%d txref=%v nsrc=%d second=%d reorgs=%v", nref, d0.site, d0.op, d0.decl.FilterAgg, pattern, refs[0].Mode() == model.ModeTx, nsrc, second, reorgs)
	}
	if c.Index < 4 {
		c.Sample(map[string]any{"config": string(me.env.ConfJSON), "pattern": pattern, "schedule": lastN(me.trace, 60)})
	}
}

// c05Content: the dependent's rows lie between what its lookups must have seen
// (values its own source's referenced rows hold at or below the block) and
// what they can have seen (values anywhere in the final referenced tables).
func c05Content(c *vk.Case, me *multiEnv, chain *simnode.Chain, dp *c05DepPair, srcNames []string, firstSeen map[string]map[string]map[string]uint64) (violated bool) {
	d := dp.d
	mkLook := func(own bool, n uint64) model.RefLookup {
		return func(ig, col string, v fakepg.Value) bool {
			b, _ := v.([]byte)
			key := ig + "." + col
			if own {
				f, ok := firstSeen[dp.p.src][key][string(b)]
				return ok && f <= n
			}
			for _, s := range srcNames {
				if _, ok := firstSeen[s][key][string(b)]; ok {
					return true
				}
			}
			return false
		}
	}
	t, rows, _ := dp.p.pm.pairRows()
	byBlock := map[uint64][]model.Row{}
	for _, row := range model.StoredRows(t, rows) {
		n, _ := rowBlockNum(t, rowsByVals(t, row))
		byBlock[n] = append(byBlock[n], row)
	}
	cols := tableCols(t)
	for n := dp.p.first; n <= chain.Head().Num; n++ {
		b := chain.At(n)
		lo, hi := mkLook(true, n), mkLook(false, n)
		if d.neg {
			lo, hi = hi, lo // !contains: acceptance shrinks as the referenced table grows
		}
		req := model.ProjectBlock(d.decl, dp.p.src, 3, b, lo)
		allow := model.ProjectBlock(d.decl, dp.p.src, 3, b, hi)
		got := byBlock[n]
		_, missing := model.DiffRows(got, req, cols)
		extra, _ := model.DiffRows(got, allow, cols)
		c.Obs("dependent_rows_required", int64(len(req)))
		c.Obs("dependent_rows_rejected", int64(len(model.ProjectBlock(d.decl, dp.p.src, 3, b, func(string, string, fakepg.Value) bool { return !d.neg }))-len(allow)))
		if len(missing) > 0 {
			c.Violate("dependent-rows-missing", merge(me.detail(), map[string]any{"dependent": dp.p.name(), "block": n, "missing": shortList(missing, 4), "polarity": d.op, "site": d.site, "level": d.level}),
				"%s block %d: %d row(s) whose value is referenced at or below that block are missing from the dependent's table", dp.p.name(), n, len(missing))
			return true
		}
		if len(extra) > 0 {
			c.Violate("dependent-rows-unreferenced", merge(me.detail(), map[string]any{"dependent": dp.p.name(), "block": n, "extra": shortList(extra, 4), "polarity": d.op, "site": d.site, "level": d.level}),
				"%s block %d: %d row(s) in the dependent's table are not accepted by any state of the referenced tables", dp.p.name(), n, len(extra))
			return true
		}
	}
	return false
}

// rowsByVals rebuilds a fakepg.Row from a model.Row (for helpers keyed on table rows).
func rowsByVals(t *fakepg.Table, m model.Row) *fakepg.Row {
	r := &fakepg.Row{Vals: make([]fakepg.Value, len(t.Cols))}
	for i, c := range t.Cols {
		r.Vals[i] = m[c.Name]
	}
	return r
}
