package checks

import (
	"context"
	"encoding/json"
	"errors"
	"fmt"

	"github.com/indexsupply/shovel/shovel"
	"github.com/indexsupply/shovel/shovel/config"

	"verif/harness/fakepg"
	"verif/harness/gen"
	"verif/harness/model"
	"verif/harness/scen"
	"verif/harness/simnode"
	"verif/harness/vk"
)

// c04StoredPair: one pair comes from the configuration file, the other from shovel.integrations (an integration
// submitted through the dashboard: decoded, checked with CheckUserInput, re-encoded and stored, then loaded by
// loadTasks with no further validation). Both write the same table. The stored integration selects what the
// add-integration page offers: event inputs and block_num, no ig_name / src_name.
//
// Judged: (1) whatever a transaction of the stored pair deletes or inserts, it is never a row of the file pair, in
// particular when the stored pair unwinds a reorganisation; (2) every row is stamped with the pair that wrote it.
func c04StoredPair(c *vk.Case) {
	r := c.R
	src := namePoolSrc[0]
	addrs := [][]byte{r.Bytes(20), r.Bytes(20)}
	fileDecl := &model.Decl{Name: "file_ig", Enabled: true, Table: "t_both", EventName: "Probe", Inputs: gen.CloneFields(c14Event),
		ColTypes: map[string]string{"ev_a": "bytea", "ev_v": "numeric"}, InFilter: map[string]model.Filter{}, Sources: []model.SrcRef{{Name: src, Start: 1}}}
	stored := &model.Decl{Name: "stored_ig", Enabled: true, Table: "t_both", EventName: "Probe", Inputs: gen.CloneFields(c14Event),
		ColTypes: map[string]string{"ev_a": "bytea", "ev_v": "numeric"}, InFilter: map[string]model.Filter{}, Sources: []model.SrcRef{{Name: src, Start: 1}},
		Block: []model.BlockField{{Name: "block_num", Column: "block_num", ColType: "numeric"}}}
	if r.Bool() {
		stored.Block = append(stored.Block, model.BlockField{Name: "log_idx", Column: "log_idx", ColType: "int"})
	}
	mk := func(r *vk.RNG) simnode.Log {
		return model.MakeLog("Probe", fileDecl.Inputs, []any{append([]byte{7}, r.Bytes(19)...), r.BigBits(200)}, vk.Pick(r, addrs))
	}
	chain := simnode.NewChain(nextChainID(), gen.Content(gen.ChainOpts{Seed: r.U64(), MinTxs: 1, MaxTxs: 2, MaxLogs: 2, Makers: []gen.LogMaker{mk}}))
	chain.Grow(r.Range(4, 7))
	node := simnode.Global().NewNode(chain)
	spec := &scen.Spec{Sources: []scen.SourceSpec{{Name: src, ChainID: 5, Batch: r.Range(1, 3), Concurrency: 1, Poll: "1h", Node: node}}, Decls: []*model.Decl{fileDecl}}
	var storedConf []byte
	env, err := scen.NewRaw(spec, func(pgurl string) []byte { return spec.ConfigJSON(pgurl) }, true, func(e *scen.Env) error {
		ctx := context.Background()
		if _, err := e.Pool.Exec(ctx, shovel.Schema); err != nil {
			return err
		}
		raw, err := json.Marshal(stored.ConfigJSON())
		if err != nil {
			return err
		}
		var ig config.Integration
		if err := json.Unmarshal(raw, &ig); err != nil {
			return err
		}
		if err := config.CheckUserInput(config.Root{Integrations: []config.Integration{ig}}); err != nil {
			return fmt.Errorf("the dashboard's check refuses the integration: %w", err)
		}
		if storedConf, err = json.Marshal(ig); err != nil {
			return err
		}
		_, err = e.Pool.Exec(ctx, `insert into shovel.integrations(name, conf) values ($1, $2)`, ig.Name, storedConf)
		return err
	})
	if err != nil {
		c.Inconclusive("environment: %v", err)
		return
	}
	defer env.Close()
	detail := map[string]any{"file_config": string(env.ConfJSON), "stored_integration": string(storedConf)}
	if env.SetupErr != nil {
		c.Inconclusive("stored-pair scenario does not boot (%s): %v", env.SetupStage, env.SetupErr)
		return
	}
	ft, st := env.Task(src, "file_ig"), env.Task(src, "stored_ig")
	if ft == nil || st == nil {
		c.Inconclusive("expected a task for the file pair and one for the stored pair, got %d tasks", len(env.Tasks))
		return
	}
	c.Obs("stored_pair_scenarios", 1)
	c.Evals(1)
	var trace []string
	// judge inspects what the transactions of one step of the stored (or file) pair did
	judge := func(who string, res *scen.StepResult) {
		for _, rec := range res.Commits {
			if rec.Aborted {
				continue
			}
			for _, e := range rec.Tx.Effects {
				if e.Table.QName() != "public.t_both" {
					continue
				}
				s, g := rowOwner(e.Table, e.Row)
				c.Obs("stored_pair_effects_judged", 1)
				switch {
				case who == "stored_ig" && g == "file_ig":
					kind := map[bool]string{true: "inserted", false: "deleted"}[e.Kind == fakepg.EffInsert]
					c.Violate("stored:foreign-row-"+kind, merge(detail, map[string]any{"row": rowStr(e.Table, e.Row), "trace": trace}),
						"a transaction of the pair loaded from shovel.integrations %s a row of the file pair %s/%s", kind, s, g)
				case who == "file_ig" && g != "file_ig":
					c.Violate("stored:file-pair-touches-other-row", merge(detail, map[string]any{"row": rowStr(e.Table, e.Row), "trace": trace}),
						"a transaction of the file pair touched a row it does not own (%s/%s)", s, g)
				case who == "stored_ig" && e.Kind == fakepg.EffInsert && (s != src || g != "stored_ig"):
					c.Violate("stored-integration:rows-unstamped", merge(detail, map[string]any{"row": rowStr(e.Table, e.Row)}),
						"a row written for the pair %s/stored_ig (integration loaded from shovel.integrations) is stamped src_name=%q ig_name=%q", src, s, g)
				}
			}
		}
	}
	step := func(who string) {
		t := map[string]*shovel.Task{"file_ig": ft, "stored_ig": st}[who]
		for i := 0; i < 12; i++ {
			res := env.Step(t)
			trace = append(trace, fmt.Sprintf("%s:%s", who, errClass(res.Err)))
			if res.Panic != "" {
				c.Violate("stored:panic:"+vk.TopShovelFrame(res.Panic), merge(detail, map[string]any{"panic": firstLines(res.Panic, 20)}), "Converge panicked")
				return
			}
			judge(who, res)
			if errors.Is(res.Err, shovel.ErrNothingNew) {
				return
			}
		}
	}
	step("file_ig")
	step("stored_ig")
	fileRows := func() int {
		n := 0
		env.PG.Read(func() {
			t := env.PG.TableByName("public.t_both")
			for _, row := range env.PG.CommittedRows("public.t_both") {
				if _, g := rowOwner(t, row); g == "file_ig" {
					n++
				}
			}
		})
		return n
	}
	before := fileRows()
	chain.Reorg(2, 3)
	trace = append(trace, "reorg(2,3)")
	c.Obs("reorgs_applied", 1)
	step("stored_ig") // the stored pair unwinds first, while the file pair still holds rows of the orphaned blocks
	if after := fileRows(); after != before {
		c.Violate("stored:file-pair-rows-changed", merge(detail, map[string]any{"rows_before": before, "rows_after": after, "trace": trace}),
			"the file pair had %d rows before the stored pair digested the reorganisation and %d after", before, after)
	}
	step("file_ig")
	if before > 0 {
		c.SetSig("stored-pair log_idx=%v", len(stored.Block) > 1)
	}
}
