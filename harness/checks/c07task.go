package checks

import (
	"fmt"
	"regexp"
	"strings"

	"verif/harness/scen"
	"verif/harness/vk"
)

// C07, task level: a step assembles its blocks from several partition requests
// (concurrency > 1). Each partition's response is consistent in itself, so the
// client cannot see a broken link between the last block of one partition and
// the first block of the next: the step that combines them has to. For every
// partition request of a fault-free run whose first block is not the step's
// first block, the run is repeated with the parent hash of that first block
// changed in the response: the step must fail and write nothing, and the
// integration converges once the source answers correctly again.

func c07TaskCases(tier string) int {
	if tier == "thorough" {
		return 400
	}
	return 24
}

var c07ParentRe = regexp.MustCompile(`"parentHash":"0x([0-9a-f])`)

func breakParent(elems []string) []string {
	if len(elems) == 0 {
		return elems
	}
	out := append([]string(nil), elems...)
	out[0] = c07ParentRe.ReplaceAllStringFunc(out[0], func(m string) string {
		last := m[len(m)-1]
		repl := byte('0')
		if last == '0' {
			repl = '1'
		}
		return m[:len(m)-1] + string(repl)
	})
	return out
}

var c07SigFirst = regexp.MustCompile(`^\[?eth_getBlockByNumber\((\d+),(true|false)\)`)

func c07TaskSeam(c *vk.Case) {
	r := c.R
	ps := &pipeScenario{Seed: r.U64(), HashPlan: true}
	ps.Mode = r.Intn(3)
	ps.Conc = r.Range(2, 4)
	ps.Batch = r.Range(ps.Conc, 3*ps.Conc+1) // also pairs where concurrency does not divide the batch
	ps.Initial = r.Range(6, 16)
	ps.StartK = 1
	n := r.Range(4, 8)
	for i := 0; i < n; i++ {
		if r.Chance(1, 3) {
			ps.Hist = append(ps.Hist, histOp{Kind: "grow", N: r.Range(1, ps.Batch)}) // steps shorter than the batch at the tip
		}
		ps.Hist = append(ps.Hist, histOp{Kind: "step"})
	}
	ps.FinalGrow = 1
	type stepStart struct {
		pos uint64
		has bool
	}
	starts := map[int]stepStart{}
	golden := ps.run(c, runOpts{Snapshots: true, KP: "task-seam:golden:", FinalVerdict: true, OnStep: func(idx int, _ *scen.StepResult, _ *pairMon, before, _ *pairState) {
		p, ok := before.position()
		starts[idx] = stepStart{p, ok}
	}})
	if golden == nil || len(c.Res.Violations) > 0 {
		return
	}
	if golden.SetupErr != "" || !golden.Idle {
		c.Inconclusive("task-seam golden run did not settle: %s %s", golden.SetupErr, golden.LastErr)
		return
	}
	if !planHasHashes(golden.Plan) {
		c.Inconclusive("plan %s has no block hashes", golden.Plan)
		return
	}
	type cand struct {
		step int
		sig  string
		occ  int
		num  uint64
	}
	var cands []cand
	for _, st := range golden.Steps {
		s0 := starts[st.Idx]
		for _, raw := range st.RPCSigs {
			sig, occ := stripOcc(raw)
			m := c07SigFirst.FindStringSubmatch(sig)
			if m == nil || !strings.HasPrefix(sig, "[") || strings.Contains(sig, "eth_getLogs") {
				continue // the block element that accompanies eth_getLogs contributes no data
			}
			var num uint64
			fmt.Sscanf(m[1], "%d", &num)
			// the first block of the step is compared with the recorded position (C03); here: later partitions
			if !s0.has || num <= s0.pos+1 {
				continue
			}
			cands = append(cands, cand{st.Idx, sig, occ, num})
		}
	}
	c.Obs("task_seam_candidates", int64(len(cands)))
	if len(cands) > 6 {
		vk.Shuffle(r, cands)
		cands = cands[:6]
	}
	for _, cd := range cands {
		f := &faultSpec{Step: cd.step, SQLOrd: -1, RPCSig: cd.sig, RPCOcc: cd.occ, Kind: "break-parent"}
		kp := "task-seam:"
		nv := len(c.Res.Violations)
		run := ps.run(c, runOpts{Snapshots: true, KP: kp, Fault: f, FinalVerdict: true, MaxQuiet: int(golden.Head) + 120,
			OnStep: func(idx int, res *scen.StepResult, pm *pairMon, before, after *pairState) {
				if idx != cd.step {
					return
				}
				wrote := false
				for _, rec := range res.Commits {
					if !rec.Aborted && len(rec.Tx.Effects) > 0 {
						dc := pm.classify(rec)
						if len(dc.cursorIns)+len(dc.rowsIns) > 0 {
							wrote = true
						}
					}
				}
				c.Obs("task_seam_steps_judged", 1)
				c.Evals(1)
				detail := map[string]any{"scenario": ps.Describe(), "broken_parent_of_block": cd.num, "request": cd.sig, "step": idx, "err": fmt.Sprint(res.Err), "plan": golden.Plan}
				if wrote {
					c.Violate(kp+"broken-link-between-partitions-written", detail,
						"the response for the partition starting at block %d named a parent that is not the hash of block %d delivered by the neighbouring partition; the step wrote rows/positions anyway (error: %v)", cd.num, cd.num-1, res.Err)
				} else if res.Err == nil {
					c.Violate(kp+"broken-link-between-partitions-accepted", detail, "the step returned no error although the partitions it combined are not hash-linked at block %d", cd.num)
				} else {
					c.Obs("task_seam_rejected", 1)
				}
			}})
		c.Obs("task_seam_runs", 1)
		if run == nil || len(c.Res.Violations) > nv {
			return
		}
		if !run.FaultHit {
			c.Obs("task_seam_fault_not_hit", 1)
			continue
		}
		if !run.Idle {
			c.Violate(kp+"no-convergence-after-rejection", map[string]any{"scenario": ps.Describe(), "trace": lastN(run.Trace, 40), "last_error": run.LastErr},
				"after the source answered correctly again the integration did not reach the head (last error: %s)", run.LastErr)
			return
		}
	}
	c.SetSig("task-seam plan=%s conc=%d divisible=%v", golden.Plan, ps.Conc, ps.Batch%ps.Conc == 0)
}
