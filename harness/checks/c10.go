package checks

import (
	"bytes"
	"context"
	"encoding/hex"
	"fmt"
	"math/big"
	"runtime"
	"sync"
	"sync/atomic"
	"syscall"
	"time"
	"unsafe"

	"github.com/indexsupply/shovel/dig"
	"github.com/indexsupply/shovel/eth"
	"github.com/indexsupply/shovel/shovel"
	"github.com/indexsupply/shovel/shovel/config"
	"github.com/indexsupply/shovel/wpg"

	"verif/harness/gen"
	"verif/harness/refmodel"
	"verif/harness/vk"
)

// C10 — decoding arbitrary log data never panics, over-reads or runs unbounded.
//
// Monitors per call of Result.Scan (+Bytes): recover(); pointer-range check of
// every returned cell against the input buffer; row bound and heap-allocation
// bound that depend on the *size* of the data only; wall-clock watchdog.
// Each input is presented twice: in a buffer with cap == len (any read past the
// end panics) and inside a larger buffer whose tail holds canary bytes (a
// returned slice reaching into the tail is caught by the range check, a write
// by the canary comparison).

const (
	c10Families   = 5
	c10CallBudget = 20 * time.Second
	// allocation this far above the per-call bound while the call is still running ends the call's observation
	c10RunawayBytes = 768 << 20
	// address-space limit of a C10 worker process: a runaway decoder dies of "out of memory" (attributed to the case in flight) instead of taking the machine down
	c10AddressSpaceLimit = 8 << 30
)

func init() {
	vk.Register(&vk.Check{
		ID:        "C10",
		Level:     "exploration",
		Technique: "hostile-input monitor around Result.Scan/Bytes and Integration.Insert: recover, returned-slice range check (unsafe pointer arithmetic), exact-capacity and canary-tail presentations, rows/TotalAlloc bounds in the data size, per-call watchdog; worker processes isolate fatal crashes",
		Rule: "declarations from C09's generator (depth <= 3, at most 3 array levels, small encodings). Families by case index mod 5: " +
			"0 random bytes of length 0..4096 (uniform, sparse small words, word-aligned and ragged); " +
			"1 every truncation of a valid encoding (every byte length up to 320 bytes, else every word boundary and +-1); " +
			"2 a valid encoding with each 32-byte word in turn replaced by each of 21 boundary values {0,1,31,32,33,len-32,len-31,len-1,len,len+1,2^31,2^32-1,2^32,2^63-1,2^63,2^63+32,2^64-32,2^64-1,2^64,2^255,2^256-1} (all words when <= 40 words, else 40 sampled words); " +
			"3 aliasing encodings: every offset word redirected to one nested array, self-referencing offsets (2^64-32), long claimed lengths over short data; " +
			"4 the same hostile data inside logs through Integration.Insert with a recording connection. " +
			"A signature is (family, outcome class, presentation) plus the shape class of the declaration's inputs; trivial = a call that is rejected before reading any word (empty data).",
		Assumptions: []string{
			"row bound for a successful decode: ncols * (len/32+1)^d, d = deepest array nesting above a selected leaf (min 1): every array level needs its head words inside the data",
			"allocation bound per call (Scan+Bytes): 1 MiB + 256*(rows+1)*(ncols+1) + 64*len bytes of runtime.MemStats.TotalAlloc, measured in a goroutine that is the only one running; 256 B/row/column is several times what a row slice and its copy cost, so only allocation driven by a claimed length can exceed it",
			"inputs are sized so that even (len/32)^d rows stay below ~250k; self-aliasing data may legitimately cost that much work",
			"a call still running after 50 ms is polled every 50 ms: allocation more than 768 MiB above the bound ends the observation as violation unbounded-alloc; a call that does not return within 20 s is inconclusive unless its allocation already exceeds the bound for the largest legitimate row count (then: violation). The worker's address space is limited to 8 GiB so that a runaway decoder dies (crash attributed to the case in flight) instead of exhausting the machine",
			"reads outside the input that neither panic nor leak into a returned slice are observable only through the cap == len presentation (they panic there)",
		},
		NCases: func(tier string) int {
			if tier == "thorough" {
				return 6000
			}
			return 200
		},
		Run:              c10Run,
		CrashIsViolation: true,
		CaseTimeoutS:     600,
		Exhaustive:       func(string) bool { return false },
		MinObs: func(tier string) map[string]int64 {
			m := map[string]int64{
				"calls": 100000, "calls_random": 10000, "calls_truncation": 15000, "calls_wordvalue": 40000, "calls_alias": 3000, "insert_calls": 2000, "wired_two_task_runs": 20,
				"calls_exact_cap": 40000, "calls_canary": 40000, "returned_ok": 10000, "returned_error": 30000, "cells_range_checked": 30000,
			}
			if tier == "thorough" {
				for k, v := range m {
					m[k] = v * 25
				}
			}
			return m
		},
	})
}

var c10Limit sync.Once

type c10Ctx struct {
	c      *vk.Case
	d      *abiDecl
	res    *dig.Result
	depth  int // deepest array nesting above a selected leaf
	ncols  int
	family string
	shape  string
	dead   bool // a call timed out: the decoder goroutine is still running, stop using this case
}

type c10CallResult struct {
	rows [][][]byte
	n    int
	err  error
	pan  *panicInfo
}

func c10NewCtx(c *vk.Case, d *abiDecl, family string) *c10Ctx {
	x := &c10Ctx{c: c, d: d, family: family, ncols: len(d.leaves)}
	for _, l := range d.leaves {
		if l.ArrayDepth > x.depth {
			x.depth = l.ArrayDepth
		}
	}
	if x.depth < 1 {
		x.depth = 1
	}
	var parts []string
	for _, f := range d.fields {
		if !f.Indexed {
			parts = append(parts, gen.Chain(f.Type))
		}
	}
	x.shape = fmt.Sprint(parts)
	return x
}

func (x *c10Ctx) fresh() bool {
	res, p := safeNewResult(x.d.ev)
	if p != nil {
		x.c.Violate(p.key()+":ABIType", map[string]any{"declaration": x.d.describe(), "panic": p}, "Event.ABIType panicked on %s: %s", x.d.describe(), p.Val)
		return false
	}
	x.res = res
	return true
}

func powCap(base, exp int, cap int64) int64 {
	r := int64(1)
	for i := 0; i < exp; i++ {
		r *= int64(base)
		if r > cap {
			return cap
		}
	}
	return r
}

var c10Canary = [2][]byte{
	bytes.Repeat([]byte{0xCA}, 128),
	func() []byte { // small plausible words: an over-read sees lengths/offsets that look valid
		b := make([]byte, 128)
		for i := 31; i < 128; i += 32 {
			b[i] = byte(1 + i/32)
		}
		return b
	}(),
}

// call presents data to the decoder once and applies all monitors.
func (x *c10Ctx) call(data []byte, canaryMode int, what string) {
	if x.dead {
		return
	}
	c := x.c
	n := len(data)
	var buf, in []byte
	if canaryMode == 0 {
		buf = make([]byte, n)
		copy(buf, data)
		in = buf
		c.Obs("calls_exact_cap", 1)
	} else {
		can := c10Canary[canaryMode-1]
		buf = make([]byte, n+len(can))
		copy(buf, data)
		copy(buf[n:], can)
		in = buf[:n]
		c.Obs("calls_canary", 1)
	}
	res := x.res
	done := make(chan c10CallResult, 1)
	var m0, m1 runtime.MemStats
	runtime.ReadMemStats(&m0)
	t0 := time.Now()
	go func() {
		var r c10CallResult
		defer func() {
			if rc := recover(); rc != nil {
				r.pan = capturePanic(rc)
			}
			r.n = res.Len() // rows materialised so far, also when Scan failed or panicked
			done <- r
		}()
		if r.err = res.Scan(in); r.err == nil {
			r.rows = res.Bytes()
		}
	}()
	var r c10CallResult
	poll := time.NewTimer(50 * time.Millisecond)
wait:
	for {
		select {
		case r = <-done:
			poll.Stop()
			break wait
		case <-poll.C:
			// a call that is still running after 50 ms is watched: allocation far above the
			// bound ends it as a violation at once, the wall-clock budget as inconclusive
			runtime.ReadMemStats(&m1)
			alloc := int64(m1.TotalAlloc - m0.TotalAlloc)
			runaway := alloc > x.allocBound(n, 0)+c10RunawayBytes
			if !runaway && time.Since(t0) < c10CallBudget {
				poll.Reset(50 * time.Millisecond)
				continue
			}
			x.dead = true
			det := map[string]any{"declaration": x.d.describe(), "data": hexTrunc(data, 8192), "len": n, "input": what, "alloc_bytes": alloc, "running_for": time.Since(t0).String()}
			switch {
			case runaway:
				c.Violate(fmt.Sprintf("unbounded-alloc:depth=%d", x.depth), det, "Scan of %d bytes for %s had allocated %d bytes after %s and was still running", n, x.d.describe(), alloc, time.Since(t0))
			case alloc > x.allocBound(n, 0)+256*int64(x.ncols+1)*powCap(n/32+2, x.depth, 1<<40):
				c.Violate(fmt.Sprintf("unbounded-alloc:depth=%d", x.depth), det, "Scan of %d bytes for %s still running after %s having allocated %d bytes", n, x.d.describe(), c10CallBudget, alloc)
			default:
				c.Inconclusive("Scan of %d bytes for %s did not return within %s (allocated %d bytes)", n, x.d.describe(), c10CallBudget, alloc)
			}
			return
		}
	}
	runtime.ReadMemStats(&m1)
	el := time.Since(t0)
	c.Obs("calls", 1)
	c.MaxObs("max_call_us", el.Microseconds())
	alloc := int64(m1.TotalAlloc - m0.TotalAlloc)
	c.MaxObs("max_alloc_bytes_per_call", alloc)
	det := func() map[string]any {
		return map[string]any{
			"declaration": x.d.describe(), "signature": refmodel.EventSignature(x.d.name, x.d.fields),
			"data": hexTrunc(data, 8192), "len": n, "input": what, "presentation": []string{"cap==len", "canary-0xCA", "canary-small-words"}[canaryMode],
		}
	}
	outcome := "error"
	switch {
	case r.pan != nil:
		outcome = "panic"
		c.Obs("returned_panic", 1)
		dm := det()
		dm["panic"] = r.pan
		c.Violate(r.pan.key(), dm, "decoding %d bytes of %s data for %s panicked: %s", n, what, x.d.describe(), r.pan.Val)
		x.fresh() // do not trust the state of a decoder that panicked
	case r.err != nil:
		c.Obs("returned_error", 1)
	default:
		outcome = "rows"
		c.Obs("returned_ok", 1)
		c.MaxObs("max_rows_returned", int64(len(r.rows)))
		// rows bound
		bound := int64(x.ncols) * powCap(n/32+1, x.depth, 1<<40)
		if bound < 1 {
			bound = 1
		}
		if int64(len(r.rows)) > bound {
			dm := det()
			dm["rows"], dm["bound"] = len(r.rows), bound
			c.Violate(fmt.Sprintf("rows-exceed-data-size:depth=%d", x.depth), dm, "%d rows from %d bytes for %s (bound %d)", len(r.rows), n, x.d.describe(), bound)
		}
		// every cell inside [&in[0], &in[0]+len)
		base := uintptr(unsafe.Pointer(unsafe.SliceData(in)))
		for i, row := range r.rows {
			if len(row) != x.ncols {
				dm := det()
				c.Violate("row-width", dm, "row %d has %d cells, declaration has %d columns", i, len(row), x.ncols)
				break
			}
			bad := false
			for j, cell := range row {
				if len(cell) == 0 {
					continue
				}
				c.Obs("cells_range_checked", 1)
				p := uintptr(unsafe.Pointer(unsafe.SliceData(cell)))
				if p < base || p+uintptr(len(cell)) > base+uintptr(n) {
					dm := det()
					dm["row"], dm["col"], dm["cell_len"] = i, j, len(cell)
					dm["cell_offset"] = int64(p) - int64(base)
					where := "outside-buffer"
					if p >= base && p < base+uintptr(cap(in)) {
						where = "past-end"
					}
					c.Violate("cell-outside-input:"+where, dm, "cell [%d][%d] (%d bytes) of %s lies at offset %d of a %d-byte input", i, j, len(cell), x.d.describe(), int64(p)-int64(base), n)
					bad = true
					break
				}
			}
			if bad {
				break
			}
		}
	}
	// allocation bound
	if b := x.allocBound(n, r.n); alloc > b {
		dm := det()
		dm["alloc_bytes"], dm["bound"], dm["rows"], dm["outcome"] = alloc, b, r.n, outcome
		c.Violate(fmt.Sprintf("unbounded-alloc:depth=%d", x.depth), dm, "decoding %d bytes for %s allocated %d bytes (bound %d, %d rows)", n, x.d.describe(), alloc, b, r.n)
	}
	// the decoder must not write to its input
	if !bytes.Equal(buf[:n], data) || (canaryMode > 0 && !bytes.Equal(buf[n:], c10Canary[canaryMode-1])) {
		c.Violate("input-modified", det(), "decoder modified its input buffer (%s)", x.d.describe())
	}
	c.SetSig("%s:%s:mode=%d", x.family, outcome, canaryMode)
}

func (x *c10Ctx) allocBound(n, rows int) int64 {
	return 1<<20 + 256*int64(rows+1)*int64(x.ncols+1) + 64*int64(n)
}

// both presentations
func (x *c10Ctx) present(data []byte, what string) {
	x.call(data, 0, what)
	x.call(data, 1+x.c.R.Intn(2), what)
}

func c10Opts(r *vk.RNG) gen.ABIOpts {
	return gen.ABIOpts{MaxDepth: r.Range(1, 3), MaxInputs: r.Range(1, 3), DynLen: 2, MaxLeaves: r.Range(6, 30), MaxArrayNest: 3, Ks: []int{1, 2, 3, 4, 10, 12}}
}

func c10Decl(c *vk.Case) *abiDecl {
	r := c.R
	for {
		inputs := gen.Inputs(r, c10Opts(r))
		fields := gen.Select(r, inputs, r.Range(2, 4), 4)
		d := newABIDecl("H", fields)
		if len(d.leaves) > 0 {
			for _, f := range fields {
				c.SetSig("in:%s:sel=%v", gen.Chain(f.Type), refmodel.HasSelection(f))
			}
			return d
		}
	}
}

func c10Word(x *big.Int) []byte { return x.FillBytes(make([]byte, 32)) }

// c10BoundaryWords returns the 21 replacement values for an encoding of n bytes.
func c10BoundaryWords(n int) [][]byte {
	p := func(e uint) *big.Int { return new(big.Int).Lsh(big.NewInt(1), e) }
	add := func(a *big.Int, d int64) *big.Int { return new(big.Int).Add(a, big.NewInt(d)) }
	vals := []*big.Int{
		big.NewInt(0), big.NewInt(1), big.NewInt(31), big.NewInt(32), big.NewInt(33),
		big.NewInt(int64(n - 32)), big.NewInt(int64(n - 31)), big.NewInt(int64(n - 1)), big.NewInt(int64(n)), big.NewInt(int64(n + 1)),
		p(31), add(p(32), -1), p(32), add(p(63), -1), p(63), add(p(63), 32), add(p(64), -32), add(p(64), -1), p(64), p(255), add(p(256), -1),
	}
	var out [][]byte
	for _, v := range vals {
		if v.Sign() < 0 {
			v = new(big.Int)
		}
		out = append(out, c10Word(v))
	}
	return out
}

func c10Run(c *vk.Case) {
	if err := refmodel.SelfTest(); err != nil {
		c.Inconclusive("reference model self-test failed: %v", err)
		return
	}
	c10Limit.Do(func() {
		lim := syscall.Rlimit{Cur: c10AddressSpaceLimit, Max: c10AddressSpaceLimit}
		_ = syscall.Setrlimit(syscall.RLIMIT_AS, &lim)
	})
	r := c.R
	fam := c.Index % c10Families
	budget := 1000
	if c.Thorough() {
		budget = 1300
	}
	calls0 := c.Res.Obs["calls"]
	used := func() int { return int(c.Res.Obs["calls"] - calls0 + c.Res.Obs["insert_calls"]) }
	sampled := false
	for used() < budget {
		d := c10Decl(c)
		x := c10NewCtx(c, d, []string{"random", "truncation", "wordvalue", "alias", "insert"}[fam])
		if !x.fresh() {
			continue
		}
		valid := func() []byte {
			return refmodel.EncodeTuple(d.fields, gen.Values(r, d.fields, gen.ABIOpts{DynLen: 2, MinDynLen: r.Intn(2)}))
		}
		before := used()
		switch fam {
		case 0:
			for i := 0; i < 60 && !x.dead; i++ {
				x.present(c10RandomBytes(r), "random")
			}
			c.Obs("calls_random", int64(used()-before))
		case 1:
			enc := valid()
			for n := 0; n < len(enc) && !x.dead; n++ {
				if len(enc) > 320 && n%32 > 1 && n%32 < 31 {
					continue
				}
				x.present(enc[:n], "truncation")
			}
			x.present(enc, "valid")
			c.Obs("calls_truncation", int64(used()-before))
		case 2:
			enc := valid()
			words := len(enc) / 32
			c.MaxObs("max_words_mutated_exhaustively", int64(min(words, 40)))
			idx := make([]int, words)
			for i := range idx {
				idx[i] = i
			}
			if words > 40 {
				vk.Shuffle(r, idx)
				idx = idx[:40]
			}
			bw := c10BoundaryWords(len(enc))
			mut := make([]byte, len(enc))
			for _, w := range idx {
				for _, v := range bw {
					if x.dead {
						break
					}
					copy(mut, enc)
					copy(mut[32*w:], v)
					x.present(mut, "word-replaced")
				}
			}
			c.Obs("calls_wordvalue", int64(used()-before))
			if !sampled && words >= 4 && words <= 12 {
				sampled = true
				c.Sample(map[string]any{"family": "wordvalue", "declaration": d.describe(), "valid_encoding": hex.EncodeToString(enc),
					"mutation": "each of the words replaced in turn by 21 boundary values, e.g. word 0 := 2^64-32", "presentations": "cap==len and canary tail"})
			}
		case 3:
			for i := 0; i < 12 && !x.dead; i++ {
				x.present(c10Alias(r, x, valid()), "alias")
			}
			c.Obs("calls_alias", int64(used()-before))
		case 4:
			c10Insert(c, x, valid)
			if r.Chance(1, 2) {
				c10Wired(c, x)
			}
			// keep the direct monitors busy in this family too
			x.present(valid(), "valid")
		}
		if x.dead {
			break
		}
	}
	c.Evals(c.Res.Obs["calls"] - calls0 + c.Res.Obs["insert_calls"])
}

func c10RandomBytes(r *vk.RNG) []byte {
	n := r.Intn(4097)
	switch r.Intn(4) {
	case 0:
		n = r.Intn(200)
	case 1:
		n = 32 * r.Intn(129)
	}
	b := r.Bytes(n)
	switch r.Intn(3) {
	case 0: // uniform
	case 1: // words that look like small offsets/lengths
		for w := 0; w+32 <= n; w += 32 {
			for i := 0; i < 30; i++ {
				b[w+i] = 0
			}
			if r.Chance(1, 2) {
				b[w+30] = 0
			}
			if r.Chance(1, 3) {
				b[w+31] &= 0xe0
			}
		}
	case 2: // mixture
		for w := 0; w+32 <= n; w += 32 {
			if r.Chance(2, 3) {
				v := big.NewInt(int64(r.Intn(n + 64)))
				copy(b[w:], c10Word(v))
			}
		}
	}
	return b
}

// c10Alias builds encodings whose offsets collapse onto one place.
func c10Alias(r *vk.RNG, x *c10Ctx, enc []byte) []byte {
	// size so that (words)^depth stays moderate
	maxWords := []int{0, 128, 128, 48, 20}[min(x.depth, 4)]
	switch r.Intn(4) {
	case 0:
		// a block of words all claiming "offset 32 / length W": [0x20][W][o][o]...  with o = 2^64-32 (self reference)
		w := r.Range(3, maxWords)
		b := make([]byte, 0, 32*w)
		b = append(b, c10Word(big.NewInt(32))...)
		b = append(b, c10Word(big.NewInt(int64(w-2)))...)
		self := c10Word(new(big.Int).Sub(new(big.Int).Lsh(big.NewInt(1), 64), big.NewInt(32)))
		for i := 2; i < w; i++ {
			b = append(b, self...)
		}
		return b
	case 1:
		// every word = 0x20: every offset and every length reads 32
		w := r.Range(2, maxWords)
		return bytes.Repeat(c10Word(big.NewInt(32)), w)
	case 2:
		// valid encoding, every word that looks like an in-range offset redirected to the first such target
		if len(enc) > 32*maxWords {
			enc = enc[:32*maxWords]
		}
		out := append([]byte(nil), enc...)
		target := -1
		for w := 0; w+32 <= len(out); w += 32 {
			v := new(big.Int).SetBytes(out[w : w+32])
			if v.IsInt64() && v.Int64() >= 32 && v.Int64() < int64(len(out)) && v.Int64()%32 == 0 {
				if target < 0 {
					target = int(v.Int64())
				} else {
					copy(out[w:], c10Word(big.NewInt(int64(target))))
				}
			}
		}
		return out
	default:
		// long claimed length over short data: [0x20][2^k][few words]
		w := r.Range(2, 12)
		b := append([]byte(nil), c10Word(big.NewInt(32))...)
		b = append(b, c10Word(new(big.Int).Lsh(big.NewInt(1), uint(r.Range(8, 62))))...)
		for i := 2; i < w; i++ {
			b = append(b, c10Word(big.NewInt(int64(r.Intn(64))))...)
		}
		return b
	}
}

// c10Insert drives hostile data through Integration.Insert: it must return an
// error or rows, never panic.
func c10Insert(c *vk.Case, x *c10Ctx, valid func() []byte) {
	r := c.R
	d := x.d
	ig, err, p := newIntegration(d, []dig.BlockData{{Name: "log_idx", Column: "log_idx"}})
	if p != nil || err != nil {
		c.Violate("insert:dig.New-failed", map[string]any{"declaration": d.describe(), "panic": p, "err": fmt.Sprint(err)}, "dig.New failed for %s", d.describe())
		return
	}
	topics := []eth.Bytes{eth.Bytes(refmodel.Keccak256([]byte(refmodel.EventSignature(d.name, d.fields))))}
	for _, f := range d.fields {
		if f.Indexed {
			topics = append(topics, eth.Bytes(r.Bytes(32)))
		}
	}
	for i := 0; i < 40; i++ {
		var data []byte
		what := ""
		switch r.Intn(4) {
		case 0:
			data, what = c10RandomBytes(r), "random"
		case 1:
			enc := valid()
			data, what = enc[:r.Intn(len(enc)+1)], "truncation"
		case 2:
			enc := valid()
			if len(enc) >= 32 {
				bw := c10BoundaryWords(len(enc))
				copy(enc[32*r.Intn(len(enc)/32):], bw[r.Intn(len(bw))])
			}
			data, what = enc, "word-replaced"
		default:
			data, what = c10Alias(r, x, valid()), "alias"
		}
		blocks := make([]eth.Block, 1)
		blocks[0].Header.Number = eth.Uint64(10 + i)
		blocks[0].Header.Hash = eth.Bytes(r.Bytes(32))
		blocks[0].Txs = make([]eth.Tx, 1)
		tx := &blocks[0].Txs[0]
		tx.PrecompHash = eth.Bytes(r.Bytes(32))
		tx.Logs = []eth.Log{{Idx: 0, Address: eth.Bytes(r.Bytes(20)), Topics: topics, Data: eth.Bytes(exactCopy(data))}}
		rc := &recConn{}
		_, ierr, pn := safeInsert(ig, rc, blocks)
		c.Obs("insert_calls", 1)
		outcome := "rows"
		switch {
		case pn != nil:
			outcome = "panic"
			c.Violate(pn.key(), map[string]any{"declaration": d.describe(), "data": hexTrunc(data, 8192), "input": what, "via": "Integration.Insert", "panic": pn},
				"Integration.Insert panicked on %d bytes of %s data for %s: %s", len(data), what, d.describe(), pn.Val)
			// the integration's cached decoder may be left inconsistent
			ig, _, _ = newIntegration(d, []dig.BlockData{{Name: "log_idx", Column: "log_idx"}})
		case ierr != nil:
			outcome = "error"
			c.Obs("insert_returned_error", 1)
		default:
			c.Obs("insert_returned_rows", 1)
		}
		c.SetSig("insert:%s:%s", what, outcome)
	}
}

// c10Wired: two destinations built by shovel.NewDestination from one
// integration configuration (the tasks of two sources) insert at the same time:
// one hostile data, the other well-formed logs. The well-formed task must copy
// exactly the values of the bytes it supplied, and neither may panic.
func c10Wired(c *vk.Case, x *c10Ctx) {
	r := c.R
	d := x.d
	if len(d.leaves) == 0 {
		return
	}
	tbl := wpg.Table{Name: "t_wired"}
	var walk func(fs []refmodel.Field)
	walk = func(fs []refmodel.Field) {
		for _, f := range fs {
			b := f.Type.Base()
			if b.Kind == refmodel.KTuple {
				walk(b.Fields)
				continue
			}
			if f.Column != "" {
				tbl.Columns = append(tbl.Columns, wpg.Column{Name: f.Column, Type: pgTypeOf(b)})
			}
		}
	}
	walk(d.fields)
	cfg := config.Integration{Name: "ig_abi", Enabled: true, Table: tbl, Event: d.ev}
	good, err1 := shovel.NewDestination(cfg)
	bad, err2 := shovel.NewDestination(cfg)
	if err1 != nil || err2 != nil {
		c.Violate("wired:NewDestination-failed", map[string]any{"declaration": d.describe(), "err": fmt.Sprint(err1, err2)}, "shovel.NewDestination failed for %s", d.describe())
		return
	}
	var sets [][]any
	for i := 0; i < 3; i++ {
		sets = append(sets, gen.Values(r, d.fields, gen.ABIOpts{DynLen: 2, MinDynLen: r.Intn(2)}))
	}
	goodBlocks, want := c09Blocks(r, d, sets, 500)
	if goodBlocks == nil {
		return
	}
	// hostile logs for the other task
	var hostile [][]eth.Block
	for i := 0; i < 20; i++ {
		var data []byte
		enc := refmodel.EncodeTuple(d.fields, gen.Values(r, d.fields, gen.ABIOpts{DynLen: 2, MinDynLen: r.Intn(2)}))
		switch r.Intn(3) {
		case 0:
			data = c10RandomBytes(r)
		case 1:
			data = enc[:r.Intn(len(enc)+1)]
		default:
			if len(enc) >= 32 {
				bw := c10BoundaryWords(len(enc))
				copy(enc[32*r.Intn(len(enc)/32):], bw[r.Intn(len(bw))])
			}
			data = enc
		}
		bs, _ := c09Blocks(r, d, sets[:1], uint64(600+i))
		bs[0].Txs[0].Logs[0].Data = eth.Bytes(exactCopy(data))
		hostile = append(hostile, bs)
	}
	const iters = 40
	var (
		wg       sync.WaitGroup
		diff     string
		pans     [2]*panicInfo
		stopFlag int32
	)
	wg.Add(2)
	go func() {
		defer wg.Done()
		defer atomic.StoreInt32(&stopFlag, 1)
		defer func() {
			if r := recover(); r != nil {
				pans[0] = capturePanic(r)
			}
		}()
		for k := 0; k < iters && diff == ""; k++ {
			rc := &recConn{}
			if _, err := good.Insert(context.Background(), &sync.Mutex{}, rc, goodBlocks); err != nil {
				diff = "Insert of well-formed logs failed: " + err.Error()
				return
			}
			diff = c09RowsDiffer(d, rc.rows, want)
		}
	}()
	go func() {
		defer wg.Done()
		defer func() {
			if r := recover(); r != nil {
				pans[1] = capturePanic(r)
			}
		}()
		for k := 0; atomic.LoadInt32(&stopFlag) == 0 && k < 100000; k++ {
			bad.Insert(context.Background(), &sync.Mutex{}, &recConn{}, hostile[k%len(hostile)])
		}
	}()
	wg.Wait()
	c.Obs("wired_two_task_runs", 1)
	det := map[string]any{"declaration": d.describe()}
	for i, pn := range pans {
		if pn != nil {
			det["panic"], det["task"] = pn, []string{"well-formed", "hostile"}[i]
			c.Violate(pn.key()+":wired-two-tasks", det, "Insert panicked while two tasks of integration %s inserted at the same time (%s data): %s", d.describe(), det["task"], pn.Val)
			return
		}
	}
	if diff != "" {
		det["difference"] = diff
		c.Violate("wired:values-not-from-own-input", det, "two destinations from shovel.NewDestination for %s inserted at the same time; the task with well-formed logs: %s", d.describe(), diff)
	}
}
