package checks

import (
	"bytes"
	"errors"
	"fmt"
	"math/big"
	"sort"
	"strings"
	"sync"

	"github.com/indexsupply/shovel/shovel"

	"verif/harness/fakepg"
	"verif/harness/model"
	"verif/harness/scen"
	"verif/harness/simnode"
	"verif/harness/vk"
)

// pairMon tracks one (source, integration) pair across the steps of a
// scenario and checks every commit boundary against the reference projection.
type pairMon struct {
	c     *vk.Case
	env   *scen.Env
	decl  *model.Decl
	src   *scen.SourceSpec
	start uint64
	stop  uint64

	hasPos bool
	pos    uint64 // newest recorded position
	first  uint64 // first block ever written for the pair
	hasRow bool

	// key prefix for violations (property specific)
	kp string

	projCache map[string][]string
	// look answers reference filters when projecting (nil: none declared)
	look model.RefLookup
	// ambiguousCommit: in the current step the harness dropped the connection right
	// after the server executed a COMMIT (the client cannot know the outcome)
	ambiguousCommit bool
	// noContent: the rows of this pair depend on other tables (reference filters);
	// the state invariant then checks placement only, not content
	noContent bool
}

func newPairMon(c *vk.Case, env *scen.Env, src, ig string) *pairMon {
	d := env.Spec.Decl(ig)
	pm := &pairMon{c: c, env: env, decl: d, src: env.Spec.Source(src)}
	for _, s := range d.Sources {
		if s.Name == src {
			pm.start, pm.stop = s.Start, s.Stop
		}
	}
	return pm
}

func (pm *pairMon) table() string { return "public." + pm.decl.Table }

type cursorRow struct {
	num  uint64
	hash []byte
	src  string
	ig   string
}

func cursorOf(t *fakepg.Table, r *fakepg.Row) cursorRow {
	var cr cursorRow
	if v, ok := r.Vals[t.ColIdx("num")].(*big.Int); ok {
		cr.num = v.Uint64()
	}
	cr.hash, _ = r.Vals[t.ColIdx("hash")].([]byte)
	cr.src, _ = r.Vals[t.ColIdx("src_name")].(string)
	cr.ig, _ = r.Vals[t.ColIdx("ig_name")].(string)
	return cr
}

func rowStr(t *fakepg.Table, r *fakepg.Row) string {
	var sb strings.Builder
	for i, c := range t.Cols {
		fmt.Fprintf(&sb, "%s=%s ", c.Name, fakepg.ValueString(r.Vals[i]))
	}
	return sb.String()
}

// identAlias: table name -> identity field -> the column the scenario's declaration stores it in (only for
// scenarios that bind identity fields to columns of other names).
var identAlias sync.Map

func identCol(t *fakepg.Table, field string) int {
	if m, ok := identAlias.Load(t.Name); ok {
		if col, ok := m.(map[string]string)[field]; ok {
			return t.ColIdx(col)
		}
	}
	return t.ColIdx(field)
}

func rowBlockNum(t *fakepg.Table, r *fakepg.Row) (uint64, bool) {
	ci := identCol(t, "block_num")
	if ci < 0 {
		return 0, false
	}
	switch v := r.Vals[ci].(type) {
	case *big.Int:
		return v.Uint64(), true
	case int64:
		return uint64(v), true
	}
	return 0, false
}

func rowOwner(t *fakepg.Table, r *fakepg.Row) (src, ig string) {
	if ci := identCol(t, "src_name"); ci >= 0 {
		src, _ = r.Vals[ci].(string)
	}
	if ci := identCol(t, "ig_name"); ci >= 0 {
		ig, _ = r.Vals[ci].(string)
	}
	return
}

// servedVersions: block number → distinct version hashes the node exposed in
// block-data responses of a step.
func servedVersions(served []simnode.Served) map[uint64][]string {
	res := map[uint64][]string{}
	for _, s := range served {
		if s.Poller || s.Failed != "" {
			continue
		}
		for _, b := range s.Blocks {
			if b.Hash == "" {
				continue
			}
			dup := false
			for _, h := range res[b.Num] {
				if h == b.Hash {
					dup = true
				}
			}
			if !dup {
				res[b.Num] = append(res[b.Num], b.Hash)
			}
		}
	}
	return res
}

func isHex32(b []byte) bool { return len(b) == 32 }

// planHasHashes: the data plan fetches headers or full blocks, so every block
// carries its own and its parent's hash.
func planHasHashes(plan string) bool {
	for _, p := range strings.Split(plan, ",") {
		if p == "h" || p == "b" {
			return true
		}
	}
	return false
}

func unhexs(s string) []byte {
	b := make([]byte, len(s)/2)
	fmt.Sscanf(s, "%x", &b)
	return b
}

// dataCommit describes the effect of one committed transaction on the pair.
type dataCommit struct {
	cursorIns []cursorRow
	cursorDel []cursorRow
	rowsIns   []*fakepg.Row
	rowsDel   []*fakepg.Row
	foreign   []string // effects on rows or cursors of other pairs
	tbl       *fakepg.Table
}

func (pm *pairMon) classify(rec scen.CommitRec) *dataCommit {
	dc := &dataCommit{}
	for _, e := range rec.Tx.Effects {
		switch e.Table.QName() {
		case "shovel.task_updates":
			cr := cursorOf(e.Table, e.Row)
			if cr.src != pm.src.Name || cr.ig != pm.decl.Name {
				dc.foreign = append(dc.foreign, fmt.Sprintf("cursor of %s/%s", cr.src, cr.ig))
				continue
			}
			if e.Kind == fakepg.EffInsert {
				dc.cursorIns = append(dc.cursorIns, cr)
			} else {
				dc.cursorDel = append(dc.cursorDel, cr)
			}
		case pm.table():
			dc.tbl = e.Table
			s, g := rowOwner(e.Table, e.Row)
			if s != pm.src.Name || g != pm.decl.Name {
				dc.foreign = append(dc.foreign, fmt.Sprintf("row of %s/%s in %s", s, g, e.Table.Name))
				continue
			}
			if e.Kind == fakepg.EffInsert {
				dc.rowsIns = append(dc.rowsIns, e.Row)
			} else {
				dc.rowsDel = append(dc.rowsDel, e.Row)
			}
		default:
			dc.foreign = append(dc.foreign, "table "+e.Table.QName())
		}
	}
	return dc
}

// project the given versions (by hash) with the declaration.
func (pm *pairMon) projectVersions(hashes []string) []model.Row {
	var rows []model.Row
	for _, h := range hashes {
		b := pm.src.Node.Chain.ByHash(unhexs(h))
		if b == nil {
			continue
		}
		rows = append(rows, model.ProjectBlock(pm.decl, pm.src.Name, pm.src.ChainID, b, pm.look)...)
	}
	return rows
}

func tableCols(t *fakepg.Table) []string {
	cs := t.ColNames()
	sort.Strings(cs)
	return cs
}

func shortList(xs []string, n int) []string {
	if len(xs) > n {
		return append(append([]string{}, xs[:n]...), fmt.Sprintf("… %d more", len(xs)-n))
	}
	return xs
}

// stepVerdict checks one step of this pair's task (C01 oracle a and b):
// every committed effect is a cursor row (pair, p', h') plus table rows with
// block_num in (p, p'] that equal the projection of the block versions served
// during the step; a nil error means exactly one such commit.
func (pm *pairMon) stepVerdict(res *scen.StepResult, plan string, batch int, detail map[string]any) {
	c := pm.c
	if res.Panic != "" {
		fr := vk.TopShovelFrame(res.Panic)
		c.Violate(pm.kp+"panic:"+fr, merge(detail, map[string]any{"panic": firstLines(res.Panic, 30)}), "Converge panicked in %s: %s", fr, firstLines(res.Panic, 1))
		return
	}
	versions := servedVersions(res.Served)
	ncommits := 0
	for _, rec := range res.Commits {
		if rec.Aborted || len(rec.Tx.Effects) == 0 {
			continue
		}
		dc := pm.classify(rec)
		if len(dc.foreign) > 0 {
			c.Violate(pm.kp+"foreign-effect", merge(detail, map[string]any{"foreign": dc.foreign}), "a step of %s/%s changed state of another pair: %v", pm.src.Name, pm.decl.Name, dc.foreign)
		}
		if len(dc.cursorDel) > 0 || len(dc.rowsDel) > 0 {
			// growth-only scenarios never need deletions; reorg-aware checks handle them before calling here
			pm.applyDeletion(dc, detail)
			continue
		}
		ncommits++
		if len(dc.cursorIns) != 1 {
			c.Violate(pm.kp+"commit-without-single-cursor", merge(detail, map[string]any{"cursor_rows": len(dc.cursorIns), "rows": len(dc.rowsIns)}),
				"a committed step wrote %d position rows (and %d table rows); exactly one expected", len(dc.cursorIns), len(dc.rowsIns))
			continue
		}
		cur := dc.cursorIns[0]
		p := pm.pos
		if !pm.hasPos {
			// first commit of the pair: previous position is the block before the first one fetched
			lo := firstBlockOf(pm.start, res.Served, cur.num)
			p = lo - 1
			pm.first = lo
		}
		if cur.num <= p {
			c.Violate(pm.kp+"position-not-advanced", merge(detail, map[string]any{"prev": p, "new": cur.num}), "position went from %d to %d", p, cur.num)
		}
		if int(cur.num-p) > batch && batch > 0 {
			c.Violate(pm.kp+"advanced-more-than-batch", merge(detail, map[string]any{"prev": p, "new": cur.num, "batch": batch}), "position advanced by %d > batch size %d", cur.num-p, batch)
		}
		// every written row lies in (p, p']
		for _, r := range dc.rowsIns {
			n, ok := rowBlockNum(dc.tbl, r)
			if !ok || n <= p || n > cur.num {
				c.Violate(pm.kp+"row-outside-step-interval", merge(detail, map[string]any{"prev": p, "new": cur.num, "row": rowStr(dc.tbl, r)}),
					"row with block_num %d written by a step covering (%d, %d]", n, p, cur.num)
			}
		}
		// rows equal the projection of what was served for p+1..p'
		var want []model.Row
		ambiguous := false
		for n := p + 1; n <= cur.num; n++ {
			hs := versions[n]
			switch len(hs) {
			case 0:
				c.Violate(pm.kp+"position-covers-unfetched-block", merge(detail, map[string]any{"block": n, "prev": p, "new": cur.num}),
					"position advanced over block %d although the source served no data for it in this step", n)
			case 1:
				want = append(want, pm.projectVersions(hs)...)
			default:
				ambiguous = true
			}
		}
		if !ambiguous {
			pm.compareRows(dc.tbl, dc.rowsIns, want, "step-rows", detail)
		}
		// recorded hash
		if hs := versions[cur.num]; len(hs) == 1 {
			wantHash := unhexs(hs[0])
			switch {
			case planHasHashes(plan):
				if !bytes.Equal(cur.hash, wantHash) {
					c.Violate(pm.kp+"cursor-hash-mismatch", merge(detail, map[string]any{"num": cur.num, "got": fmt.Sprintf("%x", cur.hash), "want": hs[0]}),
						"recorded hash of block %d is %x, source served %s", cur.num, cur.hash, hs[0])
				}
			default:
				if len(cur.hash) != 0 && !bytes.Equal(cur.hash, wantHash) {
					c.Violate(pm.kp+"cursor-hash-mismatch", merge(detail, map[string]any{"num": cur.num, "got": fmt.Sprintf("%x", cur.hash), "want": hs[0]}),
						"recorded hash of block %d is %x, source served %s", cur.num, cur.hash, hs[0])
				}
			}
		}
		pm.pos, pm.hasPos = cur.num, true
		c.Obs("commits_checked", 1)
		c.Obs("rows_compared", int64(len(dc.rowsIns)))
	}
	if res.Err == nil && ncommits != 1 {
		c.Violate(pm.kp+"nil-step-without-single-commit", merge(detail, map[string]any{"commits": ncommits}), "a step returned nil but committed %d times", ncommits)
	}
	if res.Err != nil && ncommits > 0 && !pm.ambiguousCommit {
		c.Violate(pm.kp+"failed-step-committed", merge(detail, map[string]any{"err": res.Err.Error(), "commits": ncommits}), "a step returned %v although it committed rows/position", res.Err)
	}
}

// firstBlockOf infers the first block of a pair that has no recorded position,
// from what the statement says rather than from request shapes where possible:
// the configured start; without one, the head the source announced in this step;
// failing that, the block after the last single block lookup (how the position
// before the first block is learnt); failing that, fallback.
func firstBlockOf(start uint64, served []simnode.Served, fallback uint64) uint64 {
	if start > 0 && start <= fallback {
		return start
	}
	if start == 0 {
		// the pair asks for the hash of the block before its first one; when a step starts over (all positions
		// unwound) it looks the head up again, so the last such lookup counts
		if n, ok := lastHashLookup(served); ok && n+1 <= fallback {
			return n + 1
		}
		for _, s := range served {
			if !s.Poller && s.Method == "eth_getBlockByNumber" && s.Arg == "latest" && s.Failed == "" && len(s.Blocks) == 1 && s.Blocks[0].Num <= fallback {
				return s.Blocks[0].Num
			}
		}
	}
	if n, ok := lastHashLookup(served); ok && n+1 <= fallback {
		return n + 1
	}
	return fallback
}

// lastHashLookup finds the last single (non-batched) eth_getBlockByNumber(n,…)
// of a step: that is how a pair without a recorded position asks for the hash of
// the block before its first one, so its first block is n+1.
func lastHashLookup(served []simnode.Served) (uint64, bool) {
	var (
		n  uint64
		ok bool
	)
	for _, s := range served {
		if s.Poller || s.Batched || s.Method != "eth_getBlockByNumber" || s.Arg == "latest" {
			continue
		}
		var v uint64
		if _, err := fmt.Sscanf(s.Arg, "%d", &v); err == nil {
			n, ok = v, true
		}
	}
	return n, ok
}

func (pm *pairMon) fetchedAsData(res *scen.StepResult, n uint64) bool {
	for _, s := range res.Served {
		if s.Poller || s.Arg == "latest" {
			continue
		}
		// Hash lookups are single non-batch eth_getBlockByNumber(n, true) calls: tell them apart by ordinal pattern:
		// block data is requested only after the position is known, so any data request covers blocks > position.
		for _, b := range s.Blocks {
			if b.Num == n && s.Method != "eth_getBlockByNumber" {
				return true
			}
			if b.Num == n && s.Method == "eth_getBlockByNumber" && s.Batched {
				return true
			}
		}
	}
	return false
}

func (pm *pairMon) applyDeletion(dc *dataCommit, detail map[string]any) {
	// default: deletions are unexpected; reorg-aware checks override kp/handling
	pm.c.Violate(pm.kp+"unexpected-deletion", merge(detail, map[string]any{"cursor_deleted": len(dc.cursorDel), "rows_deleted": len(dc.rowsDel)}),
		"rows or positions were deleted although the source never replaced a block")
}

func (pm *pairMon) compareRows(t *fakepg.Table, got []*fakepg.Row, want []model.Row, what string, detail map[string]any) {
	if t == nil {
		if len(want) == 0 {
			return
		}
		t = pm.tableObj()
		if t == nil {
			pm.c.Violate(pm.kp+what+":table-missing", detail, "table %s does not exist", pm.table())
			return
		}
	}
	cols := tableCols(t)
	extra, missing := model.DiffRows(model.StoredRows(t, got), want, cols)
	if len(extra) == 0 && len(missing) == 0 {
		return
	}
	cls := classifyDiff(extra, missing)
	pm.c.Violate(pm.kp+what+":"+cls, merge(detail, map[string]any{"only_in_table": shortList(extra, 6), "only_in_projection": shortList(missing, 6), "n_table": len(got), "n_projection": len(want)}),
		"%s differ from the declared projection: %d unexpected, %d missing (%s)", what, len(extra), len(missing), cls)
}

// classifyDiff names the kind of difference: missing rows, extra rows, or the
// columns whose values differ when both sides have the same number of rows.
func classifyDiff(extra, missing []string) string {
	switch {
	case len(extra) == 0:
		return "missing-rows"
	case len(missing) == 0:
		return "extra-rows"
	}
	if len(extra) == len(missing) {
		// compare pairwise after sorting to find differing columns
		cols := map[string]bool{}
		for i := range extra {
			a, b := strings.Fields(extra[i]), strings.Fields(missing[i])
			if len(a) != len(b) {
				continue
			}
			for j := range a {
				if a[j] != b[j] {
					if k := strings.IndexByte(a[j], '='); k > 0 {
						cols[a[j][:k]] = true
					}
				}
			}
		}
		if len(cols) > 0 && len(cols) <= 3 {
			var cs []string
			for c := range cols {
				cs = append(cs, c)
			}
			sort.Strings(cs)
			return "column-values:" + strings.Join(cs, "+")
		}
	}
	return "rows-differ"
}

func (pm *pairMon) tableObj() *fakepg.Table {
	var t *fakepg.Table
	pm.env.PG.Read(func() { t = pm.env.PG.TableByName(pm.table()) })
	return t
}

// pairRows returns the committed rows of the pair and its cursor rows.
func (pm *pairMon) pairRows() (t *fakepg.Table, rows []*fakepg.Row, cursors []cursorRow) {
	pg := pm.env.PG
	pg.Read(func() {
		t = pg.TableByName(pm.table())
		if t != nil {
			for _, r := range pg.CommittedRows(pm.table()) {
				s, g := rowOwner(t, r)
				if s == pm.src.Name && g == pm.decl.Name {
					rows = append(rows, r)
				}
			}
		}
		tu := pg.TableByName("shovel.task_updates")
		for _, r := range pg.CommittedRows("shovel.task_updates") {
			cr := cursorOf(tu, r)
			if cr.src == pm.src.Name && cr.ig == pm.decl.Name {
				cursors = append(cursors, cr)
			}
		}
	})
	sort.Slice(cursors, func(i, j int) bool { return cursors[i].num < cursors[j].num })
	return
}

// quiescenceVerdict: the table equals the projection of the canonical chain
// from the first written block to `upto`, the newest position is `upto`.
func (pm *pairMon) quiescenceVerdict(upto uint64, plan string, detail map[string]any) {
	t, rows, cursors := pm.pairRows()
	c := pm.c
	if len(cursors) == 0 {
		c.Violate(pm.kp+"quiescence:no-position", detail, "no position recorded at quiescence (head %d)", upto)
		return
	}
	last := cursors[len(cursors)-1]
	if last.num != upto {
		c.Violate(pm.kp+"quiescence:position-not-at-target", merge(detail, map[string]any{"position": last.num, "target": upto}), "position %d at quiescence, expected %d", last.num, upto)
	}
	chain := pm.src.Node.Chain
	for _, cr := range cursors {
		cb := chain.At(cr.num)
		if cb == nil {
			c.Violate(pm.kp+"quiescence:position-beyond-chain", merge(detail, map[string]any{"num": cr.num}), "position row %d beyond the chain", cr.num)
			continue
		}
		if (planHasHashes(plan) || len(cr.hash) > 0) && !bytes.Equal(cr.hash, cb.Hash) {
			c.Violate(pm.kp+"quiescence:position-hash-not-canonical", merge(detail, map[string]any{"num": cr.num, "got": fmt.Sprintf("%x", cr.hash), "want": cb.HashHex()}),
				"position row %d has hash %x, canonical is %x", cr.num, cr.hash, cb.Hash)
		}
	}
	var want []model.Row
	for n := pm.first; n <= upto && n <= last.num; n++ {
		if b := chain.At(n); b != nil {
			want = append(want, model.ProjectBlock(pm.decl, pm.src.Name, pm.src.ChainID, b, pm.look)...)
		}
	}
	// rows below the first written block or above the position must not exist
	for _, r := range rows {
		if n, ok := rowBlockNum(t, r); ok && (n < pm.first || n > last.num) {
			c.Violate(pm.kp+"quiescence:row-outside-range", merge(detail, map[string]any{"row": rowStr(t, r), "first": pm.first, "position": last.num}),
				"row for block %d outside [%d, %d]", n, pm.first, last.num)
		}
	}
	pm.compareRows(t, rows, want, "quiescence-table", detail)
	c.Obs("quiescence_rows_compared", int64(len(rows)))
	if len(want) > 0 {
		c.Obs("quiescence_nonempty", 1)
	}
}

func merge(a, b map[string]any) map[string]any {
	m := map[string]any{}
	for k, v := range a {
		m[k] = v
	}
	for k, v := range b {
		m[k] = v
	}
	return m
}

func firstLines(s string, n int) string {
	ls := strings.Split(s, "\n")
	if len(ls) > n {
		ls = ls[:n]
	}
	return strings.Join(ls, "\n")
}

func errClass(err error) string {
	switch {
	case err == nil:
		return "nil"
	case errors.Is(err, shovel.ErrNothingNew):
		return "nothing-new"
	case errors.Is(err, shovel.ErrDone):
		return "done"
	case errors.Is(err, shovel.ErrAhead):
		return "ahead"
	case errors.Is(err, shovel.ErrReorg):
		return "reorg"
	}
	return "error"
}
