package checks

import (
	"errors"
	"fmt"
	"os"
	"strings"
	"sort"
	"sync"
	"time"

	"github.com/indexsupply/shovel/shovel"

	"verif/harness/fakepg"
	"verif/harness/model"
	"verif/harness/scen"
	"verif/harness/simnode"
	"verif/harness/vk"
)

// mPair is one (source, integration) pair of a multi-pair scenario.
type mPair struct {
	src, ig string
	pm      *pairMon
	task    *shovel.Task
	first   uint64
	plan    string
	lastErr string
}

func (p *mPair) name() string { return p.src + "/" + p.ig }

type multiEnv struct {
	c      *vk.Case
	kp     string
	spec   *scen.Spec
	env    *scen.Env
	pairs  []*mPair
	chains map[string]*simnode.Chain
	trace  []string
	detail func() map[string]any
	// optional monitors around every stepSeq
	preStep  func(p *mPair)
	postStep func(p *mPair, res *scen.StepResult)
	// anyOwner: another pair's task may run inside the step (hook-driven interleaving)
	anyOwner bool
}

// newMultiEnv boots a scenario and attaches a monitor to every pair.
func newMultiEnv(c *vk.Case, spec *scen.Spec, kp string) *multiEnv {
	env, err := scen.New(spec, true)
	if err != nil {
		c.Inconclusive("environment: %v", err)
		return nil
	}
	me := &multiEnv{c: c, kp: kp, spec: spec, env: env, chains: map[string]*simnode.Chain{}}
	for _, s := range spec.Sources {
		me.chains[s.Name] = s.Node.Chain
	}
	me.detail = func() map[string]any {
		return map[string]any{"config": string(env.ConfJSON), "trace": lastN(me.trace, 30)}
	}
	if env.SetupErr != nil {
		return me
	}
	me.bindTasks()
	return me
}

func (me *multiEnv) bindTasks() {
	old := map[string]*mPair{}
	for _, p := range me.pairs {
		old[p.name()] = p
	}
	me.pairs = nil
	for _, t := range me.env.Tasks {
		in := t.VerifInfo()
		p := old[in.SrcName+"/"+in.IGName]
		if p == nil {
			p = &mPair{src: in.SrcName, ig: in.IGName, pm: newPairMon(me.c, me.env, in.SrcName, in.IGName)}
			p.pm.kp = me.kp
		}
		p.task = t
		p.plan = in.Filter
		me.pairs = append(me.pairs, p)
	}
	sort.Slice(me.pairs, func(i, j int) bool { return me.pairs[i].name() < me.pairs[j].name() })
}

func (me *multiEnv) close() { me.env.Close() }

// owner of an effect row.
func effectOwner(e fakepg.Effect) (src, ig string) {
	return rowOwner(e.Table, e.Row)
}

// checkOwnership: every effect of a committed transaction belongs to the pair
// the transaction acts for (the pair named in its position statements), and
// every inserted row is stamped with that pair.
func (me *multiEnv) checkOwnership(recs []scen.CommitRec, expect *mPair) {
	c := me.c
	for _, rec := range recs {
		if rec.Aborted || len(rec.Tx.Effects) == 0 {
			continue
		}
		ps, pi := rec.Tx.PairSrc, rec.Tx.PairIG
		if expect != nil {
			ps, pi = expect.src, expect.ig
		}
		if ps == "" && pi == "" {
			continue // not a task transaction (e.g. harness seeding)
		}
		c.Obs("commits_ownership_checked", 1)
		for _, e := range rec.Tx.Effects {
			s, g := effectOwner(e)
			if s == ps && g == pi {
				continue
			}
			kind := "deleted"
			if e.Kind == fakepg.EffInsert {
				kind = "inserted"
			}
			what := "row"
			if e.Table.QName() == "shovel.task_updates" {
				what = "position"
			}
			c.Violate(me.kp+"foreign-"+what+"-"+kind, merge(me.detail(), map[string]any{"acting_pair": ps + "/" + pi, "owner": s + "/" + g, "table": e.Table.QName(), "row": rowStr(e.Table, e.Row)}),
				"a transaction of pair %s/%s %s a %s of pair %s/%s in %s", ps, pi, kind, what, s, g, e.Table.QName())
		}
	}
}

// stepSeq runs one step of pair p with all other pairs quiescent and checks
// that no other pair's committed state changed.
func (me *multiEnv) stepSeq(p *mPair, others bool) *scen.StepResult {
	var before map[string]string
	if others {
		before = map[string]string{}
		for _, q := range me.pairs {
			if q != p {
				before[q.name()] = q.pm.captureLive().digest(true)
			}
		}
	}
	if me.preStep != nil {
		me.preStep(p)
	}
	res := me.env.Step(p.task)
	me.c.Obs("steps", 1)
	if me.postStep != nil {
		me.postStep(p, res)
	}
	if res.Panic != "" {
		fr := vk.TopShovelFrame(res.Panic)
		me.c.Violate(me.kp+"panic:"+fr, merge(me.detail(), map[string]any{"panic": firstLines(res.Panic, 30)}), "Converge panicked in %s: %s", fr, firstLines(res.Panic, 1))
	}
	if me.anyOwner {
		me.checkOwnership(res.Commits, nil)
	} else {
		me.checkOwnership(res.Commits, p)
	}
	me.trackFirst(p, res)
	if others {
		for _, q := range me.pairs {
			if q == p {
				continue
			}
			if after := q.pm.captureLive().digest(true); after != before[q.name()] {
				me.c.Violate(me.kp+"other-pair-state-changed", merge(me.detail(), map[string]any{"stepped": p.name(), "changed": q.name()}),
					"a step of %s changed rows or positions of %s", p.name(), q.name())
			}
			me.c.Obs("other_pair_comparisons", 1)
		}
	}
	live := p.pm.captureLive()
	pos, _ := live.position()
	p.pm.invariant(live, p.first, "after a step of "+p.name(), me.detail())
	if len(live.cursors) == 0 && len(live.rows) == 0 {
		p.first = 0
	}
	me.trace = append(me.trace, fmt.Sprintf("%s:%s pos=%d head=%d", p.name(), errClass(res.Err), pos, me.chains[p.src].Head().Num))
	if errClass(res.Err) == "error" {
		p.lastErr = res.Err.Error()
	}
	return res
}

func (me *multiEnv) trackFirst(p *mPair, res *scen.StepResult) {
	for _, rec := range res.Commits {
		if rec.Aborted || len(rec.Tx.Effects) == 0 {
			continue
		}
		dc := p.pm.classify(rec)
		if p.first == 0 && len(dc.cursorIns) > 0 {
			p.first = firstBlockOf(p.pm.start, res.Served, dc.cursorIns[0].num)
		}
		if rec.Snap != nil {
			st := p.pm.captureSnap(rec.Snap)
			if len(st.cursors) == 0 && len(st.rows) == 0 {
				p.first = 0
			}
		}
	}
}

// stepConcurrent runs one Converge of every given pair at the same time.
func (me *multiEnv) stepConcurrent(ps []*mPair) {
	me.env.Rec.Take()
	var wg sync.WaitGroup
	type out struct {
		err   error
		panic string
	}
	outs := make([]out, len(ps))
	for i, p := range ps {
		i, p := i, p
		wg.Add(1)
		go func() {
			defer wg.Done()
			defer func() {
				if r := recover(); r != nil {
					outs[i].panic = fmt.Sprint(r)
				}
			}()
			outs[i].err = p.task.Converge()
		}()
	}
	wg.Wait()
	recs := me.env.Rec.Take()
	if os.Getenv("VERIF_DEBUG") != "" {
		for _, rec := range recs {
			var bl []string
			for _, e := range rec.Tx.Effects {
				s, g := effectOwner(e)
				n, _ := rowBlockNum(e.Table, e.Row)
				bl = append(bl, fmt.Sprintf("%d:%s:%s/%s:b%d", e.Kind, e.Table.Name, s, g, n))
			}
			fmt.Fprintf(os.Stderr, "commit aborted=%v pair=%s/%s effects=%v\n", rec.Aborted, rec.Tx.PairSrc, rec.Tx.PairIG, bl)
		}
	}
	me.checkOwnership(recs, nil)
	me.c.Obs("concurrent_rounds", 1)
	for i, p := range ps {
		me.c.Obs("steps", 1)
		if outs[i].panic != "" {
			me.c.Violate(me.kp+"panic-concurrent", merge(me.detail(), map[string]any{"panic": outs[i].panic}), "Converge panicked: %s", outs[i].panic)
		}
		me.trace = append(me.trace, fmt.Sprintf("%s:%s (concurrent)", p.name(), errClass(outs[i].err)))
		// first block bookkeeping from this pair's own commits
		for _, rec := range recs {
			if rec.Aborted || rec.Tx.PairSrc != p.src || rec.Tx.PairIG != p.ig {
				continue
			}
			dc := p.pm.classify(rec)
			if p.first == 0 && len(dc.cursorIns) > 0 {
				lo := dc.cursorIns[0].num
				for _, r := range dc.rowsIns {
					if n, ok := rowBlockNum(dc.tbl, r); ok && n < lo {
						lo = n
					}
				}
				if p.pm.start > 0 && p.pm.start <= lo {
					lo = p.pm.start // a pair without a position begins at its configured start
				}
				p.first = lo
			}
		}
	}
}

// prune runs shovel.PruneTask(keep) (production runs it every ten minutes with
// keep=200) and checks that every pair retains exactly its newest
// min(keep, count) position rows and that no table row changes.
func (me *multiEnv) prune(keep int) {
	type st struct {
		cursors []cursorRow
		rows    string
	}
	before := map[string]st{}
	for _, p := range me.pairs {
		ps := p.pm.captureLive()
		before[p.name()] = st{ps.cursors, strings.Join(ps.rows, "\n")}
	}
	if err := shovel.PruneTask(me.env.Ctx, me.env.Pool, keep); err != nil {
		if us := me.env.PG.Unsupported(); len(us) > 0 {
			me.c.Inconclusive("fakepg contract left by PruneTask: %v", us)
			return
		}
		me.c.Violate(me.kp+"prune-failed", merge(me.detail(), map[string]any{"error": err.Error()}), "PruneTask failed: %v", err)
		return
	}
	me.env.Rec.Take()
	me.c.Obs("prunes", 1)
	me.trace = append(me.trace, fmt.Sprintf("prune(%d)", keep))
	for _, p := range me.pairs {
		b := before[p.name()]
		ps := p.pm.captureLive()
		want := b.cursors
		if len(want) > keep {
			want = want[len(want)-keep:]
		}
		ok := len(want) == len(ps.cursors)
		for i := 0; ok && i < len(want); i++ {
			ok = want[i].num == ps.cursors[i].num
		}
		var got, exp []uint64
		for _, x := range ps.cursors {
			got = append(got, x.num)
		}
		for _, x := range want {
			exp = append(exp, x.num)
		}
		if !ok {
			me.c.Violate(me.kp+"prune-wrong-positions", merge(me.detail(), map[string]any{"pair": p.name(), "keep": keep, "positions_after": got, "expected": exp}),
				"after PruneTask(%d) pair %s holds positions %v, expected its newest ones %v", keep, p.name(), got, exp)
		}
		if strings.Join(ps.rows, "\n") != b.rows {
			me.c.Violate(me.kp+"prune-changed-rows", merge(me.detail(), map[string]any{"pair": p.name()}), "PruneTask changed table rows of %s", p.name())
		}
	}
}

// settle steps every pair round-robin until all are idle at their head (or
// complete), then judges every pair against the canonical chain.
func (me *multiEnv) settle(maxRounds int, dependents map[string]bool) bool {
	c := me.c
	need := len(me.spec.Decls) + 3
	idleRounds := 0
	for round := 0; round < maxRounds && len(c.Res.Violations) == 0; round++ {
		allIdle := true
		for _, p := range me.pairs {
			res := me.stepSeq(p, false)
			live := p.pm.captureLive()
			pos, has := live.position()
			head := me.chains[p.src].Head().Num
			idle := errors.Is(res.Err, shovel.ErrNothingNew) && has && pos == head
			if !idle {
				allIdle = false
			}
		}
		if allIdle {
			idleRounds++
			if idleRounds >= need {
				return true
			}
		} else {
			idleRounds = 0
		}
	}
	return false
}

func (me *multiEnv) finalVerdicts(look func(p *mPair) model.RefLookup) {
	for _, p := range me.pairs {
		if len(me.c.Res.Violations) > 0 {
			return
		}
		p.pm.first = p.first
		p.pm.look = nil
		if look != nil {
			p.pm.look = look(p)
		}
		p.pm.quiescenceVerdict(me.chains[p.src].Head().Num, p.plan, merge(me.detail(), map[string]any{"pair": p.name(), "plan": p.plan}))
		me.c.Obs("pair_final_verdicts", 1)
	}
}

// wire delays for concurrent rounds
func delayHooks(r *vk.RNG, spec *scen.Spec, pg *fakepg.Server, maxMs int) func() {
	var mu sync.Mutex
	for _, s := range spec.Sources {
		s.Node.SetHook(func(info *simnode.ReqInfo) simnode.Action {
			mu.Lock()
			d := time.Duration(r.Intn(maxMs*1000+1)) * time.Microsecond
			mu.Unlock()
			return simnode.Action{ElemErr: -1, Delay: d}
		})
	}
	pg.SetFaultHook(func(op *fakepg.Op) fakepg.Fault {
		mu.Lock()
		d := time.Duration(r.Intn(maxMs*300+1)) * time.Microsecond
		mu.Unlock()
		if d == 0 {
			return fakepg.Fault{}
		}
		return fakepg.Fault{Kind: fakepg.FDelay, Delay: d}
	})
	return func() {
		for _, s := range spec.Sources {
			s.Node.SetHook(nil)
		}
		pg.SetFaultHook(nil)
	}
}
