package checks

import (
	"bufio"
	"bytes"
	"encoding/json"
	"fmt"
	"io"
	"net"
	"net/http"
	"net/url"
	"os"
	"os/exec"
	"path/filepath"
	"strings"
	"time"

	"github.com/indexsupply/shovel/shovel"

	"verif/harness/fakepg"
	"verif/harness/gen"
	"verif/harness/simnode"
	"verif/harness/vk"
)

// C19 part (b): the real cmd/shovel binary (built from /repo's working tree by
// run.sh) runs against fakepg + simnode with enable_loopback_authn; every path
// registered in main.go is requested without and with a session. For the
// protected paths the unauthenticated request must be redirected to /login and
// the database must have seen no statement from it.

func shovelBinary() string {
	if p := os.Getenv("VERIF_SHOVEL_BIN"); p != "" {
		return p
	}
	return filepath.Join(vk.VerifRoot(), ".build", "shovel")
}

type c19Route struct {
	method, path, ctype, body string
	protected                 bool
	// stmt: substring of the SQL statement the handler issues when it runs
	stmt string
	// stream: the handler keeps the connection open (server-sent events)
	stream bool
}

func c19RouteLevel(c *vk.Case) {
	bin := shovelBinary()
	if _, err := os.Stat(bin); err != nil {
		c.Inconclusive("shovel binary not built at %s: %v", bin, err)
		return
	}
	pg, err := fakepg.New()
	if err != nil {
		c.Inconclusive("fakepg: %v", err)
		return
	}
	defer pg.Close()
	pg.SetSchemaScript(shovel.Schema)
	chain := simnode.NewChain(nextChainID(), gen.Content(gen.ChainOpts{Seed: c.R.U64(), MinTxs: 1, MaxTxs: 2}))
	chain.Grow(8)
	node := simnode.Global().NewNode(chain)
	defer node.Retire()
	const password = "r0ute-level-pw"
	conf := map[string]any{
		"pg_url":      pg.URL(),
		"dashboard":   map[string]any{"enable_loopback_authn": true, "root_password": password},
		"eth_sources": []any{map[string]any{"name": "src-a", "chain_id": 1, "url": node.URL(""), "poll_duration": "50ms", "batch_size": 4}},
		"integrations": []any{map[string]any{
			"name": "ig-a", "enabled": true, "sources": []any{map[string]any{"name": "src-a", "start": 1, "stop": 4}},
			"table": map[string]any{"name": "t_a", "columns": []any{map[string]any{"name": "tx_hash", "type": "bytea"}}},
			"block": []any{map[string]any{"name": "tx_hash", "column": "tx_hash"}},
		}},
	}
	dir, err := os.MkdirTemp("", "vroute")
	if err != nil {
		c.Inconclusive("tmp: %v", err)
		return
	}
	defer os.RemoveAll(dir)
	cj, _ := json.Marshal(conf)
	cfile := filepath.Join(dir, "config.json")
	os.WriteFile(cfile, cj, 0o644)
	ln, err := net.Listen("tcp", "127.0.0.1:0")
	if err != nil {
		c.Inconclusive("listen: %v", err)
		return
	}
	addr := ln.Addr().String()
	ln.Close()
	var out bytes.Buffer
	cmd := exec.Command(bin, "-config", cfile, "-l", addr)
	cmd.Dir = dir
	cmd.Stdout, cmd.Stderr = &out, &out
	if err := cmd.Start(); err != nil {
		c.Inconclusive("starting shovel: %v", err)
		return
	}
	exited := make(chan error, 1)
	go func() { exited <- cmd.Wait() }()
	defer func() {
		cmd.Process.Kill()
		<-exited
	}()
	base := "http://" + addr
	client := &http.Client{Timeout: 5 * time.Second, CheckRedirect: func(*http.Request, []*http.Request) error { return http.ErrUseLastResponse }}
	// wait for the dashboard and for the task to finish (stop block 4): then the database is quiet
	up := false
	for i := 0; i < 400; i++ {
		select {
		case err := <-exited:
			exited <- err
			c.Inconclusive("shovel exited during start-up: %v\n%s\nunsupported: %v", err, tail(out.String(), 1500), pg.Unsupported())
			return
		default:
		}
		if resp, err := client.Get(base + "/login"); err == nil {
			resp.Body.Close()
			up = true
			break
		}
		time.Sleep(25 * time.Millisecond)
	}
	if !up {
		c.Inconclusive("dashboard did not come up: %s", tail(out.String(), 1500))
		return
	}
	quiet := func() bool {
		// no operations for a while
		pg.ResetOps()
		time.Sleep(150 * time.Millisecond)
		return len(pg.OpLog()) == 0
	}
	for i := 0; i < 100 && !quiet(); i++ {
	}
	if !quiet() {
		c.Inconclusive("the database did not become quiet (task still running?)")
		return
	}
	if us := pg.Unsupported(); len(us) > 0 {
		c.Inconclusive("fakepg contract left by the real binary: %v", us)
		return
	}
	igJSON := `{"name":"ig-b","enabled":true,"sources":[{"name":"src-a","start":1,"stop":2}],"table":{"name":"t_a","columns":[{"name":"tx_hash","type":"bytea"},{"name":"ig_name","type":"text"},{"name":"src_name","type":"text"},{"name":"block_num","type":"numeric"},{"name":"tx_idx","type":"int"}]},"block":[{"name":"tx_hash","column":"tx_hash"},{"name":"ig_name","column":"ig_name"},{"name":"src_name","column":"src_name"},{"name":"block_num","column":"block_num"},{"name":"tx_idx","column":"tx_idx"}]}`
	routes := []c19Route{
		{method: "GET", path: "/add-source", protected: true},
		{method: "POST", path: "/save-source", protected: true, ctype: "application/x-www-form-urlencoded", body: url.Values{"chainID": {"7"}, "name": {"src-new"}, "ethURL": {node.URL("")}}.Encode(), stmt: "insert into shovel.sources"},
		{method: "GET", path: "/add-integration", protected: true, stmt: "from shovel.sources"},
		{method: "POST", path: "/save-integration", protected: true, ctype: "application/json", body: igJSON, stmt: "insert into shovel.integrations"},
		{method: "GET", path: "/task-updates", protected: true, stream: true},
		{method: "GET", path: "/", stmt: "shovel.source_updates"},
		{method: "GET", path: "/login"},
		{method: "GET", path: "/diag"},
		{method: "GET", path: "/debug/pprof/cmdline"},
	}
	do := func(rt c19Route, cookie *http.Cookie) (status int, loc string, stmts []fakepg.Stmt, err error) {
		pg.ResetOps()
		req, _ := http.NewRequest(rt.method, base+rt.path, strings.NewReader(rt.body))
		if rt.ctype != "" {
			req.Header.Set("Content-Type", rt.ctype)
		}
		if cookie != nil {
			req.AddCookie(cookie)
		}
		cl := client
		if rt.stream {
			cl = &http.Client{Timeout: 700 * time.Millisecond, CheckRedirect: client.CheckRedirect}
		}
		resp, err := cl.Do(req)
		if err != nil {
			return 0, "", nil, err
		}
		if !rt.stream {
			io.Copy(io.Discard, resp.Body)
		} else {
			// read what arrives within the timeout
			br := bufio.NewReader(resp.Body)
			br.Peek(1)
		}
		resp.Body.Close()
		time.Sleep(120 * time.Millisecond) // let a handler-triggered restart issue its statements
		// every executed operation (also executions of statements prepared earlier)
		for _, op := range pg.OpLog() {
			stmts = append(stmts, fakepg.Stmt{ConnID: op.ConnID, Via: "op", SQL: op.SQL})
		}
		return resp.StatusCode, resp.Header.Get("Location"), stmts, nil
	}
	has := func(stmts []fakepg.Stmt, sub string) bool {
		for _, s := range stmts {
			if strings.Contains(strings.ToLower(strings.Join(strings.Fields(s.SQL), " ")), sub) {
				return true
			}
		}
		return false
	}
	var sample []string
	// 1) without a session
	for _, rt := range routes {
		st, loc, stmts, err := do(rt, nil)
		c.Obs("route_requests", 1)
		c.Evals(1)
		if err != nil {
			c.Inconclusive("request %s %s: %v", rt.method, rt.path, err)
			return
		}
		sample = append(sample, fmt.Sprintf("%s %s no-session -> %d %s (%d statements)", rt.method, rt.path, st, loc, len(stmts)))
		if rt.protected {
			c.Obs("route_protected_unauthenticated", 1)
			if st != http.StatusSeeOther || loc != "/login" {
				c.Violate("route:served-without-auth:"+rt.path, map[string]any{"status": st, "location": loc, "method": rt.method, "statements": len(stmts)},
					"%s %s without a session from a loopback address (loopback authn enforced) answered %d %q instead of a redirect to /login", rt.method, rt.path, st, loc)
			}
			if len(stmts) > 0 {
				var texts []string
				for _, s := range stmts {
					texts = append(texts, firstLines(s.SQL, 3))
				}
				c.Violate("route:handler-ran-without-auth:"+rt.path, map[string]any{"statements": shortList(texts, 5)},
					"%s %s without a session made the process issue %d SQL statement(s): the protected handler ran", rt.method, rt.path, len(stmts))
			}
		}
	}
	// 2) wrong password, then right password
	form := func(pw string) (*http.Response, error) {
		return client.PostForm(base+"/login", url.Values{"password": {pw}})
	}
	if resp, err := form("wrong-" + password); err == nil {
		if len(resp.Cookies()) > 0 {
			c.Violate("route:session-issued-for-wrong-password", nil, "POST /login with a wrong password set a cookie")
		}
		resp.Body.Close()
	}
	resp, err := form(password)
	if err != nil {
		c.Inconclusive("login: %v", err)
		return
	}
	resp.Body.Close()
	var sess *http.Cookie
	for _, ck := range resp.Cookies() {
		sess = ck
	}
	if sess == nil {
		c.Violate("route:login-with-right-password-issues-no-session", map[string]any{"status": resp.StatusCode}, "POST /login with the configured password issued no session cookie")
		return
	}
	// 3) with the session every protected handler must run
	for _, rt := range routes {
		if !rt.protected {
			continue
		}
		st, loc, stmts, err := do(rt, sess)
		c.Obs("route_requests", 1)
		c.Obs("route_protected_authenticated", 1)
		c.Evals(1)
		if err != nil && !rt.stream {
			c.Inconclusive("request %s %s with session: %v", rt.method, rt.path, err)
			return
		}
		sample = append(sample, fmt.Sprintf("%s %s session -> %d %s (%d statements)", rt.method, rt.path, st, loc, len(stmts)))
		if st == http.StatusSeeOther && loc == "/login" {
			c.Violate("route:not-served-with-session:"+rt.path, map[string]any{"status": st}, "%s %s with a session minted by this process was redirected to /login", rt.method, rt.path)
			continue
		}
		if rt.stmt != "" && !has(stmts, rt.stmt) {
			c.Violate("route:handler-did-not-run-with-session:"+rt.path, map[string]any{"status": st, "expected_statement": rt.stmt, "statements": len(stmts)},
				"%s %s with a session answered %d but the handler's statement (%s) was not seen", rt.method, rt.path, st, rt.stmt)
		}
	}
	if us := pg.Unsupported(); len(us) > 0 {
		c.Inconclusive("fakepg contract left by the real binary: %v", us)
	}
	c.Obs("route_level_runs", 1)
	c.SetSig("route-level:real-binary")
	c.Sample(map[string]any{"route_level": sample})
	if len(c.Res.Violations) == 0 {
		c19RouteNoConfig(c, bin)
	}
}

// c19RouteNoConfig: the real binary started without a configuration file (DATABASE_URL only; everything comes from
// the database). No password is configured, the process makes one up: the empty password must not open a session.
func c19RouteNoConfig(c *vk.Case, bin string) {
	pg, err := fakepg.New()
	if err != nil {
		c.Inconclusive("fakepg: %v", err)
		return
	}
	defer pg.Close()
	pg.SetSchemaScript(shovel.Schema)
	dir, err := os.MkdirTemp("", "vroute")
	if err != nil {
		c.Inconclusive("tmp: %v", err)
		return
	}
	defer os.RemoveAll(dir)
	ln, err := net.Listen("tcp", "127.0.0.1:0")
	if err != nil {
		c.Inconclusive("listen: %v", err)
		return
	}
	addr := ln.Addr().String()
	ln.Close()
	var out bytes.Buffer
	cmd := exec.Command(bin, "-l", addr)
	cmd.Dir = dir
	cmd.Env = append(os.Environ(), "DATABASE_URL="+pg.URL())
	cmd.Stdout, cmd.Stderr = &out, &out
	if err := cmd.Start(); err != nil {
		c.Inconclusive("starting shovel: %v", err)
		return
	}
	exited := make(chan error, 1)
	go func() { exited <- cmd.Wait() }()
	defer func() {
		cmd.Process.Kill()
		<-exited
	}()
	base := "http://" + addr
	client := &http.Client{Timeout: 5 * time.Second, CheckRedirect: func(*http.Request, []*http.Request) error { return http.ErrUseLastResponse }}
	up := false
	for i := 0; i < 400 && !up; i++ {
		select {
		case err := <-exited:
			exited <- err
			c.Inconclusive("shovel without a configuration file exited during start-up: %v\n%s\nunsupported: %v", err, tail(out.String(), 1500), pg.Unsupported())
			return
		default:
		}
		if resp, err := client.Get(base + "/login"); err == nil {
			resp.Body.Close()
			up = true
		} else {
			time.Sleep(25 * time.Millisecond)
		}
	}
	if !up {
		c.Inconclusive("dashboard (no configuration file) did not come up: %s", tail(out.String(), 1500))
		return
	}
	for _, form := range []url.Values{{"password": {""}}, {}} {
		resp, err := client.PostForm(base+"/login", form)
		if err != nil {
			c.Inconclusive("login: %v", err)
			return
		}
		resp.Body.Close()
		c.Obs("route_requests", 1)
		c.Obs("route_noconfig_empty_password_logins", 1)
		c.Evals(1)
		if len(resp.Cookies()) > 0 {
			c.Violate("route:session-issued-for-empty-password:no-configuration-file", map[string]any{"status": resp.StatusCode, "form": form.Encode()},
				"started without a configuration file (no password configured), POST /login with %q answered %d and set a session cookie", form.Encode(), resp.StatusCode)
			return
		}
	}
}

func tail(s string, n int) string {
	if len(s) <= n {
		return s
	}
	return s[len(s)-n:]
}
