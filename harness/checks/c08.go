package checks

import (
	"bytes"
	"context"
	"encoding/json"
	"fmt"
	"runtime"
	"sort"
	"strings"
	"sync"
	"sync/atomic"
	"time"

	"github.com/indexsupply/shovel/eth"
	"github.com/indexsupply/shovel/jrpc2"
	"github.com/indexsupply/shovel/shovel/glf"

	"verif/harness/gen"
	"verif/harness/simnode"
	"verif/harness/vk"
)

// C08 — source-side caches are transparent: same data, bounded reuse, no cached errors.
//
// Workloads ((case index + index/16) modulo 8):
//   0..3 seq        sequential Get sequences over few keys (two of them "many keys": five-segment rule)
//   4,5  conc       concurrent Get mixes, 2..12 goroutines
//   6    head-seq   Latest against a scripted head (growth, repeats, regressions), poller idle (1 h)
//   7    head-poll  concurrent Latest with the poller at 2 ms, poller failures (reset path)
//
// Ground truth is the simnode chain itself; fetches, faults and announced heads
// are recorded by the node hook (one record per HTTP request of the caching client).

func init() {
	vk.Register(&vk.Check{
		ID:        "C08",
		Level:     "exploration",
		Technique: "model-free cache monitor: real caching client against the simulated node; per-call comparison with chain ground truth and with an uncached client; fetch/fault/announcement accounting from the node's request record; real goroutines for the concurrent mixes",
		Rule: "case i runs workload (i + i/16) mod 8 (seq x4, conc x2, head-seq, head-poll) with maxreads 1..6 drawn per case; seq: 30-60 Get calls over 1-3 keys (or 7-9 keys for the five-segment rule) x call shapes {h, b, l+h and l+b with 5 address/topic filters, b+r, b+t}, faults (rpc-error, http-status, cut, truncate) injected into ~15% of segment or log/receipt/trace fetches; " +
			"conc: 2-12 goroutines x 2-5 calls over same/overlapping ranges and different filters on shared segments, faults by request ordinal; head-seq: 40-70 steps of grow/reorg/repeat/Latest(n below/at/above/0) with faults on direct fetches; head-poll: 1-4 goroutines calling Latest while the chain grows/reorgs and the 2 ms poller is failed and reset. " +
			"Signature = (workload, maxreads, fault kinds hit, shapes used, outcome classes); trivial = a case without a single cache hit. Chains end every trace_block result with 1–2 reward traces (null transaction hash and position) and every third block holds no transaction. Seventh round: maxreads 0..6 in the sequential and head-sequence workloads (0 = no reuse at all); half of the same-range concurrent mixes run against a source whose downloads take 5–25 ms with maxreads 1..3; concurrent readers that never return are reported when the source has none of their requests in flight and each waits for a mutex of the segment cache (three samples in a row).",
		Assumptions: []string{
			"bounded reuse (permissive reading of 'serves at most the configured number of successive reads before the source is asked again'): between two successful fetches of a key at most maxreads reads are served FROM CACHE (the fetching read itself is not counted); the tighter count (maxreads in total) is reported as an observation only",
			"concurrent mixes: reads_ok(key) <= fetches_ok(key) x (maxreads + max calls in flight), the in-flight maximum being measured per case",
			"transparency is read strictly ('same data', 'the same blocks, transactions and filter-matching logs as an uncached client would'): a call's result must equal what the uncached client returns for the same (plan, filter, range) - every log matching the caller's filter exactly once, no logIndex twice in a transaction, nothing the chain lacks, and also no transaction entries, logs of other filters, receipt or trace data that only other callers of the cached segment asked for (key foreign-data-in-result); otherwise the result of a call would depend on what other callers did",
			"concurrent results are snapshotted under each block's own mutex immediately when the call returns",
			"a poller refresh counts as 'the source was asked'; a stale head is allowed as long as the (number, hash) pair was announced by the source before the call returned",
			"every failed call must be explained by an injected fault served during the case (sequential: during that call); poller failures must never surface as errors of Latest",
			"a head hash handed to a caller belongs to the caller: the bytes must still be the announced hash of the returned number at the end of the case, whatever the cache did afterwards",
			"validation-level faults (null last block of a lagging node, last block from another fork, wrong number) are faults like transport failures: the call must fail and the rejected segment must not be served from cache",
		},
		NCases: func(tier string) int {
			if tier == "thorough" {
				return 8 * 10000
			}
			return 8 * 200
		},
		Run:              c08Run,
		CrashIsViolation: true,
		CaseTimeoutS:     120,
		Exhaustive:       func(string) bool { return false },
		MinObs: func(tier string) map[string]int64 {
			return map[string]int64{"get_calls": 5000, "cache_hits": 1500, "evictions_maxreads": 50, "poller_resets": 10,
				"hit_surplus_over_30pct_x10": 1, "faults_served": 200, "refetch_after_failure": 50, "latest_calls": 2000, "head_cache_hits": 500, "head_regressions": 20, "uncached_comparisons": 300}
		},
		Extra: func(tier string) map[string]any {
			return map[string]any{"hit_ratio_rule": "hit_surplus_over_30pct_x10 = 10*cache_hits - 3*get_calls summed over all cases must be positive (>= 30 % of Get calls are cache hits), else the run is inconclusive"}
		},
	})
}

// ---------------------------------------------------------------- recording hook

type c08Key struct {
	cache        byte // 'b' full blocks, 'h' headers
	start, limit uint64
}

func (k c08Key) String() string { return fmt.Sprintf("%c[%d+%d]", k.cache, k.start, k.limit) }

type c08Ev struct {
	kind   string // seg | aux | head | poll | other
	key    c08Key
	failed bool
	fault  string
	num    uint64 // head/poll: announced pair
	hash   string
}

type c08Fault struct {
	target string // event kind to hit
	kind   simnode.FailKind
	// rewrite: a validation-level fault of a segment fetch (the transport succeeds, the
	// client has to reject what it decoded): null-last (lagging node), fork-straddle
	// (the last block comes from another fork: broken parent link), wrong-number.
	rewrite string
}

var c08Rewrites = []string{"null-last", "fork-straddle", "wrong-number"}

// c08RewriteMut turns a validation-level fault into a mutation of a block batch.
func c08RewriteMut(rewrite string, key c08Key) simnode.Mut {
	last := int(key.limit) - 1
	m := simnode.Mut{Seq: 0, Elem: last, Item: -1, Sub: -1}
	switch {
	case rewrite == "fork-straddle" && key.limit >= 2:
		m.Kind = "break-parent"
	case rewrite == "wrong-number":
		m.Kind, m.Elem, m.Arg = "renumber-far", last/2, int64(key.start+key.limit+1000)
	default:
		m.Kind = "null-result"
	}
	return m
}

// c08PickFault draws a transport-level or (segment fetches only) validation-level fault.
func c08PickFault(r *vk.RNG, target string) *c08Fault {
	f := &c08Fault{target: target, kind: vk.Pick(r, c08FaultKinds)}
	if target == "seg" && r.Chance(2, 5) {
		f.kind, f.rewrite = simnode.FailNone, vk.Pick(r, c08Rewrites)
	}
	return f
}

type c08Rec struct {
	mu          sync.Mutex
	evs         []c08Ev
	announced   map[string]bool
	nextFault   *c08Fault
	faultAt     map[int]simnode.FailKind // by ordinal among non-poller requests of the caching client
	rewriteAt   map[int]string           // same ordinals: validation-level fault if the request is a segment fetch
	pollFaultAt map[int]simnode.FailKind // by poller ordinal
	nonPollN    int
	pollN       int
	// segDelay: segment downloads take this long (readers pile up behind a download in progress)
	segDelay time.Duration
}

func newC08Rec() *c08Rec {
	return &c08Rec{announced: map[string]bool{}, faultAt: map[int]simnode.FailKind{}, rewriteAt: map[int]string{}, pollFaultAt: map[int]simnode.FailKind{}}
}

func c08Pair(n uint64, h string) string { return fmt.Sprintf("%d:%s", n, h) }

func (rc *c08Rec) hook(info *simnode.ReqInfo) simnode.Action {
	act := simnode.Action{ElemErr: -1}
	if strings.Contains(info.Tag, "nocache") {
		return act // the uncached reference client is neither faulted nor counted
	}
	kind, asked := simnode.Classify(info)
	ev := c08Ev{kind: "other"}
	switch kind {
	case simnode.ExBlocks:
		ev.kind, ev.key = "seg", c08Key{'b', asked[0], uint64(len(asked))}
	case simnode.ExHeaders:
		ev.kind, ev.key = "seg", c08Key{'h', asked[0], uint64(len(asked))}
	case simnode.ExLogs, simnode.ExReceipts, simnode.ExTrace:
		ev.kind = "aux"
	case simnode.ExHead:
		ev.kind = "head"
		if info.Poller {
			ev.kind = "poll"
		}
	}
	rc.mu.Lock()
	fk, rw := simnode.FailNone, ""
	if info.Poller {
		fk = rc.pollFaultAt[rc.pollN]
		rc.pollN++
	} else {
		if f := rc.nextFault; f != nil && f.target == ev.kind {
			fk, rw = f.kind, f.rewrite
			rc.nextFault = nil
		}
		if k, ok := rc.faultAt[rc.nonPollN]; ok {
			fk, rw = k, rc.rewriteAt[rc.nonPollN]
		}
		rc.nonPollN++
	}
	if rw != "" && ev.kind != "seg" {
		rw = "" // only block batches can fail validation; the transport-level kind applies
	}
	ev.failed, ev.fault = fk != simnode.FailNone, fk.String()
	if rw != "" {
		fk = simnode.FailNone
		ev.failed, ev.fault = true, "validation:"+rw
	}
	idx := len(rc.evs)
	rc.evs = append(rc.evs, ev)
	rc.mu.Unlock()
	act.Fail = fk
	if ev.kind == "seg" {
		act.Delay = rc.segDelay
	}
	if fk == simnode.FailHTTP {
		act.Status = 503
	}
	if rw != "" {
		mut, exKind := c08RewriteMut(rw, ev.key), kind
		act.Rewrite = func(elems []string) []string { return mut.ApplyElems(0, exKind, elems, nil) }
	}
	if (ev.kind == "head" || ev.kind == "poll") && fk == simnode.FailNone {
		act.Rewrite = func(elems []string) []string {
			var resp struct {
				Result *struct {
					Number string `json:"number"`
					Hash   string `json:"hash"`
				} `json:"result"`
			}
			if len(elems) == 1 && json.Unmarshal([]byte(elems[0]), &resp) == nil && resp.Result != nil {
				var n uint64
				fmt.Sscanf(strings.TrimPrefix(resp.Result.Number, "0x"), "%x", &n)
				h := strings.TrimPrefix(resp.Result.Hash, "0x")
				rc.mu.Lock()
				rc.announced[c08Pair(n, h)] = true
				rc.evs[idx].num, rc.evs[idx].hash = n, h
				rc.mu.Unlock()
			}
			return elems
		}
	}
	return act
}

func (rc *c08Rec) mark() int {
	rc.mu.Lock()
	defer rc.mu.Unlock()
	return len(rc.evs)
}

func (rc *c08Rec) since(m int) []c08Ev {
	rc.mu.Lock()
	defer rc.mu.Unlock()
	return append([]c08Ev(nil), rc.evs[m:]...)
}

func (rc *c08Rec) setFault(f *c08Fault) {
	rc.mu.Lock()
	rc.nextFault = f
	rc.mu.Unlock()
}

func (rc *c08Rec) isAnnounced(n uint64, h string) bool {
	rc.mu.Lock()
	defer rc.mu.Unlock()
	return rc.announced[c08Pair(n, h)]
}

var c08FaultKinds = []simnode.FailKind{simnode.FailRPCError, simnode.FailHTTP, simnode.FailCut, simnode.FailTruncate}

// ---------------------------------------------------------------- call shapes and ground truth

type c08Shape struct {
	name    string
	fields  []string
	addrs   []string
	topics  [][]string
	filter  *glf.Filter
	lf      *simnode.LogFilter
	cache   byte
	seqOnly bool
}

func c08Addr(i int) []byte  { return simnode.H("c08addr", uint64(i))[:20] }
func c08Topic(i int) []byte { return simnode.H("c08topic", uint64(i)) }

func c08Makers() []gen.LogMaker {
	return []gen.LogMaker{func(r *vk.RNG) simnode.Log {
		l := simnode.Log{Addr: c08Addr(r.Intn(3)), Data: r.Bytes(r.Intn(24))}
		for i, n := 0, r.Range(1, 3); i < n; i++ {
			l.Topics = append(l.Topics, c08Topic(r.Intn(4)))
		}
		return l
	}}
}

func c08NewShape(name string, fields []string, addrIdx []int, topicIdx [][]int) *c08Shape {
	sh := &c08Shape{name: name, fields: fields, lf: &simnode.LogFilter{}}
	for _, a := range addrIdx {
		sh.addrs = append(sh.addrs, "0x"+c07Hex(c08Addr(a)))
		sh.lf.Addresses = append(sh.lf.Addresses, c08Addr(a))
	}
	for _, pos := range topicIdx {
		var alts []string
		var raw [][]byte
		for _, t := range pos {
			alts = append(alts, "0x"+c07Hex(c08Topic(t)))
			raw = append(raw, c08Topic(t))
		}
		if alts == nil {
			alts = []string{}
		}
		sh.topics = append(sh.topics, alts)
		sh.lf.Topics = append(sh.lf.Topics, raw)
	}
	sh.filter = glf.New(fields, sh.addrs, sh.topics)
	sh.cache = 'h'
	if sh.filter.UseBlocks {
		sh.cache = 'b'
	}
	sh.seqOnly = sh.filter.UseReceipts || sh.filter.UseTraces
	return sh
}

// c08Shapes: the menu of call shapes. Filters 1..4 overlap each other on purpose.
func c08Shapes() []*c08Shape {
	hl, bl := []string{"block_time", "log_idx"}, []string{"tx_nonce", "log_idx"}
	return []*c08Shape{
		c08NewShape("h", []string{"block_time"}, nil, nil),
		c08NewShape("b", []string{"tx_nonce"}, nil, nil),
		c08NewShape("l,h/any", hl, nil, nil),
		c08NewShape("l,h/a0", hl, []int{0}, nil),
		c08NewShape("l,h/a0a1", hl, []int{0, 1}, nil),
		c08NewShape("l,h/t0", hl, nil, [][]int{{0}}),
		c08NewShape("l,h/a1-t1t2", hl, []int{1}, [][]int{{}, {1, 2}}),
		c08NewShape("l,b/any", bl, nil, nil),
		c08NewShape("l,b/a0", bl, []int{0}, nil),
		c08NewShape("l,b/a0a1", bl, []int{0, 1}, nil),
		c08NewShape("l,b/t0", bl, nil, [][]int{{0}}),
		c08NewShape("l,b/a1-t1t2", bl, []int{1}, [][]int{{}, {1, 2}}),
		c08NewShape("b,r", []string{"tx_nonce", "tx_status"}, nil, nil),
		c08NewShape("b,t", []string{"tx_nonce", "trace_action_from"}, nil, nil),
	}
}

type c08Log struct {
	idx     uint64
	content string
}

type c08Tx struct {
	idx     uint64
	hash    string
	nonce   uint64
	value   string
	status  uint64
	gasUsed uint64
	logs    []c08Log
	traces  []string
}

type c08Blk struct {
	num          uint64
	hash, parent string
	time         uint64
	txs          []c08Tx
}

// c08Snapshot copies what the oracle needs out of (possibly shared) blocks,
// under each block's own mutex.
func c08Snapshot(blocks []eth.Block) []c08Blk {
	out := make([]c08Blk, len(blocks))
	for i := range blocks {
		b := &blocks[i]
		b.Lock()
		sb := c08Blk{num: uint64(b.Header.Number), hash: c07Hex(b.Header.Hash), parent: c07Hex(b.Header.Parent), time: uint64(b.Header.Time)}
		for j := range b.Txs {
			tx := &b.Txs[j]
			st := c08Tx{idx: uint64(tx.Idx), hash: c07Hex(tx.PrecompHash), nonce: uint64(tx.Nonce), value: c07U256(&tx.Value), status: uint64(tx.Status), gasUsed: uint64(tx.GasUsed)}
			for k := range tx.Logs {
				st.logs = append(st.logs, c08Log{uint64(tx.Logs[k].Idx), c07LogContent(&tx.Logs[k])})
			}
			for k := range tx.TraceActions {
				ta := &tx.TraceActions[k]
				st.traces = append(st.traces, fmt.Sprintf("%s>%s %s %s", c07Hex(ta.From), c07Hex(ta.To), ta.CallType, c07U256(&ta.Value)))
			}
			sb.txs = append(sb.txs, st)
		}
		b.Unlock()
		out[i] = sb
	}
	return out
}

// c08HeldRes is a result an earlier caller still holds.
type c08HeldRes struct {
	call   string
	blocks []eth.Block
	digest string
}

func c08ChainLogContent(l *simnode.Log) string {
	var ts []string
	for _, t := range l.Topics {
		ts = append(ts, c07Hex(t))
	}
	return fmt.Sprintf("log#%d %s [%s] %s", l.Idx, c07Hex(l.Addr), strings.Join(ts, ","), c07Hex(l.Data))
}

// c08CheckResult compares one call's snapshot with the chain. exact: the
// result must contain the caller's matching logs and nothing else (uncached client).
func c08CheckResult(chain *simnode.Chain, sh *c08Shape, start, limit uint64, snap []c08Blk, exact bool) (what, msg string) {
	if uint64(len(snap)) != limit {
		return "block-mismatch", fmt.Sprintf("%d blocks returned, %d requested", len(snap), limit)
	}
	f := sh.filter
	for i := range snap {
		sb := &snap[i]
		cb := chain.At(start + uint64(i))
		if cb == nil {
			return "block-mismatch", "requested block beyond the chain (harness)"
		}
		if sb.num != cb.Num || sb.hash != cb.HashHex() || sb.parent != c07Hex(cb.Parent) || sb.time != cb.Time {
			return "block-mismatch", fmt.Sprintf("block %d: got (num %d hash %.12s parent %.12s time %d), chain has (hash %.12s parent %.12s time %d)",
				cb.Num, sb.num, sb.hash, sb.parent, sb.time, cb.HashHex(), c07Hex(cb.Parent), cb.Time)
		}
		seen := map[uint64]*c08Tx{}
		for j := range sb.txs {
			tx := &sb.txs[j]
			if seen[tx.idx] != nil {
				return "tx-mismatch", fmt.Sprintf("block %d has transaction index %d twice", cb.Num, tx.idx)
			}
			seen[tx.idx] = tx
			if len(cb.Txs) == 0 && tx.idx == 0 && f.UseTraces && len(cb.Rewards) > 0 {
				// a block without transactions whose trace_block result holds only reward traces: they name no
				// transaction and are kept under position 0
				if tx.hash != "" || tx.nonce != 0 || len(tx.logs) > 0 || strings.Join(tx.traces, "|") != strings.Join(c08RewardTraces(cb), "|") {
					return "tx-mismatch", fmt.Sprintf("block %d holds no transaction, position 0 carries more than its reward traces: %+v", cb.Num, *tx)
				}
				continue
			}
			if tx.idx >= uint64(len(cb.Txs)) {
				return "tx-mismatch", fmt.Sprintf("block %d has a transaction %d the chain does not contain", cb.Num, tx.idx)
			}
			ct := &cb.Txs[tx.idx]
			if tx.hash != c07Hex(ct.Hash) {
				return "tx-mismatch", fmt.Sprintf("block %d tx %d hash %.12s, chain %.12s", cb.Num, tx.idx, tx.hash, c07Hex(ct.Hash))
			}
			if f.UseBlocks && (tx.nonce != ct.Nonce || tx.value != ct.Value.Text(16)) {
				return "tx-mismatch", fmt.Sprintf("block %d tx %d nonce/value differ from the chain", cb.Num, tx.idx)
			}
			// logs: no duplicates, nothing the chain lacks
			li := map[uint64]bool{}
			for _, l := range tx.logs {
				if li[l.idx] {
					return "log-duplicated", fmt.Sprintf("block %d tx %d carries logIndex %d twice", cb.Num, tx.idx, l.idx)
				}
				li[l.idx] = true
				found := false
				for k := range ct.Logs {
					if ct.Logs[k].Idx == l.idx {
						found = true
						if c08ChainLogContent(&ct.Logs[k]) != l.content {
							return "log-altered", fmt.Sprintf("block %d tx %d log %d differs from the chain: %s", cb.Num, tx.idx, l.idx, l.content)
						}
						if exact && f.UseLogs && !sh.lf.Match(&ct.Logs[k]) {
							return "log-phantom", fmt.Sprintf("uncached client returned log %d of block %d that does not match its filter", l.idx, cb.Num)
						}
					}
				}
				if !found {
					return "log-phantom", fmt.Sprintf("block %d tx %d carries log %d that the chain does not have there", cb.Num, tx.idx, l.idx)
				}
			}
			if f.UseReceipts && (tx.status != uint64(ct.Status) || tx.gasUsed != ct.GasUsed) {
				return "receipt-mismatch", fmt.Sprintf("block %d tx %d status/gasUsed differ from the chain", cb.Num, tx.idx)
			}
			if f.UseTraces && !f.UseReceipts && !f.UseLogs {
				var want []string
				for k := range ct.Traces {
					t := &ct.Traces[k]
					want = append(want, fmt.Sprintf("%s>%s %s %s", c07Hex(t.From), c07Hex(t.To), t.CallType, t.Value.Text(16)))
				}
				if ct.Idx == 0 {
					want = append(want, c08RewardTraces(cb)...)
				}
				if strings.Join(want, "|") != strings.Join(tx.traces, "|") {
					return "trace-mismatch", fmt.Sprintf("block %d tx %d traces differ from the chain", cb.Num, tx.idx)
				}
			}
		}
		// presence
		for j := range cb.Txs {
			ct := &cb.Txs[j]
			got := seen[ct.Idx]
			if got == nil && (f.UseBlocks || f.UseReceipts || (f.UseTraces && !f.UseLogs && len(ct.Traces) > 0)) {
				return "tx-mismatch", fmt.Sprintf("block %d lacks transaction %d", cb.Num, ct.Idx)
			}
			for k := range ct.Logs {
				need := f.UseReceipts || (f.UseLogs && sh.lf.Match(&ct.Logs[k]))
				if !need {
					continue
				}
				n := 0
				if got != nil {
					for _, l := range got.logs {
						if l.idx == ct.Logs[k].Idx {
							n++
						}
					}
				}
				if n == 0 {
					return "log-lost", fmt.Sprintf("block %d tx %d log %d matches the caller's filter but is absent", cb.Num, ct.Idx, ct.Logs[k].Idx)
				}
			}
		}
	}
	return "", ""
}

// c08FullView lists everything a snapshot contains: every transaction entry with every log,
// receipt field and trace, whether or not the call's plan and filter asked for it.
func c08FullView(snap []c08Blk) []string {
	var out []string
	for i := range snap {
		sb := &snap[i]
		out = append(out, fmt.Sprintf("B %d %s %s %d", sb.num, sb.hash, sb.parent, sb.time))
		txs := append([]c08Tx(nil), sb.txs...)
		sort.Slice(txs, func(a, b int) bool { return txs[a].idx < txs[b].idx })
		for _, tx := range txs {
			var ls []string
			for _, l := range tx.logs {
				ls = append(ls, l.content)
			}
			sort.Strings(ls)
			out = append(out, fmt.Sprintf(" T %d %s body %d %s rcpt %d %d {%s} <%s>", tx.idx, tx.hash, tx.nonce, tx.value, tx.status, tx.gasUsed,
				strings.Join(ls, ";"), strings.Join(tx.traces, ";")))
		}
	}
	return out
}

// c08Ref is what the uncached client returns for a call.
type c08Ref struct {
	match []string // the part the statement names: blocks, transactions, filter-matching logs
	full  []string // everything
}

// c08VsUncached compares a cached result with the uncached twin of the same call. The
// caller-relevant part differing is "differs-from-uncached"; when only the rest differs
// the cached result carries data of other callers (logs of other filters, receipt or
// trace data the plan never asked for): "foreign-data-in-result".
func c08VsUncached(chain *simnode.Chain, sh *c08Shape, snap []c08Blk, ref c08Ref) (what string, got []string, want []string) {
	if m := c08MatchingView(chain, sh, snap); strings.Join(m, "\n") != strings.Join(ref.match, "\n") {
		return "differs-from-uncached", m, ref.match
	}
	if f := c08FullView(snap); strings.Join(f, "\n") != strings.Join(ref.full, "\n") {
		return "foreign-data-in-result", f, ref.full
	}
	return "", nil, nil
}

// c08RewardTraces: how the reward traces of a block appear among the trace actions of position 0.
func c08RewardTraces(cb *simnode.Block) []string {
	var out []string
	for i := range cb.Rewards {
		out = append(out, fmt.Sprintf(">  %s", cb.Rewards[i].Value.Text(16)))
	}
	return out
}

// c08MatchingView lists the caller-relevant content of a snapshot (for the comparison with the uncached client).
func c08MatchingView(chain *simnode.Chain, sh *c08Shape, snap []c08Blk) []string {
	var out []string
	f := sh.filter
	traceShape := f.UseTraces && !f.UseReceipts && !f.UseLogs
	for i := range snap {
		sb := &snap[i]
		out = append(out, fmt.Sprintf("B %d %s %s %d", sb.num, sb.hash, sb.parent, sb.time))
		txs := append([]c08Tx(nil), sb.txs...)
		sort.Slice(txs, func(a, b int) bool { return txs[a].idx < txs[b].idx })
		cb := chain.At(sb.num)
		for _, tx := range txs {
			var ls []string
			for _, l := range tx.logs {
				keep := f.UseReceipts
				if !keep && f.UseLogs && cb != nil && tx.idx < uint64(len(cb.Txs)) {
					for k := range cb.Txs[tx.idx].Logs {
						if cb.Txs[tx.idx].Logs[k].Idx == l.idx && sh.lf.Match(&cb.Txs[tx.idx].Logs[k]) {
							keep = true
						}
					}
				}
				if keep {
					ls = append(ls, l.content)
				}
			}
			sort.Strings(ls)
			if !(f.UseBlocks || f.UseReceipts || len(ls) > 0 || (traceShape && len(tx.traces) > 0)) {
				continue // a transaction only other callers are interested in
			}
			line := fmt.Sprintf(" T %d %s", tx.idx, tx.hash)
			if f.UseBlocks {
				line += fmt.Sprintf(" body %d %s", tx.nonce, tx.value)
			}
			if f.UseReceipts {
				line += fmt.Sprintf(" rcpt %d %d", tx.status, tx.gasUsed)
			}
			line += " {" + strings.Join(ls, ";") + "}"
			if traceShape {
				line += " <" + strings.Join(tx.traces, ";") + ">"
			}
			out = append(out, line)
		}
	}
	return out
}

// ---------------------------------------------------------------- driver

func c08Run(c *vk.Case) {
	// (the i/16 term spreads every workload over all worker shards)
	switch (c.Index + c.Index/16) % 8 {
	case 0, 1:
		c08RunSeq(c, false)
	case 2, 3:
		c08RunSeq(c, true)
	case 4, 5:
		c08RunConc(c)
	case 6:
		if (c.Index/8)%4 == 3 {
			c08RunHeadListenerFailure(c)
		} else {
			c08RunHeadSeq(c)
		}
	case 7:
		c08RunHeadPoll(c)
	}
}

func c08Chain(r *vk.RNG, n int) *simnode.Chain {
	ch := simnode.NewChain(r.U64(), gen.Content(gen.ChainOpts{Seed: r.U64(), MinTxs: 1, MaxTxs: 3, MaxLogs: 3, MinTraces: 1, MaxTraces: 2, Makers: c08Makers(), Rewards: 2, EmptyEvery: 3}))
	ch.Grow(n)
	return ch
}

type c08Call struct {
	sh           *c08Shape
	start, limit uint64
}

func (cl c08Call) key() c08Key { return c08Key{cl.sh.cache, cl.start, cl.limit} }
func (cl c08Call) String() string {
	return fmt.Sprintf("%s@%d+%d", cl.sh.name, cl.start, cl.limit)
}

func c08Keys(r *vk.RNG, many bool) [][2]uint64 {
	var ks [][2]uint64
	if many {
		n := r.Range(7, 9)
		st := uint64(r.Range(1, 4))
		for i := 0; i < n; i++ {
			ks = append(ks, [2]uint64{st, uint64(r.Range(1, 3))})
			st += uint64(r.Range(1, 3))
		}
		vk.Shuffle(r, ks)
		return ks
	}
	s, l := uint64(r.Range(1, 12)), uint64(r.Range(1, 5))
	ks = append(ks, [2]uint64{s, l})
	for _, k := range [][2]uint64{{s, l + 1}, {s + 1, l}, {s + l, l}, {s, l}} {
		if r.Chance(1, 3) {
			ks = append(ks, k)
		}
	}
	return ks
}

// uncached reference for a call: must succeed and equal ground truth exactly.
func c08Uncached(c *vk.Case, node *simnode.Node, chain *simnode.Chain, call c08Call) (c08Ref, bool) {
	cl := jrpc2.New(node.URL("nocache"))
	blocks, err := cl.Get(context.Background(), node.URL("nocache"), call.sh.filter, call.start, call.limit)
	if err != nil {
		c.Inconclusive("uncached reference Get %s failed: %v", call, err)
		return c08Ref{}, false
	}
	snap := c08Snapshot(blocks)
	if what, msg := c08CheckResult(chain, call.sh, call.start, call.limit, snap, true); what != "" {
		c.Inconclusive("uncached reference Get %s differs from the chain (%s: %s)", call, what, msg)
		return c08Ref{}, false
	}
	c.Obs("uncached_comparisons", 1)
	return c08Ref{match: c08MatchingView(chain, call.sh, snap), full: c08FullView(snap)}, true
}

// c08HitRatio: the summed surplus is positive iff more than 30 % of all Get calls were cache hits.
func c08HitRatio(c *vk.Case, calls, hits int64) {
	c.Obs("get_calls", calls)
	c.Obs("cache_hits", hits)
	c.Obs("hit_surplus_over_30pct_x10", hits*10-calls*3)
}

// ---------------------------------------------------------------- sequential Get sequences

func c08RunSeq(c *vk.Case, many bool) {
	r := c.R
	chain := c08Chain(r, 40)
	node := simnode.Global().NewNode(chain)
	defer node.Retire()
	rc := newC08Rec()
	node.SetHook(rc.hook)
	maxreads := r.Range(0, 6)
	if many {
		maxreads = r.Range(3, 6)
	}
	cl := jrpc2.New(node.URL("")).WithMaxReads(maxreads)
	url := node.URL("")
	shapes := c08Shapes()
	keys := c08Keys(r, many)
	// menu: 1-3 shapes per key
	var menu []c08Call
	for _, k := range keys {
		n := r.Range(1, 3)
		if many {
			n = 1
		}
		for i := 0; i < n; i++ {
			menu = append(menu, c08Call{vk.Pick(r, shapes), k[0], k[1]})
		}
	}
	wl := "seq"
	if many {
		wl = "seq-many"
	}
	nops := r.Range(30, 60)
	type keyState struct {
		hits       int  // reads served from cache since the last successful fetch
		reads      int  // calls that touched the segment since (and including) that fetch, failed ones too
		lastFailed bool // the previous call on this key failed in its segment fetch
		fetched    bool
	}
	st := map[c08Key]*keyState{}
	ref := map[string]c08Ref{}
	var (
		trace         []string
		calls, hits   int64
		faultKinds    = map[string]bool{}
		outcomeKinds  = map[string]bool{}
		shapesUsed    = map[string]bool{}
		maxPerFetch   int
		tightExceeded int64
		heldRes       []c08HeldRes
	)
	for op := 0; op < nops; op++ {
		var call c08Call
		if many && op < len(menu) {
			call = menu[op] // first touch every key once, then revisit
		} else {
			call = vk.Pick(r, menu)
		}
		k := call.key()
		ks := st[k]
		if ks == nil {
			ks = &keyState{}
			st[k] = ks
		}
		shapesUsed[call.sh.name] = true
		var fault *c08Fault
		if r.Chance(15, 100) {
			fault = c08PickFault(r, "seg")
			if r.Bool() && (call.sh.filter.UseLogs || call.sh.filter.UseReceipts || call.sh.filter.UseTraces) {
				fault = c08PickFault(r, "aux")
			}
		}
		rc.setFault(fault)
		m := rc.mark()
		blocks, err := cl.Get(context.Background(), url, call.sh.filter, call.start, call.limit)
		rc.setFault(nil)
		evs := rc.since(m)
		calls++
		var segOK, segFail, anyFail bool
		for _, e := range evs {
			if e.kind == "seg" {
				if e.key != k {
					c.Inconclusive("segment request %s during a call on %s", e.key, k)
					return
				}
				if e.failed {
					segFail = true
				} else {
					segOK = true
				}
			}
			if e.failed {
				anyFail = true
				faultKinds[e.fault] = true
				c.Obs("faults_served", 1)
			}
		}
		line := fmt.Sprintf("%s fetch=%v fault=%v err=%v", call, segOK || segFail, anyFail, err != nil)
		trace = append(trace, line)
		detail := func() map[string]any {
			t := trace
			if len(t) > 40 {
				t = t[len(t)-40:]
			}
			return map[string]any{"workload": wl, "maxreads": maxreads, "call": call.String(), "op": op, "sequence_tail": t, "chain": "unchanging, 40 blocks"}
		}
		switch {
		case anyFail && err == nil:
			c.Violate("c08:"+wl+":fault-swallowed", detail(), "Get %s succeeded although one of its fetches was failed by the source", call)
		case !anyFail && err != nil && wallClockTimeout(err):
			c.Inconclusive("the client's own 10 s wall-clock timeout fired (overloaded machine): %v", err)
			return
		case !anyFail && err != nil:
			c.Violate("c08:"+wl+":error-without-fault", detail(), "Get %s failed (%v) although no fault was injected during the call", call, err)
			outcomeKinds["error-without-fault"] = true
		}
		// what earlier callers were given is theirs: later requests (whoever decodes them, into whatever buffers) must
		// not change it
		for _, h := range heldRes {
			if now := fmt.Sprint(c08Snapshot(h.blocks)); now != h.digest {
				d := detail()
				d["earlier_call"], d["was"], d["now"] = h.call, firstLines(h.digest, 6), firstLines(now, 6)
				c.Violate("c08:"+wl+":returned-blocks-changed-later", d, "the blocks returned by the earlier Get %s changed while later requests were served", h.call)
				heldRes = nil
				break
			}
			c.Obs("held_results_rechecked", 1)
		}
		if err == nil {
			snap := c08Snapshot(blocks)
			heldRes = append(heldRes, c08HeldRes{call.String(), blocks, fmt.Sprint(snap)})
			if len(heldRes) > 6 {
				heldRes = heldRes[1:]
			}
			if what, msg := c08CheckResult(chain, call.sh, call.start, call.limit, snap, false); what != "" {
				d := detail()
				d["problem"] = msg
				c.Violate("c08:"+wl+":"+what, d, "cached Get %s differs from the chain: %s", call, msg)
			}
			rk := call.String()
			if _, ok := ref[rk]; !ok {
				v, ok := c08Uncached(c, node, chain, call)
				if !ok {
					return
				}
				ref[rk] = v
			}
			if what, got, want := c08VsUncached(chain, call.sh, snap, ref[rk]); what != "" {
				d := detail()
				d["cached"], d["uncached"] = got, want
				c.Violate("c08:"+wl+":"+what, d, "cached Get %s differs from what the uncached client returns for the same call (%s)", call, what)
			}
			if !segOK && !segFail {
				hits++
				ks.hits++
				outcomeKinds["hit"] = true
				if ks.lastFailed {
					c.Violate("c08:"+wl+":failed-fetch-served-from-cache", detail(), "Get %s right after a failed fetch of %s succeeded without asking the source again", call, k)
				}
				if !ks.fetched {
					c.Violate("c08:"+wl+":served-without-fetch", detail(), "Get %s succeeded although %s was never fetched successfully", call, k)
				}
				if ks.hits > maxreads {
					c.Violate("c08:"+wl+":segment-reads-exceed-maxreads", detail(), "%s served %d successive reads from cache without asking the source (maxreads %d)", k, ks.hits, maxreads)
				}
				if ks.hits+1 > maxreads {
					tightExceeded++
				}
				if ks.hits+1 > maxPerFetch {
					maxPerFetch = ks.hits + 1
				}
			}
		}
		if !segOK {
			ks.reads++
		}
		if segOK {
			if ks.lastFailed {
				c.Obs("refetch_after_failure", 1)
			} else if ks.fetched {
				if ks.reads >= maxreads {
					c.Obs("evictions_maxreads", 1)
					outcomeKinds["evict-maxreads"] = true
				} else {
					c.Obs("evictions_five_segments", 1)
					outcomeKinds["evict-five"] = true
				}
			}
			ks.hits, ks.reads, ks.fetched = 0, 1, true
			outcomeKinds["miss"] = true
		}
		ks.lastFailed = segFail
	}
	c08HitRatio(c, calls, hits)
	c.Evals(calls)
	c.MaxObs("max_reads_per_fetch_minus_maxreads_plus10", int64(maxPerFetch-maxreads+10))
	c.Obs("tight_bound_exceeded", tightExceeded)
	c.SetSig("%s|mr=%d|faults=%s|out=%s|shapes=%d", wl, maxreads, c08SetStr(faultKinds), c08SetStr(outcomeKinds), len(shapesUsed))
	if len(trace) > 25 {
		trace = trace[:25]
	}
	c.Sample(map[string]any{"workload": wl, "maxreads": maxreads, "keys": keys, "calls": calls, "cache_hits": hits, "sequence_head": trace})
}

func c08SetStr(m map[string]bool) string {
	var ks []string
	for k := range m {
		ks = append(ks, k)
	}
	sort.Strings(ks)
	return strings.Join(ks, ",")
}

// ---------------------------------------------------------------- concurrent Get mixes

func c08RunConc(c *vk.Case) {
	r := c.R
	chain := c08Chain(r, 40)
	node := simnode.Global().NewNode(chain)
	defer node.Retire()
	rc := newC08Rec()
	node.SetHook(rc.hook)
	maxreads := r.Range(1, 6)
	cl := jrpc2.New(node.URL("")).WithMaxReads(maxreads)
	url := node.URL("")
	shapes := c08Shapes() // every reader owns its blocks, so receipts and traces plans take part too
	mix := []string{"same-range", "overlap", "many"}[r.Intn(3)]
	if mix == "same-range" && r.Bool() {
		// a slow source: more readers than maxreads arrive while one download of the range is in progress
		rc.segDelay = time.Duration(r.Range(5, 25)) * time.Millisecond
		maxreads = r.Range(1, 3)
		cl = jrpc2.New(node.URL("")).WithMaxReads(maxreads)
		c.Obs("conc_runs_with_slow_downloads", 1)
	}
	var keys [][2]uint64
	switch mix {
	case "same-range":
		keys = [][2]uint64{{uint64(r.Range(1, 12)), uint64(r.Range(1, 5))}}
		// different filters on the same range share a segment only within one cache: keep one family
		fam := byte('h')
		if r.Bool() {
			fam = 'b'
		}
		var fs []*c08Shape
		for _, sh := range shapes {
			if sh.cache == fam {
				fs = append(fs, sh)
			}
		}
		shapes = fs
	case "overlap":
		keys = c08Keys(r, false)
	default:
		keys = c08Keys(r, true)
	}
	G := r.Range(2, 12)
	type task struct {
		call c08Call
		gap  int
	}
	plans := make([][]task, G)
	total := 0
	for g := range plans {
		for i, n := 0, r.Range(2, 5); i < n; i++ {
			k := vk.Pick(r, keys)
			plans[g] = append(plans[g], task{c08Call{vk.Pick(r, shapes), k[0], k[1]}, r.Intn(3)})
			total++
		}
	}
	// uncached references first (sequential, not counted, not faulted)
	ref := map[string]c08Ref{}
	for g := range plans {
		for _, t := range plans[g] {
			if _, ok := ref[t.call.String()]; !ok {
				v, ok := c08Uncached(c, node, chain, t.call)
				if !ok {
					return
				}
				ref[t.call.String()] = v
			}
		}
	}
	// faults by request ordinal (a mix needs at most ~2 requests per call)
	nf := 0
	if r.Chance(2, 3) {
		nf = r.Range(1, 1+total/4)
	}
	faultKinds := map[string]bool{}
	rc.mu.Lock()
	for i := 0; i < nf; i++ {
		f, at := c08PickFault(r, "seg"), r.Intn(total+total/2)
		if f.rewrite != "" {
			f.kind = simnode.FailRPCError // used when the ordinal turns out not to be a segment fetch
		}
		rc.faultAt[at], rc.rewriteAt[at] = f.kind, f.rewrite
	}
	rc.mu.Unlock()
	type result struct {
		g    int
		call c08Call
		err  error
		snap []c08Blk
	}
	var (
		mu       sync.Mutex
		results  []result
		inflight int32
		maxIn    int32
		wg       sync.WaitGroup
		start    = make(chan struct{})
	)
	for g := range plans {
		g := g
		wg.Add(1)
		go func() {
			defer wg.Done()
			<-start
			for _, t := range plans[g] {
				for i := 0; i < t.gap; i++ {
					time.Sleep(50 * time.Microsecond) // pacing only, no verdict depends on it
				}
				cur := atomic.AddInt32(&inflight, 1)
				for {
					m := atomic.LoadInt32(&maxIn)
					if cur <= m || atomic.CompareAndSwapInt32(&maxIn, m, cur) {
						break
					}
				}
				blocks, err := cl.Get(context.Background(), url, t.call.sh.filter, t.call.start, t.call.limit)
				var snap []c08Blk
				if err == nil {
					snap = c08Snapshot(blocks)
				}
				atomic.AddInt32(&inflight, -1)
				mu.Lock()
				results = append(results, result{g, t.call, err, snap})
				mu.Unlock()
			}
		}()
	}
	close(start)
	done := make(chan struct{})
	go func() { wg.Wait(); close(done) }()
	finished := false
	for waited, stuck := 0, 0; !finished; waited++ {
		select {
		case <-done:
			finished = true
			continue
		case <-time.After(2 * time.Second):
		}
		// not a deadline verdict: the source has nothing left to answer and every reader that has not returned waits
		// for a mutex of the client's cache — nobody is left who could release one (seen at three samples in a row)
		if n, dump := c08CacheLockWaiters(); n >= 2 && node.Inflight() == 0 && int(atomic.LoadInt32(&inflight)) == n {
			if stuck++; stuck >= 3 {
				c.Violate("c08:conc:readers-deadlocked-on-cache-locks", map[string]any{"workload": "conc/" + mix, "maxreads": maxreads, "goroutines": G, "waiting_readers": n, "requests_in_flight_at_the_source": 0, "stacks": dump},
					"%d concurrent Get calls never return: each waits for a lock of the segment cache while the source has no request of theirs in flight", n)
				return
			}
		} else {
			stuck = 0
		}
		if waited >= 45 {
			c.Inconclusive("concurrent mix did not finish within 90 s")
			return
		}
	}
	evs := rc.since(0)
	fetchOK, fetchFail := map[c08Key]int{}, map[c08Key]int{}
	faults := 0
	for _, e := range evs {
		if e.failed {
			faults++
			faultKinds[e.fault] = true
		}
		if e.kind == "seg" {
			if e.failed {
				fetchFail[e.key]++
			} else {
				fetchOK[e.key]++
			}
		}
	}
	c.Obs("faults_served", int64(faults))
	var plan []string
	for g := range plans {
		var s []string
		for _, t := range plans[g] {
			s = append(s, t.call.String())
		}
		plan = append(plan, fmt.Sprintf("g%d: %s", g, strings.Join(s, " ; ")))
	}
	fetchStr := map[string]string{}
	for k, n := range fetchOK {
		fetchStr[k.String()] = fmt.Sprintf("ok=%d failed=%d", n, fetchFail[k])
	}
	for k, n := range fetchFail {
		if _, ok := fetchOK[k]; !ok {
			fetchStr[k.String()] = fmt.Sprintf("ok=0 failed=%d", n)
		}
	}
	detail := func() map[string]any {
		return map[string]any{"workload": "conc/" + mix, "maxreads": maxreads, "goroutines": G, "calls": plan, "fetches": fetchStr, "faults_served": faults, "max_in_flight": atomic.LoadInt32(&maxIn)}
	}
	failed := 0
	readsOK := map[c08Key]int{}
	outcome := map[string]bool{}
	for _, res := range results {
		if res.err != nil {
			failed++
			continue
		}
		readsOK[res.call.key()]++
		if what, msg := c08CheckResult(chain, res.call.sh, res.call.start, res.call.limit, res.snap, false); what != "" {
			d := detail()
			d["problem"], d["call"] = msg, res.call.String()
			c.Violate("c08:conc:"+what, d, "concurrent cached Get %s differs from the chain: %s", res.call, msg)
		}
		if what, got, want := c08VsUncached(chain, res.call.sh, res.snap, ref[res.call.String()]); what != "" {
			d := detail()
			d["cached"], d["uncached"], d["call"] = got, want, res.call.String()
			c.Violate("c08:conc:"+what, d, "concurrent cached Get %s differs from what the uncached client returns for the same call (%s)", res.call, what)
		}
	}
	switch {
	case failed > faults:
		d := detail()
		for _, res := range results {
			if res.err != nil && wallClockTimeout(res.err) {
				c.Inconclusive("the client's own 10 s wall-clock timeout fired (overloaded machine): %v", res.err)
				return
			}
		}
		for _, res := range results {
			if res.err != nil {
				d["an_error"] = res.err.Error()
				break
			}
		}
		c.Violate("c08:conc:error-without-fault", d, "%d calls failed but only %d fetches were failed by the source", failed, faults)
	case failed < faults:
		c.Violate("c08:conc:fault-swallowed", detail(), "%d fetches were failed by the source but only %d calls failed", faults, failed)
	}
	var hits int64
	mi := int(atomic.LoadInt32(&maxIn))
	for k, n := range readsOK {
		ok := fetchOK[k]
		if ok == 0 {
			c.Violate("c08:conc:served-without-fetch", detail(), "%d calls on %s succeeded although no fetch of it succeeded", n, k)
			continue
		}
		if n > ok {
			hits += int64(n - ok)
			outcome["hit"] = true
		}
		if n > ok*(maxreads+mi) {
			c.Violate("c08:conc:segment-reads-exceed-maxreads", detail(), "%s: %d successful reads for %d successful fetches (maxreads %d, max in flight %d)", k, n, ok, maxreads, mi)
		}
		if ok > 1 {
			outcome["refetch"] = true
		}
	}
	c.MaxObs("max_in_flight_calls", int64(mi))
	c.MaxObs("max_in_flight_requests", int64(node.MaxInflight()))
	c08HitRatio(c, int64(len(results)), hits)
	c.Evals(int64(len(results)))
	c.Obs("concurrent_mixes", 1)
	if mi > 1 {
		c.Obs("mixes_with_overlap", 1)
	}
	c.SetSig("conc/%s|mr=%d|G=%d|faults=%s|out=%s", mix, maxreads, G/4, c08SetStr(faultKinds), c08SetStr(outcome))
	c.Sample(detail())
}

// c08Held is a head hash as a caller received it, next to a private copy taken at once.
type c08Held struct {
	n    uint64 // floor the caller passed
	num  uint64
	hash []byte // the very slice Latest returned
	copy []byte
}

// c08HeldChanged returns the first held hash whose bytes are no longer what the caller was given.
func c08HeldChanged(held []c08Held) *c08Held {
	for i := range held {
		if !bytes.Equal(held[i].hash, held[i].copy) {
			return &held[i]
		}
	}
	return nil
}

// ---------------------------------------------------------------- head cache, sequential script

func c08RunHeadSeq(c *vk.Case) {
	r := c.R
	chain := simnode.NewChain(r.U64(), gen.Content(gen.ChainOpts{Seed: r.U64(), MinTxs: 0, MaxTxs: 1}))
	chain.Grow(r.Range(20, 30))
	node := simnode.Global().NewNode(chain)
	defer node.Retire()
	rc := newC08Rec()
	node.SetHook(rc.hook)
	maxreads := r.Range(0, 6)
	cl := jrpc2.New(node.URL("")).WithMaxReads(maxreads).WithPollDuration(time.Hour)
	url := node.URL("")
	var (
		calls, hitsTotal int64
		hits             int // cache-served reads since the source was last asked
		held             []c08Held
		lastNum          uint64
		trace            []string
		faultKinds       = map[string]bool{}
		outcome          = map[string]bool{}
		maxPerAsk        int
	)
	nsteps := r.Range(40, 70)
	for step := 0; step < nsteps; step++ {
		switch r.Intn(10) {
		case 0:
			chain.Grow(r.Range(1, 3))
			trace = append(trace, fmt.Sprintf("grow->%d", chain.Head().Num))
			continue
		case 1:
			d, n := r.Range(1, 4), r.Range(0, 4)
			before := chain.Head().Num
			chain.Reorg(d, n)
			if chain.Head().Num <= before {
				c.Obs("head_regressions", 1)
				outcome["regression"] = true
			}
			trace = append(trace, fmt.Sprintf("reorg(%d,%d)->%d", d, n, chain.Head().Num))
			continue
		}
		var n uint64
		switch r.Intn(8) {
		case 0:
			n = 0
		case 1:
			n = lastNum + 1
		case 2:
			n = lastNum + uint64(r.Range(2, 50))
		case 3:
			n = lastNum
		default:
			if lastNum > 1 {
				n = uint64(r.Range(1, int(lastNum)))
			} else {
				n = 1
			}
		}
		var fault *c08Fault
		if r.Chance(12, 100) {
			fault = &c08Fault{target: "head", kind: vk.Pick(r, c08FaultKinds)}
		}
		rc.setFault(fault)
		m := rc.mark()
		num, hash, err := cl.Latest(context.Background(), url, n)
		rc.setFault(nil)
		evs := rc.since(m)
		calls++
		var asked, failedFetch bool
		var fetched *c08Ev
		for i := range evs {
			e := &evs[i]
			switch {
			case e.failed:
				failedFetch = true
				faultKinds[e.fault] = true
				c.Obs("faults_served", 1)
			case e.kind == "head" || e.kind == "poll":
				asked = true
				if e.kind == "head" {
					fetched = e
				}
			}
		}
		trace = append(trace, fmt.Sprintf("Latest(%d)=(%d,%.8x,%v) asked=%v fault=%v", n, num, hash, err != nil, asked, failedFetch))
		detail := func() map[string]any {
			t := trace
			if len(t) > 40 {
				t = t[len(t)-40:]
			}
			return map[string]any{"workload": "head-seq", "maxreads": maxreads, "step": step, "script_tail": t}
		}
		switch {
		case failedFetch && err == nil:
			c.Violate("c08:head-seq:fault-swallowed", detail(), "Latest(%d) succeeded although its fetch was failed by the source", n)
		case !failedFetch && err != nil && wallClockTimeout(err):
			c.Inconclusive("the client's own 10 s wall-clock timeout fired (overloaded machine): %v", err)
			return
		case !failedFetch && err != nil:
			c.Violate("c08:head-seq:error-without-fault", detail(), "Latest(%d) failed (%v) although no fault was injected during the call", n, err)
		}
		if err == nil {
			if !rc.isAnnounced(num, c07Hex(hash)) {
				c.Violate("c08:head-seq:pair-not-announced", detail(), "Latest(%d) returned (%d,%x), a pair the source never announced", n, num, hash)
			}
			if fetched != nil && (fetched.num != num || fetched.hash != c07Hex(hash)) {
				c.Violate("c08:head-seq:pair-differs-from-fetch", detail(), "Latest(%d) asked the source, was told (%d,%s) and returned (%d,%x)", n, fetched.num, fetched.hash, num, hash)
			}
			lastNum = num
			if r.Chance(1, 4) && len(hash) > 0 {
				// a caller that reuses the buffer it was given (what it does with its slice is its business):
				// later answers must still be announced pairs
				for i := range hash {
					hash[i] = 0xEE
				}
				c.Obs("returned_hashes_overwritten_by_caller", 1)
			} else {
				held = append(held, c08Held{n, num, hash, append([]byte(nil), hash...)})
			}
			if !asked && !failedFetch {
				hits++
				hitsTotal++
				outcome["hit"] = true
				if hits > maxreads {
					c.Violate("c08:head-seq:head-reads-exceed-maxreads", detail(), "the cached head served %d successive reads without the source being asked (maxreads %d)", hits, maxreads)
				}
				if hits > maxPerAsk {
					maxPerAsk = hits
				}
			}
		}
		// every hash handed out so far must still hold the bytes its caller received
		if h := c08HeldChanged(held); h != nil {
			d := detail()
			d["returned"], d["now"] = fmt.Sprintf("Latest(%d)=(%d,%x)", h.n, h.num, h.copy), fmt.Sprintf("%x", h.hash)
			c.Violate("c08:head-seq:returned-hash-mutated-later", d, "the hash slice returned by an earlier Latest(%d)=(%d,%x) now reads %x (announced pair? %v)", h.n, h.num, h.copy, h.hash, rc.isAnnounced(h.num, c07Hex(h.hash)))
			held = nil
		}
		if asked {
			if hits >= maxreads {
				outcome["expired"] = true
				c.Obs("head_expiries", 1)
			}
			hits = 0
			outcome["miss"] = true
		}
	}
	c.Obs("latest_calls", calls)
	c.Obs("head_cache_hits", hitsTotal)
	c.MaxObs("max_head_hits_per_ask_minus_maxreads_plus10", int64(maxPerAsk-maxreads+10))
	c.Evals(calls)
	c.SetSig("head-seq|mr=%d|faults=%s|out=%s", maxreads, c08SetStr(faultKinds), c08SetStr(outcome))
	if len(trace) > 30 {
		trace = trace[:30]
	}
	c.Sample(map[string]any{"workload": "head-seq", "maxreads": maxreads, "script_head": trace, "latest_calls": calls, "cache_hits": hitsTotal})
}

// ---------------------------------------------------------------- head cache with the poller running

func c08RunHeadPoll(c *vk.Case) {
	r := c.R
	chain := simnode.NewChain(r.U64(), gen.Content(gen.ChainOpts{Seed: r.U64(), MinTxs: 0, MaxTxs: 1}))
	chain.Grow(r.Range(20, 30))
	node := simnode.Global().NewNode(chain)
	defer node.Retire()
	rc := newC08Rec()
	pollFault := vk.Pick(r, c08FaultKinds)
	rc.pollFaultAt[r.Range(1, 6)] = pollFault
	if r.Bool() {
		rc.pollFaultAt[r.Range(8, 20)] = vk.Pick(r, c08FaultKinds)
	}
	node.SetHook(rc.hook)
	maxreads := r.Range(1, 6)
	cl := jrpc2.New(node.URL("")).WithMaxReads(maxreads).WithPollDuration(2 * time.Millisecond)
	url := node.URL("")
	G := r.Range(1, 4)
	type plan struct {
		ns   []int // floor choice per call
		gaps []int
	}
	plans := make([]plan, G)
	for g := range plans {
		for i, n := 0, r.Range(15, 40); i < n; i++ {
			plans[g].ns = append(plans[g].ns, r.Intn(8))
			plans[g].gaps = append(plans[g].gaps, r.Intn(4))
		}
	}
	nev := r.Range(5, 15)
	type chainEv struct{ kind, a, b int }
	var script []chainEv
	for i := 0; i < nev; i++ {
		if r.Chance(1, 3) {
			script = append(script, chainEv{1, r.Range(1, 4), r.Range(0, 3)})
		} else {
			script = append(script, chainEv{0, r.Range(1, 2), 0})
		}
	}
	var (
		mu        sync.Mutex
		nCalls    int64
		nErr      int64
		bad       []string
		held      []c08Held
		mutated   string
		anErr     string
		lastSeen  uint64
		inflight  int32
		maxIn     int32
		wg        sync.WaitGroup
		stopChain = make(chan struct{})
		chainDone = make(chan struct{})
	)
	call := func(n uint64) {
		cur := atomic.AddInt32(&inflight, 1)
		for {
			m := atomic.LoadInt32(&maxIn)
			if cur <= m || atomic.CompareAndSwapInt32(&maxIn, m, cur) {
				break
			}
		}
		num, hash, err := cl.Latest(context.Background(), url, n)
		atomic.AddInt32(&inflight, -1)
		ok := err != nil || rc.isAnnounced(num, c07Hex(hash))
		mu.Lock()
		nCalls++
		if err != nil {
			nErr++
			anErr = err.Error()
		} else {
			lastSeen = num
			if !ok {
				bad = append(bad, fmt.Sprintf("Latest(%d)=(%d,%x)", n, num, hash))
			}
			held = append(held, c08Held{n, num, hash, append([]byte(nil), hash...)})
		}
		if h := c08HeldChanged(held); h != nil && mutated == "" {
			mutated = fmt.Sprintf("Latest(%d)=(%d,%x) now reads %x", h.n, h.num, h.copy, h.hash)
		}
		mu.Unlock()
	}
	floor := func(choice int) uint64 {
		mu.Lock()
		ls := lastSeen
		mu.Unlock()
		switch choice {
		case 0:
			return 0
		case 1:
			return ls + 1
		case 2:
			return ls
		case 3:
			return ls + 7
		}
		if ls > 2 {
			return ls - 1 - uint64(choice%2)
		}
		return 1
	}
	go func() {
		defer close(chainDone)
		for _, ev := range script {
			select {
			case <-stopChain:
				return
			case <-time.After(1500 * time.Microsecond):
			}
			if ev.kind == 0 {
				chain.Grow(ev.a)
			} else {
				before := chain.Head().Num
				chain.Reorg(ev.a, ev.b)
				if chain.Head().Num <= before {
					c.Obs("head_regressions", 1)
				}
			}
		}
	}()
	for g := range plans {
		g := g
		wg.Add(1)
		go func() {
			defer wg.Done()
			for i, ch := range plans[g].ns {
				for k := 0; k < plans[g].gaps[i]; k++ {
					time.Sleep(300 * time.Microsecond) // pacing only
				}
				call(floor(ch))
			}
		}()
	}
	done := make(chan struct{})
	go func() { wg.Wait(); close(done) }()
	select {
	case <-done:
	case <-time.After(60 * time.Second):
		c.Inconclusive("head-poll callers did not finish within 60 s")
		close(stopChain)
		<-chainDone
		return
	}
	<-chainDone
	// make sure the poller failure and the reset path were exercised: wait (watchdog only)
	// for the failed poll, then two more calls (first clears the error and re-arms the once,
	// second restarts the poller), then wait for a poll of the new poller.
	pollState := func() (failedSeen bool, pollsAfterFail int) {
		for _, e := range rc.since(0) {
			if e.kind != "poll" {
				continue
			}
			if e.failed {
				failedSeen = true
				pollsAfterFail = 0
			} else if failedSeen {
				pollsAfterFail++
			}
		}
		return
	}
	waitFor := func(cond func() bool, what string, poke bool) bool {
		deadline := time.Now().Add(10 * time.Second)
		for !cond() {
			if time.Now().After(deadline) {
				c.Inconclusive("head-poll: %s did not happen within 10 s", what)
				return false
			}
			if poke {
				call(floor(2)) // a further failed poll needs a further reset
			}
			time.Sleep(time.Millisecond)
		}
		return true
	}
	if waitFor(func() bool { f, _ := pollState(); return f }, "the failed poll", false) {
		time.Sleep(5 * time.Millisecond) // let the poller goroutine record its error (pacing only)
		for i := 0; i < 3; i++ {
			call(floor(2))
		}
		if waitFor(func() bool { _, n := pollState(); return n > 0 }, "a poll by the restarted poller", true) {
			for i := 0; i < 3; i++ {
				call(floor(2))
			}
		}
	}
	// accounting
	resets, asks := 0, 0
	prevFailed := false
	faultKinds := map[string]bool{}
	for _, e := range rc.since(0) {
		if e.kind == "poll" {
			if e.failed {
				prevFailed = true
				faultKinds[e.fault] = true
				c.Obs("faults_served", 1)
			} else {
				if prevFailed {
					resets++
				}
				prevFailed = false
				asks++
			}
		}
		if e.kind == "head" && !e.failed {
			asks++
		}
	}
	mu.Lock()
	defer mu.Unlock()
	mi := int(atomic.LoadInt32(&maxIn))
	detail := map[string]any{"workload": "head-poll", "maxreads": maxreads, "goroutines": G, "latest_calls": nCalls, "errors": nErr, "source_asked": asks,
		"poller_resets": resets, "poll_fault": pollFault.String(), "chain_events": len(script), "max_in_flight": mi}
	if h := c08HeldChanged(held); h != nil && mutated == "" {
		mutated = fmt.Sprintf("Latest(%d)=(%d,%x) now reads %x", h.n, h.num, h.copy, h.hash)
	}
	if mutated != "" {
		detail["mutated"] = mutated
		c.Violate("c08:head-poll:returned-hash-mutated-later", detail, "a hash slice returned by Latest changed after the call returned: %s", mutated)
	}
	if len(bad) > 0 {
		detail["not_announced"] = bad
		c.Violate("c08:head-poll:pair-not-announced", detail, "Latest returned %s, a pair the source had not announced", bad[0])
	}
	if nErr > 0 && (strings.Contains(anErr, "Client.Timeout") || strings.Contains(anErr, "deadline exceeded") || strings.Contains(anErr, "closed pipe")) {
		c.Inconclusive("the client's own 10 s wall-clock timeout fired (overloaded machine): %s", anErr)
		return
	}
	if nErr > 0 {
		detail["an_error"] = anErr
		c.Violate("c08:head-poll:error-without-fault", detail, "%d Latest calls failed although only the background poller was failed (%s)", nErr, anErr)
	}
	if int(nCalls-nErr) > (asks+1)*(maxreads+mi) {
		c.Violate("c08:head-poll:head-reads-exceed-maxreads", detail, "%d successful Latest calls for %d source announcements (maxreads %d, max in flight %d)", nCalls-nErr, asks, maxreads, mi)
	}
	c.Obs("poller_resets", int64(resets))
	c.Obs("latest_calls", nCalls)
	c.Obs("poller_polls", int64(asks))
	c.Evals(nCalls)
	c.SetSig("head-poll|mr=%d|G=%d|faults=%s|resets=%d", maxreads, G, c08SetStr(faultKinds), min(resets, 2))
	c.Sample(detail)
}

// wallClockTimeout: jrpc2's http.Client has a hard 10 s timeout; on an overloaded
// machine it fires without any injected fault. That is a watchdog, not a verdict.
func wallClockTimeout(err error) bool {
	if err == nil {
		return false
	}
	m := err.Error()
	return strings.Contains(m, "Client.Timeout") || strings.Contains(m, "deadline exceeded") || strings.Contains(m, "closed pipe") || strings.Contains(m, "i/o timeout")
}

// ---------------------------------------------------------------- head cache when the listener fails

// c08RunHeadListenerFailure: the head listener (HTTP poller, one request every 40 ms) fails in the middle of a run of
// cache hits. A listener failure is not the source being asked: the cached head still serves at most maxreads
// successive reads between two answers of the source.
func c08RunHeadListenerFailure(c *vk.Case) {
	r := c.R
	chain := c08Chain(r, 12) // unchanging: a repeated head announcement renews nothing
	node := simnode.Global().NewNode(chain)
	defer node.Retire()
	rc := newC08Rec()
	rc.pollFaultAt[0] = vk.Pick(r, c08FaultKinds) // the listener's first request fails
	node.SetHook(rc.hook)
	defer node.SetHook(nil)
	maxreads := r.Range(2, 6)
	cl := jrpc2.New(node.URL("")).WithMaxReads(maxreads).WithPollDuration(40 * time.Millisecond)
	url := node.URL("")
	var (
		trace     []string
		streak    int
		maxSeen   int
		pollSeen  = 1 // poller requests accounted for (number 0 is the failure we wait for)
		disturbed bool
	)
	read := func(phase string) bool {
		m := rc.mark()
		num, hash, err := cl.Latest(context.Background(), url, 1)
		asked := false
		for _, e := range rc.since(m) {
			if e.kind == "head" && !e.failed {
				asked = true
			}
			if e.kind == "poll" {
				disturbed = true // a listener request during a read phase: the phase is not what this workload set up
			}
		}
		trace = append(trace, fmt.Sprintf("%s: Latest(1)=(%d,%.8x,%v) asked=%v", phase, num, hash, err != nil, asked))
		if err != nil {
			if wallClockTimeout(err) {
				c.Inconclusive("the client's own wall-clock timeout fired: %v", err)
			} else {
				c.Violate("c08:head-listener-failure:error-without-fault", map[string]any{"script": trace}, "Latest failed (%v) although only the listener's request was failed", err)
			}
			return false
		}
		if asked {
			streak = 0
		} else {
			streak++
			if streak > maxSeen {
				maxSeen = streak
			}
		}
		c.Obs("latest_calls", 1)
		return true
	}
	// first read asks the source; maxreads-1 hits follow
	for i := 0; i < maxreads; i++ {
		if !read("before") {
			return
		}
	}
	// wait (watchdog only) for the listener's failed request, then let the client take note of it
	failed := false
	for i := 0; i < 5000 && !failed; i++ {
		for _, e := range rc.since(0) {
			if e.kind == "poll" && e.failed {
				failed = true
			}
		}
		if !failed {
			time.Sleep(time.Millisecond)
		}
	}
	if !failed {
		c.Inconclusive("the listener never issued its request")
		return
	}
	time.Sleep(3 * time.Millisecond)
	_ = pollSeen
	disturbed = false
	for i := 0; i < 2*maxreads+1; i++ {
		if !read("after-listener-failure") {
			return
		}
	}
	c.Obs("listener_failure_runs", 1)
	c.Evals(int64(3*maxreads + 1))
	if disturbed {
		c.Obs("listener_failure_runs_disturbed", 1)
		return
	}
	c.MaxObs("max_head_hits_per_ask_minus_maxreads_plus10", int64(maxSeen-maxreads+10))
	if maxSeen > maxreads {
		c.Violate("c08:head-listener-failure:head-reads-exceed-maxreads", map[string]any{"maxreads": maxreads, "successive_reads_without_asking": maxSeen, "script": trace},
			"around a listener failure the cached head served %d successive reads without the source being asked (maxreads %d)", maxSeen, maxreads)
	}
	c.SetSig("head-listener-failure|mr=%d", maxreads)
}

// c08CacheLockWaiters counts the goroutines that wait for a mutex inside the client's segment cache and returns their
// stacks (shortened).
func c08CacheLockWaiters() (int, string) {
	buf := make([]byte, 1<<20)
	buf = buf[:runtime.Stack(buf, true)]
	n := 0
	var keep []string
	for _, g := range strings.Split(string(buf), "\n\n") {
		head, _, _ := strings.Cut(g, "\n")
		if !(strings.Contains(head, "sync.Mutex.Lock") || strings.Contains(head, "semacquire")) {
			continue
		}
		if !strings.Contains(g, "jrpc2.(*cache)") {
			continue
		}
		n++
		if len(keep) < 4 {
			keep = append(keep, firstLines(g, 14))
		}
	}
	return n, strings.Join(keep, "\n\n")
}
