package checks

import (
	"bytes"
	"fmt"
	"sort"
	"strings"

	"verif/harness/fakepg"
	"verif/harness/model"
	"verif/harness/simnode"
)

// pairState is the committed state of one pair: its position rows and its
// table rows (canonical renderings, sorted).
type pairState struct {
	cursors []cursorRow
	rows    []string
	byBlock map[uint64][]string
	tblCols []string
}

func (ps *pairState) position() (uint64, bool) {
	if len(ps.cursors) == 0 {
		return 0, false
	}
	return ps.cursors[len(ps.cursors)-1].num, true
}

// digest identifies the state for equality (statistics columns of the
// position rows are not part of it).
func (ps *pairState) digest(withHistory bool) string {
	var sb strings.Builder
	if withHistory {
		for _, c := range ps.cursors {
			fmt.Fprintf(&sb, "c%d:%x;", c.num, c.hash)
		}
	} else if n := len(ps.cursors); n > 0 {
		fmt.Fprintf(&sb, "c%d:%x;", ps.cursors[n-1].num, ps.cursors[n-1].hash)
	}
	for _, r := range ps.rows {
		sb.WriteString(r)
		sb.WriteByte('\n')
	}
	return sb.String()
}

// digestFrom is digest(false) restricted to rows of blocks >= floor.
func (ps *pairState) digestFrom(floor uint64) string {
	var sb strings.Builder
	if n := len(ps.cursors); n > 0 {
		fmt.Fprintf(&sb, "c%d:%x;", ps.cursors[n-1].num, ps.cursors[n-1].hash)
	}
	var rows []string
	for n, rs := range ps.byBlock {
		if n >= floor {
			rows = append(rows, rs...)
		}
	}
	sort.Strings(rows)
	for _, r := range rows {
		sb.WriteString(r)
		sb.WriteByte('\n')
	}
	return sb.String()
}

// diffStates lists what differs between two final states at or above floor.
func diffStates(a, b *pairState, floor uint64) map[string]any {
	cnt := map[string]int{}
	for n, rs := range a.byBlock {
		if n >= floor {
			for _, r := range rs {
				cnt[r]++
			}
		}
	}
	var onlyB, onlyA []string
	for n, rs := range b.byBlock {
		if n >= floor {
			for _, r := range rs {
				if cnt[r] > 0 {
					cnt[r]--
				} else {
					onlyB = append(onlyB, r)
				}
			}
		}
	}
	for r, k := range cnt {
		for i := 0; i < k; i++ {
			onlyA = append(onlyA, r)
		}
	}
	sort.Strings(onlyA)
	sort.Strings(onlyB)
	pa, _ := a.position()
	pb, _ := b.position()
	return map[string]any{"floor": floor, "only_in_first": shortList(onlyA, 5), "only_in_second": shortList(onlyB, 5), "n_only_first": len(onlyA), "n_only_second": len(onlyB), "position_first": pa, "position_second": pb}
}

// captureFrom reads the pair's state from a row source.
func (pm *pairMon) captureFrom(tblOf func(string) *fakepg.Table, rowsOf func(string) []*fakepg.Row) *pairState {
	ps := &pairState{byBlock: map[uint64][]string{}}
	if t := tblOf(pm.table()); t != nil {
		ps.tblCols = tableCols(t)
		for _, r := range rowsOf(pm.table()) {
			s, g := rowOwner(t, r)
			if s != pm.src.Name || g != pm.decl.Name {
				continue
			}
			m := model.Row{}
			for i, c := range t.Cols {
				m[c.Name] = r.Vals[i]
			}
			k := model.CanonRow(m, ps.tblCols)
			ps.rows = append(ps.rows, k)
			if n, ok := rowBlockNum(t, r); ok {
				ps.byBlock[n] = append(ps.byBlock[n], k)
			}
		}
	}
	if tu := tblOf("shovel.task_updates"); tu != nil {
		for _, r := range rowsOf("shovel.task_updates") {
			cr := cursorOf(tu, r)
			if cr.src == pm.src.Name && cr.ig == pm.decl.Name {
				ps.cursors = append(ps.cursors, cr)
			}
		}
	}
	sort.Slice(ps.cursors, func(i, j int) bool { return ps.cursors[i].num < ps.cursors[j].num })
	sort.Strings(ps.rows)
	return ps
}

func (pm *pairMon) captureSnap(sn *fakepg.Snapshot) *pairState {
	return pm.captureFrom(sn.Table, sn.Rows)
}

func (pm *pairMon) captureLive() *pairState {
	var ps *pairState
	pg := pm.env.PG
	pg.Read(func() {
		ps = pm.captureFrom(pg.TableByName, pg.CommittedRows)
	})
	return ps
}

// versionRows caches the canonical projection of block versions.
func (pm *pairMon) versionRows(b *simnode.Block, cols []string) []string {
	if pm.projCache == nil {
		pm.projCache = map[string][]string{}
	}
	k := b.HashHex()
	if v, ok := pm.projCache[k]; ok {
		return v
	}
	var rs []string
	for _, r := range model.ProjectBlock(pm.decl, pm.src.Name, pm.src.ChainID, b, pm.look) {
		rs = append(rs, model.CanonRow(r, cols))
	}
	sort.Strings(rs)
	if rs == nil {
		rs = []string{}
	}
	pm.projCache[k] = rs
	return rs
}

func sameStrings(a, b []string) bool {
	if len(a) != len(b) {
		return false
	}
	for i := range a {
		if a[i] != b[i] {
			return false
		}
	}
	return true
}

// invariant evaluates state invariant I of C02 on one observable state:
//
//	(1) no row lies beyond the newest position (no position ⇒ no rows);
//	(2) every block in [first, position] holds exactly the rows of one version
//	    of that block that the source ever produced;
//	(3) position rows are strictly increasing and each recorded hash (when not
//	    empty) is the hash of a version at that height.
//
// first is the first block the pair ever wrote (0 = unknown yet).
func (pm *pairMon) invariant(ps *pairState, first uint64, where string, detail map[string]any) bool {
	c := pm.c
	ok := true
	pos, has := ps.position()
	for n, rows := range ps.byBlock {
		if !has || n > pos {
			c.Violate(pm.kp+"rows-beyond-position", merge(detail, map[string]any{"where": where, "block": n, "position": pos, "has_position": has, "rows": shortList(rows, 3)}),
				"%s: %d row(s) of block %d lie beyond the recorded position %d", where, len(rows), n, pos)
			ok = false
		}
		if first > 0 && n < first {
			var cs []uint64
			for _, cr := range ps.cursors {
				cs = append(cs, cr.num)
			}
			var bs []uint64
			for b := range ps.byBlock {
				bs = append(bs, b)
			}
			c.Violate(pm.kp+"rows-before-first-block", merge(detail, map[string]any{"where": where, "block": n, "first": first, "positions": cs, "blocks_with_rows": bs}), "%s: rows of block %d before the first indexed block %d", where, n, first)
			ok = false
		}
	}
	chain := pm.src.Node.Chain
	if has && first > 0 && !pm.noContent {
		for n := first; n <= pos; n++ {
			got := append([]string(nil), ps.byBlock[n]...)
			sort.Strings(got)
			match := false
			vs := chain.VersionsAt(n)
			for _, v := range vs {
				if sameStrings(got, pm.versionRows(v, ps.tblCols)) {
					match = true
					break
				}
			}
			if !match {
				var want []string
				if cb := chain.At(n); cb != nil {
					want = pm.versionRows(cb, ps.tblCols)
				}
				cls := "covered-block-rows-match-no-version"
				if len(got) == 0 {
					cls = "covered-block-without-rows"
				}
				c.Violate(pm.kp+cls, merge(detail, map[string]any{"where": where, "block": n, "position": pos, "first": first, "in_table": shortList(got, 4), "canonical_projection": shortList(want, 4), "versions": len(vs)}),
					"%s: block %d (inside [%d,%d]) holds %d rows that equal the projection of none of its %d versions", where, n, first, pos, len(got), len(vs))
				ok = false
				break
			}
		}
	}
	for i, cr := range ps.cursors {
		if i > 0 && ps.cursors[i-1].num >= cr.num {
			c.Violate(pm.kp+"position-rows-not-increasing", merge(detail, map[string]any{"where": where}), "%s: position rows not strictly increasing", where)
			ok = false
		}
		if len(cr.hash) > 0 {
			found := false
			for _, v := range chain.VersionsAt(cr.num) {
				if bytes.Equal(v.Hash, cr.hash) {
					found = true
				}
			}
			if !found {
				c.Violate(pm.kp+"position-hash-unknown", merge(detail, map[string]any{"where": where, "num": cr.num, "hash": fmt.Sprintf("%x", cr.hash)}),
					"%s: position row %d carries hash %x which no version of that block has", where, cr.num, cr.hash)
				ok = false
			}
		}
	}
	c.Obs("states_checked", 1)
	return ok
}
