package checks

import (
	"bytes"
	"context"
	"fmt"
	"os"
	"os/exec"
	"strings"
	"sync"
	"time"

	"github.com/indexsupply/shovel/jrpc2"
	"github.com/indexsupply/shovel/shovel/glf"

	"verif/harness/gen"
	"verif/harness/simnode"
	"verif/harness/vk"
)

// First use in a fresh process: the partitions of a task's first step (and the
// first steps of several tasks) perform the process's first JSON-RPC exchanges
// of each kind at the same moment. Whatever is initialised lazily on that path
// (decoder tables of the JSON library among others) is initialised by racing
// goroutines. The race detector cannot judge this part: the JSON library
// switches to a mutex-protected variant when built with -race, so the monitor is
// the process itself: a child process per trial (the plain build), judged by its
// exit status and crash report.

// FirstUseMain is the child: `vcheck firstuse <seed>`.
func FirstUseMain(seed uint64) int {
	r := vk.NewRNG(seed)
	co := gen.ChainOpts{Seed: r.U64(), MinTxs: 1, MaxTxs: 2, MaxLogs: 2, MinTraces: 1, MaxTraces: 1}
	chain := simnode.NewChain(nextChainID(), gen.Content(co))
	chain.Grow(80)
	node := simnode.Global().NewNode(chain)
	defer node.Retire()
	url := node.URL("")
	cl := jrpc2.New(url)
	plans := [][]string{{"log_addr"}, {"tx_value"}, {"block_time"}, {"tx_status"}, {"trace_action_from", "tx_hash"}, {"log_addr", "tx_value"}}
	common := plans[r.Intn(len(plans))]
	mixed := r.Bool() // every goroutine its own kind of request, or all the same
	n := 2 + r.Intn(15)
	kinds := make([]int, n)
	fieldsOf := make([][]string, n)
	for i := range kinds {
		fieldsOf[i] = common
		if mixed {
			kinds[i] = r.Intn(4)
			fieldsOf[i] = plans[r.Intn(len(plans))]
		}
	}
	start := make(chan struct{})
	var wg sync.WaitGroup
	errs := make([]error, n)
	for i := 0; i < n; i++ {
		i := i
		wg.Add(1)
		go func() {
			defer wg.Done()
			f := glf.New(fieldsOf[i], nil, nil)
			<-start
			switch kinds[i] {
			case 2:
				_, _, errs[i] = cl.Latest(context.Background(), url, 0)
			case 3:
				_, errs[i] = cl.Hash(context.Background(), url, uint64(1+i))
			default:
				_, errs[i] = cl.Get(context.Background(), url, f, uint64(1+4*i), 2)
			}
		}()
	}
	if r.Chance(1, 3) {
		// before the concurrent first uses: one sequential request of each kind whose answer is an empty batch (a node
		// that answers, but with nothing in it); the call fails, and nothing it left behind may make the later
		// concurrent first uses unsafe
		node.SetHook(func(info *simnode.ReqInfo) simnode.Action {
			return simnode.Action{ElemErr: -1, RewriteBody: func(string) string { return "[]" }}
		})
		for _, fs := range plans {
			cl.Get(context.Background(), url, glf.New(fs, nil, nil), 70, 2)
		}
		node.SetHook(nil)
	}
	time.Sleep(2 * time.Millisecond)
	close(start)
	wg.Wait()
	for _, err := range errs {
		if err != nil {
			fmt.Fprintln(os.Stderr, "FIRSTUSE-ERROR:", err)
			return 3
		}
	}
	return 0
}

// firstUseExe is the plain (non-race) build of this binary with the stretched publication (run.sh builds it next
// to vcheck and vcheck-race).
func firstUseExe() (string, error) {
	exe, err := os.Executable()
	if err != nil {
		return "", err
	}
	p := strings.TrimSuffix(exe, "-race") + "-firstuse"
	if _, err := os.Stat(p); err != nil {
		return "", err
	}
	return p, nil
}

func c18FirstUse(c *vk.Case) {
	exe, err := firstUseExe()
	if err != nil {
		c.Inconclusive("first-use build of the harness not found: %v", err)
		return
	}
	trials := 12
	if c.Thorough() {
		trials = 40
	}
	for t := 0; t < trials && len(c.Res.Violations) == 0; t++ {
		seed := c.R.U64()
		var out bytes.Buffer
		ctx, cancel := context.WithTimeout(context.Background(), 60*time.Second)
		cmd := exec.CommandContext(ctx, exe, "firstuse", fmt.Sprint(seed))
		cmd.Stdout, cmd.Stderr = &out, &out
		cmd.Env = append(os.Environ(), "GORACE=")
		err := cmd.Run()
		timedOut := ctx.Err() != nil
		cancel()
		c.Obs("first_use_processes", 1)
		c.Evals(1)
		if err == nil {
			continue
		}
		text := out.String()
		switch {
		case timedOut:
			c.Inconclusive("first-use child did not finish within 60 s")
			return
		case strings.Contains(text, "panic:") || strings.Contains(text, "fatal error:") || strings.Contains(text, "SIGSEGV"):
			fr := vk.TopShovelFrame(text)
			c.Violate("first-use-crash:"+fr, map[string]any{"replay": fmt.Sprintf("%s firstuse %d", exe, seed), "crash": firstLines(text, 40)},
				"a fresh process whose goroutines performed their first block requests at the same moment crashed in %s: %s", fr, firstLines(text, 1))
		default:
			c.Inconclusive("first-use child failed without a crash report: %v: %s", err, firstLines(text, 3))
			return
		}
	}
	c.SetSig("first-use")
}
