package checks

import (
	"context"
	"encoding/hex"
	"fmt"
	"regexp"
	"runtime/debug"
	"sort"
	"strings"
	"sync"
	"time"

	"github.com/holiman/uint256"
	"github.com/indexsupply/shovel/eth"
	"github.com/indexsupply/shovel/jrpc2"
	"github.com/indexsupply/shovel/shovel/glf"

	"verif/harness/gen"
	"verif/harness/refmodel"
	"verif/harness/simnode"
	"verif/harness/vk"
)

// C07 — source responses are validated: malformed or inconsistent data is rejected.
//
// Cases 0..len(c07Hostile)-1: one hostile Hash / Latest / poller scenario each
// (a nil dereference there kills the worker, so each is attributed precisely).
// Remaining cases: (limit, plan[, variant]) grid; each case records the correct
// exchanges of one Get, enumerates every single mutation (thorough: also sampled
// pairs) and replays the Get through a nocache and a caching client.
//
// Oracle: refmodel.Attach (written from the statement) on the exchanges as
// actually served.

var c07Plans = [][]string{
	{"block_time"},                                   // h
	{"tx_nonce"},                                     // b
	{"tx_status"},                                    // r
	{"log_idx"},                                      // l
	{"trace_action_from"},                            // t
	{"block_time", "tx_status"},                      // h,r
	{"tx_nonce", "tx_status"},                        // b,r
	{"block_time", "log_idx"},                        // l,h
	{"tx_nonce", "log_idx"},                          // l,b
	{"block_time", "trace_action_from"},              // h,t
	{"tx_nonce", "trace_action_from"},                // b,t
	{"tx_status", "trace_action_from"},               // r,t
	{"block_time", "tx_status", "trace_action_from"}, // h,r,t
	{"tx_nonce", "tx_status", "trace_action_from"},   // b,r,t
	{"log_idx", "trace_action_from"},                 // l,t
	{"block_time", "log_idx", "trace_action_from"},   // l,h,t
	{"tx_nonce", "log_idx", "trace_action_from"},     // l,b,t
}

type c07HostileSc struct{ method, kind string }

var c07Hostile = func() []c07HostileSc {
	var out []c07HostileSc
	kinds := []string{"null-result", "remove-result", "error-replace", "error-add", "error-code0", "result-wrong-type", "result-string",
		"http-status", "garbage", "truncate", "body-null", "body-wrapped-array", "body-string", "renumber-above"}
	for _, m := range []string{"hash", "latest", "poller"} {
		for _, k := range kinds {
			if k == "renumber-above" && m != "hash" {
				continue
			}
			out = append(out, c07HostileSc{m, k})
		}
	}
	return out
}()

func c07Variants(tier string) int {
	if tier == "thorough" {
		return 40
	}
	return 1
}

func init() {
	vk.Register(&vk.Check{
		ID:        "C07",
		Level:     "exploration",
		Technique: "response-corruption engine in the simulated node + independent faithful-attachment oracle (refmodel.Attach) on the exchanges as served; panic/crash monitor",
		Rule: "grid of every reachable glf plan (17 field-name sets) x limit 1..6 (thorough: x12 chain/start variants): the correct exchanges of one Get are recorded, then every single mutation " +
			"(drop/dup/swap/null/number element, null/missing/wrong-typed result, error member added/replacing/code 0, renumber below/above/in-range/far, break parent, change hash, item moved out of range/to another block/tx, " +
			"item block hash changed, item dropped/duplicated/swapped, nested receipt log renamed, wrong JSON types, body truncated at k/16, non-2xx with intact body, garbage, null/empty/object bodies, swapped trace responses; thorough: sampled pairs) " +
			"is replayed through a nocache and a caching client; whenever the caching client rejected a mutated response set, the SAME client repeats the Get against correct responses (must ask for the segment again and return the faithful result); plus one hostile Hash/Latest/poller scenario per case; plus task-level seams: integrations with concurrency 2..4 (batch sizes the concurrency does and does not divide, short steps at the tip) are run fault-free, then once per partition request whose first block is not the step's first block with the parent hash of that block changed in the response: the step must fail and write nothing, and converge afterwards. Signature = (plan, mutation kind, position class, outcome class); trivial = none (every run is a Get against a mutated source).",
		Assumptions: []string{
			"faithful attachment is by NAME: an item (log/receipt/trace) that names another requested block or transaction than the request position it arrived in must be attached to the named one (or the call fails); the call is never required to fail for that alone",
			"an item whose blockHash contradicts the header supplied for the block number it names refers to a block that is not part of the result: the call must fail (plans with headers/blocks only)",
			"surplus batch elements beyond the requested count are tolerated when the result is still faithful; fewer elements than requested are missing results (must fail)",
			"the head element of the eth_getLogs batch contributes no data: only its presence (non-null, no error) is demanded, a wrong number/hash in it is noted but not required to fail",
			"log sets are compared by (block, tx, logIndex, content), order of logs is not part of the statement; trace order within a transaction is response order",
			"transaction hash is compared only when all responses naming that transaction agree on it; from/to/type may come from the block or from the receipt",
			"an empty trace_block result is a separate known behaviour (the client fails) and is never generated here (chains for trace plans have >=1 trace per block)",
			"a JSON-RPC error object with code 0 is an error object",
			"failing is always allowed (the statement says 'either fails or'): a rejected benign mutation is only counted",
		},
		NCases: func(tier string) int {
			return len(c07Hostile) + 6*len(c07Plans)*c07Variants(tier) + c07TaskCases(tier)
		},
		Run:              c07Run,
		CrashIsViolation: true,
		CaseTimeoutS:     120,
		Exhaustive:       func(string) bool { return false },
		MinObs: func(tier string) map[string]int64 {
			return map[string]int64{"get_calls": 20000, "must_error_runs": 8000, "accepted_faithful": 1000, "baseline_ok": 100, "hostile_calls": 30, "retries_faithful": 5000, "task_seam_rejected": 20}
		},
	})
}

// ---------------------------------------------------------------- scenario

type c07Scenario struct {
	c      *vk.Case
	chain  *simnode.Chain
	node   *simnode.Node
	fields []string
	filter *glf.Filter
	plan   string
	start  uint64
	limit  uint64
	base   []simnode.Exchange
}

type c07Run1 struct {
	cl     *jrpc2.Client
	blocks []eth.Block
	err    error
	panicv string
	frame  string
	stack  string
	exs    []simnode.Exchange
	// timedOut: the client's own deadline expired on every attempt; nothing to judge (reported inconclusive)
	timedOut bool
}

func c07Frame(st string) string {
	if i := strings.Index(st, "panic("); i >= 0 {
		st = st[i:]
	}
	return vk.TopShovelFrame(st)
}

func c07LogMakers() []gen.LogMaker {
	return []gen.LogMaker{func(r *vk.RNG) simnode.Log {
		l := simnode.Log{Addr: simnode.H("addr", uint64(r.Intn(3)))[:20], Data: r.Bytes(r.Intn(40))}
		for i, n := 0, r.Range(1, 3); i < n; i++ {
			l.Topics = append(l.Topics, simnode.H("topic", uint64(r.Intn(4))))
		}
		return l
	}}
}

// run performs one Get through a fresh client while the node applies muts.
func (s *c07Scenario) run(tag string, muts []simnode.Mut) *c07Run1 {
	r := s.serve(jrpc2.New(s.node.URL(tag)), tag, muts)
	for i := 0; i < 3 && c07ClientTimeout(r.err); i++ {
		// the client's own 10 s deadline expired on an overloaded machine: the source gave no answer that could
		// be judged; a fresh client asks again
		s.c.Obs("calls_repeated_after_client_timeout", 1)
		r = s.serve(jrpc2.New(s.node.URL(tag)), tag, muts)
	}
	if c07ClientTimeout(r.err) {
		r.timedOut = true
		s.c.Inconclusive("the JSON-RPC client's own deadline expired four times in a row (overloaded machine): %v", r.err)
	}
	return r
}

// c07ClientTimeout: the error is the HTTP client's deadline, not anything the source sent.
func c07ClientTimeout(err error) bool {
	return err != nil && (strings.Contains(err.Error(), "context deadline exceeded") || strings.Contains(err.Error(), "Client.Timeout"))
}

// serve performs one Get through the given client while the node applies muts.
func (s *c07Scenario) serve(cl *jrpc2.Client, tag string, muts []simnode.Mut) *c07Run1 {
	var (
		mu  sync.Mutex
		out = &c07Run1{cl: cl}
	)
	s.node.ResetStep()
	s.node.SetHook(func(info *simnode.ReqInfo) simnode.Action {
		act := simnode.Action{ElemErr: -1}
		if info.Poller {
			return act
		}
		kind, asked := simnode.Classify(info)
		ex := &simnode.Exchange{Seq: info.Seq, Kind: kind, Batch: info.Batch, Asked: asked, Status: 200}
		for _, m := range muts {
			if m.Affects(info.Seq) && m.HTTPStatus() != 0 {
				act.Fail, act.Status, act.KeepBody = simnode.FailHTTP, m.HTTPStatus(), true
				ex.Status = m.HTTPStatus()
			}
		}
		act.Rewrite = func(elems []string) []string {
			for _, m := range muts {
				if m.Affects(info.Seq) && !m.BodyLevel() {
					elems = m.ApplyElems(info.Seq, kind, elems, s.base)
				}
			}
			ex.Elems = append([]string(nil), elems...)
			return elems
		}
		act.RewriteBody = func(body string) string {
			for _, m := range muts {
				if m.Affects(info.Seq) && m.BodyLevel() {
					body = m.ApplyBody(body)
				}
			}
			ex.Body = body
			mu.Lock()
			out.exs = append(out.exs, *ex)
			mu.Unlock()
			return body
		}
		return act
	})
	func() {
		defer func() {
			if r := recover(); r != nil {
				out.stack = string(debug.Stack())
				out.panicv = fmt.Sprint(r)
				out.frame = c07Frame(out.stack)
				if out.frame == "" {
					out.frame = "unknown"
				}
			}
		}()
		out.blocks, out.err = cl.Get(context.Background(), s.node.URL(tag), s.filter, s.start, s.limit)
	}()
	s.node.SetHook(nil)
	mu.Lock()
	defer mu.Unlock()
	return out
}

func c07ToAtt(exs []simnode.Exchange) []refmodel.AttExchange {
	var out []refmodel.AttExchange
	for _, e := range exs {
		out = append(out, refmodel.AttExchange{Kind: e.Kind, Batch: e.Batch, Asked: e.Asked, Status: e.Status, Body: e.Body})
	}
	return out
}

// ---------------------------------------------------------------- comparison

type c07Diff struct {
	Method  string `json:"method"`
	Outcome string `json:"outcome"` // misplaced | altered | lost | extra | wrong-range
	Msg     string `json:"msg"`
}

func c07Hex(b []byte) string { return hex.EncodeToString(b) }

func c07U256(x *uint256.Int) string { return strings.TrimPrefix(x.Hex(), "0x") }

type c07Item struct {
	method  string
	loc     string // block/tx
	key     string // identity within loc (log index, trace position, "rcpt", field name)
	content string
}

func c07ItemsFaithful(v *refmodel.AttVerdict, hasBlocks, hasRcpt, hasLogs, hasTraces bool) []c07Item {
	var out []c07Item
	for _, b := range v.Blocks {
		for _, tx := range b.SortedTxs() {
			loc := fmt.Sprintf("b%d/tx%d", b.Num, tx.Idx)
			if hasBlocks && tx.Body != nil {
				out = append(out, c07Item{"eth_getBlockByNumber/tx", loc, "body",
					fmt.Sprintf("tx nonce=%s input=%s value=%s gas=%s gasPrice=%s", tx.Body["nonce"], tx.Body["input"], tx.Body["value"], tx.Body["gas"], tx.Body["gasPrice"])})
			}
			if hasRcpt && !tx.RcptAmbiguous {
				seen := map[string]bool{}
				for _, rc := range tx.Rcpts {
					ct := fmt.Sprintf("rcpt status=%s gasUsed=%s egp=%s contract=%s", rc["status"], rc["gasUsed"], rc["effectiveGasPrice"], rc["contractAddress"])
					if !seen[ct] {
						seen[ct] = true
						out = append(out, c07Item{"eth_getBlockReceipts", loc, "rcpt", ct})
					}
				}
				seenL := map[string]bool{}
				for _, l := range tx.RcptLogs {
					if !seenL[l.Content()] {
						seenL[l.Content()] = true
						out = append(out, c07Item{"eth_getBlockReceipts/log", loc, fmt.Sprintf("log%d", l.Idx), l.Content()})
					}
				}
			}
			if hasLogs {
				var idxs []uint64
				for i := range tx.Logs {
					idxs = append(idxs, i)
				}
				sort.Slice(idxs, func(i, j int) bool { return idxs[i] < idxs[j] })
				for _, i := range idxs {
					// conflicting variants of one logIndex: the statement does not say which wins; keep the first
					out = append(out, c07Item{"eth_getLogs", loc, fmt.Sprintf("log%d", i), tx.Logs[i][0].Content()})
				}
			}
			if hasTraces {
				for i, t := range tx.Traces {
					out = append(out, c07Item{"trace_block", loc, fmt.Sprintf("trace%d", i), t.Content()})
				}
			}
		}
	}
	return out
}

func c07LogContent(l *eth.Log) string {
	var ts []string
	for _, t := range l.Topics {
		ts = append(ts, c07Hex(t))
	}
	return refmodel.AttLog{Idx: uint64(l.Idx), Addr: c07Hex(l.Address), Topics: ts, Data: c07Hex(l.Data)}.Content()
}

func c07ItemsGot(v *refmodel.AttVerdict, got []eth.Block, hasBlocks, hasRcpt, hasLogs, hasTraces bool) []c07Item {
	var out []c07Item
	for bi := range got {
		b := &got[bi]
		var fb *refmodel.AttBlock
		if b.Num() >= v.Start && b.Num() < v.Start+v.Limit {
			fb = v.Blocks[b.Num()-v.Start]
		}
		for ti := range b.Txs {
			tx := &b.Txs[ti]
			loc := fmt.Sprintf("b%d/tx%d", b.Num(), uint64(tx.Idx))
			var ft *refmodel.AttTx
			if fb != nil {
				ft = fb.Txs[uint64(tx.Idx)]
			}
			if hasBlocks && ft != nil && ft.Body != nil {
				out = append(out, c07Item{"eth_getBlockByNumber/tx", loc, "body",
					fmt.Sprintf("tx nonce=%d input=%s value=%s gas=%d gasPrice=%s", uint64(tx.Nonce), c07Hex(tx.Data), c07U256(&tx.Value), uint64(tx.GasLimit), c07U256(&tx.GasPrice))})
			}
			if hasRcpt && ft != nil && ft.RcptAmbiguous {
				// several receipts / nested logs compete for this tx: not compared
			} else if hasRcpt {
				nonzero := tx.Status != 0 || tx.GasUsed != 0 || !tx.EffectiveGasPrice.IsZero() || len(tx.ContractAddress) > 0
				if nonzero || (ft != nil && len(ft.Rcpts) > 0) {
					out = append(out, c07Item{"eth_getBlockReceipts", loc, "rcpt",
						fmt.Sprintf("rcpt status=%d gasUsed=%d egp=%s contract=%s", uint64(tx.Status), uint64(tx.GasUsed), c07U256(&tx.EffectiveGasPrice), c07Hex(tx.ContractAddress))})
				}
				for li := range tx.Logs {
					out = append(out, c07Item{"eth_getBlockReceipts/log", loc, fmt.Sprintf("log%d", uint64(tx.Logs[li].Idx)), c07LogContent(&tx.Logs[li])})
				}
			} else if hasLogs {
				for li := range tx.Logs {
					out = append(out, c07Item{"eth_getLogs", loc, fmt.Sprintf("log%d", uint64(tx.Logs[li].Idx)), c07LogContent(&tx.Logs[li])})
				}
			}
			if hasTraces {
				for i := range tx.TraceActions {
					ta := &tx.TraceActions[i]
					key := fmt.Sprintf("trace%d", ta.Idx)
					out = append(out, c07Item{"trace_block", loc, key,
						refmodel.AttTrace{From: c07Hex(ta.From), To: c07Hex(ta.To), CallType: ta.CallType, Value: c07U256(&ta.Value)}.Content()})
				}
			}
		}
	}
	return out
}

// c07Compare checks a successful result against the faithful attachment.
func c07Compare(v *refmodel.AttVerdict, got []eth.Block, kinds map[string]bool) []c07Diff {
	var diffs []c07Diff
	add := func(method, outcome, f string, a ...any) {
		diffs = append(diffs, c07Diff{method, outcome, fmt.Sprintf(f, a...)})
	}
	hasBlocks, hasRcpt, hasLogs, hasTraces := kinds[simnode.ExBlocks], kinds[simnode.ExReceipts], kinds[simnode.ExLogs], kinds[simnode.ExTrace]
	if uint64(len(got)) != v.Limit {
		add("eth_getBlockByNumber", "wrong-range", "returned %d blocks, requested %d", len(got), v.Limit)
		return diffs
	}
	for i := range got {
		b := &got[i]
		fb := v.Blocks[i]
		if b.Num() != fb.Num {
			add("eth_getBlockByNumber", "wrong-range", "result[%d] has number %d, requested %d", i, b.Num(), fb.Num)
			continue
		}
		if fb.HasHeader {
			if c07Hex(b.Header.Hash) != fb.Hash {
				add("eth_getBlockByNumber", "altered", "block %d hash %s differs from the header's %s", fb.Num, c07Hex(b.Header.Hash), fb.Hash)
			}
			if c07Hex(b.Header.Parent) != fb.Parent {
				add("eth_getBlockByNumber", "altered", "block %d parent differs from the header's", fb.Num)
			}
			if uint64(b.Header.Time) != fb.Time {
				add("eth_getBlockByNumber", "altered", "block %d time %d differs from the header's %d", fb.Num, uint64(b.Header.Time), fb.Time)
			}
			if i > 0 && c07Hex(b.Header.Parent) != c07Hex(got[i-1].Header.Hash) {
				add("eth_getBlockByNumber", "altered", "result blocks %d,%d are not hash-linked", fb.Num-1, fb.Num)
			}
		} else if len(b.Header.Hash) > 0 && !fb.ItemHashes[c07Hex(b.Header.Hash)] {
			add("eth_getBlockByNumber", "altered", "block %d carries hash %s that no response names for it", fb.Num, c07Hex(b.Header.Hash))
		}
		// transaction identity
		seen := map[uint64]bool{}
		for ti := range b.Txs {
			tx := &b.Txs[ti]
			idx := uint64(tx.Idx)
			if seen[idx] {
				add("eth_getBlockByNumber/tx", "extra", "block %d has two transactions with index %d", fb.Num, idx)
			}
			seen[idx] = true
			ft := fb.Txs[idx]
			if ft == nil {
				continue // reported through its items below (or harmless empty tx)
			}
			if len(ft.Hashes) == 1 {
				for h := range ft.Hashes {
					if c07Hex(tx.PrecompHash) != h {
						add("eth_getBlockByNumber/tx", "altered", "block %d tx %d hash %s, responses say %s", fb.Num, idx, c07Hex(tx.PrecompHash), h)
					}
				}
			}
			if hasBlocks && ft.Body != nil {
				okFrom := c07Hex(tx.From) == ft.Body["from"]
				okTo := c07Hex(tx.To) == ft.Body["to"]
				okType := fmt.Sprint(uint64(tx.Type)) == ft.Body["type"]
				for _, rc := range ft.Rcpts {
					okFrom = okFrom || c07Hex(tx.From) == rc["from"]
					okTo = okTo || c07Hex(tx.To) == rc["to"]
					okType = okType || fmt.Sprint(uint64(tx.Type)) == rc["type"]
				}
				if !okFrom || !okTo || !okType {
					add("eth_getBlockByNumber/tx", "altered", "block %d tx %d from/to/type differ from block and receipt", fb.Num, idx)
				}
			}
		}
		if fb.FullTxs {
			for idx := range fb.Txs {
				if fb.Txs[idx].Body != nil && !seen[idx] {
					add("eth_getBlockByNumber/tx", "lost", "block %d lacks transaction %d of the full block", fb.Num, idx)
				}
			}
		}
	}
	// items: multiset comparison by content, then by location
	fa := c07ItemsFaithful(v, hasBlocks, hasRcpt, hasLogs, hasTraces)
	ga := c07ItemsGot(v, got, hasBlocks, hasRcpt, hasLogs, hasTraces)
	type ck struct{ method, content string }
	fl, gl := map[ck][]c07Item{}, map[ck][]c07Item{}
	for _, it := range fa {
		k := ck{it.method, it.content}
		fl[k] = append(fl[k], it)
	}
	for _, it := range ga {
		k := ck{it.method, it.content}
		gl[k] = append(gl[k], it)
	}
	var extras, losts []c07Item
	keys := map[ck]bool{}
	for k := range fl {
		keys[k] = true
	}
	for k := range gl {
		keys[k] = true
	}
	var ks []ck
	for k := range keys {
		ks = append(ks, k)
	}
	sort.Slice(ks, func(i, j int) bool {
		if ks[i].method != ks[j].method {
			return ks[i].method < ks[j].method
		}
		return ks[i].content < ks[j].content
	})
	for _, k := range ks {
		f, g := append([]c07Item(nil), fl[k]...), append([]c07Item(nil), gl[k]...)
		// cancel items at the same place (and, for traces, same position)
		for i := 0; i < len(f); i++ {
			for j := 0; j < len(g); j++ {
				if f[i].loc == g[j].loc && f[i].key == g[j].key {
					f = append(f[:i], f[i+1:]...)
					g = append(g[:j], g[j+1:]...)
					i--
					break
				}
			}
		}
		for len(f) > 0 && len(g) > 0 {
			if f[0].loc == g[0].loc {
				add(k.method, "altered", "%s at %s: position %s, responses say %s", k.content, g[0].loc, g[0].key, f[0].key)
			} else {
				add(k.method, "misplaced", "%s attached to %s, names %s", k.content, g[0].loc, f[0].loc)
			}
			f, g = f[1:], g[1:]
		}
		extras = append(extras, g...)
		losts = append(losts, f...)
	}
	for _, e := range extras {
		matched := false
		for i, l := range losts {
			if l.method == e.method && l.loc == e.loc && l.key == e.key {
				add(e.method, "altered", "%s at %s: got %q, responses say %q", e.key, e.loc, e.content, l.content)
				losts = append(losts[:i], losts[i+1:]...)
				matched = true
				break
			}
		}
		if !matched {
			add(e.method, "extra", "%s at %s (%s) is in no response", e.key, e.loc, e.content)
		}
	}
	for _, l := range losts {
		add(l.method, "lost", "%s of %s (%s) is in the responses but not in the result", l.key, l.loc, l.content)
	}
	return diffs
}

func c07Dump(blocks []eth.Block) []map[string]any {
	var out []map[string]any
	for i := range blocks {
		b := &blocks[i]
		var txs []map[string]any
		for j := range b.Txs {
			tx := &b.Txs[j]
			var logs []uint64
			for k := range tx.Logs {
				logs = append(logs, uint64(tx.Logs[k].Idx))
			}
			txs = append(txs, map[string]any{"idx": uint64(tx.Idx), "hash": fmt.Sprintf("%.6x", []byte(tx.PrecompHash)), "logIdx": logs,
				"traces": len(tx.TraceActions), "status": uint64(tx.Status), "gasUsed": uint64(tx.GasUsed)})
		}
		out = append(out, map[string]any{"num": b.Num(), "hash": fmt.Sprintf("%.6x", []byte(b.Header.Hash)), "parent": fmt.Sprintf("%.6x", []byte(b.Header.Parent)), "txs": txs})
	}
	return out
}

var c07BloomRe = regexp.MustCompile(`"logsBloom":"0x0{64,}"`)

// c07Trim shortens a body for reports (the all-zero logsBloom is abbreviated).
func c07Trim(s string, n int) string {
	s = c07BloomRe.ReplaceAllString(s, `"logsBloom":"0x00…00"`)
	if len(s) > n {
		return s[:n] + fmt.Sprintf("…(%d bytes)", len(s))
	}
	return s
}

func c07ExDump(exs []simnode.Exchange, muts []simnode.Mut) []map[string]any {
	var out []map[string]any
	for _, e := range exs {
		n := 600
		for _, m := range muts {
			if m.Affects(e.Seq) {
				n = 6000
			}
		}
		out = append(out, map[string]any{"seq": e.Seq, "kind": e.Kind, "asked": e.Asked, "status": e.Status, "body": c07Trim(e.Body, n)})
	}
	return out
}

// ---------------------------------------------------------------- judging

func c07MethodOfKind(kind string) string {
	switch kind {
	case simnode.ExReceipts:
		return "eth_getBlockReceipts"
	case simnode.ExLogs:
		return "eth_getLogs"
	case simnode.ExTrace:
		return "trace_block"
	}
	return "eth_getBlockByNumber"
}

func c07MutKinds(muts []simnode.Mut) string {
	var ks []string
	for _, m := range muts {
		ks = append(ks, m.Kind)
	}
	sort.Strings(ks)
	return strings.Join(ks, "+")
}

func (s *c07Scenario) judge(tag string, muts []simnode.Mut) {
	c := s.c
	r := s.run(tag, muts)
	if r.timedOut {
		return
	}
	c.Obs("get_calls", 1)
	client := "caching"
	if tag != "" {
		client = "nocache"
	}
	mk := c07MutKinds(muts)
	pos := "none"
	if len(muts) > 0 {
		n := 1
		if muts[0].Seq < len(s.base) {
			n = len(s.base[muts[0].Seq].Elems)
		}
		pos = muts[0].PosClass(n)
	}
	detail := func(v *refmodel.AttVerdict, diffs []c07Diff) map[string]any {
		d := map[string]any{"plan": s.plan, "fields": s.fields, "start": s.start, "limit": s.limit, "client": client,
			"mutations": muts, "exchanges": c07ExDump(r.exs, muts)}
		if v != nil {
			d["oracle_must_error"] = v.MustErr
			d["oracle_notes"] = v.Notes
		}
		if diffs != nil {
			d["diffs"] = diffs
		}
		if r.err != nil {
			d["get_error"] = r.err.Error()
		} else if r.panicv == "" {
			d["get_returned"] = c07Dump(r.blocks)
		}
		return d
	}
	v := refmodel.Attach(s.start, s.limit, c07ToAtt(r.exs))
	methodOfMut := "eth_getBlockByNumber"
	if len(muts) > 0 && muts[0].Seq < len(s.base) {
		methodOfMut = c07MethodOfKind(s.base[muts[0].Seq].Kind)
	}
	switch {
	case r.panicv != "":
		d := detail(v, nil)
		d["panic"] = r.panicv
		d["stack"] = c07Trim(r.stack, 3000)
		pm := methodOfMut
		if n := len(r.exs); n > 0 {
			pm = c07MethodOfKind(r.exs[n-1].Kind)
		}
		c.Violate(fmt.Sprintf("c07:%s:panic:%s", pm, r.frame), d, "Get panicked in %s on mutation %s (plan %s): %s", r.frame, mk, s.plan, r.panicv)
		c.SetSig("%s|%s|%s|panic", s.plan, mk, pos)
	case r.err != nil:
		c.Obs("rejected", 1)
		if len(v.MustErr) > 0 {
			c.Obs("must_error_runs", 1)
		} else if len(muts) > 0 {
			c.Obs("benign_rejected", 1)
			c.Seen("benign_rejected_kinds", mk)
		} else {
			c.Inconclusive("baseline Get failed for plan %s start %d limit %d: %v", s.plan, s.start, s.limit, r.err)
		}
		c.SetSig("%s|%s|%s|rejected", s.plan, mk, pos)
		if tag == "" && len(muts) > 0 {
			s.retryAfterRejection(r, v, muts, mk, methodOfMut)
		}
	case len(v.MustErr) > 0:
		c.Obs("must_error_runs", 1)
		// the first inconsistency (in exchange order) is the one the client had to stop at
		rs := v.MustErr[0]
		c.Violate(fmt.Sprintf("c07:%s:%s:accepted-inconsistent", rs.Method, rs.Kind), detail(v, nil),
			"Get succeeded although the responses were inconsistent (%s in %s; mutation %s, plan %s, %s client)", rs.Kind, rs.Method, mk, s.plan, client)
		c.SetSig("%s|%s|%s|accepted-inconsistent", s.plan, mk, pos)
	default:
		kinds := map[string]bool{}
		for _, e := range r.exs {
			kinds[e.Kind] = true
		}
		diffs := c07Compare(v, r.blocks, kinds)
		if len(diffs) == 0 {
			c.Obs("accepted_faithful", 1)
			for _, n := range v.Notes {
				c.Obs("note:"+n.Kind, 1)
			}
			c.SetSig("%s|%s|%s|accepted-faithful", s.plan, mk, pos)
			return
		}
		if len(muts) == 0 {
			c.Inconclusive("baseline Get differs from the oracle for plan %s: %v", s.plan, diffs[0])
			return
		}
		// one violation per run: the cause as the oracle names it (a note) or the mutation
		// kind, and the most telling outcome among the differences
		rank := map[string]int{"misplaced": 5, "wrong-range": 4, "lost": 3, "altered": 2, "extra": 1}
		best := diffs[0]
		score := func(d c07Diff) int {
			sc := rank[d.Outcome] * 2
			if strings.HasPrefix(d.Method, methodOfMut) {
				sc++
			}
			return sc
		}
		for _, df := range diffs {
			if score(df) > score(best) {
				best = df
			}
		}
		method := strings.TrimSuffix(strings.TrimSuffix(best.Method, "/log"), "/tx")
		// the cause: a note of the oracle (value independent) or, failing that, the kinds of the
		// mutations that touched the exchange the misattached data came from
		why, renamed := "", false
		for _, want := range []string{"item-names-other-block", "nested-log-disagrees-with-receipt"} {
			for _, n := range v.Notes {
				if n.Kind == want && !renamed {
					why, renamed = n.Kind, true
					method = strings.TrimSuffix(n.Method, "/log")
				}
			}
		}
		if !renamed {
			var ks []string
			for _, m := range muts {
				if m.Seq < len(s.base) && c07MethodOfKind(s.base[m.Seq].Kind) == method {
					ks = append(ks, m.Kind)
				}
			}
			sort.Strings(ks)
			why = strings.Join(ks, "+")
			if why == "" {
				why = mk
			}
		}
		outcome := best.Outcome
		if renamed && outcome != "wrong-range" {
			outcome = "misplaced" // items that name another block/tx ended up somewhere else than named
		}
		methodOfMut = method
		c.Violate(fmt.Sprintf("c07:%s:%s:%s", methodOfMut, why, outcome), detail(v, diffs),
			"Get succeeded with unfaithful data (%s; mutation %s, plan %s, %s client)", best.Msg, mk, s.plan, client)
		c.SetSig("%s|%s|%s|unfaithful", s.plan, mk, pos)
	}
}

// retryAfterRejection: the caching client just rejected a response set. The same
// client asks again for the same range while the source answers correctly: the
// rejected data must not come back from the segment cache, i.e. the segment is
// requested anew and the result is the faithful attachment of the new responses.
func (s *c07Scenario) retryAfterRejection(first *c07Run1, v1 *refmodel.AttVerdict, muts []simnode.Mut, mk, methodOfMut string) {
	c := s.c
	r := s.serve(first.cl, "", nil)
	for i := 0; i < 3 && c07ClientTimeout(r.err); i++ {
		c.Obs("calls_repeated_after_client_timeout", 1)
		r = s.serve(first.cl, "", nil)
	}
	if c07ClientTimeout(r.err) {
		c.Inconclusive("the JSON-RPC client's own deadline expired four times in a row (overloaded machine): %v", r.err)
		return
	}
	c.Obs("get_calls", 1)
	c.Obs("retries_after_rejection", 1)
	c.Evals(1)
	method, why := methodOfMut, mk
	if len(v1.MustErr) > 0 {
		method, why = v1.MustErr[0].Method, v1.MustErr[0].Kind
	}
	detail := func(extra map[string]any) map[string]any {
		d := map[string]any{"plan": s.plan, "fields": s.fields, "start": s.start, "limit": s.limit, "client": "caching, same client for both calls",
			"mutations_of_first_call": muts, "first_call_exchanges": c07ExDump(first.exs, muts), "first_call_error": first.err.Error(),
			"retry_exchanges": c07ExDump(r.exs, nil)}
		if r.err != nil {
			d["retry_error"] = r.err.Error()
		} else if r.panicv == "" {
			d["retry_returned"] = c07Dump(r.blocks)
		}
		for k, x := range extra {
			d[k] = x
		}
		return d
	}
	// The segment must be asked for again when the rejected exchange was the segment
	// itself (the last exchange the first call got to). If a later exchange (receipts,
	// logs, traces) was rejected, the segment had been accepted and may come from cache;
	// then the accepted segment exchange of the first call stands in for the oracle.
	isSeg := func(e simnode.Exchange) bool { return e.Kind == simnode.ExBlocks || e.Kind == simnode.ExHeaders }
	segPlan := len(first.exs) > 0 && isSeg(first.exs[len(first.exs)-1])
	segAsked := false
	for _, e := range r.exs {
		if isSeg(e) {
			segAsked = true
		}
	}
	oracleExs := r.exs
	cachedMutatedSeg := false
	if !segAsked && !segPlan {
		for _, e := range first.exs {
			if isSeg(e) {
				oracleExs = append([]simnode.Exchange{e}, r.exs...)
				for _, m := range muts {
					if m.Affects(e.Seq) {
						// the accepted (and legitimately cached) segment carried the mutation, e.g. a changed
						// hash of the last block: later exchanges may keep contradicting it until it expires
						cachedMutatedSeg = true
					}
				}
			}
		}
	}
	switch {
	case r.panicv != "":
		c.Violate(fmt.Sprintf("c07:%s:panic:%s", method, r.frame), detail(map[string]any{"panic": r.panicv, "stack": c07Trim(r.stack, 3000)}),
			"the Get after a rejected response (%s, plan %s) panicked in %s: %s", why, s.plan, r.frame, r.panicv)
	case r.err != nil && cachedMutatedSeg:
		c.Obs("retries_failing_on_cached_accepted_segment", 1)
	case r.err != nil:
		c.Violate(fmt.Sprintf("c07:%s:%s:correct-retry-rejected", method, why), detail(nil),
			"after a rejected response (%s, plan %s) the same client failed again although the source answered correctly: %v", why, s.plan, r.err)
	case segPlan && !segAsked:
		c.Violate(fmt.Sprintf("c07:%s:%s:rejected-response-served-from-cache", method, why), detail(nil),
			"after a rejected response (%s, plan %s) the next Get of the same range succeeded without asking the source for the blocks again", why, s.plan)
	default:
		v := refmodel.Attach(s.start, s.limit, c07ToAtt(oracleExs))
		kinds := map[string]bool{}
		for _, e := range oracleExs {
			kinds[e.Kind] = true
		}
		if len(v.MustErr) > 0 {
			c.Inconclusive("retry exchanges of plan %s are inconsistent although nothing was mutated: %v", s.plan, v.MustErr[0])
			return
		}
		if diffs := c07Compare(v, r.blocks, kinds); len(diffs) > 0 {
			c.Violate(fmt.Sprintf("c07:%s:%s:rejected-response-served-from-cache", method, why), detail(map[string]any{"diffs": diffs}),
				"after a rejected response (%s, plan %s) the next Get of the same range returned data that differs from the correct responses it was served: %s", why, s.plan, diffs[0].Msg)
			return
		}
		c.Obs("retries_faithful", 1)
	}
}

// ---------------------------------------------------------------- cases

func c07Run(c *vk.Case) {
	if c.Index < len(c07Hostile) {
		c07RunHostile(c, c07Hostile[c.Index])
		return
	}
	g := c.Index - len(c07Hostile)
	nv := c07Variants(c.Tier)
	if g >= 6*len(c07Plans)*nv {
		c07TaskSeam(c)
		return
	}
	variant := g % nv
	g /= nv
	planIdx := g % len(c07Plans)
	limit := uint64(g/len(c07Plans)) + 1
	r := c.R
	fields := c07Plans[planIdx]
	filter := glf.New(fields, nil, nil)
	plan := filter.String()
	if plan == "" {
		plan = "none"
	}
	start := uint64(1)
	if variant > 0 {
		start = uint64(r.Range(1, 40))
	}
	// traces are fetched whenever the plan holds them (also next to receipts or logs), and an empty
	// trace_block result is an error of its own: every block of such a chain has a trace
	tracesUsed := filter.UseTraces
	opts := gen.ChainOpts{Seed: r.U64(), MinTxs: 0, MaxTxs: 3, MaxLogs: 2, MinTraces: 0, MaxTraces: 2, Makers: c07LogMakers()}
	if tracesUsed || variant == 0 {
		opts.MinTxs, opts.MinTraces = 1, 1
	}
	if variant == 0 {
		opts.MaxLogs = 2
	}
	chain := simnode.NewChain(r.U64(), gen.Content(opts))
	chain.Grow(int(start+limit) + 2)
	node := simnode.Global().NewNode(chain)
	defer node.Retire()
	s := &c07Scenario{c: c, chain: chain, node: node, fields: fields, filter: filter, plan: plan, start: start, limit: limit}
	c.Seen("plans", plan)

	// baseline through both clients; the recorded exchanges are the mutation domain
	b0 := s.run("nocache", nil)
	for try := 0; try < 3 && b0.err != nil; try++ {
		time.Sleep(200 * time.Millisecond) // a loaded machine may refuse a connection; pacing only
		b0 = s.run("nocache", nil)
	}
	if b0.err != nil || b0.panicv != "" {
		c.Inconclusive("baseline Get failed: plan %s start %d limit %d: %v %s", plan, start, limit, b0.err, b0.panicv)
		return
	}
	s.base = b0.exs
	s.judge("nocache", nil)
	s.judge("", nil)
	c.Obs("baseline_ok", 1)
	hashOf := func(n uint64) string {
		if b := chain.At(n); b != nil {
			return "0x" + b.HashHex()
		}
		return "0x" + strings.Repeat("00", 32)
	}
	muts := simnode.Enumerate(s.base, start, limit, hashOf)
	var evals int64 = 2
	for _, m := range muts {
		s.judge("nocache", []simnode.Mut{m})
		s.judge("", []simnode.Mut{m})
		evals += 2
		c.Seen("mutation_kinds", m.Kind)
	}
	c.Obs("single_mutations", int64(len(muts)))
	if c.Thorough() && len(muts) > 1 {
		// sampled pairs: prefer element/item-level mutations (body-level ones mask everything)
		var el []simnode.Mut
		for _, m := range muts {
			if !m.BodyLevel() {
				el = append(el, m)
			}
		}
		np := 300
		for i := 0; i < np && len(el) > 1; i++ {
			a, b := vk.Pick(r, el), vk.Pick(r, el)
			if r.Chance(1, 10) {
				b = vk.Pick(r, muts)
			}
			if a == b {
				continue
			}
			tag := ""
			if r.Bool() {
				tag = "nocache"
			}
			s.judge(tag, []simnode.Mut{a, b})
			evals++
			c.Obs("pair_mutations", 1)
		}
	}
	c.Evals(evals)
	if len(muts) > 0 {
		m := muts[r.Intn(len(muts))]
		ex := s.run("nocache", []simnode.Mut{m})
		errs := ""
		if ex.err != nil {
			errs = ex.err.Error()
		}
		c.Sample(map[string]any{"plan": plan, "fields": fields, "start": start, "limit": limit, "single_mutations": len(muts),
			"example_mutation": m, "example_exchanges": c07ExDump(ex.exs, []simnode.Mut{m}), "example_get_error": c07Trim(errs, 300)})
	}
}

// ---------------------------------------------------------------- hostile Hash / Latest / poller

func c07HostileReason(kind string) string {
	switch kind {
	case "null-result", "remove-result", "body-null":
		return "missing-result"
	case "error-replace", "error-add", "error-code0":
		return "error-member"
	case "http-status":
		return "http-status"
	case "renumber-above":
		return "wrong-number-only"
	}
	return "undecodable"
}

func c07RunHostile(c *vk.Case, sc c07HostileSc) {
	r := c.R
	chain := simnode.NewChain(r.U64(), gen.Content(gen.ChainOpts{Seed: r.U64(), MinTxs: 1, MaxTxs: 2, MaxLogs: 1, Makers: c07LogMakers()}))
	chain.Grow(12)
	node := simnode.Global().NewNode(chain)
	defer node.Retire()
	head := chain.Head()
	mut := simnode.Mut{Seq: 0, Kind: sc.kind, Elem: 0, Item: -1, Sub: -1}
	switch sc.kind {
	case "http-status":
		mut.Elem, mut.Arg = -1, 500
	case "garbage", "body-null", "body-wrapped-array", "body-string":
		mut.Elem = -1
	case "truncate":
		mut.Elem, mut.Arg = -1, 8
	case "renumber-above":
		mut.Arg = 9
	}
	var (
		mu       sync.Mutex
		hostile  int // hostile responses served
		wantPoll = sc.method == "poller"
		bodies   []string
	)
	node.SetHook(func(info *simnode.ReqInfo) simnode.Action {
		act := simnode.Action{ElemErr: -1}
		mu.Lock()
		defer mu.Unlock()
		if info.Poller != wantPoll || hostile > 0 {
			return act
		}
		hostile++
		if mut.HTTPStatus() != 0 {
			act.Fail, act.Status, act.KeepBody = simnode.FailHTTP, mut.HTTPStatus(), true
		}
		act.Rewrite = func(elems []string) []string {
			if !mut.BodyLevel() {
				elems = mut.ApplyElems(0, simnode.ExHead, elems, nil)
			}
			return elems
		}
		act.RewriteBody = func(body string) string {
			if mut.BodyLevel() {
				body = mut.ApplyBody(body)
			}
			mu.Lock()
			bodies = append(bodies, body)
			mu.Unlock()
			return body
		}
		return act
	})
	// (Rewrite/RewriteBody run after the hook returned, so taking mu there does not deadlock)
	ctx := context.Background()
	url := node.URL("")
	cl := jrpc2.New(url).WithPollDuration(2 * time.Millisecond)
	reason := c07HostileReason(sc.kind)
	c.Obs("hostile_calls", 1)
	c.Evals(1)
	c.SetSig("hostile|%s|%s", sc.method, sc.kind)
	detail := func(extra map[string]any) map[string]any {
		mu.Lock()
		defer mu.Unlock()
		d := map[string]any{"method": sc.method, "mutation": sc.kind, "response_bodies": append([]string(nil), bodies...)}
		for k, v := range extra {
			d[k] = v
		}
		return d
	}
	guard := func(name string, f func()) (panicked bool) {
		defer func() {
			if rc := recover(); rc != nil {
				st := string(debug.Stack())
				fr := c07Frame(st)
				if fr == "" {
					fr = "unknown"
				}
				c.Violate(fmt.Sprintf("c07:%s:panic:%s", sc.method, fr), detail(map[string]any{"panic": fmt.Sprint(rc), "stack": c07Trim(st, 3000)}),
					"%s panicked in %s on a %s response: %v", name, fr, sc.kind, rc)
				panicked = true
			}
		}()
		f()
		return false
	}
	switch sc.method {
	case "hash":
		var h []byte
		var err error
		if guard("Client.Hash", func() { h, err = cl.Hash(ctx, url, 5) }) {
			return
		}
		if err == nil {
			c.Violate(fmt.Sprintf("c07:hash:%s:accepted-inconsistent", reason), detail(map[string]any{"returned": c07Hex(h)}),
				"Hash(5) returned %x without error for a %s response", h, sc.kind)
		}
	case "latest":
		var n uint64
		var h []byte
		var err error
		if guard("Client.Latest", func() { n, h, err = cl.Latest(ctx, url, 0) }) {
			return
		}
		if err == nil {
			c.Violate(fmt.Sprintf("c07:latest:%s:accepted-inconsistent", reason), detail(map[string]any{"returned_num": n, "returned_hash": c07Hex(h)}),
				"Latest returned (%d,%x) without error for a %s response", n, h, sc.kind)
		}
	case "poller":
		var n uint64
		var h []byte
		var err error
		if guard("Client.Latest", func() { n, h, err = cl.Latest(ctx, url, 0) }) {
			return
		}
		if err != nil || n != head.Num || c07Hex(h) != head.HashHex() {
			c.Inconclusive("unmutated Latest failed: %d %x %v", n, h, err)
			return
		}
		// wait (watchdog only) until the poller has been served the hostile response, then give the
		// client's goroutine time to digest it: a nil dereference there kills this process and the
		// orchestrator attributes the crash to this case.
		deadline := time.Now().Add(20 * time.Second)
		for {
			mu.Lock()
			done := hostile > 0 && len(bodies) > 0
			mu.Unlock()
			if done {
				break
			}
			if time.Now().After(deadline) {
				c.Inconclusive("the poller never polled")
				return
			}
			time.Sleep(time.Millisecond)
		}
		time.Sleep(150 * time.Millisecond)
		for i := 0; i < 5; i++ {
			if guard("Client.Latest", func() { n, h, err = cl.Latest(ctx, url, head.Num) }) {
				return
			}
			if err == nil && (n != head.Num || c07Hex(h) != head.HashHex()) {
				c.Violate(fmt.Sprintf("c07:poller:%s:accepted-inconsistent", reason), detail(map[string]any{"returned_num": n, "returned_hash": c07Hex(h), "head": head.Num}),
					"after a %s poll response Latest returned (%d,%x), the only announced head is (%d,%s)", sc.kind, n, h, head.Num, head.HashHex())
			}
		}
	}
	c.Sample(detail(map[string]any{"scenario": "hostile " + sc.method}))
}
