package checks

import (
	"bytes"
	"encoding/hex"
	"fmt"
	"strconv"
	"strings"

	gojson "github.com/goccy/go-json"
	"github.com/indexsupply/shovel/bint"
	"github.com/indexsupply/shovel/eth"

	"verif/harness/vk"
)

// C17 — wire codecs are exact and total.
//
// Oracle: strconv / encoding/hex / plain arithmetic. Cases 0..c17Chunks-1 enumerate
// the token space exhaustively (one residue class each); the remaining cases are
// random families (uint64 spellings, byte strings, reuse sequences, bint).

const c17Chunks = 32

var c17Alphabet = []byte{'"', '0', 'x', 'X', '1', '9', 'a', 'F', 'g', 'n', 'u', 'l', '\\', '-', ' '}

func init() {
	vk.Register(&vk.Check{
		ID:        "C17",
		Level:     "exploration",
		Technique: "differential oracle (strconv, encoding/hex, arithmetic) over exhaustive short tokens and generated values; panic monitor",
		Rule: "cases 0..31 enumerate all tokens of length 0..L (L=5 quick, 6 thorough) over a 15-symbol hostile alphabet, each through Uint64/Byte/Bytes.UnmarshalJSON directly and through goccy/go-json; " +
			"other cases generate uint64 spellings (boundaries, nibble patterns, random; random letter case; leading zeros up to 16 digits and, one value in five, up to 80), byte strings 0..8KiB, reuse sequences into one destination, bint pads 1..32. " +
			"A signature is (family, decoder, outcome class, size class); trivial = input rejected before reaching the decoder body.",
		Assumptions: []string{
			"a quantity has at most 16 significant hex digits; longer all-hex strings are only required not to panic, longer strings with a non-hex character are required to fail (statement)",
			"bint.Encode is given a zeroed destination (the documented way to pad)",
			"only lower-case 0x is treated as the prefix the statement speaks of",
		},
		NCases: func(tier string) int {
			if tier == "thorough" {
				return c17Chunks + 480
			}
			return c17Chunks + 96
		},
		Run:              c17Run,
		CrashIsViolation: true,
		Exhaustive:       func(string) bool { return false },
		MinObs: func(string) map[string]int64 {
			return map[string]int64{"tokens": 100000, "uint64_exact": 1000, "bytes_exact": 500, "must_error_checked": 1000, "reuse_decodes": 500, "bint_roundtrips": 1000}
		},
		Extra: func(tier string) map[string]any {
			l := 5
			if tier == "thorough" {
				l = 6
			}
			return map[string]any{"token_space_exhaustive": true, "token_max_len": l, "token_alphabet": string(c17Alphabet)}
		},
	})
}

func isHex(b byte) bool {
	return b >= '0' && b <= '9' || b >= 'a' && b <= 'f' || b >= 'A' && b <= 'F'
}

func allHex(s []byte) bool {
	for _, b := range s {
		if !isHex(b) {
			return false
		}
	}
	return true
}

// c17Token checks one token against the three decoders.
func c17Token(c *vk.Case, tok []byte, viaJSON bool) {
	type outcome struct {
		err error
		u   uint64
		b   []byte
	}
	str0x := len(tok) >= 4 && tok[0] == '"' && tok[len(tok)-1] == '"' && tok[1] == '0' && tok[2] == 'x'
	var body []byte
	if str0x {
		body = tok[3 : len(tok)-1]
	}
	call := func(name string, f func() outcome) (o outcome, ok bool) {
		defer func() {
			if r := recover(); r != nil {
				c.Violate("panic:"+name, map[string]any{"token": string(tok), "panic": fmt.Sprint(r)}, "%s panicked on token %q: %v", name, tok, r)
				ok = false
			}
		}()
		return f(), true
	}
	// Uint64
	{
		name := "eth.Uint64.UnmarshalJSON"
		if viaJSON {
			name = "goccy->eth.Uint64"
		}
		o, ok := call(name, func() outcome {
			var v eth.Uint64
			var err error
			if viaJSON {
				err = gojson.Unmarshal(tok, &v)
			} else {
				err = v.UnmarshalJSON(append([]byte(nil), tok...))
			}
			return outcome{err: err, u: uint64(v)}
		})
		if ok && str0x {
			switch {
			case !allHex(body):
				c.Obs("must_error_checked", 1)
				if o.err == nil {
					c.Violate("uint64:nonhex-accepted:"+posClass(body), map[string]any{"token": string(tok), "got": o.u},
						"%s accepted %q which contains a non-hex character (got %d)", name, tok, o.u)
				}
			case len(body) >= 1 && len(strings.TrimLeft(string(body), "0")) <= 16:
				// (any number of leading zeros: a quantity padded to 32 bytes still spells a 64-bit value)
				want, _ := strconv.ParseUint("0"+strings.TrimLeft(string(body), "0"), 16, 64)
				c.Obs("uint64_exact", 1)
				if o.err != nil || o.u != want {
					c.Violate("uint64:wrong-value", map[string]any{"token": string(tok), "got": o.u, "want": want, "err": fmt.Sprint(o.err)},
						"%s(%q) = %d, %v; want %d", name, tok, o.u, o.err, want)
				}
			}
		}
	}
	// Byte
	{
		name := "eth.Byte.UnmarshalJSON"
		if viaJSON {
			name = "goccy->eth.Byte"
		}
		o, ok := call(name, func() outcome {
			var v eth.Byte
			var err error
			if viaJSON {
				err = gojson.Unmarshal(tok, &v)
			} else {
				err = v.UnmarshalJSON(append([]byte(nil), tok...))
			}
			return outcome{err: err, u: uint64(v)}
		})
		if ok && str0x {
			switch {
			case !allHex(body):
				c.Obs("must_error_checked", 1)
				if o.err == nil {
					c.Violate("byte:nonhex-accepted:"+posClass(body), map[string]any{"token": string(tok)}, "%s accepted %q which contains a non-hex character", name, tok)
				}
			case len(body) >= 1 && len(body) <= 16:
				want, _ := strconv.ParseUint(string(body), 16, 64)
				if want <= 255 {
					c.Obs("byte_exact", 1)
					if o.err != nil || o.u != want {
						c.Violate("byte:wrong-value", map[string]any{"token": string(tok), "got": o.u, "want": want}, "%s(%q) = %d, %v; want %d", name, tok, o.u, o.err, want)
					}
				}
			}
		}
	}
	// Bytes (fresh and pre-filled destination)
	for _, prefill := range []int{0, 7} {
		name := "eth.Bytes.UnmarshalJSON"
		if viaJSON {
			name = "goccy->eth.Bytes"
		}
		o, ok := call(name, func() outcome {
			v := eth.Bytes(bytes.Repeat([]byte{0xEE}, prefill))
			var err error
			if viaJSON {
				err = gojson.Unmarshal(tok, &v)
			} else {
				// the caller owns its buffer: decoding must not change it, and the decoded value must not change when
				// the caller reuses the buffer afterwards (a receive buffer is refilled by the next message)
				in := append([]byte(nil), tok...)
				err = v.UnmarshalJSON(in)
				if !bytes.Equal(in, tok) {
					c.Violate("bytes:input-modified", map[string]any{"token": string(tok), "input_after": string(in), "prefill": prefill}, "%s changed the caller's input %q to %q", name, tok, in)
				}
				if err == nil {
					before := append([]byte(nil), v...)
					for i := range in {
						in[i] = 'Z'
					}
					c.Obs("bytes_ownership_checked", 1)
					if !bytes.Equal(before, v) {
						c.Violate("bytes:value-aliases-input", map[string]any{"token": string(tok), "value": hex.EncodeToString(before), "after_input_reuse": hex.EncodeToString(v), "prefill": prefill},
							"the value %s decoded from %q changed to %x when the caller overwrote its input buffer", name, tok, []byte(v))
					}
				}
			}
			return outcome{err: err, b: append([]byte(nil), v...)}
		})
		if ok && str0x {
			switch {
			case !allHex(body):
				c.Obs("must_error_checked", 1)
				if o.err == nil {
					c.Violate("bytes:nonhex-accepted", map[string]any{"token": string(tok)}, "%s accepted %q which contains a non-hex character", name, tok)
				}
			case len(body)%2 == 1:
				c.Obs("must_error_checked", 1)
				if o.err == nil {
					c.Violate("bytes:odd-accepted", map[string]any{"token": string(tok)}, "%s accepted %q with an odd number of digits", name, tok)
				}
			default:
				want, _ := hex.DecodeString(string(body))
				c.Obs("bytes_exact", 1)
				if o.err != nil || !bytes.Equal(o.b, want) {
					c.Violate("bytes:wrong-value", map[string]any{"token": string(tok), "got": hex.EncodeToString(o.b), "prefill": prefill},
						"%s(%q) = %x, %v; want %x", name, tok, o.b, o.err, want)
				}
			}
		}
	}
}

// posClass tells where the first non-hex character sits (the decoder treats
// digits beyond the 16th differently, so the position is part of the key).
func posClass(body []byte) string {
	for i, b := range body {
		if !isHex(b) {
			if i >= 16 {
				return "after-16-digits"
			}
			return "within-16-digits"
		}
	}
	return "none"
}

func c17Run(c *vk.Case) {
	if c.Index < c17Chunks {
		maxLen := 5
		if c.Thorough() {
			maxLen = 6
		}
		k := len(c17Alphabet)
		var n, idx int64
		tok := make([]byte, 0, maxLen)
		for l := 0; l <= maxLen; l++ {
			total := int64(1)
			for i := 0; i < l; i++ {
				total *= int64(k)
			}
			for t := int64(0); t < total; t++ {
				idx++
				if idx%c17Chunks != int64(c.Index) {
					continue
				}
				tok = tok[:0]
				x := t
				for i := 0; i < l; i++ {
					tok = append(tok, c17Alphabet[x%int64(k)])
					x /= int64(k)
				}
				c17Token(c, tok, false)
				if n%4 == 0 || (l >= 4 && tok[0] == '"') {
					c17Token(c, tok, true)
				}
				n++
			}
		}
		if c.Index == 0 {
			// every byte value at every position of valid quantities and byte strings (control bytes, high bytes,
			// characters next to the digit ranges): only the 22 hex digits may be accepted there
			for _, base := range []string{"1", "10", "abc", "0123456789abcdef", "fedcba9876543210ff", "00"} {
				for pos := 0; pos < len(base); pos++ {
					for b := 0; b < 256; b++ {
						if b == '"' || b == '\\' {
							continue // ends or escapes the JSON string: another token shape (covered by the alphabet)
						}
						body := []byte(base)
						body[pos] = byte(b)
						tok := append(append([]byte(`"0x`), body...), '"')
						c17Token(c, tok, false)
						c17Token(c, tok, true)
						n += 2
						c.Obs("byte_sweep_tokens", 2)
					}
				}
			}
		}
		c.Obs("tokens", n)
		c.Evals(n)
		c.SetSig("tokens:chunk=%d", c.Index)
		if c.Index == 0 {
			c.Sample(map[string]any{"family": "exhaustive-tokens", "examples": []string{`"0xg"`, `null`, `"0x`, `"0x1F"`, `"0X1"`}, "max_len": maxLen})
		}
		return
	}
	r := c.R
	fam := (c.Index - c17Chunks) % 4
	switch fam {
	case 0: // uint64 spellings
		var n int64
		vals := []uint64{0, 1, 9, 10, 15, 16, 255, 256, 1<<16 - 1, 1 << 16, 1<<32 - 1, 1 << 32, 1<<53 - 1, 1 << 53, 1<<63 - 1, 1 << 63, 1<<64 - 1, 1<<64 - 2, 0xfedcba9876543210, 0x0123456789abcdef}
		for sh := 0; sh < 16; sh++ {
			for nib := uint64(1); nib < 16; nib++ {
				vals = append(vals, nib<<(4*uint(sh)))
			}
		}
		for i := 0; i < 600; i++ {
			vals = append(vals, r.U64()>>uint(r.Intn(64)))
		}
		for _, v := range vals {
			digits := strconv.FormatUint(v, 16)
			// leading zeros up to 16 digits total
			if pad := 16 - len(digits); pad > 0 && r.Chance(1, 2) {
				digits = strings.Repeat("0", r.Intn(pad+1)) + digits
			}
			// … and beyond: a quantity padded with zeros to 32 bytes (or any other width) is still a spelling of
			// the same 64-bit value
			if r.Chance(1, 5) {
				digits = strings.Repeat("0", vk.Pick(r, []int{17, 18, 24, 32, 40, 64, r.Range(17, 80)})-min(16, len(digits))) + digits
				c.Obs("quantities_padded_beyond_16_digits", 1)
			}
			db := []byte(digits)
			mode := r.Intn(3)
			for i := range db {
				if db[i] >= 'a' && db[i] <= 'f' && (mode == 1 || mode == 2 && r.Bool()) {
					db[i] -= 32
				}
			}
			tok := []byte(`"0x` + string(db) + `"`)
			c17Token(c, tok, r.Chance(1, 3))
			c.SetSig("u64:digits=%d:case=%d", len(db), mode)
			// hostile variants: one non-hex char at every position, also beyond 16 digits
			if r.Chance(1, 4) {
				ext := append([]byte(nil), db...)
				for len(ext) < r.Range(len(db), 24) {
					ext = append(ext, "0123456789abcdefABCDEF"[r.Intn(22)])
				}
				p := r.Intn(len(ext))
				ext[p] = "gG zZ-:/@`\x00\xff"[r.Intn(12)]
				c17Token(c, []byte(`"0x`+string(ext)+`"`), false)
				c.SetSig("u64:hostile:pos>=16=%v", p >= 16)
			}
			// longer all-hex strings: only no panic
			if r.Chance(1, 8) {
				long := digits + strings.Repeat("f", r.Range(1, 40))
				c17Token(c, []byte(`"0x`+long+`"`), false)
			}
			n++
		}
		// EncodeUint64 / DecodeUint64 helpers on valid input
		for i := 0; i < 200; i++ {
			v := r.U64() >> uint(r.Intn(64))
			s := eth.EncodeUint64(v)
			if s != "0x"+strconv.FormatUint(v, 16) {
				c.Violate("EncodeUint64:wrong", map[string]any{"v": v, "got": s}, "EncodeUint64(%d)=%s", v, s)
			}
			if got := eth.DecodeUint64(s); got != v {
				c.Violate("DecodeUint64:wrong", map[string]any{"v": v, "got": got}, "DecodeUint64(%s)=%d", s, got)
			}
		}
		c.Evals(n)
		c.Sample(map[string]any{"family": "uint64-spellings", "example": `"0x00FEdcBA9876543210"`})
	case 1: // byte strings
		var n int64
		for i := 0; i < 120; i++ {
			l := []int{0, 1, 2, 19, 20, 31, 32, 33, 64, 255, 256, 257, 1024, 4096, 8192}[r.Intn(15)]
			if r.Chance(1, 3) {
				l = r.Intn(8193)
			}
			raw := r.Bytes(l)
			hx := []byte(hex.EncodeToString(raw))
			mode := r.Intn(3)
			for j := range hx {
				if hx[j] >= 'a' && hx[j] <= 'f' && (mode == 1 || mode == 2 && r.Bool()) {
					hx[j] -= 32
				}
			}
			tok := []byte(`"0x` + string(hx) + `"`)
			c17Token(c, tok, r.Chance(1, 3))
			c.SetSig("bytes:lenclass=%d:case=%d", lenClass(l), mode)
			if len(hx) > 0 && r.Chance(1, 3) {
				bad := append([]byte(nil), hx...)
				bad[r.Intn(len(bad))] = "gG zZ-"[r.Intn(6)]
				c17Token(c, []byte(`"0x`+string(bad)+`"`), false)
				odd := append([]byte(nil), hx[:len(hx)-1]...)
				c17Token(c, []byte(`"0x`+string(odd)+`"`), false)
				c.SetSig("bytes:hostile")
			}
			// helpers
			if got := eth.DecodeHex(eth.EncodeHex(raw)); !bytes.Equal(got, raw) {
				c.Violate("DecodeHex:roundtrip", map[string]any{"len": l}, "DecodeHex(EncodeHex(x)) != x for len %d", l)
			}
			if eth.EncodeHex(raw) != "0x"+hex.EncodeToString(raw) {
				c.Violate("EncodeHex:wrong", nil, "EncodeHex mismatch")
			}
			// Bytes.Write
			var dst eth.Bytes = r.Bytes(r.Intn(64))
			dst.Write(raw)
			if !bytes.Equal(dst, raw) {
				c.Violate("Bytes.Write:wrong", map[string]any{"len": l}, "Bytes.Write left %x want %x", dst, raw)
			}
			n++
		}
		c.Evals(n)
		c.Sample(map[string]any{"family": "byte-strings", "lengths": "0..8192"})
	case 2: // reuse sequences
		var n int64
		for s := 0; s < 40; s++ {
			var dst eth.Bytes
			var wdst eth.Bytes
			steps := r.Range(2, 20)
			var lens []int
			for k := 0; k < steps; k++ {
				l := r.Intn(70)
				if r.Chance(1, 5) {
					l = r.Intn(3000)
				}
				lens = append(lens, l)
				raw := r.Bytes(l)
				tok := []byte(`"0x` + hex.EncodeToString(raw) + `"`)
				if r.Chance(1, 6) {
					// JSON null (e.g. "to": null of a contract creation) and the empty string "0x" decode to
					// no bytes: nothing of the previous value may stay in the destination
					raw = nil
					tok = []byte(vk.Pick(r, []string{"null", `"0x"`}))
					c.Obs("reuse_null_or_empty", 1)
				}
				var err error
				func() {
					defer func() {
						if rc := recover(); rc != nil {
							err = fmt.Errorf("panic: %v", rc)
							c.Violate("panic:Bytes-reuse", map[string]any{"lens": lens}, "Bytes.UnmarshalJSON panicked on reuse: %v", rc)
						}
					}()
					if r.Bool() {
						err = dst.UnmarshalJSON(tok)
					} else {
						err = gojson.Unmarshal(tok, &dst)
					}
				}()
				if err != nil || !bytes.Equal(dst, raw) {
					c.Violate("bytes:reuse-stale", map[string]any{"lens": lens, "got": hex.EncodeToString(dst), "want": hex.EncodeToString(raw)},
						"decode into reused destination: got %d bytes, want %d (err %v)", len(dst), len(raw), err)
				}
				wdst.Write(raw)
				if !bytes.Equal(wdst, raw) {
					c.Violate("Bytes.Write:reuse-stale", map[string]any{"lens": lens}, "Write into reused destination left stale bytes")
				}
				c.Obs("reuse_decodes", 1)
				n++
			}
			c.SetSig("reuse:steps=%d:grow=%v", steps/5, lens[len(lens)-1] > lens[0])
		}
		// the same for a struct decoded repeatedly by goccy (as the client does with eth.Log)
		var lg eth.Log
		for k := 0; k < 30; k++ {
			data := r.Bytes(r.Intn(100))
			addr := r.Bytes(20)
			nt := r.Intn(5)
			var topics []string
			var rawTopics [][]byte
			for i := 0; i < nt; i++ {
				t := r.Bytes(32)
				rawTopics = append(rawTopics, t)
				topics = append(topics, `"0x`+hex.EncodeToString(t)+`"`)
			}
			js := fmt.Sprintf(`{"logIndex":"0x%x","address":"0x%x","topics":[%s],"data":"0x%x"}`, k, addr, strings.Join(topics, ","), data)
			if err := gojson.Unmarshal([]byte(js), &lg); err != nil {
				c.Violate("log:reuse-error", map[string]any{"json": js}, "decoding log into reused struct: %v", err)
				continue
			}
			okk := uint64(lg.Idx) == uint64(k) && bytes.Equal(lg.Address, addr) && bytes.Equal(lg.Data, data) && len(lg.Topics) == nt
			for i := 0; okk && i < nt; i++ {
				okk = bytes.Equal(lg.Topics[i], rawTopics[i])
			}
			if !okk {
				c.Violate("log:reuse-stale", map[string]any{"json": js}, "log decoded into reused struct differs from its JSON")
			}
			c.Obs("reuse_decodes", 1)
			n++
		}
		// a transaction decoded into a reused struct: "to": null after a transfer must leave no recipient
		var tx eth.Tx
		for k := 0; k < 20; k++ {
			to := r.Bytes(20)
			js := fmt.Sprintf(`{"transactionIndex":"0x%x","to":"0x%x","input":"0x%x"}`, k, to, r.Bytes(r.Intn(40)))
			creation := r.Chance(1, 3)
			if creation {
				js = fmt.Sprintf(`{"transactionIndex":"0x%x","to":null,"input":"0x%x"}`, k, r.Bytes(r.Intn(40)))
			}
			if err := gojson.Unmarshal([]byte(js), &tx); err != nil {
				c.Violate("tx:reuse-error", map[string]any{"json": js}, "decoding tx into reused struct: %v", err)
				continue
			}
			if creation && len(tx.To) != 0 || !creation && !bytes.Equal(tx.To, to) {
				c.Violate("tx:reuse-stale-to", map[string]any{"json": js, "got_to": hex.EncodeToString(tx.To)}, "tx decoded into a reused struct keeps recipient %x (json: %s)", tx.To, js)
			}
			c.Obs("reuse_decodes", 1)
			n++
		}
		c.Evals(n)
		c.Sample(map[string]any{"family": "reuse-sequences"})
	case 3: // bint
		var n int64
		for i := 0; i < 3000; i++ {
			v := r.U64() >> uint(r.Intn(64))
			if i < 70 {
				v = []uint64{0, 1, 255, 256, 1<<16 - 1, 1 << 16, 1<<56 - 1, 1 << 56, 1<<63 - 1, 1 << 63, 1<<64 - 1}[i%11]
			}
			size := 1
			for x := v >> 8; x > 0; x >>= 8 {
				size++
			}
			enc := bint.Encode(nil, v)
			if len(enc) != size || bint.Decode(enc) != v {
				c.Violate("bint:minimal", map[string]any{"v": v, "enc": hex.EncodeToString(enc)}, "bint.Encode(nil,%d)=%x decode=%d", v, enc, bint.Decode(enc))
			}
			for pad := 1; pad <= 32; pad++ {
				if pad < size {
					continue
				}
				buf := make([]byte, pad)
				out := bint.Encode(buf, v)
				want := make([]byte, pad)
				for k, x := pad-1, v; x > 0; k, x = k-1, x>>8 {
					want[k] = byte(x)
				}
				if !bytes.Equal(out, want) || bint.Decode(out) != v || bint.Uint64(out) != v {
					c.Violate("bint:padded", map[string]any{"v": v, "pad": pad, "enc": hex.EncodeToString(out)}, "bint round trip of %d with pad %d: %x -> %d", v, pad, out, bint.Decode(out))
				}
				c.Obs("bint_roundtrips", 1)
				n++
			}
			c.SetSig("bint:size=%d", size)
		}
		c.Evals(n)
		c.Sample(map[string]any{"family": "bint", "pads": "1..32"})
	}
}

func lenClass(l int) int {
	switch {
	case l == 0:
		return 0
	case l < 32:
		return 1
	case l == 32:
		return 2
	case l < 256:
		return 3
	case l < 4096:
		return 4
	}
	return 5
}
