package checks

import (
	"bytes"
	"context"
	"encoding/base64"
	"encoding/hex"
	"encoding/json"
	"fmt"
	"io"
	"log/slog"
	"mime/multipart"
	"net/http"
	"net/http/httptest"
	"net/url"
	"os"
	"runtime/debug"
	"strings"
	"sync"
	"unicode"

	"github.com/indexsupply/shovel/shovel/config"
	"github.com/indexsupply/shovel/shovel/web"
	"github.com/indexsupply/shovel/wos"

	"verif/harness/vk"
)

// C19 — dashboard pages that change configuration require authentication.
//
// Part (a), handler level (this file): the real web.Handler.Authn wraps a
// sentinel handler; every request of an exhaustive grid is compared with the
// three-clause predicate of the statement. Sessions are obtained the way a user
// obtains them: POST /login to web.Handler.Login. A generated password is
// learned the way an operator learns it: from the "random-temp-password" log
// record (slog), never from the unexported field.
//
// Part (b), route level (real binary), is reserved for the LAST case index.
//
// Case layout:
//   0 .. 31            request grid, one residue class each
//   32 .. 39           login grid, one (switches, password kind) combination each
//   40                 exhaustive single-byte mutations of one valid cookie
//   41 .. n-2          random families (guesses, cookies, remotes, orderings/restart)
//   n-1                ROUTE-LEVEL HOOK (part b) — currently records route_level_skipped

const (
	c19GridChunks   = 32
	c19LoginCases   = 8
	c19MutCase      = c19GridChunks + c19LoginCases
	c19RandBase     = c19MutCase + 1
	c19RandQuick    = 24
	c19RandThorough = 160
)

// c19PerRand: iterations of one random case (thorough: 40 cases per family x 600 = 24 000 guesses and 24 000 cookies).
func c19PerRand(c *vk.Case) int {
	if c.Thorough() {
		return 600
	}
	return 250
}

func c19NCases(tier string) int {
	if tier == "thorough" {
		return c19RandBase + c19RandThorough + 1
	}
	return c19RandBase + c19RandQuick + 1
}

// ---- grid axes

type c19Remote struct {
	Label    string
	Format   string // %d = port
	Loopback bool   // by the statement ("comes from a loopback address"); cross-checked against c19RefLoopback
}

var c19Remotes = []c19Remote{
	{"lo4", "127.0.0.1:%d", true},
	{"lo4-other", "127.9.9.9:%d", true},
	{"lo6", "[::1]:%d", true},
	{"lo4-mapped", "[::ffff:127.0.0.1]:%d", true},
	{"private4", "10.0.0.1:%d", false},
	{"testnet4", "192.0.2.2:%d", false},
	{"public4", "8.8.8.8:%d", false},
	{"public6", "[2001:db8::1]:%d", false},
	{"lo4-noport", "127.0.0.1", false},
	{"garbage", "garbage", false},
	{"empty", "", false},
}

func (r c19Remote) Addr(port int) string {
	if strings.Contains(r.Format, "%d") {
		return fmt.Sprintf(r.Format, port)
	}
	return r.Format
}

const (
	c19CkNone = iota
	c19CkGarbage
	c19CkTruncated
	c19CkMintedThis
	c19CkMintedThisLoopbackLogin
	c19CkMintedOther
	c19CkMintedBeforeRestart
	c19CkOtherName
	c19NCookieClasses
)

var c19CookieLabels = []string{"none", "garbage", "truncated-valid", "minted-this", "minted-this-loopback-login", "minted-other-instance", "minted-before-restart", "valid-under-other-name"}

var c19Methods = []string{"GET", "POST", "PUT", "HEAD"}

var c19Paths = []string{"/add-source", "/save-source", "/add-integration", "/save-integration", "/task-updates"}

const c19GridPoints = 2 * 2 * 2 * 11 * c19NCookieClasses * 4

func init() {
	vk.Register(&vk.Check{
		ID:        "C19",
		Level:     "exploration",
		Technique: "reference-predicate oracle over exhaustive request grid + sentinel handler",
		Rule: fmt.Sprintf("cases 0..31 enumerate completely (one residue class each) the grid DisableAuthn{f,t} x EnableLoopbackAuthn{f,t} x password{configured,generated} x RemoteAddr{127.0.0.1:p, 127.9.9.9:p, [::1]:p, [::ffff:127.0.0.1]:p, 10.0.0.1:p, 192.0.2.2:p, 8.8.8.8:p, [2001:db8::1]:p, 127.0.0.1 without port, garbage, empty} x "+
			"cookie{none, garbage, truncated valid, minted by this handler via POST /login from a public address, same via a loopback login, minted by another web.New with equal configuration, minted by the predecessor web.New of the same configuration (restart), valid value under another cookie name} x method{GET,POST,PUT,HEAD} = %d requests through the real Handler.Authn around a sentinel; "+
			"cases 32..39 enumerate per (switches, password kind) the login grid remote(11) x method(7) x transport{form,query,both,multipart} x guess class (wrong same length, first/last byte changed, empty, absent, prefixes, +extra byte, +NUL, spaces, 64KiB, other letter case, doubled, right); "+
			"case 40 substitutes every byte position of one valid cookie by every other base64url symbol and '=', deletes every position, inserts at every position, truncates at every length; "+
			"remaining cases are random: wrong-password guesses (random and near-miss), random/multi-byte-mutated/spliced cookies, remote addresses generated from numeric values in several spellings, login orderings (loopback/non-loopback) and cross-instance/restart cookie exchange; the last case is reserved for the route-level part. "+
			"A signature is (switches, password kind, remote, cookie class, method, expected outcome) for the grid (so the grid contributes exactly its number of points), (switches, password kind, loopback?, method, transport, guess class, issued?) for the login grid and (family, class, outcome) elsewhere; every signature is non-trivial (a request reached the handler).", c19GridPoints),
		Assumptions: []string{
			"oracle: served <=> DisableAuthn OR (remote is loopback AND NOT EnableLoopbackAuthn) OR the request carries a session minted by a successful POST /login to this handler instance; otherwise 303 to /login and the sentinel has not run",
			"loopback (written independently of net.IP.IsLoopback): RemoteAddr must be host:port or [v6]:port with a numeric port; 127.0.0.0/8, ::1 and IPv4-mapped ::ffff:127.x.y.z are loopback; IPv4-compatible ::127.0.0.1, addresses without port, malformed and empty RemoteAddr are not loopback; spellings whose reading is debatable (zone ids, bracketed IPv4, empty port, inet_aton short forms) are not generated",
			"a cookie 'carries the session' iff its value, after net/http cookie parsing, base64url-decodes to exactly the byte string of the minted value: non-canonical trailing bits of the last quantum and an incomplete trailing quantum (1-3 junk symbols appended after the complete token, which decode to no byte) are other spellings of the same authenticated token and count as the session (observed: kr/session+age accept them; they are counted in mutants_spelling_same_token); every value with different token bytes must be rejected",
			"cookie names are case-sensitive and the session cookie name is whatever Set-Cookie of the successful login said; two cookies of that name in one request are not generated",
			"a wrong password is any presented value that is not byte-equal to the configured/generated password; an attempt issues a session if its response carries a Set-Cookie that the protected handler then accepts from a public address (or any Set-Cookie when authentication is disabled and acceptance cannot be probed)",
			"a right password presented other than by POST form (query only, multipart, other methods) may or may not issue a session: the statement constrains wrong passwords only; outcome is recorded in observed_sets",
			"the generated password is learned from the slog record 'random-temp-password' that Login emits (the operator's way); the age cookie key comes from crypto/rand inside web.New and is therefore not derived from VERIF_SEED; everything else is",
			"in-process httptest requests: RemoteAddr is set directly; web.New(nil, conf, nil) is used because Authn/Login touch neither the manager nor the pool",
			"logins are sequential (concurrent logins are outside this part)",
		},
		NCases:           c19NCases,
		Run:              c19Run,
		CrashIsViolation: true,
		Exhaustive:       func(string) bool { return true },
		CaseTimeoutS:     300,
		MinObs: func(tier string) map[string]int64 {
			m := map[string]int64{
				"route_level_runs":                1,
				"route_protected_unauthenticated": 5,
				"requests":                        25000,
				"grid_points":                     c19GridPoints,
				"served":                          3000,
				"redirected":                      20000,
				"sessions_minted":                 300,
				"cookies_rejected":                20000,
				"login_attempts":                  20000,
				"login_wrong_rejected":            20000,
				"login_right_accepted":            300,
				"generated_password_learned":      40,
				"single_byte_mutants":             15000,
				"cross_instance_rejections":       100,
			}
			if tier == "thorough" {
				m["random_guesses"] = 20000
				m["random_cookies"] = 20000
				m["random_remotes"] = 20000
			}
			return m
		},
		Extra: func(tier string) map[string]any {
			return map[string]any{"grid_exhaustive": true, "grid_points_planned": c19GridPoints, "route_level": "last case: real cmd/shovel binary against fakepg + simnode, every registered path without and with a session (c19route.go)"}
		},
	})
}

// ---- reference: loopback, written from the statement, independent of package net

func c19Digits(s string, max int) bool {
	if s == "" || len(s) > max {
		return false
	}
	for i := 0; i < len(s); i++ {
		if s[i] < '0' || s[i] > '9' {
			return false
		}
	}
	return true
}

func c19SplitHostPort(s string) (string, bool) {
	if s == "" {
		return "", false
	}
	if s[0] == '[' {
		j := strings.IndexByte(s, ']')
		if j < 0 {
			return "", false
		}
		rest := s[j+1:]
		if len(rest) < 2 || rest[0] != ':' || !c19Digits(rest[1:], 5) {
			return "", false
		}
		host := s[1:j]
		if !strings.Contains(host, ":") {
			return "", false
		}
		return host, true
	}
	j := strings.LastIndexByte(s, ':')
	if j < 0 {
		return "", false
	}
	host := s[:j]
	if strings.Contains(host, ":") || !c19Digits(s[j+1:], 5) {
		return "", false
	}
	return host, true
}

func c19ParseV4(s string) ([4]byte, bool) {
	var out [4]byte
	parts := strings.Split(s, ".")
	if len(parts) != 4 {
		return out, false
	}
	for i, p := range parts {
		if !c19Digits(p, 3) || (len(p) > 1 && p[0] == '0') {
			return out, false
		}
		n := 0
		for _, ch := range p {
			n = n*10 + int(ch-'0')
		}
		if n > 255 {
			return out, false
		}
		out[i] = byte(n)
	}
	return out, true
}

func c19ParseV6(s string) ([16]byte, bool) {
	var out [16]byte
	if s == "" || strings.Contains(s, "%") {
		return out, false
	}
	var tail []byte
	if i := strings.LastIndexByte(s, ':'); i >= 0 && strings.Contains(s[i+1:], ".") {
		v4, ok := c19ParseV4(s[i+1:])
		if !ok {
			return out, false
		}
		tail = v4[:]
		s = s[:i+1]
		if !strings.HasSuffix(s, "::") {
			s = s[:len(s)-1]
		}
	}
	want := 8
	if tail != nil {
		want = 6
	}
	groups := func(part string) ([]uint16, bool) {
		if part == "" {
			return nil, true
		}
		var gs []uint16
		for _, g := range strings.Split(part, ":") {
			if g == "" || len(g) > 4 {
				return nil, false
			}
			var v uint16
			for i := 0; i < len(g); i++ {
				ch := g[i]
				var d byte
				switch {
				case ch >= '0' && ch <= '9':
					d = ch - '0'
				case ch >= 'a' && ch <= 'f':
					d = ch - 'a' + 10
				case ch >= 'A' && ch <= 'F':
					d = ch - 'A' + 10
				default:
					return nil, false
				}
				v = v<<4 | uint16(d)
			}
			gs = append(gs, v)
		}
		return gs, true
	}
	var all []uint16
	if dc := strings.Index(s, "::"); dc >= 0 {
		if strings.Contains(s[dc+2:], "::") {
			return out, false
		}
		h, ok1 := groups(s[:dc])
		t, ok2 := groups(s[dc+2:])
		if !ok1 || !ok2 || len(h)+len(t) > want-1 {
			return out, false
		}
		all = append(all, h...)
		all = append(all, make([]uint16, want-len(h)-len(t))...)
		all = append(all, t...)
	} else {
		g, ok := groups(s)
		if !ok || len(g) != want {
			return out, false
		}
		all = g
	}
	for i, g := range all {
		out[2*i] = byte(g >> 8)
		out[2*i+1] = byte(g)
	}
	if tail != nil {
		copy(out[12:], tail)
	}
	return out, true
}

func c19Loopback16(a [16]byte) bool {
	zero := func(lo, hi int) bool {
		for i := lo; i < hi; i++ {
			if a[i] != 0 {
				return false
			}
		}
		return true
	}
	if zero(0, 15) && a[15] == 1 {
		return true // ::1
	}
	if zero(0, 10) && a[10] == 0xff && a[11] == 0xff {
		return a[12] == 127 // IPv4-mapped 127/8
	}
	return false
}

// c19RefLoopback: does the request "come from a loopback address"?
func c19RefLoopback(remote string) bool {
	host, ok := c19SplitHostPort(remote)
	if !ok {
		return false
	}
	if v4, ok := c19ParseV4(host); ok {
		return v4[0] == 127
	}
	if v6, ok := c19ParseV6(host); ok {
		return c19Loopback16(v6)
	}
	return false
}

// c19Expect is the statement's predicate.
func c19Expect(disable, lbAuthn, loopback, session bool) (bool, string) {
	switch {
	case disable:
		return true, "authn-disabled"
	case loopback && !lbAuthn:
		return true, "loopback"
	case session:
		return true, "session"
	}
	return false, ""
}

// ---- learning the generated password from the log, as an operator does

type c19LogCapture struct {
	mu sync.Mutex
	pw string
}

func (h *c19LogCapture) Enabled(context.Context, slog.Level) bool { return true }
func (h *c19LogCapture) Handle(_ context.Context, r slog.Record) error {
	if r.Message != "random-temp-password" {
		return nil
	}
	r.Attrs(func(a slog.Attr) bool {
		if a.Key == "password" {
			h.mu.Lock()
			h.pw = a.Value.String()
			h.mu.Unlock()
		}
		return true
	})
	return nil
}
func (h *c19LogCapture) WithAttrs([]slog.Attr) slog.Handler { return h }
func (h *c19LogCapture) WithGroup(string) slog.Handler      { return h }

var (
	c19Cap     = &c19LogCapture{}
	c19CapOnce sync.Once
)

func c19InstallCapture() {
	// the worker process runs this property only; the handler drops everything
	// except the one record it looks for and stays installed.
	c19CapOnce.Do(func() { slog.SetDefault(slog.New(c19Cap)) })
}

// ---- one handler instance under test

type c19Out struct {
	Ran       int      `json:"sentinel_ran"`
	Status    int      `json:"status"`
	Location  string   `json:"location,omitempty"`
	SetCookie []string `json:"set_cookie,omitempty"`
	Panicked  bool     `json:"panicked,omitempty"`
}

type c19Inst struct {
	c          *vk.Case
	disable    bool
	lbAuthn    bool
	generated  bool
	conf       *config.Root
	h          *web.Handler
	pw         string // configured, or learned from the log ("" = could not be learned)
	configured string // the password as written in the configuration ("" when generated)
	pwEmptyOK  string // scratch: the learned password while the empty-password probe runs
	ran        int
	prot       http.Handler
	login      http.Handler
	ckName     string // name of the session cookie as issued
}

func c19NewHandler(c *vk.Case, conf *config.Root) (*web.Handler, string) {
	h := web.New(nil, conf, nil)
	pw := string(conf.Dashboard.RootPassword)
	if pw == "" && !conf.Dashboard.DisableAuthn {
		// no password configured: the very first request this process sees on /login is a POST with an empty (or no)
		// password; whatever the process does lazily about its temporary password, that is a wrong password
		prot := h.Authn(func(w http.ResponseWriter, r *http.Request) { w.Header().Set("X-Sentinel", "ran") })
		for _, body := range []string{"password=", "user=root"} {
			rec := httptest.NewRecorder()
			req := httptest.NewRequest("POST", "/login", strings.NewReader(body))
			req.Header.Set("Content-Type", "application/x-www-form-urlencoded")
			req.RemoteAddr = "203.0.113.9:4001"
			h.Login(rec, req)
			c.Obs("first_request_empty_password_probes", 1)
			cks := (&http.Response{Header: rec.Header()}).Cookies()
			if len(cks) == 0 {
				continue
			}
			rec2 := httptest.NewRecorder()
			req2 := httptest.NewRequest("GET", "/add-source", nil)
			req2.RemoteAddr = "8.8.8.8:40002"
			for _, ck := range cks {
				req2.AddCookie(ck)
			}
			prot.ServeHTTP(rec2, req2)
			if rec2.Header().Get("X-Sentinel") == "ran" {
				c.Violate("session-issued-for-wrong-password:empty-as-first-request", map[string]any{"body": body, "status": rec.Code, "set_cookie": rec.Header()["Set-Cookie"]},
					"no password configured: POST /login with %q as the first request of the process answered %d with a session a public client can use", body, rec.Code)
				break
			}
		}
	}
	if pw == "" {
		c19Cap.mu.Lock()
		c19Cap.pw = ""
		c19Cap.mu.Unlock()
		rec := httptest.NewRecorder()
		req := httptest.NewRequest("GET", "/login", nil)
		req.RemoteAddr = "203.0.113.9:4000"
		h.Login(rec, req)
		c19Cap.mu.Lock()
		pw = c19Cap.pw
		c19Cap.mu.Unlock()
		if len(rec.Header()["Set-Cookie"]) > 0 {
			c.Violate("session-issued-for-wrong-password:no-password-get", map[string]any{"set_cookie": rec.Header()["Set-Cookie"]}, "GET /login without any password set a cookie")
		}
		if pw == "" {
			c.Obs("generated_password_not_learned", 1)
		} else {
			c.Obs("generated_password_learned", 1)
			c.MaxObs("generated_password_len", int64(len(pw)))
		}
	}
	return h, pw
}

func c19NewInst(c *vk.Case, disable, lbAuthn, generated bool, password string) *c19Inst {
	in := &c19Inst{c: c, disable: disable, lbAuthn: lbAuthn, generated: generated}
	in.conf = &config.Root{}
	in.conf.Dashboard.DisableAuthn = disable
	in.conf.Dashboard.EnableLoopbackAuthn = lbAuthn
	if !generated {
		// through the configuration decoder, as the file is read — for passwords whose JSON spelling is the text itself
		// (wos.EnvString keeps the raw text between the quotes: JSON escapes are not undone, so a password that needs
		// escaping is configured by its escaped spelling; that quirk is outside the statement and not exercised)
		in.conf.Dashboard.RootPassword = wos.EnvString(password)
		doc, _ := json.Marshal(map[string]any{"dashboard": map[string]any{"root_password": password}})
		if strings.Contains(string(doc), `"`+password+`"`) {
			var root config.Root
			if err := json.Unmarshal(doc, &root); err != nil {
				c.Inconclusive("decoding the dashboard configuration: %v", err)
			}
			in.conf.Dashboard.RootPassword = root.Dashboard.RootPassword
			c.Obs("passwords_through_config_decoder", 1)
		}
	}
	in.adopt(c19NewHandler(c, in.conf))
	if !generated {
		in.pw = password // the password as written in the configuration, whatever the decoder made of it
		in.configured = password
	}
	return in
}

// adopt makes h the handler under test (used for "restart": same conf, new web.New).
func (in *c19Inst) adopt(h *web.Handler, pw string) {
	in.h, in.pw = h, pw
	if in.configured != "" {
		in.pw = in.configured
	}
	in.prot = h.Authn(func(w http.ResponseWriter, r *http.Request) {
		in.ran++
		w.Header().Set("X-Sentinel", "ran")
		w.WriteHeader(http.StatusOK)
	})
	in.login = http.HandlerFunc(h.Login)
}

func (in *c19Inst) pwKind() string {
	if in.generated {
		return "generated"
	}
	return "configured"
}

type c19Req struct {
	Method string `json:"method"`
	Target string `json:"target"`
	Remote string `json:"remote"`
	Cookie string `json:"cookie_header,omitempty"`
	Body   string `json:"body,omitempty"`
	CType  string `json:"content_type,omitempty"`
	// Extra request headers ("Name: value"); the peer address alone decides "comes
	// from a loopback address", whatever a client claims in forwarding headers
	Extra []string `json:"extra_headers,omitempty"`
}

func c19Short(s string, n int) string {
	if len(s) <= n {
		return s
	}
	return fmt.Sprintf("%s...(%d bytes)", s[:n], len(s))
}

func (q c19Req) short() c19Req {
	q.Target = c19Short(q.Target, 200)
	q.Cookie = c19Short(q.Cookie, 600)
	q.Body = c19Short(q.Body, 200)
	return q
}

func (in *c19Inst) do(handler http.Handler, q c19Req) (out c19Out) {
	var body io.Reader
	if q.Body != "" {
		body = strings.NewReader(q.Body)
	}
	req := httptest.NewRequest(q.Method, q.Target, body)
	req.RemoteAddr = q.Remote
	if q.Cookie != "" {
		req.Header.Set("Cookie", q.Cookie)
	}
	if q.CType != "" {
		req.Header.Set("Content-Type", q.CType)
	}
	for _, h := range q.Extra {
		if k, v, ok := strings.Cut(h, ": "); ok {
			req.Header.Set(k, v)
		}
	}
	rec := httptest.NewRecorder()
	in.ran = 0
	in.c.Evals(1)
	func() {
		defer func() {
			if r := recover(); r != nil {
				out.Panicked = true
				st := string(debug.Stack())
				if i := strings.Index(st, "panic("); i >= 0 {
					st = st[i:]
				}
				fr := vk.TopShovelFrame(st)
				if fr == "" {
					in.c.Inconclusive("panic outside shovel while serving %+v: %v", q.short(), r)
					return
				}
				in.c.Violate("panic:"+fr, map[string]any{"request": q.short(), "panic": fmt.Sprint(r), "config": in.confDetail()}, "panic in %s serving %s %s from %q: %v", fr, q.Method, c19Short(q.Target, 80), q.Remote, r)
			}
		}()
		handler.ServeHTTP(rec, req)
	}()
	out.Ran = in.ran
	out.Status = rec.Code
	out.Location = rec.Header().Get("Location")
	out.SetCookie = append([]string(nil), rec.Header()["Set-Cookie"]...)
	return out
}

func (in *c19Inst) confDetail() map[string]any {
	return map[string]any{"disable_authn": in.disable, "enable_loopback_authn": in.lbAuthn, "password": in.pwKind()}
}

func c19Cookies(out c19Out) []*http.Cookie {
	if len(out.SetCookie) == 0 {
		return nil
	}
	return (&http.Response{Header: http.Header{"Set-Cookie": out.SetCookie}}).Cookies()
}

// mint performs a real login with the given password on handler lh and returns the cookie.
func (in *c19Inst) mint(lh http.Handler, pw, remote string) *http.Cookie {
	if pw == "" {
		return nil
	}
	q := c19Req{Method: "POST", Target: "/login", Remote: remote, Body: "password=" + url.QueryEscape(pw), CType: "application/x-www-form-urlencoded"}
	out := in.do(lh, q)
	in.c.Obs("login_attempts", 1)
	cks := c19Cookies(out)
	if (len(cks) == 0 || cks[0].Value == "") && lh != nil && pw == in.configured && strings.Contains(pw, "$") {
		// the configured password is refused: does the process accept what a shell-style expansion makes of it?
		for _, g := range []c19Guess{{"dollar-expanded", os.Expand(pw, func(string) string { return "" }), true}, {"dollar-cut", pw[:strings.IndexByte(pw, '$')], true}} {
			if g.Val != pw {
				in.attempt(c19LoginReq("POST", "form", g, remote), g, "form")
			}
		}
	}
	if len(cks) == 0 || cks[0].Value == "" {
		in.c.Inconclusive("login with the right %s password from %q issued no session (status %d): clause 3 cannot be exercised", in.pwKind(), remote, out.Status)
		return nil
	}
	in.c.Obs("sessions_minted", 1)
	in.c.Obs("login_right_accepted", 1)
	if !cks[0].Secure {
		in.c.Obs("session_cookie_without_secure_flag", 1)
	}
	if in.ckName == "" {
		in.ckName = cks[0].Name
	}
	return cks[0]
}

// judge compares one protected request with the predicate. remoteClass/cookieClass
// only label the violation key.
func (in *c19Inst) judge(q c19Req, out c19Out, remoteClass, cookieClass string, loopback, session bool) bool {
	c := in.c
	c.Obs("requests", 1)
	if out.Panicked {
		return false
	}
	want, clause := c19Expect(in.disable, in.lbAuthn, loopback, session)
	detail := map[string]any{"request": q.short(), "config": in.confDetail(), "remote_is_loopback": loopback, "carries_session_of_this_instance": session, "cookie_class": cookieClass, "observed": out, "expected_served": want, "clause": clause}
	if len(out.SetCookie) > 0 && !session && !in.disable {
		// a request that carried no session of this process left with a cookie: it must not be a session (only a
		// successful password login issues one). Replayed from a public address it has to be refused.
		hdr := ""
		for i, ck := range c19Cookies(out) {
			if i > 0 {
				hdr += "; "
			}
			hdr += ck.Name + "=" + ck.Value
		}
		po := in.do(in.prot, c19Req{Method: "GET", Target: "/add-source", Remote: "8.8.8.8:40001", Cookie: hdr})
		c.Obs("cookies_from_unauthenticated_requests_replayed", 1)
		if po.Ran > 0 {
			c.Violate("session-issued-without-login:remote="+remoteClass, merge(detail, map[string]any{"set_cookie": out.SetCookie}),
				"%s %s from %q (no session) left with a cookie that a public client can replay to reach the protected handler", q.Method, q.Target, q.Remote)
			return false
		}
	}
	if want {
		switch {
		case out.Ran == 0:
			c.Violate("not-served-although-authorised:"+clause, detail, "%s %s from %q cookie=%s: clause %q holds but the protected handler did not run (status %d, Location %q)", q.Method, q.Target, q.Remote, cookieClass, clause, out.Status, out.Location)
			return false
		case out.Ran > 1:
			c.Violate("served-more-than-once:"+clause, detail, "protected handler ran %d times for one request", out.Ran)
			return false
		case out.Status != http.StatusOK || out.Location != "":
			c.Violate("served-but-redirected:"+clause, detail, "handler ran but the response is %d Location %q", out.Status, out.Location)
			return false
		}
		c.Obs("served", 1)
		c.Obs("served_by_"+clause, 1)
		return true
	}
	switch {
	case out.Ran > 0:
		c.Violate(fmt.Sprintf("served-without-auth:remote=%s:cookie=%s:disable=%v:loopbackauthn=%v", remoteClass, cookieClass, in.disable, in.lbAuthn), detail,
			"%s %s from %q cookie=%s (disable_authn=%v enable_loopback_authn=%v): no clause of the statement holds but the protected handler ran (status %d)", q.Method, q.Target, q.Remote, cookieClass, in.disable, in.lbAuthn, out.Status)
		return false
	case out.Status != http.StatusSeeOther:
		c.Violate(fmt.Sprintf("redirect-wrong:status=%d", out.Status), detail, "unauthenticated request answered %d instead of 303", out.Status)
		return false
	case out.Location != "/login":
		c.Violate("redirect-wrong:location", detail, "unauthenticated request redirected to %q instead of /login", out.Location)
		return false
	}
	c.Obs("redirected", 1)
	if cookieClass != "none" {
		c.Obs("cookies_rejected", 1)
	}
	return true
}

func c19Outcome(want bool) string {
	if want {
		return "served"
	}
	return "redirect"
}

// ---- generators

const c19B64 = "ABCDEFGHIJKLMNOPQRSTUVWXYZabcdefghijklmnopqrstuvwxyz0123456789-_"

func c19RandB64(r *vk.RNG, n int) string {
	b := make([]byte, n)
	for i := range b {
		b[i] = c19B64[r.Intn(64)]
	}
	return string(b)
}

var c19PwAlphabet = []string{"a", "b", "z", "Q", "R", "0", "7", " ", "&", "=", "%", "+", ";", "\"", "'", "<", ">", "\\", "/", "?", "#", "é", "ß", "世", "\x01", "~"}

func c19Password(r *vk.RNG) string {
	var sb strings.Builder
	sb.WriteString(vk.Pick(r, []string{"a", "k", "Z", "p"})) // at least one letter: the other-case guess differs
	n := r.Range(5, 23)
	for i := 0; i < n; i++ {
		sb.WriteString(vk.Pick(r, c19PwAlphabet))
	}
	if r.Chance(1, 3) {
		// a dollar sign inside the password (only a LEADING $ makes a configured value an environment reference)
		sb.WriteString(vk.Pick(r, []string{"$horse", "$$w0rd", "${Y}z", "$3cret", "$"}))
	}
	sb.WriteString(vk.Pick(r, []string{"x", "3", "!", "W"})) // no trailing space: keeps "+space" guesses distinct
	return sb.String()
}

func c19SwapCase(s string) string {
	return strings.Map(func(r rune) rune {
		switch {
		case r < 128 && unicode.IsLower(r):
			return unicode.ToUpper(r)
		case r < 128 && unicode.IsUpper(r):
			return unicode.ToLower(r)
		}
		return r
	}, s)
}

// c19TokenBytes reads a cookie value the way any base64url stream reader does:
// complete quanta yield bytes; an incomplete trailing quantum (1-3 symbols after
// the last complete one) yields none. ok=false if a complete quantum is corrupt.
func c19TokenBytes(v string) ([]byte, bool) {
	b, err := io.ReadAll(base64.NewDecoder(base64.URLEncoding, strings.NewReader(v)))
	return b, err == nil || err == io.ErrUnexpectedEOF
}

// c19SameToken: does value v spell the same token bytes as the minted value?
func c19SameToken(v, minted string) bool {
	if v == minted {
		return true
	}
	a, ok1 := c19TokenBytes(v)
	b, ok2 := c19TokenBytes(minted)
	return ok1 && ok2 && len(a) > 0 && bytes.Equal(a, b)
}

func c19CookieSafe(v string) bool {
	for i := 0; i < len(v); i++ {
		b := v[i]
		if b < 0x21 || b > 0x7e || b == '"' || b == ';' || b == '\\' || b == ',' {
			return false
		}
	}
	return true
}

// ---- case dispatch

func c19Run(c *vk.Case) {
	c19InstallCapture()
	n := c19NCases(c.Tier)
	switch {
	case c.Index == n-1:
		// ROUTE-LEVEL HOOK (part b: real cmd/shovel binary against fakepg + simnode,
		// every registered path without and with a session). Not implemented here.
		c19RouteLevel(c)
		return
	case c.Index < c19GridChunks:
		c19Grid(c)
	case c.Index < c19MutCase:
		c19LoginGrid(c, c.Index-c19GridChunks)
	case c.Index == c19MutCase:
		c19Mutations(c)
	default:
		switch (c.Index - c19RandBase) % 4 {
		case 0:
			c19RandGuesses(c)
		case 1:
			c19RandCookies(c)
		case 2:
			c19RandRemotes(c)
		case 3:
			c19Orderings(c)
		}
	}
}

// c19SelfCheck: the table of the grid and the reference parser must agree
// (a disagreement is a harness defect, not a finding).
func c19SelfCheck(c *vk.Case) bool {
	for _, rm := range c19Remotes {
		if got := c19RefLoopback(rm.Addr(4242)); got != rm.Loopback {
			c.Inconclusive("harness self-check: reference loopback(%q)=%v, table says %v", rm.Addr(4242), got, rm.Loopback)
			return false
		}
	}
	for s, want := range map[string]bool{
		"[0:0:0:0:0:0:0:1]:1": true, "[::0001]:1": true, "[::ffff:7f00:1]:1": true, "[0:0:0:0:0:ffff:127.1.2.3]:9": true,
		"[::127.0.0.1]:1": false, "[::2]:1": false, "[::]:1": false, "[fe80::1]:1": false, "128.0.0.1:1": false, "126.255.255.255:1": false,
		"[::ffff:128.0.0.1]:1": false, "[::1]": false, "::1": false, "127.0.0.1.1:1": false, "0127.0.0.1:1": false, "[1::2::3]:1": false,
		"127.255.255.254:65535": true, "[::FFFF:127.0.0.1]:1": true,
	} {
		if got := c19RefLoopback(s); got != want {
			c.Inconclusive("harness self-check: reference loopback(%q)=%v, want %v", s, got, want)
			return false
		}
	}
	return true
}

// ---- (a) the exhaustive request grid

type c19GridInst struct {
	*c19Inst
	cookies [c19NCookieClasses]string // Cookie header per class ("" = not available)
	session [c19NCookieClasses]bool   // carries a session of THIS instance
}

func c19BuildGridInst(c *vk.Case, r *vk.RNG, disable, lbAuthn, generated bool) *c19GridInst {
	pw := c19Password(r)
	// predecessor of the same configuration ("before restart"): same conf pointer
	in := c19NewInst(c, disable, lbAuthn, generated, pw)
	pubRemote := fmt.Sprintf("8.8.4.4:%d", r.Range(1024, 65535))
	before := in.mint(in.login, in.pw, pubRemote)
	// the instance under test
	in.adopt(c19NewHandler(c, in.conf))
	g := &c19GridInst{c19Inst: in}
	// another instance with equal configuration values
	other := c19NewInst(c, disable, lbAuthn, generated, pw)
	foreign := other.mint(other.login, other.pw, pubRemote)

	var pub, lo *http.Cookie
	loRemote := fmt.Sprintf(vk.Pick(r, []string{"127.0.0.1:%d", "[::1]:%d"}), r.Range(1024, 65535))
	if r.Bool() { // both orders of loopback / non-loopback login occur over the cases
		lo = in.mint(in.login, in.pw, loRemote)
		pub = in.mint(in.login, in.pw, pubRemote)
		c.Obs("order_loopback_login_first", 1)
	} else {
		pub = in.mint(in.login, in.pw, pubRemote)
		lo = in.mint(in.login, in.pw, loRemote)
		c.Obs("order_public_login_first", 1)
	}
	name := in.ckName
	if name == "" {
		name = "session"
	}
	g.cookies[c19CkNone] = ""
	g.cookies[c19CkGarbage] = name + "=" + c19RandB64(r, r.Range(8, 400))
	if pub != nil {
		g.cookies[c19CkTruncated] = name + "=" + pub.Value[:len(pub.Value)/2]
		g.cookies[c19CkMintedThis] = name + "=" + pub.Value
		g.session[c19CkMintedThis] = true
		g.cookies[c19CkOtherName] = vk.Pick(r, []string{"session2", "xsession", "sid", "auth"}) + "=" + pub.Value
	}
	if lo != nil {
		g.cookies[c19CkMintedThisLoopbackLogin] = lo.Name + "=" + lo.Value
		g.session[c19CkMintedThisLoopbackLogin] = true
	}
	if foreign != nil {
		g.cookies[c19CkMintedOther] = name + "=" + foreign.Value
	}
	if before != nil {
		g.cookies[c19CkMintedBeforeRestart] = name + "=" + before.Value
	}
	return g
}

func c19Grid(c *vk.Case) {
	if !c19SelfCheck(c) {
		return
	}
	r := c.R
	insts := map[int]*c19GridInst{}
	var samples []any
	idx := 0
	for d := 0; d < 2; d++ {
		for l := 0; l < 2; l++ {
			for g := 0; g < 2; g++ {
				for _, rm := range c19Remotes {
					for ck := 0; ck < c19NCookieClasses; ck++ {
						for _, m := range c19Methods {
							i := idx
							idx++
							if (i+i/c19GridChunks)%c19GridChunks != c.Index {
								continue
							}
							key := d<<2 | l<<1 | g
							gi := insts[key]
							if gi == nil {
								gi = c19BuildGridInst(c, r.Fork(), d == 1, l == 1, g == 1)
								insts[key] = gi
							}
							if ck != c19CkNone && gi.cookies[ck] == "" {
								c.Obs("grid_points_skipped", 1) // cookie could not be minted; MinObs grid_points makes this inconclusive
								continue
							}
							q := c19Req{Method: m, Target: vk.Pick(r, c19Paths), Remote: rm.Addr(r.Range(1, 65535)), Cookie: gi.cookies[ck]}
							if m == "POST" || m == "PUT" {
								q.Body, q.CType = "name=x&chainID=1&ethURL=http%3A%2F%2Fx", "application/x-www-form-urlencoded"
							}
							out := gi.do(gi.prot, q)
							want, _ := c19Expect(gi.disable, gi.lbAuthn, rm.Loopback, gi.session[ck])
							gi.judge(q, out, rm.Label, c19CookieLabels[ck], rm.Loopback, gi.session[ck])
							c.Obs("grid_points", 1)
							c.SetSig("grid:disable=%v:lbauthn=%v:pw=%s:remote=%s:cookie=%s:m=%s:%s", gi.disable, gi.lbAuthn, gi.pwKind(), rm.Label, c19CookieLabels[ck], m, c19Outcome(want))
							if len(samples) < 3 && (len(samples) == 0 || r.Chance(1, 40)) {
								samples = append(samples, map[string]any{"request": q.short(), "config": gi.confDetail(), "cookie_class": c19CookieLabels[ck], "observed": out, "expected": c19Outcome(want)})
							}
						}
					}
				}
			}
		}
	}
	if idx != c19GridPoints {
		c.Inconclusive("harness: grid enumerates %d points, constant says %d", idx, c19GridPoints)
	}
	c.Sample(map[string]any{"family": "request-grid", "examples": samples})
}

// ---- login grid

type c19Guess struct {
	Class string
	Val   string
	Has   bool // the password field is present
}

func c19Guesses(r *vk.RNG, pw string, generated bool) []c19Guess {
	same := []byte(pw)
	for string(same) == pw {
		for i := range same {
			same[i] = "abcdefghijklmnopqrstuvwxyz0123456789"[r.Intn(36)]
		}
	}
	last := []byte(pw)
	last[len(last)-1] ^= 0x01
	first := []byte(pw)
	first[0] ^= 0x02
	long := strings.Repeat(pw, 65536/len(pw)+1)[:65536]
	gs := []c19Guess{
		{"wrong-same-length", string(same), true},
		{"wrong-last-byte", string(last), true},
		{"wrong-first-byte", string(first), true},
		{"empty", "", true},
		{"absent", "", false},
		{"prefix-minus-one", pw[:len(pw)-1], true},
		{"prefix-one-byte", pw[:1], true},
		{"suffix", pw[1:], true},
		{"extra-byte", pw + "x", true},
		{"extra-nul", pw + "\x00", true},
		{"leading-space", " " + pw, true},
		{"trailing-space", pw + " ", true},
		{"long-64k", long, true},
		{"other-case", c19SwapCase(pw), true},
		{"doubled", pw + pw, true},
		{"right", pw, true},
	}
	if t := strings.TrimSpace(pw); t != pw {
		gs = append(gs, c19Guess{"trimmed", t, true})
	}
	if strings.Contains(pw, "$") {
		// what the password would read after shell-style expansion with nothing set
		gs = append(gs, c19Guess{"dollar-expanded", os.Expand(pw, func(string) string { return "" }), true},
			c19Guess{"dollar-cut", pw[:strings.IndexByte(pw, '$')], true})
	}
	if generated {
		if raw, err := hex.DecodeString(pw); err == nil {
			gs = append(gs, c19Guess{"generated-raw-bytes", string(raw), true})
		}
		gs = append(gs, c19Guess{"generated-all-zero", strings.Repeat("0", len(pw)), true})
	}
	out := gs[:0]
	for _, g := range gs {
		if g.Class != "right" && g.Has && g.Val == pw {
			continue // e.g. other-case of an all-digit password
		}
		out = append(out, g)
	}
	return out
}

var c19LoginMethods = []string{"GET", "POST", "PUT", "HEAD", "DELETE", "PATCH", "OPTIONS"}
var c19Transports = []string{"form", "query", "both", "multipart"}

func c19LoginReq(method, transport string, g c19Guess, remote string) c19Req {
	q := c19Req{Method: method, Target: "/login", Remote: remote}
	kv := "user=root"
	if g.Has {
		kv = "user=root&password=" + url.QueryEscape(g.Val)
	}
	switch transport {
	case "form":
		q.Body, q.CType = kv, "application/x-www-form-urlencoded"
	case "query":
		q.Target += "?" + kv
	case "both":
		q.Body, q.CType = kv, "application/x-www-form-urlencoded"
		q.Target += "?" + kv
	case "multipart":
		var b bytes.Buffer
		mw := multipart.NewWriter(&b)
		mw.WriteField("user", "root")
		if g.Has {
			mw.WriteField("password", g.Val)
		}
		mw.Close()
		q.Body, q.CType = b.String(), mw.FormDataContentType()
	}
	return q
}

// attempt runs one login attempt and applies "a wrong password never issues a session".
// It returns the cookies issued (for a right password).
func (in *c19Inst) attempt(q c19Req, g c19Guess, transport string) []*http.Cookie {
	c := in.c
	out := in.do(in.login, q)
	c.Obs("login_attempts", 1)
	if out.Panicked {
		return nil
	}
	cks := c19Cookies(out)
	right := g.Has && g.Val == in.pw && in.pw != ""
	hdr := ""
	for i, ck := range cks {
		if i > 0 {
			hdr += "; "
		}
		hdr += ck.Name + "=" + ck.Value
	}
	probe := func() (accepted, possible bool) {
		if in.disable {
			return false, false
		}
		pq := c19Req{Method: "GET", Target: "/add-source", Remote: "8.8.8.8:40000", Cookie: hdr}
		po := in.do(in.prot, pq)
		return po.Ran > 0, true
	}
	if !right {
		if len(out.SetCookie) == 0 {
			c.Obs("login_wrong_rejected", 1)
			return nil
		}
		acc, possible := probe()
		if acc || !possible {
			c.Violate("session-issued-for-wrong-password:"+g.Class, map[string]any{"request": q.short(), "config": in.confDetail(), "guess_class": g.Class, "guess_len": len(g.Val), "password_len": len(in.pw), "observed": out, "accepted_by_protected_handler": acc, "probe_possible": possible},
				"%s /login (%s) with a wrong password (class %s, %d bytes; the password has %d) answered %d with Set-Cookie", q.Method, transport, g.Class, len(g.Val), len(in.pw), out.Status)
		} else {
			c.Obs("non_session_cookie_on_wrong_password", 1)
		}
		return nil
	}
	issued := len(cks) > 0
	if q.Method == "POST" && (transport == "form" || transport == "both") {
		if !issued {
			c.Inconclusive("POST /login (%s) with the right %s password from %q issued no session (status %d)", transport, in.pwKind(), q.Remote, out.Status)
			return nil
		}
		c.Obs("login_right_accepted", 1)
		c.Obs("sessions_minted", 1)
		if acc, possible := probe(); possible && !acc {
			c.Violate("not-served-although-authorised:session", map[string]any{"login": q.short(), "config": in.confDetail(), "set_cookie": out.SetCookie}, "the session just issued by a successful login from %q is not accepted by the protected handler", q.Remote)
		} else if possible {
			c.Obs("requests", 1)
			c.Obs("served", 1)
			c.Obs("served_by_session", 1)
		}
		return cks
	}
	c.Seen("right_password_not_by_post_form", fmt.Sprintf("%s/%s issued=%v status=%d", q.Method, transport, issued, out.Status))
	return cks
}

// c19SwitchSpellings: the two switches of the dashboard written as JSON strings. A configuration that spells a switch in
// a way the decoder refuses is fine (the process does not start). One that is accepted has to mean what it says:
// a spelling anyone reads as "on" for enable_loopback_authn must put loopback clients behind the login, and a spelling
// anyone reads as "off" for disable_authn must not switch authentication off.
func c19SwitchSpellings(c *vk.Case) {
	on := []string{"true", "TRUE", "True", "t", "T", "1", "yes", "on", "enabled", "true\r", " true"}
	off := []string{"false", "FALSE", "f", "0", "no", "off", "disabled", ""}
	try := func(field, spelled string, wantAuthnFor string) {
		doc, _ := json.Marshal(map[string]any{"dashboard": map[string]any{field: spelled, "root_password": "pw-of-the-switch-probe"}})
		var root config.Root
		c.Obs("switch_spellings_probed", 1)
		if err := json.Unmarshal(doc, &root); err != nil {
			c.Obs("switch_spellings_refused", 1)
			return
		}
		in := &c19Inst{c: c, disable: root.Dashboard.DisableAuthn, lbAuthn: root.Dashboard.EnableLoopbackAuthn, conf: &root}
		in.adopt(c19NewHandler(c, in.conf))
		out := in.do(in.prot, c19Req{Method: "GET", Target: "/add-source", Remote: wantAuthnFor})
		if out.Ran > 0 {
			c.Violate("served-without-session:switch-spelled-as-string:"+field, map[string]any{"configuration": string(doc), "remote": wantAuthnFor, "observed": out},
				"the configuration %s is accepted, and a client at %s reaches a protected handler without a session", doc, wantAuthnFor)
		}
	}
	for _, s := range on {
		try("enable_loopback_authn", s, "127.0.0.1:4000")
	}
	for _, s := range off {
		try("disable_authn", s, "203.0.113.9:4000")
	}
}

func c19LoginGrid(c *vk.Case, combo int) {
	r := c.R
	if combo == 0 {
		c19SwitchSpellings(c)
	}
	disable, lbAuthn, generated := combo&4 != 0, combo&2 != 0, combo&1 != 0
	in := c19NewInst(c, disable, lbAuthn, generated, c19Password(r))
	if generated {
		// no password configured (the process makes one up): the empty password is a wrong password
		in.pw, in.pwEmptyOK = "\x00never-the-generated-password\x00", in.pw
		for _, g := range []c19Guess{{Class: "empty-while-none-configured", Val: "", Has: true}, {Class: "absent-while-none-configured", Val: "", Has: false}} {
			for _, remote := range []string{"203.0.113.7:4000", "127.0.0.1:4000"} {
				in.attempt(c19LoginReq("POST", "form", g, remote), g, "form")
			}
		}
		in.pw = in.pwEmptyOK
		c.Obs("empty_password_probes_without_configured_password", 4)
		if len(c.Res.Violations) > 0 {
			return
		}
	}
	if in.pw == "" {
		c.Inconclusive("generated password could not be learned from the log")
		return
	}
	guesses := c19Guesses(r, in.pw, generated)
	var sample any
	for _, rm := range c19Remotes {
		for _, m := range c19LoginMethods {
			for _, tr := range c19Transports {
				for _, g := range guesses {
					q := c19LoginReq(m, tr, g, rm.Addr(r.Range(1, 65535)))
					cks := in.attempt(q, g, tr)
					c.SetSig("login:disable=%v:lbauthn=%v:pw=%s:loopback=%v:m=%s:via=%s:guess=%s:issued=%v", disable, lbAuthn, in.pwKind(), rm.Loopback, m, tr, g.Class, len(cks) > 0)
					if sample == nil && g.Class == "prefix-minus-one" && m == "POST" {
						sample = map[string]any{"family": "login-grid", "request": q.short(), "config": in.confDetail(), "guess_class": g.Class, "session_issued": len(cks) > 0}
					}
				}
			}
		}
	}
	c.Sample(sample)
	if generated {
		return
	}
	// white space is part of a password like any other byte: a password made of blanks only is a configured password
	// (nothing is generated in its place), and neither it nor a padded one equals its trimmed form or the empty string
	base := c19Password(r)
	for _, pw := range []string{" ", "   ", "\t", " \r\n", " " + base + " ", base + "\n", "\t" + base} {
		in := c19NewInst(c, disable, lbAuthn, false, pw)
		c.Obs("configured_passwords_with_outer_white_space", 1)
		for _, g := range c19Guesses(r, in.pw, false) {
			switch g.Class {
			case "empty", "absent", "trimmed", "prefix-minus-one", "suffix", "leading-space", "trailing-space", "right":
				for _, remote := range []string{"203.0.113.7:4000", "127.0.0.1:4000"} {
					cks := in.attempt(c19LoginReq("POST", "form", g, remote), g, "form")
					c.SetSig("login:white-space-password:disable=%v:lbauthn=%v:guess=%s:issued=%v", disable, lbAuthn, g.Class, len(cks) > 0)
				}
			}
		}
	}
}

// ---- exhaustive single-byte mutations of one valid cookie

func c19Mutations(c *vk.Case) {
	r := c.R
	in := c19NewInst(c, false, true, false, c19Password(r))
	remote := fmt.Sprintf("8.8.8.8:%d", r.Range(1024, 65535))
	ck := in.mint(in.login, in.pw, remote)
	if ck == nil {
		return
	}
	v := ck.Value
	c.MaxObs("cookie_value_len", int64(len(v)))
	try := func(kind, val string) {
		same := c19SameToken(val, v)
		if same && val != v {
			c.Obs("mutants_spelling_same_token", 1)
			c.Seen("same_token_spellings", kind)
		}
		q := c19Req{Method: "GET", Target: "/save-source", Remote: remote, Cookie: ck.Name + "=" + val}
		out := in.do(in.prot, q)
		in.judge(q, out, "public4", "mutated-"+kind, false, same)
		c.SetSig("mut:%s:same-token=%v", kind, same)
	}
	alphabet := c19B64 + "="
	for i := 0; i < len(v); i++ {
		for j := 0; j < len(alphabet); j++ {
			if alphabet[j] == v[i] {
				continue
			}
			try("substitute", v[:i]+string(alphabet[j])+v[i+1:])
			c.Obs("single_byte_mutants", 1)
		}
		try("delete", v[:i]+v[i+1:])
		try("insert", v[:i]+string(c19B64[r.Intn(64)])+v[i:])
		try("truncate", v[:i])
		if i > 0 {
			try("swap-adjacent", v[:i-1]+string(v[i])+string(v[i-1])+v[i+1:])
		}
	}
	try("append", v+"A")
	try("append", v+"=")
	try("append", v+"AAAA")
	try("identity", v)
	c.Sample(map[string]any{"family": "single-byte-mutations", "cookie_len": len(v), "alphabet": alphabet})
}

// ---- random families

func c19RandInst(c *vk.Case, r *vk.RNG) *c19Inst {
	return c19NewInst(c, r.Chance(1, 6), r.Bool(), r.Chance(1, 3), c19Password(r))
}

func c19RandGuesses(c *vk.Case) {
	r := c.R
	in := c19RandInst(c, r)
	if in.pw == "" {
		c.Inconclusive("generated password could not be learned from the log")
		return
	}
	pw := in.pw
	for i := 0; i < c19PerRand(c); i++ {
		var g c19Guess
		b := []byte(pw)
		switch k := r.Intn(9); k {
		case 0:
			g = c19Guess{"random-bytes", string(r.Bytes(r.Intn(41))), true}
		case 1:
			g = c19Guess{"random-same-length", string(r.Bytes(len(pw))), true}
		case 2:
			b[r.Intn(len(b))] ^= 1 << uint(r.Intn(8))
			g = c19Guess{"bit-flip", string(b), true}
		case 3:
			p := r.Intn(len(b))
			g = c19Guess{"delete-byte", string(append(b[:p:p], b[p+1:]...)), true}
		case 4:
			p := r.Intn(len(b) + 1)
			g = c19Guess{"insert-byte", pw[:p] + string(rune('a'+r.Intn(26))) + pw[p:], true}
		case 5:
			p := r.Intn(len(b) - 1)
			b[p], b[p+1] = b[p+1], b[p]
			g = c19Guess{"swap-adjacent", string(b), true}
		case 6:
			g = c19Guess{"random-prefix", pw[:r.Intn(len(pw))], true}
		case 7:
			g = c19Guess{"right-plus-suffix", pw + string(r.Bytes(r.Range(1, 9))), true}
		case 8:
			g = c19Guess{"random-hex16", hex.EncodeToString(r.Bytes(8)), true}
		}
		if g.Val == pw {
			continue
		}
		rm := vk.Pick(r, c19Remotes)
		tr := vk.Pick(r, []string{"form", "form", "form", "both", "query"})
		q := c19LoginReq("POST", tr, g, rm.Addr(r.Range(1, 65535)))
		in.attempt(q, g, tr)
		c.Obs("random_guesses", 1)
		c.SetSig("guess:%s:pw=%s:via=%s", g.Class, in.pwKind(), tr)
	}
	// the right one still works afterwards
	in.mint(in.login, in.pw, "8.8.8.8:1")
	c.Sample(map[string]any{"family": "random-guesses", "config": in.confDetail(), "n": c19PerRand(c)})
}

func c19RandCookies(c *vk.Case) {
	r := c.R
	in := c19NewInst(c, false, r.Bool(), r.Chance(1, 3), c19Password(r))
	other := c19NewInst(c, false, in.lbAuthn, in.generated, string(in.conf.Dashboard.RootPassword))
	ck := in.mint(in.login, in.pw, vk.Pick(r, []string{"8.8.8.8:999", "127.0.0.1:999", "[::1]:999"}))
	fk := other.mint(other.login, other.pw, "8.8.8.8:998")
	if ck == nil || fk == nil {
		return
	}
	v, w := ck.Value, fk.Value
	for i := 0; i < c19PerRand(c); i++ {
		var kind, val string
		hdr := ""
		switch k := r.Intn(10); k {
		case 0:
			kind, val = "random-b64", c19RandB64(r, r.Range(1, len(v)+40))
		case 1:
			kind, val = "random-hex", hex.EncodeToString(r.Bytes(r.Range(1, 200)))
		case 2:
			b := []byte(v)
			for n := r.Range(2, 8); n > 0; n-- {
				b[r.Intn(len(b))] = c19B64[r.Intn(64)]
			}
			kind, val = "multi-byte-mutation", string(b)
		case 3:
			p := r.Range(1, min(len(v), len(w))-1)
			kind, val = "splice-this-head-other-tail", v[:p]+w[p:]
		case 4:
			p := r.Range(1, min(len(v), len(w))-1)
			kind, val = "splice-other-head-this-tail", w[:p]+v[p:]
		case 5:
			kind, val = "foreign", w
		case 6:
			// token bytes re-encoded with the standard (+/) alphabet or without padding
			raw, _ := base64.URLEncoding.DecodeString(v)
			if r.Bool() {
				kind, val = "reencoded-std-alphabet", base64.StdEncoding.EncodeToString(raw)
			} else {
				kind, val = "reencoded-hex", hex.EncodeToString(raw)
			}
		case 7:
			kind, val = "valid-among-unrelated", v
			hdr = "theme=dark; " + ck.Name + "=" + v + "; lang=" + c19RandB64(r, 5)
		case 8:
			kind, val = "valid-quoted", v
			hdr = ck.Name + "=\"" + v + "\""
		case 9:
			kind, val = "valid-under-random-name", v
			hdr = ck.Name + c19RandB64(r, r.Range(1, 4)) + "=" + v
		}
		if !c19CookieSafe(val) {
			continue
		}
		session := c19SameToken(val, v)
		if hdr == "" {
			hdr = ck.Name + "=" + val
		} else if kind == "valid-under-random-name" {
			session = false
		}
		rm := vk.Pick(r, c19Remotes)
		q := c19Req{Method: vk.Pick(r, c19Methods), Target: vk.Pick(r, c19Paths), Remote: rm.Addr(r.Range(1, 65535)), Cookie: hdr}
		out := in.do(in.prot, q)
		in.judge(q, out, rm.Label, kind, rm.Loopback, session)
		c.Obs("random_cookies", 1)
		want, _ := c19Expect(in.disable, in.lbAuthn, rm.Loopback, session)
		c.SetSig("cookie:%s:lbauthn=%v:loopback=%v:%s", kind, in.lbAuthn, rm.Loopback, c19Outcome(want))
	}
	c.Sample(map[string]any{"family": "random-cookies", "config": in.confDetail(), "cookie_len": len(v)})
}

// c19GenRemote builds a RemoteAddr from numeric values, so that whether it is
// loopback is known by construction; the reference parser must agree.
func c19GenRemote(r *vk.RNG) (addr, class string, loopback bool) {
	port := r.Range(1, 65535)
	v4 := func(first int) [4]byte {
		return [4]byte{byte(first), byte(r.Intn(256)), byte(r.Intn(256)), byte(r.Intn(256))}
	}
	dotted := func(a [4]byte) string { return fmt.Sprintf("%d.%d.%d.%d", a[0], a[1], a[2], a[3]) }
	var ip [16]byte
	switch k := r.Intn(12); k {
	case 0:
		a := v4(127)
		return fmt.Sprintf("%s:%d", dotted(a), port), "loopback4", true
	case 1:
		a := v4(vk.Pick(r, []int{0, 1, 10, 126, 128, 169, 172, 192, 198, 203, 224, 255, 100, 8}))
		return fmt.Sprintf("%s:%d", dotted(a), port), "nonloopback4", false
	case 2:
		ip[15] = 1
		class, loopback = "loopback6", true
	case 3:
		a := v4(127)
		ip[10], ip[11] = 0xff, 0xff
		copy(ip[12:], a[:])
		class, loopback = "mapped-loopback", true
	case 4:
		a := v4(vk.Pick(r, []int{10, 126, 128, 192, 8, 1}))
		ip[10], ip[11] = 0xff, 0xff
		copy(ip[12:], a[:])
		class, loopback = "mapped-nonloopback", false
	case 5:
		a := v4(127) // IPv4-compatible ::127.x.y.z is not a loopback address
		copy(ip[12:], a[:])
		class, loopback = "v4compatible-127", false
	case 6:
		copy(ip[:], r.Bytes(16))
		ip[0] = 0x20
		class, loopback = "global6", false
	case 7:
		ip[0], ip[1], ip[15] = 0xfe, 0x80, 1
		class, loopback = "linklocal6", false
	case 8:
		ip[15] = byte(r.Range(2, 255))
		class, loopback = "near-loopback6", false
	case 9:
		ip[r.Intn(15)] = byte(r.Range(1, 255))
		ip[15] = 1
		class, loopback = "near-loopback6", false
	case 10:
		a := v4(127)
		s := dotted(a)
		// not generated (debatable, see Assumptions): loopback host with an empty or non-numeric port ("127.0.0.1:", "127.0.0.1:http", "127.0.0.1:80 ")
		return vk.Pick(r, []string{s, "[" + s, ":" + fmt.Sprint(port), "localhost:" + fmt.Sprint(port), "::1", "[::1]", "@", "unix", "127.0.0.1:80:80", " 127.0.0.1:80", "127.0.0.1 :80", s + "/8:80", "127.0.0.256:80", "127.0.0:80", "[::1::]:80", "[:::1]:80", "[::g]:80"}), "malformed", false
	default:
		return "", "empty", false
	}
	var host string
	mapped := ip[10] == 0xff && ip[11] == 0xff
	for i := 0; i < 10 && mapped; i++ {
		mapped = ip[i] == 0
	}
	g := func(i int) uint16 { return uint16(ip[2*i])<<8 | uint16(ip[2*i+1]) }
	full := func(format string, n int) string {
		parts := make([]string, n)
		for i := range parts {
			parts[i] = fmt.Sprintf(format, g(i))
		}
		return strings.Join(parts, ":")
	}
	compress := func() string {
		// compress the longest zero run (at least one group)
		best, bl := -1, 0
		for i := 0; i < 8; {
			if g(i) != 0 {
				i++
				continue
			}
			j := i
			for j < 8 && g(j) == 0 {
				j++
			}
			if j-i > bl {
				best, bl = i, j-i
			}
			i = j
		}
		if best < 0 {
			return full("%x", 8)
		}
		var h, t []string
		for i := 0; i < best; i++ {
			h = append(h, fmt.Sprintf("%x", g(i)))
		}
		for i := best + bl; i < 8; i++ {
			t = append(t, fmt.Sprintf("%x", g(i)))
		}
		return strings.Join(h, ":") + "::" + strings.Join(t, ":")
	}
	switch f := r.Intn(5); {
	case f == 0:
		host = full("%x", 8)
	case f == 1:
		host = full("%04X", 8)
	case f == 2 && (mapped || class == "v4compatible-127"):
		host = full("%x", 6) + ":" + fmt.Sprintf("%d.%d.%d.%d", ip[12], ip[13], ip[14], ip[15])
	case f == 3 && mapped:
		host = vk.Pick(r, []string{"::ffff:", "::FFFF:", "0::ffff:"}) + fmt.Sprintf("%d.%d.%d.%d", ip[12], ip[13], ip[14], ip[15])
	case f == 3 && class == "v4compatible-127":
		host = "::" + fmt.Sprintf("%d.%d.%d.%d", ip[12], ip[13], ip[14], ip[15])
	default:
		host = compress()
	}
	return fmt.Sprintf("[%s]:%d", host, port), class, loopback
}

func c19RandRemotes(c *vk.Case) {
	r := c.R
	if !c19SelfCheck(c) {
		return
	}
	in := c19NewInst(c, r.Chance(1, 8), r.Chance(1, 3), r.Chance(1, 3), c19Password(r))
	other := c19NewInst(c, in.disable, in.lbAuthn, in.generated, string(in.conf.Dashboard.RootPassword))
	ck := in.mint(in.login, in.pw, "8.8.8.8:999")
	fk := other.mint(other.login, other.pw, "8.8.8.8:998")
	if ck == nil || fk == nil {
		return
	}
	seenClass := map[string]bool{}
	for i := 0; i < c19PerRand(c); i++ {
		addr, class, loopback := c19GenRemote(r)
		if ref := c19RefLoopback(addr); ref != loopback {
			c.Inconclusive("harness: reference loopback(%q)=%v but the address was constructed as %s (loopback=%v)", addr, ref, class, loopback)
			return
		}
		hdr, ckClass, session := "", "none", false
		switch r.Intn(4) {
		case 0:
			hdr, ckClass, session = ck.Name+"="+ck.Value, "minted-this", true
		case 1:
			hdr, ckClass = ck.Name+"="+fk.Value, "minted-other-instance"
		}
		q := c19Req{Method: vk.Pick(r, c19Methods), Target: vk.Pick(r, c19Paths), Remote: addr, Cookie: hdr}
		if r.Chance(1, 3) {
			// a client may claim anything in forwarding headers: only the peer address counts
			claim := vk.Pick(r, []string{"127.0.0.1", "::1", "127.0.0.1, 8.8.8.8", "localhost", "[::1]:80"})
			q.Extra = []string{vk.Pick(r, []string{"X-Forwarded-For", "X-Real-Ip", "X-Forwarded-Host", "Forwarded", "X-Client-Ip", "Host"}) + ": " + claim}
			if strings.HasPrefix(q.Extra[0], "Forwarded:") {
				q.Extra[0] = "Forwarded: for=" + claim
			}
			c.Obs("requests_with_forwarding_headers", 1)
		}
		out := in.do(in.prot, q)
		in.judge(q, out, class, ckClass, loopback, session)
		c.Obs("random_remotes", 1)
		want, _ := c19Expect(in.disable, in.lbAuthn, loopback, session)
		c.SetSig("remote:%s:disable=%v:lbauthn=%v:cookie=%s:%s", class, in.disable, in.lbAuthn, ckClass, c19Outcome(want))
		if !seenClass[class] {
			seenClass[class] = true
			c.Seen("remote_spellings", class+" e.g. "+addr)
		}
	}
	c.Sample(map[string]any{"family": "random-remotes", "config": in.confDetail()})
}

// c19Orderings: sequences of loopback / non-loopback logins on one instance,
// then cookie exchange with another instance and with the instance after "restart".
func c19Orderings(c *vk.Case) {
	r := c.R
	for round := 0; round < 12; round++ {
		in := c19NewInst(c, false, r.Bool(), r.Chance(1, 3), c19Password(r))
		loginRemotes := []c19Remote{c19Remotes[0], c19Remotes[2], c19Remotes[3], c19Remotes[4], c19Remotes[6], c19Remotes[7]}
		var minted []*http.Cookie
		order := ""
		probeRemote := c19Remotes[6] // public4
		check := func(h *c19Inst, ck *http.Cookie, session bool, class string) {
			for _, rm := range []c19Remote{probeRemote, c19Remotes[0]} {
				q := c19Req{Method: vk.Pick(r, c19Methods), Target: vk.Pick(r, c19Paths), Remote: rm.Addr(r.Range(1, 65535)), Cookie: ck.Name + "=" + ck.Value}
				out := h.do(h.prot, q)
				ok := h.judge(q, out, rm.Label, class, rm.Loopback, session)
				if want, _ := c19Expect(h.disable, h.lbAuthn, rm.Loopback, session); ok && !session && !want {
					c.Obs("cross_instance_rejections", 1)
				}
			}
		}
		steps := r.Range(2, 6)
		for s := 0; s < steps; s++ {
			rm := vk.Pick(r, loginRemotes)
			if rm.Loopback {
				order += "L"
			} else {
				order += "N"
			}
			// a wrong attempt in between must not disturb anything
			if r.Chance(1, 3) {
				g := c19Guess{"interleaved-wrong", in.pw + "!", true}
				in.attempt(c19LoginReq("POST", "form", g, rm.Addr(5)), g, "form")
			}
			ck := in.mint(in.login, in.pw, rm.Addr(r.Range(1, 65535)))
			if ck == nil {
				return
			}
			minted = append(minted, ck)
			for _, old := range minted { // every session issued so far stays valid
				check(in, old, true, "minted-this-after-"+order)
			}
		}
		c.SetSig("order:%s:lbauthn=%v:pw=%s", order, in.lbAuthn, in.pwKind())
		// another instance, equal configuration values
		other := c19NewInst(c, false, in.lbAuthn, in.generated, string(in.conf.Dashboard.RootPassword))
		fk := other.mint(other.login, other.pw, "8.8.8.8:77")
		if fk == nil {
			return
		}
		check(in, fk, false, "minted-other-instance")
		for _, ck := range minted {
			check(other, ck, false, "minted-other-instance")
		}
		// restart: same configuration object, new web.New
		oldCookies := minted
		in.adopt(c19NewHandler(c, in.conf))
		for _, ck := range oldCookies {
			check(in, ck, false, "minted-before-restart")
		}
		nk := in.mint(in.login, in.pw, "8.8.8.8:78")
		if nk == nil {
			return
		}
		check(in, nk, true, "minted-this-after-restart")
		c.SetSig("restart:lbauthn=%v:pw=%s", in.lbAuthn, in.pwKind())
	}
	c.Sample(map[string]any{"family": "orderings-and-restart", "rounds": 12})
}
