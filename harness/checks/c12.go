package checks

import (
	"context"
	"encoding/hex"
	"encoding/json"
	"fmt"
	"math/big"
	"regexp"
	"sort"
	"strings"

	"github.com/indexsupply/shovel/shovel"
	"github.com/indexsupply/shovel/shovel/config"
	"github.com/jackc/pgx/v5"

	"verif/harness/fakepg"
	"verif/harness/gen"
	"verif/harness/model"
	"verif/harness/refmodel"
	"verif/harness/scen"
	"verif/harness/simnode"
	"verif/harness/vk"
)

// C12 — filters keep exactly the rows they select; server-side pre-filtering
// loses none.

const (
	c12PipeEveryQuick    = 29 // 2000 of 58000 quick cases run the full pipeline
	c12PipeEveryThorough = 41
)

func c12IsPipe(c *vk.Case) bool {
	if c.Index < 2 {
		return false
	}
	if c.Thorough() {
		return c.Index%c12PipeEveryThorough == 0
	}
	return c.Index%c12PipeEveryQuick == 0
}

func init() {
	vk.Register(&vk.Check{
		ID:        "C12",
		Level:     "exploration",
		Technique: "reference-predicate oracle per candidate item (every log/transaction/trace the declaration would emit without filters is evaluated: emitted <=> accepted), through Integration.Insert with a recording/reference-answering connection (volume) and through the full pipeline against a node that filters eth_getLogs server-side by address/topics (pushdown); wrong outcomes are attributed to one filter, to the aggregation, or to the address restriction sent to the node",
		Rule: "each case draws an integration (log mode 70 %, tx 20 %, trace 10 %) with 2-5 selected event inputs (address, bytes32, bytes4, bytes, string, uint8/64/128/256; indexed or not, incl. all-indexed events whose logs carry no data; in a quarter of the events plus a fifth of the direct cases one array input uint64[], uint256[], address[], bytes32[] or T[k], 1-5 elements drawn from the pool so that one log holds elements on both sides of the argument) and 0-4 block fields, puts 0-3 filters on inputs and block fields " +
			"(operator × value kind only from the documented matrix: contains/!contains on byte strings and strings, eq/ne on byte strings, strings, uint64 fields, uint256 values, gt/lt on uint64 fields and uint256 values; 1-3 arguments for contains/!contains and byte-string eq/ne, one otherwise; reference filters with contains/!contains on byte strings), aggregation and/or/default, " +
			"and a chain whose field values are drawn from pools around the later arguments (argument, argument±1, 0, maximum, near-miss byte strings, fragments, present and absent addresses; logs from 5 addresses). Arguments are then chosen among observed values, their neighbours and absent values. " +
			"Pipeline cases: pushdown (a log_addr filter with contains/!contains/eq/ne over present and absent addresses, alone or and/or-combined with other filters; logs plan), general, reference filters whose referenced table is filled by a referenced integration plus rows inserted by SQL, " +
			"pushdown-with-reference (log_addr contains/eq on one or two complete emitting addresses plus a reference filter on an address input or on tx_to, under or/default/and: under or the rows of logs from other contracts whose value is in the referenced table are required, under and the restriction is legitimate) and array (a filter on the elements of an array input, alone or combined). " +
			"Cases 0-2: hand-written minimal pushdown declarations (also with the second filter on a component of a tuple input), out-of-matrix probes, minimal array-filter declarations. " +
			"signature = (path, mode, sorted list of (site, kind, operator, #args class), aggregation, data/no-data); trivial = no candidate item.",
		Assumptions: []string{
			"operator × value-kind matrix as documented by the TS configuration types (FilterArgOp, FilterRefOp) and implemented by dig.Filter.Accept; other combinations (gt/lt on byte strings or strings, filters on signed integers, booleans, tx_type/tx_status, reference filters on non-byte-string values) are not generated; case 1 only records what shovel does with them (evidence set out_of_matrix_behaviour)",
			"byte-string contains: some argument is a contiguous sub-sequence of the value (the operator's name); byte-string eq/ne with several arguments: equal to one of them / to none",
			"string contains is not defined by the documentation in the repository (index.ts types, readme); the two readings (the value is one of the arguments — what shovel and the reference predicate do — or an argument is a substring of the value) agree when an argument equals the value or no argument occurs inside it; only such arguments are generated, so the oracle takes no side",
			"filter arguments: byte strings as hex with or without 0x prefix, in either letter case; integers as decimals; uint64 fields get arguments below 2^64",
			"filters sit on selected inputs and declared block fields only; an integration without filters accepts everything; the default aggregation is or (ValidateFix)",
			"reference filters: direct path answers the lookup query from a random set (the query text must name the referenced integration's table and column); pipeline: the referenced integration has reached the head and the chain is static before the dependent starts, so the referenced table is fixed",
			"pushdown cases avoid receipt-only fields so that the data plan uses eth_getLogs; simnode filters eth_getLogs by address and topics exactly as geth documents (empty/null = any)",
			"values of accepted rows are C11's subject; C12 compares the set of emitted items (block, tx, log/trace position, element position)",
			"a filter declared on an array input is evaluated for every element row on that element (what model.ProjectBlock does per abi_idx row); generated arrays are never empty; at most one array per event",
			"a verdict is a function of the item's own filtered values: two items with equal values at every filter site and opposite outcomes are reported as state leaking between items (key filter-state-leaks-between-rows-of-one-log when a multi-row log is involved)",
		},
		NCases: func(tier string) int {
			if tier == "thorough" {
				return 1845000
			}
			return 58000
		},
		Run:              c12Run,
		CrashIsViolation: true,
		CaseTimeoutS:     180,
		MinObs: func(tier string) map[string]int64 {
			return map[string]int64{
				"items_evaluated": 180000, "items_accepted_by_reference": 80000, "items_rejected_by_reference": 80000, "items_where_and_differs_from_or": 60000,
				"values_at_argument": 80000, "values_just_above_argument": 15000, "values_just_below_argument": 15000, "values_one_byte_off_argument": 12000, "values_containing_fragment_argument": 6000,
				"reference_lookups": 25000, "reference_rows_inserted_by_sql": 200, "direct_inserts": 45000,
				"pipeline_cases_at_head": 1400, "pipeline_items": 10000, "cases_with_address_restriction": 120, "logs_outside_address_restriction": 800,
				"rows_of_multi_row_logs_under_array_filter": 100000, "logs_with_mixed_element_verdicts": 8000,
				"pushdown_with_reference_cases_agg_or": 50, "pushdown_with_reference_cases_agg_default": 50, "pushdown_with_reference_cases_agg_and": 20,
				"reference_accepted_logs_from_unlisted_addresses_under_or": 600,
			}
		},
	})
}

// ---------------------------------------------------------------------------
// sites, pools, filters

type c12Site struct {
	where    string // input | block
	idx      int    // index into d.Inputs / d.Block
	name     string
	column   string
	kind     string // bytes | string | u64 | u256
	fixedLen int    // byte strings of fixed length (0 = variable)
	bits     int    // numeric upper bound
	indexed  bool
	array    bool  // the input is T[] / T[k]: one row (and one filter evaluation) per element
	pool     []any // []byte | string | *big.Int
	op       string
	useRef   bool
	filter   model.Filter
}

func (s *c12Site) key() string {
	kind := s.kind
	if s.filter.Ref != nil {
		return "filter:ref:" + s.filter.Op
	}
	n := "single-arg"
	if len(s.filter.Arg) > 1 {
		n = "multi-arg"
	}
	return fmt.Sprintf("filter:%s:%s:%s", kind, s.filter.Op, n)
}

func (s *c12Site) describe() string {
	w := s.where + ":" + s.name
	if s.filter.Ref != nil {
		return fmt.Sprintf("%s %s ref(%s.%s)", w, s.filter.Op, s.filter.Ref.Integration, s.filter.Ref.Column)
	}
	return fmt.Sprintf("%s %s %v", w, s.filter.Op, s.filter.Arg)
}

type c12BlockInfo struct {
	name     string
	kind     string
	fixedLen int
	bits     int
	settable bool
	modes    string // l t r (log, tx, trace)
	receipt  bool
}

var c12BlockFields = []c12BlockInfo{
	{"log_addr", "bytes", 20, 0, true, "l", false},
	{"tx_signer", "bytes", 20, 0, true, "ltr", false},
	{"tx_to", "bytes", 20, 0, true, "ltr", false},
	{"tx_input", "bytes", 0, 0, true, "ltr", false},
	{"tx_hash", "bytes", 32, 0, false, "ltr", false},
	{"block_hash", "bytes", 32, 0, false, "ltr", false},
	{"src_name", "string", 0, 0, false, "ltr", false},
	{"ig_name", "string", 0, 0, false, "ltr", false},
	{"block_num", "u64", 0, 64, false, "ltr", false},
	{"block_time", "u64", 0, 64, false, "ltr", false},
	{"tx_idx", "u64", 0, 64, false, "ltr", false},
	{"log_idx", "u64", 0, 64, false, "l", false},
	{"tx_nonce", "u64", 0, 64, true, "ltr", false},
	{"tx_gas_used", "u64", 0, 64, true, "ltr", true},
	{"chain_id", "u64", 0, 64, false, "ltr", false},
	{"tx_value", "u256", 0, 256, true, "ltr", false},
	{"tx_gas_price", "u256", 0, 256, true, "ltr", false},
	{"tx_max_fee_per_gas", "u256", 0, 256, true, "ltr", false},
	{"tx_effective_gas_price", "u256", 0, 256, true, "ltr", true},
	{"trace_action_from", "bytes", 20, 0, true, "r", false},
	{"trace_action_to", "bytes", 20, 0, true, "r", false},
	{"trace_action_call_type", "string", 0, 0, false, "r", false},
	{"trace_action_value", "u256", 0, 256, true, "r", false},
}

type c12InputInfo struct {
	t        refmodel.Type
	kind     string
	fixedLen int
	bits     int
	dynamic  bool
}

var c12InputMenu = []c12InputInfo{
	{refmodel.Address(), "bytes", 20, 0, false},
	{refmodel.Address(), "bytes", 20, 0, false},
	{refmodel.BytesN(32), "bytes", 32, 0, false},
	{refmodel.BytesN(4), "bytes", 4, 0, false},
	{refmodel.Bytes(), "bytes", 0, 0, true},
	{refmodel.String(), "string", 0, 0, true},
	{refmodel.String(), "string", 0, 0, true},
	{refmodel.Uint(256), "u256", 0, 256, false},
	{refmodel.Uint(256), "u256", 0, 256, false},
	{refmodel.Uint(64), "u256", 0, 64, false},
	{refmodel.Uint(8), "u256", 0, 8, false},
	{refmodel.Uint(128), "u256", 0, 128, false},
}

// c12ArrayMenu: array inputs whose elements carry a filter (one array per event).
var c12ArrayMenu = []c12InputInfo{
	{refmodel.ArrayOf(refmodel.Uint(64)), "u256", 0, 64, true},
	{refmodel.ArrayOf(refmodel.Uint(256)), "u256", 0, 256, true},
	{refmodel.ArrayOf(refmodel.Address()), "bytes", 20, 0, true},
	{refmodel.ArrayOf(refmodel.BytesN(32)), "bytes", 32, 0, true},
	{refmodel.FixedOf(3, refmodel.Uint(64)), "u256", 0, 64, true},
	{refmodel.FixedOf(4, refmodel.Uint(256)), "u256", 0, 256, true},
	{refmodel.FixedOf(2, refmodel.Address()), "bytes", 20, 0, true},
	{refmodel.FixedOf(5, refmodel.BytesN(32)), "bytes", 32, 0, true},
}

func flipByte(b []byte, at int) []byte {
	c := append([]byte(nil), b...)
	if len(c) > 0 {
		c[at%len(c)] ^= 1
	}
	return c
}

func c12Letters(r *vk.RNG, n int) string {
	const al = "abcdefghijklmnopqrstuvwxyzABCDEFGHIJKLMNOPQRSTUVWXYZ0123456789 _-"
	b := make([]byte, n)
	for i := range b {
		b[i] = al[r.Intn(len(al))]
	}
	return string(b)
}

// c12NumPool: values around a base so that the later argument has neighbours.
func c12NumPool(r *vk.RNG, bits int) []any {
	max := new(big.Int).Sub(pow2(bits), big.NewInt(1))
	var base *big.Int
	switch r.Intn(6) {
	case 0:
		base = big.NewInt(int64(r.Range(1, 300)))
	case 1:
		base = pow2(32)
	case 2:
		base = new(big.Int).Sub(pow2(63), big.NewInt(int64(r.Intn(2))))
	case 3:
		base = new(big.Int).Add(pow2(64), big.NewInt(int64(r.Intn(3))-1)) // around the 64-bit boundary
	case 4:
		base = new(big.Int).Sub(max, big.NewInt(1))
	default:
		base = r.BigBits(r.Range(2, bits))
	}
	if base.Cmp(max) >= 0 {
		base = new(big.Int).Sub(max, big.NewInt(1))
	}
	if base.Sign() <= 0 {
		base = big.NewInt(1)
	}
	one := big.NewInt(1)
	return []any{new(big.Int).Sub(base, one), base, base, new(big.Int).Add(base, one), new(big.Int), max, r.BigBits(r.Range(1, bits))}
}

func c12BytesPool(r *vk.RNG, fixed int) []any {
	if fixed > 0 {
		b1, b2, b3 := r.Bytes(fixed), r.Bytes(fixed), r.Bytes(fixed)
		return []any{b1, b1, b2, b3, flipByte(b1, fixed-1), flipByte(b1, 0)}
	}
	b1, b2 := r.Bytes(r.Range(2, 40)), r.Bytes(r.Range(1, 40))
	return []any{b1, b1, b2, append(append([]byte(nil), b1...), byte(r.Intn(256))), b1[:len(b1)-1], flipByte(b1, len(b1)-1), []byte{}}
}

func c12StringPool(r *vk.RNG, op string) []any {
	s1, s2, s3 := c12Letters(r, r.Range(3, 10)), c12Letters(r, r.Range(3, 10)), c12Letters(r, r.Range(1, 12))
	v := []byte(s1)
	v[len(v)-1] ^= 1
	pool := []any{s1, s1, s2, s3, string(v), s1[:len(s1)-1], ""}
	if op == "eq" || op == "ne" {
		pool = append(pool, s1+"x", strings.ToUpper(s1))
	}
	return pool
}

func c12Op(r *vk.RNG, kind string) string {
	switch kind {
	case "bytes":
		return vk.Pick(r, []string{"contains", "!contains", "eq", "ne"})
	case "string":
		return vk.Pick(r, []string{"contains", "!contains", "eq", "ne"})
	}
	return vk.Pick(r, []string{"eq", "ne", "gt", "lt", "gt", "lt"})
}

func hexArg(r *vk.RNG, b []byte) string {
	s := hex.EncodeToString(b)
	if r.Chance(1, 5) {
		s = strings.ToUpper(s)
	}
	if r.Chance(1, 5) {
		return s
	}
	return "0x" + s
}

type c12Opts struct {
	mode      model.Mode
	pushdown  bool // log_addr filter, logs plan
	ref       int  // 0 none, 1 allowed (direct), 2 forced with shared address pool (pipeline)
	pipeline  bool
	nblocks   int
	noFilters bool
	array     int  // 0: an array input in a quarter of the log-mode events; 1: forced, and it carries a filter
	pushRef   bool // with pushdown and ref == 2: log_addr contains/eq on complete present addresses plus a reference filter
}

type c12Scenario struct {
	o        c12Opts
	d        *model.Decl // with filters
	bare     *model.Decl // without
	ref      *model.Decl
	sites    []*c12Site // active filters
	chain    *simnode.Chain
	chainID  uint64
	addrs    [][]byte
	addrPool [][]byte // ref scenarios: shared pool of every address-valued field
	refSet   map[string]bool
	refSet2  map[string]bool // contents of the referenced table's second column ("who2"; direct path only)
	agg      string
}

func (sc *c12Scenario) look(_ string, col string, v fakepg.Value) bool {
	b, _ := v.([]byte)
	if col == "who2" {
		return sc.refSet2[string(b)]
	}
	return sc.refSet[string(b)]
}

func (sc *c12Scenario) describe() string {
	var fs []string
	for _, s := range sc.sites {
		fs = append(fs, s.describe())
	}
	ev := ""
	if len(sc.d.Inputs) > 0 {
		ev = sc.d.EventName + refmodel.Describe(sc.d.Inputs) + " "
	}
	var bs []string
	for _, b := range sc.d.Block {
		bs = append(bs, b.Name)
	}
	return fmt.Sprintf("%sblock[%s] filters{%s} agg=%q", ev, strings.Join(bs, ","), strings.Join(fs, "; "), sc.agg)
}

func modeLetter(m model.Mode) string { return [...]string{"t", "l", "r"}[m] }

// c12Build draws declaration, chain and filters.
func c12Build(r *vk.RNG, o c12Opts) *c12Scenario {
	sc := &c12Scenario{o: o, chainID: uint64(r.Range(1, 5)), refSet: map[string]bool{}}
	d := &model.Decl{Name: namePoolIG[0], Enabled: true, Table: namePoolTbl[0], ColTypes: map[string]string{}, InFilter: map[string]model.Filter{}}
	d.Sources = []model.SrcRef{{Name: namePoolSrc[0], Start: 1}}
	for i := 0; i < 5; i++ {
		sc.addrs = append(sc.addrs, r.Bytes(20))
	}
	sc.addrs[1] = flipByte(sc.addrs[0], 19) // a near miss among the emitting contracts
	if o.ref == 2 {
		for i := 0; i < 8; i++ {
			sc.addrPool = append(sc.addrPool, r.Bytes(20))
		}
		sc.addrs = sc.addrPool[2:7]
	}
	var cands []*c12Site
	if o.mode == model.ModeLog {
		d.EventName = gen.EventName(r)
		n := r.Range(2, 5)
		nidx := 0
		allIndexed := r.Chance(1, 5)
		if allIndexed {
			n = r.Range(1, 3)
		}
		withArray := o.array == 1 || r.Chance(1, 4)
		if withArray {
			allIndexed = false
		}
		arrayAt := -1
		if withArray {
			arrayAt = r.Intn(n)
		}
		for i := 0; i < n; i++ {
			mi := vk.Pick(r, c12InputMenu)
			for allIndexed && mi.dynamic {
				mi = vk.Pick(r, c12InputMenu)
			}
			if o.ref == 2 && i == 0 && arrayAt != 0 {
				mi = c12InputMenu[0] // an address input for the reference filter
			}
			if i == arrayAt {
				mi = vk.Pick(r, c12ArrayMenu)
			}
			f := refmodel.Field{Name: fmt.Sprintf("in%d", i+1), Type: mi.t, Column: fmt.Sprintf("c_in%d", i+1)}
			if !mi.dynamic && nidx < 3 && (allIndexed || r.Bool()) {
				f.Indexed = true
				nidx++
			}
			d.Inputs = append(d.Inputs, f)
			cands = append(cands, &c12Site{where: "input", idx: i, name: f.Name, column: f.Column, kind: mi.kind, fixedLen: mi.fixedLen, bits: mi.bits, indexed: f.Indexed, array: mi.t.IsArray()})
		}
	}
	var bpool []c12BlockInfo
	for _, bf := range c12BlockFields {
		if !strings.Contains(bf.modes, modeLetter(o.mode)) || (o.pushdown && bf.receipt) || bf.name == "log_addr" {
			continue
		}
		bpool = append(bpool, bf)
	}
	vk.Shuffle(r, bpool)
	nb := r.Range(0, 4)
	if o.mode != model.ModeLog {
		nb = r.Range(1, 4)
	}
	var chosen []c12BlockInfo
	if o.mode == model.ModeLog && (o.pushdown || r.Chance(1, 2)) {
		chosen = append(chosen, c12BlockFields[0])
	}
	if o.mode == model.ModeTrace {
		for _, bf := range bpool {
			if strings.HasPrefix(bf.name, "trace_") {
				chosen = append(chosen, bf)
				break
			}
		}
	}
	for i := 0; i < nb && i < len(bpool); i++ {
		dup := false
		for _, ch := range chosen {
			if ch.name == bpool[i].name {
				dup = true
			}
		}
		if !dup {
			chosen = append(chosen, bpool[i])
		}
	}
	vk.Shuffle(r, chosen)
	settable := map[string]*c12Site{}
	for i, bf := range chosen {
		d.Block = append(d.Block, model.BlockField{Name: bf.name, Column: bf.name, ColType: gen.FieldByName(bf.name).ColType})
		s := &c12Site{where: "block", idx: i, name: bf.name, column: bf.name, kind: bf.kind, fixedLen: bf.fixedLen, bits: bf.bits}
		cands = append(cands, s)
		if bf.settable {
			settable[bf.name] = s
		}
	}
	// which candidates carry a filter
	nf := r.Range(1, 3)
	if o.noFilters || (!o.pushdown && o.ref != 2 && r.Chance(1, 12)) {
		nf = 0
	}
	vk.Shuffle(r, cands)
	// forced sites come first: log_addr (pushdown), the reference site, the array
	take := func(pred func(*c12Site) bool) *c12Site {
		for i, s := range cands {
			if pred(s) {
				cands = append(cands[:i:i], cands[i+1:]...)
				return s
			}
		}
		return nil
	}
	var forced []*c12Site
	if o.pushdown {
		if s := take(func(s *c12Site) bool { return s.name == "log_addr" }); s != nil {
			forced = append(forced, s)
		}
		nf = vk.Pick(r, []int{1, 1, 2, 2, 3})
	}
	if o.ref == 2 {
		// the reference filter sits on an address-valued site: an event input or a block field
		isAddr := func(s *c12Site) bool {
			return s.kind == "bytes" && s.fixedLen == 20 && !s.array && s.name != "tx_signer" && !(o.pushdown && s.name == "log_addr")
		}
		wantInput := r.Bool()
		rs := take(func(s *c12Site) bool { return isAddr(s) && (s.where == "input") == wantInput })
		if rs == nil && !wantInput {
			d.Block = append(d.Block, model.BlockField{Name: "tx_to", Column: "tx_to", ColType: "bytea"})
			rs = &c12Site{where: "block", idx: len(d.Block) - 1, name: "tx_to", column: "tx_to", kind: "bytes", fixedLen: 20}
			settable["tx_to"] = rs
		}
		if rs == nil {
			rs = take(isAddr)
		}
		if rs == nil {
			d.Block = append(d.Block, model.BlockField{Name: "tx_to", Column: "tx_to", ColType: "bytea"})
			rs = &c12Site{where: "block", idx: len(d.Block) - 1, name: "tx_to", column: "tx_to", kind: "bytes", fixedLen: 20}
			settable["tx_to"] = rs
		}
		rs.useRef = true
		forced = append(forced, rs)
	}
	if o.pushRef {
		nf = vk.Pick(r, []int{2, 2, 2, 3})
	}
	if o.array == 1 {
		if s := take(func(s *c12Site) bool { return s.array }); s != nil {
			forced = append(forced, s)
		}
	}
	if nf < len(forced) {
		nf = len(forced)
	}
	cands = append(forced, cands...)
	if nf > len(cands) {
		nf = len(cands)
	}
	sites := cands[:nf]
	// pools: every site that can be steered, and every address-valued field in ref scenarios
	for _, s := range cands {
		if s.where == "block" && settable[s.name] == nil {
			continue
		}
		isSite := false
		for _, t := range sites {
			if t == s {
				isSite = true
			}
		}
		if !isSite && !(o.ref == 2 && s.fixedLen == 20) {
			continue
		}
		s.op = c12Op(r, s.kind)
		switch {
		case s.name == "log_addr":
			for _, a := range sc.addrs {
				s.pool = append(s.pool, a)
			}
		case o.ref == 2 && s.kind == "bytes" && s.fixedLen == 20:
			for _, a := range sc.addrPool {
				s.pool = append(s.pool, a)
			}
		case s.kind == "bytes":
			s.pool = c12BytesPool(r, s.fixedLen)
		case s.kind == "string":
			s.pool = c12StringPool(r, s.op)
		default:
			s.pool = c12NumPool(r, s.bits)
		}
	}
	for _, s := range sites {
		if s.op == "" {
			s.op = c12Op(r, s.kind)
		}
	}
	sc.bare = d

	// referenced integration (always declared when references are possible)
	if o.ref > 0 {
		sc.ref = &model.Decl{Name: namePoolIG[1], Enabled: true, Table: namePoolTbl[1], ColTypes: map[string]string{}, InFilter: map[string]model.Filter{}}
		sc.ref.Sources = []model.SrcRef{{Name: namePoolSrc[0], Start: 1}}
		sc.ref.Block = []model.BlockField{{Name: "tx_signer", Column: "who", ColType: "bytea"}, {Name: "tx_to", Column: "who2", ColType: "bytea"}}
	}

	// chain
	seed := r.U64()
	co := gen.ChainOpts{Seed: seed, MinTxs: 1, MaxTxs: 3, MaxLogs: 3, MaxTraces: 3}
	switch o.mode {
	case model.ModeTrace:
		co.MinTraces = 1
	case model.ModeLog:
		inPool := map[int]*c12Site{}
		for _, s := range cands {
			if s.where == "input" && len(s.pool) > 0 {
				inPool[s.idx] = s
			}
		}
		target := func(r *vk.RNG) simnode.Log {
			vals := make([]any, len(d.Inputs))
			for i, f := range d.Inputs {
				s := inPool[i]
				one := func(t refmodel.Type) any {
					if s != nil && r.Chance(5, 6) {
						v := vk.Pick(r, s.pool)
						if b, ok := v.([]byte); ok {
							v = append([]byte{}, b...)
						}
						return v
					}
					return c11Value(r, t)
				}
				if f.Type.IsArray() {
					// never empty: element values on both sides of the later argument inside one log
					n := f.Type.N
					if f.Type.Kind == refmodel.KArray {
						n = vk.Pick(r, []int{1, 2, 3, 3, 4, 5})
					}
					es := make([]any, n)
					for k := range es {
						es[k] = one(*f.Type.Elem)
					}
					vals[i] = es
				} else {
					vals[i] = one(f.Type)
				}
			}
			return model.MakeLog(d.EventName, d.Inputs, vals, vk.Pick(r, sc.addrs))
		}
		co.Makers = append([]gen.LogMaker{target, target, target, target, target}, gen.DecoyMakers(d, sc.addrs, gen.ABIOpts{DynLen: 3})...)
	}
	inner := gen.Content(co)
	sc.chain = simnode.NewChain(nextChainID(), func(b *simnode.Block) {
		inner(b)
		rr := vk.NewRNG(vk.Derive(seed, 0xC12, b.Version))
		pick := func(name string) (any, bool) {
			s := settable[name]
			if s == nil || len(s.pool) == 0 || !rr.Chance(5, 6) {
				return nil, false
			}
			return vk.Pick(rr, s.pool), true
		}
		for i := range b.Txs {
			tx := &b.Txs[i]
			if o.ref == 2 {
				tx.From = vk.Pick(rr, sc.addrPool[:4])
				if tx.To != nil {
					tx.To = vk.Pick(rr, sc.addrPool)
				}
			}
			if v, ok := pick("tx_signer"); ok && o.ref != 2 {
				tx.From = v.([]byte)
			}
			if v, ok := pick("tx_to"); ok && o.ref != 2 {
				tx.To = v.([]byte)
			}
			if v, ok := pick("tx_input"); ok {
				tx.Input = v.([]byte)
			}
			if v, ok := pick("tx_nonce"); ok {
				tx.Nonce = v.(*big.Int).Uint64()
			}
			if v, ok := pick("tx_gas_used"); ok {
				tx.GasUsed = v.(*big.Int).Uint64()
			}
			if v, ok := pick("tx_value"); ok {
				tx.Value = v.(*big.Int)
			}
			if v, ok := pick("tx_gas_price"); ok {
				tx.GasPrice = v.(*big.Int)
			}
			if v, ok := pick("tx_max_fee_per_gas"); ok {
				tx.MaxFee = v.(*big.Int)
			}
			if v, ok := pick("tx_effective_gas_price"); ok {
				tx.EffGasPrice = v.(*big.Int)
			}
			for j := range tx.Traces {
				if v, ok := pick("trace_action_from"); ok {
					tx.Traces[j].From = v.([]byte)
				}
				if v, ok := pick("trace_action_to"); ok {
					tx.Traces[j].To = v.([]byte)
				}
				if v, ok := pick("trace_action_value"); ok {
					tx.Traces[j].Value = v.(*big.Int)
				}
			}
		}
	})
	sc.chain.Grow(o.nblocks)

	// observed values per site, then arguments
	var rows []model.Row
	for _, b := range sc.chain.Canon()[1:] {
		rows = append(rows, model.ProjectBlock(d, namePoolSrc[0], sc.chainID, b, nil)...)
	}
	for _, s := range sites {
		seen := map[string]bool{}
		var obs []fakepg.Value
		for _, row := range rows {
			k := model.CanonValue(row[s.column])
			if !seen[k] {
				seen[k] = true
				obs = append(obs, row[s.column])
			}
		}
		sort.Slice(obs, func(i, j int) bool { return model.CanonValue(obs[i]) < model.CanonValue(obs[j]) })
		s.filter = c12Filter(r, sc, s, obs)
	}
	// declaration with filters
	fd := *d
	fd.InFilter = map[string]model.Filter{}
	fd.Block = append([]model.BlockField(nil), d.Block...)
	for _, s := range sites {
		if !s.filter.Active() {
			continue
		}
		if s.where == "input" {
			fd.InFilter[s.name] = s.filter
		} else {
			fd.Block[s.idx].Filter = s.filter
		}
		sc.sites = append(sc.sites, s)
	}
	if len(sc.sites) > 0 {
		sc.agg = vk.Pick(r, []string{"and", "or", ""})
		if len(sc.sites) > 1 && r.Chance(1, 2) {
			sc.agg = vk.Pick(r, []string{"and", "or"})
		}
	}
	if o.pushRef && len(sc.sites) > 1 {
		sc.agg = vk.Pick(r, []string{"or", "or", "", "", "and"})
	}
	fd.FilterAgg = sc.agg
	if sc.agg != "" && r.Chance(1, 8) {
		// the keyword in another letter case: refused at start-up, or it means what the lower-case word means
		fd.FilterAgg = vk.Pick(r, []string{strings.ToUpper(sc.agg), strings.ToUpper(sc.agg[:1]) + sc.agg[1:]})
	}
	sc.d = &fd
	return sc
}

// aggSpellingRefused: the configuration spelled filter_agg in another letter case and start-up refused it.
func (sc *c12Scenario) aggSpellingRefused(c *vk.Case, err error) bool {
	if sc.d.FilterAgg != sc.agg && strings.Contains(err.Error(), "filter_agg") {
		c.Obs("filter_agg_other_case_refused", 1)
		return true
	}
	return false
}

// c12Filter picks operator arguments among observed values, their neighbours
// and absent values.
func c12Filter(r *vk.RNG, sc *c12Scenario, s *c12Site, obs []fakepg.Value) model.Filter {
	if s.useRef || (sc.o.ref == 1 && s.kind == "bytes" && r.Chance(1, 4)) {
		op := vk.Pick(r, []string{"contains", "contains", "!contains"})
		col := "who"
		if sc.o.ref == 1 {
			// random referenced-table contents: some observed values, some absent ones; two columns of the one
			// referenced table hold different sets (a lookup is about a column, not about the table)
			set := sc.refSet
			if r.Bool() {
				col = "who2"
				if sc.refSet2 == nil {
					sc.refSet2 = map[string]bool{}
				}
				set = sc.refSet2
			}
			for _, v := range obs {
				if b, ok := v.([]byte); ok && r.Bool() {
					set[string(b)] = true
				}
			}
			for i := r.Intn(3); i > 0; i-- {
				set[string(r.Bytes(20))] = true
			}
		}
		return model.Filter{Op: op, Ref: &model.Ref{Integration: sc.ref.Name, Column: col}}
	}
	if sc.o.pushRef && s.name == "log_addr" {
		// complete addresses of emitting contracts: a restriction that looks legitimate
		f := model.Filter{Op: vk.Pick(r, []string{"contains", "eq"})}
		s.op = f.Op
		as := append([][]byte(nil), sc.addrs...)
		vk.Shuffle(r, as)
		for _, a := range as[:r.Range(1, 2)] {
			f.Arg = append(f.Arg, "0x"+hex.EncodeToString(a))
		}
		return f
	}
	f := model.Filter{Op: s.op}
	switch s.kind {
	case "bytes":
		var vals [][]byte
		for _, v := range obs {
			if b, ok := v.([]byte); ok && len(b) > 0 {
				vals = append(vals, b)
			}
		}
		n := vk.Pick(r, []int{1, 1, 2, 3})
		for i := 0; i < n; i++ {
			var a []byte
			switch x := r.Intn(10); {
			case len(vals) == 0 || x == 0:
				l := s.fixedLen
				if l == 0 {
					l = r.Range(1, 24)
				}
				if s.name == "log_addr" {
					l = 20
				}
				a = r.Bytes(l) // absent
			case x == 1:
				a = flipByte(vk.Pick(r, vals), r.Intn(64)) // near miss (may coincide with a pool value)
			case x <= 3 && strings.HasSuffix(s.op, "contains") && (s.name != "log_addr" || (sc.o.pushdown && r.Chance(1, 4))):
				v := vk.Pick(r, vals)
				if len(v) < 2 {
					a = v
					break
				}
				lo := r.Intn(len(v) - 1)
				hi := r.Range(lo+1, len(v))
				if hi-lo == len(v) {
					hi--
				}
				a = v[lo:hi] // a proper fragment
			default:
				a = vk.Pick(r, vals)
			}
			f.Arg = append(f.Arg, hexArg(r, a))
		}
	case "string":
		var vals []string
		for _, v := range obs {
			if x, ok := v.(string); ok {
				vals = append(vals, x)
			}
		}
		n := 1
		if strings.HasSuffix(s.op, "contains") {
			n = vk.Pick(r, []int{1, 1, 2, 3})
		}
		for i := 0; i < n; i++ {
			a := "zz" + c12Letters(r, r.Range(1, 6)) // absent
			if len(vals) > 0 && r.Chance(3, 4) {
				a = vk.Pick(r, vals)
			}
			if strings.HasSuffix(s.op, "contains") {
				// keep out of the region where "one of the arguments" and "substring" disagree
				for _, v := range vals {
					if v != a && strings.Contains(v, a) {
						a = "zz" + c12Letters(r, 7)
						break
					}
				}
			}
			f.Arg = append(f.Arg, a)
		}
	default:
		var vals []*big.Int
		for _, v := range obs {
			if x, ok := v.(*big.Int); ok {
				vals = append(vals, x)
			}
		}
		a := big.NewInt(int64(r.Intn(5)))
		if len(vals) > 0 {
			a = new(big.Int).Set(vk.Pick(r, vals))
			switch r.Intn(4) {
			case 0:
				a.Add(a, big.NewInt(1))
			case 1:
				if a.Sign() > 0 {
					a.Sub(a, big.NewInt(1))
				}
			}
		}
		lim := pow2(256)
		if s.kind == "u64" {
			lim = pow2(64)
		}
		if a.Cmp(lim) >= 0 {
			a.Sub(lim, big.NewInt(1))
		}
		f.Arg = []string{a.String()}
	}
	return f
}

// ---------------------------------------------------------------------------
// evaluation

type c12Item struct {
	id      string
	row     model.Row
	results []bool // per active filter
	counted []bool
	want    bool
	got     bool
	logKey  string // the item without its element position
}

func c12ID(mode model.Mode, row model.Row) string {
	id := model.CanonValue(row["block_num"]) + "/" + model.CanonValue(row["tx_idx"])
	switch mode {
	case model.ModeLog:
		id += "/" + model.CanonValue(row["log_idx"]) + "/" + model.CanonValue(row["abi_idx"])
	case model.ModeTrace:
		id += "/" + model.CanonValue(row["trace_action_idx"])
	}
	return id
}

func c12Fold(agg string, res, counted []bool) bool {
	set, val := false, false
	for i := range res {
		if !counted[i] {
			continue
		}
		switch {
		case !set:
			set, val = true, res[i]
		case agg == "and":
			val = val && res[i]
		default:
			val = val || res[i]
		}
	}
	return !set || val
}

// c12Evaluate computes, for every item the declaration would emit without
// filters, the reference verdict; got is filled from the emitted identities.
func (sc *c12Scenario) evaluate(c *vk.Case, blocks []*simnode.Block, gotIDs map[string]int) ([]*c12Item, bool) {
	var items []*c12Item
	nwant := 0
	for _, b := range blocks {
		for _, row := range model.ProjectBlock(sc.bare, namePoolSrc[0], sc.chainID, b, nil) {
			it := &c12Item{id: c12ID(sc.o.mode, row), row: row}
			it.logKey = model.CanonValue(row["block_num"]) + "/" + model.CanonValue(row["tx_idx"]) + "/" + model.CanonValue(row["log_idx"]) + "/" + model.CanonValue(row["trace_action_idx"])
			for _, s := range sc.sites {
				res, counted := model.AcceptOne(s.filter, row[s.column], sc.look)
				it.results = append(it.results, res)
				it.counted = append(it.counted, counted)
				c12Boundary(c, s, row[s.column])
			}
			it.want = c12Fold(sc.agg, it.results, it.counted)
			if it.want {
				nwant++
			}
			it.got = gotIDs[it.id] > 0
			items = append(items, it)
		}
	}
	// self-check of the harness: the per-filter fold and the projection agree
	nproj := 0
	for _, b := range blocks {
		nproj += len(model.ProjectBlock(sc.d, namePoolSrc[0], sc.chainID, b, sc.look))
	}
	if nproj != nwant {
		c.Inconclusive("oracle self-check: projection accepts %d items, per-filter fold %d (%s)", nproj, nwant, sc.describe())
		return nil, false
	}
	return items, true
}

func c12Boundary(c *vk.Case, s *c12Site, v fakepg.Value) {
	if s.filter.Ref != nil || len(s.filter.Arg) == 0 {
		return
	}
	switch x := v.(type) {
	case *big.Int:
		a, ok := new(big.Int).SetString(s.filter.Arg[0], 10)
		if !ok {
			return
		}
		switch d := new(big.Int).Sub(x, a); {
		case d.Sign() == 0:
			c.Obs("values_at_argument", 1)
		case d.Cmp(big.NewInt(1)) == 0:
			c.Obs("values_just_above_argument", 1)
		case d.Cmp(big.NewInt(-1)) == 0:
			c.Obs("values_just_below_argument", 1)
		}
	case []byte:
		for _, a := range s.filter.Arg {
			ab, _ := hex.DecodeString(strings.TrimPrefix(strings.TrimPrefix(a, "0x"), "0X"))
			switch {
			case string(ab) == string(x):
				c.Obs("values_at_argument", 1)
			case len(ab) > 0 && len(ab) < len(x) && strings.Contains(string(x), string(ab)):
				c.Obs("values_containing_fragment_argument", 1)
			case len(ab) == len(x) && len(x) > 0:
				diff := 0
				for i := range x {
					if x[i] != ab[i] {
						diff++
					}
				}
				if diff == 1 {
					c.Obs("values_one_byte_off_argument", 1)
				}
			}
		}
	case string:
		for _, a := range s.filter.Arg {
			if a == x {
				c.Obs("values_at_argument", 1)
			}
		}
	}
}

// judge attributes every wrong outcome. excluded (pipeline) tells whether the
// item's log was never served because of the address restriction.
func (sc *c12Scenario) judge(c *vk.Case, path string, items []*c12Item, gotIDs map[string]int, detail map[string]any, excluded func(*c12Item) (bool, string)) {
	known := map[string]bool{}
	for _, it := range items {
		known[it.id] = true
		c.Obs("items_evaluated", 1)
		if it.want {
			c.Obs("items_accepted_by_reference", 1)
		} else {
			c.Obs("items_rejected_by_reference", 1)
		}
		if len(sc.sites) > 1 {
			and, or := c12Fold("and", it.results, it.counted), c12Fold("or", it.results, it.counted)
			if and != or {
				c.Obs("items_where_and_differs_from_or", 1)
			}
		}
		if gotIDs[it.id] > 1 {
			c.Violate("item-emitted-twice", merge(detail, map[string]any{"item": it.id, "times": gotIDs[it.id]}), "%s: item %s was emitted %d times", path, it.id, gotIDs[it.id])
		}
	}
	for id := range gotIDs {
		if !known[id] {
			c.Violate("row-for-unknown-item", merge(detail, map[string]any{"item": id}), "%s: a row was emitted for %s, which is not an item of the declaration", path, id)
		}
	}
	// rows per log; logs whose rows get different verdicts from a filter on the array
	rowsPerLog := map[string]int{}
	accPerLog := map[string]int{}
	for _, it := range items {
		rowsPerLog[it.logKey]++
		if it.want {
			accPerLog[it.logKey]++
		}
	}
	arrayFiltered := false
	for _, s := range sc.sites {
		if s.array {
			arrayFiltered = true
		}
	}
	if arrayFiltered {
		for k, n := range rowsPerLog {
			if n > 1 {
				c.Obs("rows_of_multi_row_logs_under_array_filter", int64(n))
				if accPerLog[k] > 0 && accPerLog[k] < n {
					c.Obs("logs_with_mixed_element_verdicts", 1)
				}
			}
		}
	}
	// items whose log the node never served say nothing about the filters
	lost := map[*c12Item]string{}
	unserved := map[*c12Item]bool{}
	if excluded != nil {
		for _, it := range items {
			if ex, key := excluded(it); ex && !it.got {
				unserved[it] = true
				if it.want {
					lost[it] = key
				}
			}
		}
	}
	// does the other aggregation explain every outcome of the case? which single
	// filters could (for every item some result of that one filter gives the outcome)?
	other := "and"
	if sc.agg == "and" {
		other = "or"
	}
	swapExplains, anyWrong := len(sc.sites) > 1, false
	discriminating := 0 // items on which the two aggregations differ
	explains := make([]bool, len(sc.sites))
	for i := range explains {
		explains[i] = true
	}
	for _, it := range items {
		if unserved[it] {
			continue
		}
		if it.got != it.want {
			anyWrong = true
		}
		if it.got != c12Fold(other, it.results, it.counted) {
			swapExplains = false
		}
		if c12Fold("and", it.results, it.counted) != c12Fold("or", it.results, it.counted) {
			discriminating++
		}
		for i := range sc.sites {
			ok := c12Fold(sc.agg, it.results, it.counted) == it.got
			if it.counted[i] && !ok {
				res := append([]bool(nil), it.results...)
				res[i] = !res[i]
				ok = c12Fold(sc.agg, res, it.counted) == it.got
			}
			if !ok {
				explains[i] = false
			}
		}
	}
	// a verdict is a function of the item's own filtered values (the referenced
	// table is fixed): two items with the same values and different outcomes show
	// state carried from one item to the next
	valKey := func(it *c12Item) string {
		var sb strings.Builder
		for _, s := range sc.sites {
			sb.WriteString(model.CanonValue(it.row[s.column]))
			sb.WriteByte('|')
		}
		return sb.String()
	}
	firstWith := map[string][2]*c12Item{}
	if len(sc.sites) > 0 {
		for _, it := range items {
			if unserved[it] {
				continue
			}
			k, gi := valKey(it), 0
			if it.got {
				gi = 1
			}
			p := firstWith[k]
			if p[gi] == nil {
				p[gi] = it
				firstWith[k] = p
			}
		}
	}
	var explainers []int
	for i, e := range explains {
		if e {
			explainers = append(explainers, i)
		}
	}
	if !anyWrong && len(lost) == 0 {
		return
	}
	for _, it := range items {
		if it.got == it.want {
			continue
		}
		dir := "wrongly-rejected"
		if it.got {
			dir = "wrongly-accepted"
		}
		per := map[string]any{}
		for i, s := range sc.sites {
			per[s.describe()] = fmt.Sprintf("value=%s reference=%v counted=%v", model.CanonValue(it.row[s.column]), it.results[i], it.counted[i])
		}
		det := merge(detail, map[string]any{"item": it.id, "outcome": dir, "per_filter": per, "aggregation": sc.agg, "candidate_row": c12RowString(it.row)})
		if key, isLost := lost[it]; isLost {
			c.Violate(key, det, "%s: item %s is accepted by the declared filters but the restriction sent with eth_getLogs excluded its log", path, it.id)
			continue
		}
		if len(sc.sites) > 0 {
			gi := 1
			if it.got {
				gi = 0
			}
			if partner := firstWith[valKey(it)][gi]; partner != nil {
				key := "filter-outcome-not-a-function-of-the-item"
				if rowsPerLog[it.logKey] > 1 || rowsPerLog[partner.logKey] > 1 {
					key = "filter-state-leaks-between-rows-of-one-log"
				}
				c.Violate(key, merge(det, map[string]any{"same_values_other_outcome": partner.id, "rows_of_this_log": rowsPerLog[it.logKey]}),
					"%s: item %s %s although item %s with the same filtered values got the opposite outcome", path, it.id, dir, partner.id)
				continue
			}
		}
		switch {
		case len(sc.sites) == 0:
			c.Violate("no-filters:"+dir, det, "%s: item %s %s although the integration declares no filter", path, it.id, dir)
		case len(sc.sites) == 1:
			c.Violate(sc.sites[0].key(), det, "%s: item %s %s by %s", path, it.id, dir, sc.sites[0].describe())
		case len(explainers) == 1 && !swapExplains:
			s := sc.sites[explainers[0]]
			c.Violate(s.key(), merge(det, map[string]any{"attributed_to": s.describe()}), "%s: item %s %s; every outcome of the case is explained by filter %s alone", path, it.id, dir, s.describe())
		case swapExplains && len(explainers) == 0 && discriminating >= 3:
			c.Violate(fmt.Sprintf("filter-agg:declared=%s:behaves-as=%s", aggName(sc.agg), other), det, "%s: item %s %s; every outcome of the case matches aggregation %q instead of the declared %q", path, it.id, dir, other, sc.agg)
		default:
			var ex []string
			for _, i := range explainers {
				ex = append(ex, sc.sites[i].describe())
			}
			c.Violate("filters:wrong-outcome-not-attributed", merge(det, map[string]any{"single_filters_that_could_explain": ex, "other_aggregation_explains": swapExplains}),
				"%s: item %s %s by %d filters under %q (not attributable to one filter or to the aggregation from this case alone)", path, it.id, dir, len(sc.sites), sc.agg)
		}
	}
}

func c12RowString(row model.Row) string {
	var cols []string
	for k := range row {
		cols = append(cols, k)
	}
	sort.Strings(cols)
	return model.CanonRow(row, cols)
}

func aggName(a string) string {
	if a == "" {
		return "default"
	}
	return a
}

func (sc *c12Scenario) sigs(c *vk.Case, path string) {
	hasData := false
	for _, f := range sc.d.Inputs {
		if !f.Indexed {
			hasData = true
		}
	}
	for _, s := range sc.sites {
		w, cls := s.where, "input-data"
		switch {
		case s.where == "block":
			w, cls = s.name, "block"
			if s.name == "log_addr" {
				cls = "log_addr"
			}
		case s.indexed:
			w, cls = "input-indexed", "input-indexed"
		case s.array:
			w, cls = "input-array", "input-array"
		}
		c.Seen("matrix", strings.TrimPrefix(s.key(), "filter:"))
		c.Seen("filtered_sites", w+":"+s.filter.Op)
		c.SetSig("path=%s filter=%s site=%s agg=%s nfilters=%d", path, strings.TrimPrefix(s.key(), "filter:"), cls, aggName(sc.agg), len(sc.sites))
	}
	c.SetSig("path=%s mode=%s nfilters=%d agg=%s data=%v", path, sc.o.mode, len(sc.sites), aggName(sc.agg), hasData)
}

// ---------------------------------------------------------------------------
// reference-answering connection (direct path)

var reRefQuery = regexp.MustCompile(`(?s)^\s*select\s+true\s+from\s+(\S+)\s+where\s+(\S+)\s*=\s*\$1\s*$`)

type boolRow struct{ v bool }

func (b boolRow) Scan(dest ...any) error {
	if len(dest) != 1 {
		return fmt.Errorf("refConn: %d scan targets", len(dest))
	}
	p, ok := dest[0].(*bool)
	if !ok {
		return fmt.Errorf("refConn: scan target %T", dest[0])
	}
	*p = b.v
	return nil
}

// refConn records COPYs like recConn and answers reference lookups from a set.
type refConn struct {
	recConn
	table, col string
	set        map[string]bool
	lookups    int
	bad        []string
	asked      map[string]bool
	// second column of the same table
	col2   string
	set2   map[string]bool
	asked2 map[string]bool
}

func (rc *refConn) QueryRow(_ context.Context, q string, args ...any) pgx.Row {
	rc.lookups++
	m := reRefQuery.FindStringSubmatch(q)
	if m != nil && rc.col2 != "" && strings.Trim(m[1], `"`) == rc.table && strings.Trim(m[2], `"`) == rc.col2 && len(args) == 1 {
		if x, ok := args[0].([]byte); ok {
			if rc.asked2 == nil {
				rc.asked2 = map[string]bool{}
			}
			rc.asked2[string(x)] = true
			if rc.set2[string(x)] {
				return boolRow{true}
			}
			return noRow{}
		}
	}
	if m == nil || strings.Trim(m[1], `"`) != rc.table || strings.Trim(m[2], `"`) != rc.col || len(args) != 1 {
		rc.bad = append(rc.bad, q)
		return noRow{}
	}
	var key string
	switch x := args[0].(type) {
	case []byte:
		key = string(x)
	default:
		rc.bad = append(rc.bad, fmt.Sprintf("%s with argument of type %T", q, args[0]))
		return noRow{}
	}
	if rc.asked == nil {
		rc.asked = map[string]bool{}
	}
	rc.asked[key] = true
	if rc.set[key] {
		return boolRow{true}
	}
	return noRow{}
}

// ---------------------------------------------------------------------------
// paths

func c12Run(c *vk.Case) {
	switch {
	case c.Index == 0:
		c12Catalogue(c)
		c12StoredAgg(c)
	case c.Index == 1:
		c12Probes(c)
	case c.Index == 2:
		c12ArrayCatalogue(c)
	case c12IsPipe(c):
		c12Pipeline(c)
	default:
		c12Direct(c)
	}
}

func c12Mode(r *vk.RNG) model.Mode {
	switch x := r.Intn(10); {
	case x < 7:
		return model.ModeLog
	case x < 9:
		return model.ModeTx
	}
	return model.ModeTrace
}

func c12Direct(c *vk.Case) {
	r := c.R
	o := c12Opts{mode: c12Mode(r), ref: 1, nblocks: r.Range(2, 4)}
	if r.Chance(1, 5) {
		o.mode, o.array = model.ModeLog, 1
	}
	sc := c12Build(r, o)
	c12DirectRun(c, sc, c.Index >= 3 && c.Index < 9)
}

func c12DirectRun(c *vk.Case, sc *c12Scenario, sample bool) {
	o := sc.o
	blocks := sc.chain.Canon()[1:]
	detail := map[string]any{"declaration": sc.describe()}
	decls := []*model.Decl{sc.d}
	refTable := ""
	if sc.ref != nil {
		decls = append(decls, sc.ref)
		refTable = sc.ref.Table
	}
	dest, colTypes, confJSON, err, p := directDest(decls, 0)
	detail["config"] = confJSON
	switch {
	case p != nil:
		c.Violate(p.key()+":building-destination", merge(detail, map[string]any{"panic": p}), "building the destination panicked: %s", p.Val)
		return
	case err != nil && sc.aggSpellingRefused(c, err):
		return
	case err != nil:
		c.Violate("setup-rejected:"+errKey(err.Error()), merge(detail, map[string]any{"error": err.Error()}), "a declaration of the supported domain was rejected: %v", err)
		return
	}
	if sc.d.FilterAgg != sc.agg {
		c.Obs("filter_agg_other_case_accepted", 1)
	}
	rc := &refConn{table: refTable, col: "who", set: sc.refSet, col2: "who2", set2: sc.refSet2}
	_, err, p = directInsert(dest, rc, sc.chainID, ethBlocks(blocks))
	c.Obs("direct_inserts", 1)
	switch {
	case p != nil:
		c.Violate(p.key()+":insert", merge(detail, map[string]any{"panic": p}), "Integration.Insert panicked: %s", p.Val)
		return
	case err != nil:
		c.Violate("insert-error:"+errKey(err.Error()), merge(detail, map[string]any{"error": err.Error()}), "Integration.Insert failed on well-formed blocks and documented filters: %v", err)
		return
	}
	if len(rc.bad) > 0 {
		c.Violate("ref-filter:unexpected-lookup-query", merge(detail, map[string]any{"queries": shortList(rc.bad, 3), "expected_table": refTable, "expected_column": "who"}), "a reference filter looked up %q", rc.bad[0])
		return
	}
	c.Obs("reference_lookups", int64(rc.lookups))
	got, cerr := copiedRows(rc.cols, colTypes, rc.rows)
	if cerr != nil {
		c.Inconclusive("direct path: %v", cerr)
		return
	}
	gotIDs := map[string]int{}
	for _, row := range got {
		gotIDs[c12ID(o.mode, row)]++
	}
	items, ok := sc.evaluate(c, blocks, gotIDs)
	if !ok {
		return
	}
	c.Evals(int64(len(items)) + 1)
	sc.judge(c, "direct", items, gotIDs, detail, nil)
	if len(items) > 0 {
		sc.sigs(c, "direct")
	}
	if sample {
		c.Sample(map[string]any{"path": "direct", "declaration": sc.describe(), "config": confJSON, "items": len(items), "emitted": len(got)})
	}
	// the referenced table changes between two batches of the same running destination: every looked-up value
	// flips its membership; the second batch (the same blocks again) must be judged against the table as it is now
	if sc.ref == nil || len(rc.asked)+len(rc.asked2) == 0 || len(c.Res.Violations) > 0 {
		return
	}
	if len(rc.asked2) > 0 {
		c.Obs("lookups_on_second_column_of_referenced_table", int64(len(rc.asked2)))
	}
	flipped, flipped2 := map[string]bool{}, map[string]bool{}
	for k := range rc.asked {
		if !sc.refSet[k] {
			flipped[k] = true
		}
	}
	for k := range rc.asked2 {
		if !sc.refSet2[k] {
			flipped2[k] = true
		}
	}
	sc.refSet, sc.refSet2 = flipped, flipped2
	rc2 := &refConn{table: refTable, col: "who", set: flipped, col2: "who2", set2: flipped2}
	_, err, p = directInsert(dest, rc2, sc.chainID, ethBlocks(blocks))
	c.Obs("direct_inserts_after_reference_change", 1)
	detail = merge(detail, map[string]any{"phase": "second batch through the same destination after every looked-up value changed its membership in the referenced table"})
	switch {
	case p != nil:
		c.Violate(p.key()+":insert", merge(detail, map[string]any{"panic": p}), "Integration.Insert panicked: %s", p.Val)
		return
	case err != nil:
		c.Violate("insert-error:"+errKey(err.Error()), merge(detail, map[string]any{"error": err.Error()}), "Integration.Insert failed on well-formed blocks and documented filters: %v", err)
		return
	}
	got, cerr = copiedRows(rc2.cols, colTypes, rc2.rows)
	if cerr != nil {
		c.Inconclusive("direct path: %v", cerr)
		return
	}
	gotIDs = map[string]int{}
	for _, row := range got {
		gotIDs[c12ID(o.mode, row)]++
	}
	items, ok = sc.evaluate(c, blocks, gotIDs)
	if !ok {
		return
	}
	c.Evals(int64(len(items)) + 1)
	sc.judge(c, "direct:reference-table-changed", items, gotIDs, detail, nil)
}

// parseAddrJSON reads the address member of an eth_getLogs filter as logged by simnode.
func parseAddrJSON(raw string) (addrs [][]byte, restricted bool) {
	raw = strings.TrimSpace(raw)
	if raw == "" || raw == "null" {
		return nil, false
	}
	var one string
	var many []string
	switch {
	case json.Unmarshal([]byte(raw), &one) == nil:
		many = []string{one}
	case json.Unmarshal([]byte(raw), &many) == nil:
	default:
		return nil, false
	}
	if len(many) == 0 {
		return nil, false
	}
	for _, a := range many {
		b, _ := hex.DecodeString(strings.TrimPrefix(a, "0x"))
		addrs = append(addrs, b)
	}
	return addrs, true
}

// parseTopicsJSON reads the topics member of an eth_getLogs filter: per
// position nil/[] = any, else the alternatives.
func parseTopicsJSON(raw string) [][][]byte {
	raw = strings.TrimSpace(raw)
	if raw == "" || raw == "null" {
		return nil
	}
	var pos []json.RawMessage
	if json.Unmarshal([]byte(raw), &pos) != nil {
		return nil
	}
	var res [][][]byte
	for _, p := range pos {
		var one string
		var many []string
		switch {
		case json.Unmarshal(p, &one) == nil:
			many = []string{one}
		case json.Unmarshal(p, &many) == nil:
		}
		var alts [][]byte
		for _, t := range many {
			b, _ := hex.DecodeString(strings.TrimPrefix(t, "0x"))
			alts = append(alts, b)
		}
		res = append(res, alts)
	}
	return res
}

func c12Pipeline(c *vk.Case) {
	r := c.R
	every := c12PipeEveryQuick
	if c.Thorough() {
		every = c12PipeEveryThorough
	}
	sub := (c.Index / every) % 6
	o := c12Opts{mode: c12Mode(r), pipeline: true, nblocks: r.Range(4, 8)}
	subName := "general"
	switch sub {
	case 0, 1:
		o.mode, o.pushdown, subName = model.ModeLog, true, "pushdown"
	case 3:
		o.ref, subName = 2, "reference"
		if o.mode == model.ModeTrace {
			o.mode = model.ModeLog
		}
	case 4:
		// a legitimate-looking address restriction next to a reference filter
		o.mode, o.pushdown, o.ref, o.pushRef, subName = model.ModeLog, true, 2, true, "pushdown-with-reference"
	case 5:
		o.mode, o.array, subName = model.ModeLog, 1, "array"
	}
	sc := c12Build(r, o)
	c12PipeRun(c, r, sc, subName, c.Index < every*5)
}

// c12Manual builds a scenario from a hand-written declaration: Transfer with
// all inputs selected, log_addr declared, the given filters.
func c12Manual(r *vk.RNG, laOp string, laArgs func(addrs [][]byte) []string, toFilter func(tos [][]byte) *model.Filter, agg string) *c12Scenario {
	sc := &c12Scenario{o: c12Opts{mode: model.ModeLog, pushdown: true, pipeline: true, nblocks: 3}, chainID: 1, refSet: map[string]bool{}, agg: agg}
	for i := 0; i < 4; i++ {
		sc.addrs = append(sc.addrs, r.Bytes(20))
	}
	tos := [][]byte{r.Bytes(20), r.Bytes(20)}
	d := &model.Decl{Name: namePoolIG[0], Enabled: true, Table: namePoolTbl[0], ColTypes: map[string]string{}, InFilter: map[string]model.Filter{}, EventName: "Transfer"}
	d.Sources = []model.SrcRef{{Name: namePoolSrc[0], Start: 1}}
	d.Inputs = []refmodel.Field{
		{Name: "from", Type: refmodel.Address(), Indexed: true, Column: "f"},
		{Name: "to", Type: refmodel.Address(), Indexed: true, Column: "t"},
		{Name: "value", Type: refmodel.Uint(256), Column: "v"},
	}
	d.Block = []model.BlockField{{Name: "log_addr", Column: "log_addr", ColType: "bytea"}}
	sc.bare = d
	mk := func(r *vk.RNG) simnode.Log {
		return model.MakeLog(d.EventName, d.Inputs, []any{r.Bytes(20), vk.Pick(r, tos), big.NewInt(int64(r.Intn(1000)))}, vk.Pick(r, sc.addrs))
	}
	sc.chain = simnode.NewChain(nextChainID(), gen.Content(gen.ChainOpts{Seed: r.U64(), MinTxs: 1, MaxTxs: 2, MaxLogs: 3, Makers: []gen.LogMaker{mk}}))
	sc.chain.Grow(sc.o.nblocks)
	fd := *d
	fd.InFilter = map[string]model.Filter{}
	fd.Block = append([]model.BlockField(nil), d.Block...)
	la := &c12Site{where: "block", idx: 0, name: "log_addr", column: "log_addr", kind: "bytes", fixedLen: 20, op: laOp, filter: model.Filter{Op: laOp, Arg: laArgs(sc.addrs)}}
	fd.Block[0].Filter = la.filter
	sc.sites = append(sc.sites, la)
	if toFilter != nil {
		f := toFilter(tos)
		fd.InFilter["to"] = *f
		sc.sites = append(sc.sites, &c12Site{where: "input", idx: 1, name: "to", column: "t", kind: "bytes", fixedLen: 20, indexed: true, op: f.Op, filter: *f})
	}
	fd.FilterAgg = agg
	sc.d = &fd
	return sc
}

// c12ManualNested: the same shape as c12Manual, but the recipient and the value are components of a tuple input
// ("Moved(address indexed from, (address to, uint256 value) d)") and the second filter sits on the component `to`:
// a filter declared below the top level counts like any other when shovel decides whether the log_addr filter alone
// may restrict eth_getLogs.
func c12ManualNested(r *vk.RNG, agg string) *c12Scenario {
	hx := func(b []byte) string { return "0x" + hex.EncodeToString(b) }
	sc := &c12Scenario{o: c12Opts{mode: model.ModeLog, pushdown: true, pipeline: true, nblocks: 3}, chainID: 1, refSet: map[string]bool{}, agg: agg}
	for i := 0; i < 4; i++ {
		sc.addrs = append(sc.addrs, r.Bytes(20))
	}
	tos := [][]byte{r.Bytes(20), r.Bytes(20)}
	d := &model.Decl{Name: namePoolIG[0], Enabled: true, Table: namePoolTbl[0], ColTypes: map[string]string{}, InFilter: map[string]model.Filter{}, EventName: "Moved"}
	d.Sources = []model.SrcRef{{Name: namePoolSrc[0], Start: 1}}
	d.Inputs = []refmodel.Field{
		{Name: "from", Type: refmodel.Address(), Indexed: true, Column: "f"},
		{Name: "d", Type: refmodel.TupleOf(refmodel.F("to", refmodel.Address(), "t"), refmodel.F("value", refmodel.Uint(256), "v"))},
	}
	d.Block = []model.BlockField{{Name: "log_addr", Column: "log_addr", ColType: "bytea"}}
	sc.bare = d
	mk := func(r *vk.RNG) simnode.Log {
		return model.MakeLog(d.EventName, d.Inputs, []any{r.Bytes(20), []any{vk.Pick(r, tos), big.NewInt(int64(r.Intn(1000)))}}, vk.Pick(r, sc.addrs))
	}
	sc.chain = simnode.NewChain(nextChainID(), gen.Content(gen.ChainOpts{Seed: r.U64(), MinTxs: 1, MaxTxs: 2, MaxLogs: 3, Makers: []gen.LogMaker{mk}}))
	sc.chain.Grow(sc.o.nblocks)
	fd := *d
	fd.Block = append([]model.BlockField(nil), d.Block...)
	la := &c12Site{where: "block", idx: 0, name: "log_addr", column: "log_addr", kind: "bytes", fixedLen: 20, op: "contains", filter: model.Filter{Op: "contains", Arg: []string{hx(sc.addrs[0])}}}
	fd.Block[0].Filter = la.filter
	f := model.Filter{Op: "eq", Arg: []string{hx(tos[0])}}
	fd.InFilter = map[string]model.Filter{"/d/to": f}
	sc.sites = append(sc.sites, la, &c12Site{where: "input", idx: 1, name: "d.to", column: "t", kind: "bytes", fixedLen: 20, op: f.Op, filter: f})
	fd.FilterAgg = agg
	sc.d = &fd
	return sc
}

// c12ManualRef: Transfer from 5 contracts; log_addr contains [one contract]
// combined with a reference filter on the recipient (event input) or on tx_to
// (block field); the referenced table holds the transaction signers.
func c12ManualRef(r *vk.RNG, agg string, onBlock bool) *c12Scenario {
	sc := &c12Scenario{o: c12Opts{mode: model.ModeLog, pushdown: true, pushRef: true, ref: 2, pipeline: true, nblocks: 3}, chainID: 1, refSet: map[string]bool{}, agg: agg}
	for i := 0; i < 8; i++ {
		sc.addrPool = append(sc.addrPool, r.Bytes(20))
	}
	sc.addrs = sc.addrPool[2:7]
	d := &model.Decl{Name: namePoolIG[0], Enabled: true, Table: namePoolTbl[0], ColTypes: map[string]string{}, InFilter: map[string]model.Filter{}, EventName: "Transfer"}
	d.Sources = []model.SrcRef{{Name: namePoolSrc[0], Start: 1}}
	d.Inputs = []refmodel.Field{
		{Name: "from", Type: refmodel.Address(), Indexed: true, Column: "f"},
		{Name: "to", Type: refmodel.Address(), Indexed: true, Column: "t"},
		{Name: "value", Type: refmodel.Uint(256), Column: "v"},
	}
	d.Block = []model.BlockField{{Name: "log_addr", Column: "log_addr", ColType: "bytea"}}
	if onBlock {
		d.Block = append(d.Block, model.BlockField{Name: "tx_to", Column: "tx_to", ColType: "bytea"})
	}
	sc.bare = d
	sc.ref = &model.Decl{Name: namePoolIG[1], Enabled: true, Table: namePoolTbl[1], ColTypes: map[string]string{}, InFilter: map[string]model.Filter{}}
	sc.ref.Sources = []model.SrcRef{{Name: namePoolSrc[0], Start: 1}}
	sc.ref.Block = []model.BlockField{{Name: "tx_signer", Column: "who", ColType: "bytea"}}
	mk := func(r *vk.RNG) simnode.Log {
		return model.MakeLog(d.EventName, d.Inputs, []any{r.Bytes(20), vk.Pick(r, sc.addrPool), big.NewInt(int64(r.Intn(1000)))}, vk.Pick(r, sc.addrs))
	}
	seed := r.U64()
	inner := gen.Content(gen.ChainOpts{Seed: seed, MinTxs: 2, MaxTxs: 3, MaxLogs: 3, Makers: []gen.LogMaker{mk}})
	sc.chain = simnode.NewChain(nextChainID(), func(b *simnode.Block) {
		inner(b)
		rr := vk.NewRNG(vk.Derive(seed, 0xC12F, b.Version))
		for i := range b.Txs {
			b.Txs[i].From = vk.Pick(rr, sc.addrPool[:4])
			b.Txs[i].To = vk.Pick(rr, sc.addrPool)
		}
	})
	sc.chain.Grow(sc.o.nblocks)
	fd := *d
	fd.InFilter = map[string]model.Filter{}
	fd.Block = append([]model.BlockField(nil), d.Block...)
	la := &c12Site{where: "block", idx: 0, name: "log_addr", column: "log_addr", kind: "bytes", fixedLen: 20, op: "contains",
		filter: model.Filter{Op: "contains", Arg: []string{"0x" + hex.EncodeToString(sc.addrs[0])}}}
	fd.Block[0].Filter = la.filter
	rf := model.Filter{Op: "contains", Ref: &model.Ref{Integration: sc.ref.Name, Column: "who"}}
	rs := &c12Site{where: "input", idx: 1, name: "to", column: "t", kind: "bytes", fixedLen: 20, indexed: true, op: "contains", useRef: true, filter: rf}
	if onBlock {
		rs = &c12Site{where: "block", idx: 1, name: "tx_to", column: "tx_to", kind: "bytes", fixedLen: 20, op: "contains", useRef: true, filter: rf}
		fd.Block[1].Filter = rf
	} else {
		fd.InFilter["to"] = rf
	}
	sc.sites = []*c12Site{la, rs}
	fd.FilterAgg = agg
	sc.d = &fd
	return sc
}

// c12ManualArray: Batch(address who, uint64[] ids) with a filter on the
// elements (and optionally one on who); every log carries elements on both
// sides of the argument.
func c12ManualArray(r *vk.RNG, op, agg string, withScalar bool, fixed int) *c12Scenario {
	sc := &c12Scenario{o: c12Opts{mode: model.ModeLog, nblocks: 2, array: 1}, chainID: 1, refSet: map[string]bool{}, agg: agg}
	for i := 0; i < 2; i++ {
		sc.addrs = append(sc.addrs, r.Bytes(20))
	}
	whos := [][]byte{r.Bytes(20), r.Bytes(20)}
	at := refmodel.ArrayOf(refmodel.Uint(64))
	if fixed > 0 {
		at = refmodel.FixedOf(fixed, refmodel.Uint(64))
	}
	d := &model.Decl{Name: namePoolIG[0], Enabled: true, Table: namePoolTbl[0], ColTypes: map[string]string{}, InFilter: map[string]model.Filter{}, EventName: "Batch"}
	d.Sources = []model.SrcRef{{Name: namePoolSrc[0], Start: 1}}
	d.Inputs = []refmodel.Field{{Name: "who", Type: refmodel.Address(), Column: "who"}, {Name: "ids", Type: at, Column: "id"}}
	sc.bare = d
	mk := func(r *vk.RNG) simnode.Log {
		n := fixed
		if n == 0 {
			n = r.Range(3, 5)
		}
		es := make([]any, n)
		for i := range es {
			es[i] = big.NewInt(int64(4 + (i+r.Intn(2))%3)) // 4, 5, 6 around the argument 5
		}
		return model.MakeLog(d.EventName, d.Inputs, []any{vk.Pick(r, whos), es}, vk.Pick(r, sc.addrs))
	}
	sc.chain = simnode.NewChain(nextChainID(), gen.Content(gen.ChainOpts{Seed: r.U64(), MinTxs: 1, MaxTxs: 2, MaxLogs: 2, Makers: []gen.LogMaker{mk}}))
	sc.chain.Grow(sc.o.nblocks)
	fd := *d
	fd.InFilter = map[string]model.Filter{"ids": {Op: op, Arg: []string{"5"}}}
	sc.sites = []*c12Site{{where: "input", idx: 1, name: "ids", column: "id", kind: "u256", bits: 64, array: true, op: op, filter: fd.InFilter["ids"]}}
	if withScalar {
		f := model.Filter{Op: "eq", Arg: []string{"0x" + hex.EncodeToString(whos[0])}}
		fd.InFilter["who"] = f
		sc.sites = append(sc.sites, &c12Site{where: "input", idx: 0, name: "who", column: "who", kind: "bytes", fixedLen: 20, op: "eq", filter: f})
	}
	fd.FilterAgg = agg
	sc.d = &fd
	return sc
}

// c12ArrayCatalogue: minimal array-filter declarations on the direct path.
func c12ArrayCatalogue(c *vk.Case) {
	r := c.R
	for _, sc := range []*c12Scenario{
		c12ManualArray(r, "gt", "", false, 0),
		c12ManualArray(r, "gt", "and", false, 0),
		c12ManualArray(r, "lt", "or", false, 3),
		c12ManualArray(r, "eq", "and", false, 4),
		c12ManualArray(r, "ne", "or", true, 0),
		c12ManualArray(r, "gt", "and", true, 0),
	} {
		c12DirectRun(c, sc, false)
	}
}

// c12Catalogue: minimal pushdown declarations, run first so that the witness
// kept for a key is as small as the defect allows.
func c12Catalogue(c *vk.Case) {
	r := c.R
	hx := func(b []byte) string { return "0x" + hex.EncodeToString(b) }
	one := func(a [][]byte) []string { return []string{hx(a[0])} }
	toEq := func(tos [][]byte) *model.Filter { return &model.Filter{Op: "eq", Arg: []string{hx(tos[0])}} }
	for _, sc := range []*c12Scenario{
		c12Manual(r, "contains", one, nil, ""),                                                               // control: the restriction equals the filter
		c12Manual(r, "contains", one, toEq, "and"),                                                           // control: and-combined
		c12Manual(r, "!contains", one, nil, ""),                                                              // everything but one contract
		c12Manual(r, "ne", one, nil, ""),                                                                     //
		c12Manual(r, "contains", one, toEq, "or"),                                                            // one contract, or a recipient anywhere
		c12Manual(r, "contains", func(a [][]byte) []string { return []string{hx(a[0][:4])} }, nil, ""),       // address prefix
		c12Manual(r, "contains", func(a [][]byte) []string { return []string{hx(r.Bytes(20))} }, toEq, "or"), // absent contract, or a recipient
		c12ManualRef(r, "and", false),                                                                        // control: the restriction is legitimate
		c12ManualRef(r, "or", false),                                                                         // one contract, or a recipient listed in the referenced table
		c12ManualRef(r, "", true),                                                                            // default aggregation, reference filter on a block field
		c12ManualRef(r, "or", true),
		c12ManualNested(r, "and"), // control: the restriction is legitimate
		c12ManualNested(r, "or"),  // one contract, or a recipient named inside a tuple input
		c12ManualNested(r, ""),    // the same under the default aggregation
	} {
		c12PipeRun(c, r, sc, "catalogue", false)
	}
}

func c12PipeRun(c *vk.Case, r *vk.RNG, sc *c12Scenario, subName string, sample bool) {
	o := sc.o
	baseViol := len(c.Res.Violations)
	decls := []*model.Decl{sc.d}
	if sc.ref != nil {
		decls = append(decls, sc.ref)
	}
	node := simnode.Global().NewNode(sc.chain)
	spec := &scen.Spec{
		Sources: []scen.SourceSpec{{Name: namePoolSrc[0], ChainID: sc.chainID, Batch: r.Range(1, 4), Concurrency: r.Range(1, 2), Poll: "1h", Node: node}},
		Decls:   decls,
	}
	env, err := scen.New(spec, false)
	if err != nil {
		c.Inconclusive("environment: %v", err)
		return
	}
	defer env.Close()
	detail := map[string]any{"declaration": sc.describe(), "config": string(env.ConfJSON), "sub_case": subName}
	if env.SetupErr != nil && sc.aggSpellingRefused(c, env.SetupErr) {
		return
	}
	if env.SetupErr != nil {
		c.Violate("setup-rejected:"+env.SetupStage+":"+errKey(env.SetupErr.Error()), merge(detail, map[string]any{"error": env.SetupErr.Error()}), "a declaration of the supported domain was rejected at %s: %v", env.SetupStage, env.SetupErr)
		return
	}
	task := env.Task(namePoolSrc[0], sc.d.Name)
	if task == nil {
		c.Inconclusive("task missing")
		return
	}
	plan := task.VerifInfo().Filter
	detail["plan"] = plan

	if sc.ref != nil {
		// the referenced integration runs to the head first; then rows are added by SQL
		rt := env.Task(namePoolSrc[0], sc.ref.Name)
		if rt == nil {
			c.Inconclusive("referenced task missing")
			return
		}
		if ok, lastErr := runToHead(c, env, rt, sc.chain, "pipeline:referenced:", detail, nil); !ok {
			if len(c.Res.Violations) == baseViol {
				c.Inconclusive("referenced integration did not reach the head: %s", lastErr)
			}
			return
		}
		nseed := r.Intn(3)
		for i := 0; i < nseed; i++ {
			v := vk.Pick(r, sc.addrPool[4:])
			if r.Chance(1, 4) {
				v = r.Bytes(20)
			}
			_, err := env.Pool.Exec(env.Ctx, fmt.Sprintf(`insert into %s (ig_name, src_name, block_num, tx_idx, who) values ($1,$2,$3,$4,$5)`, sc.ref.Table), "seeded", "elsewhere", uint64(1000+i), 0, v)
			if err != nil {
				c.Inconclusive("seeding the referenced table: %v", err)
				return
			}
			c.Obs("reference_rows_inserted_by_sql", 1)
		}
		var rt2 *fakepg.Table
		env.PG.Read(func() {
			rt2 = env.PG.TableByName("public." + sc.ref.Table)
			if rt2 == nil {
				return
			}
			ci := rt2.ColIdx("who")
			for _, row := range env.PG.CommittedRows("public." + sc.ref.Table) {
				if b, ok := row.Vals[ci].([]byte); ok {
					sc.refSet[string(b)] = true
				}
			}
		})
		if rt2 == nil {
			c.Inconclusive("referenced table missing")
			return
		}
		c.Obs("reference_table_values", int64(len(sc.refSet)))
	}

	// run the integration under test, remembering the address restrictions it sent
	var pushed [][]byte
	var pushedTopics [][][]byte
	restricted := false
	nreq := 0
	onStep := func(res *scen.StepResult) {
		for _, s := range res.Served {
			if s.Method != "eth_getLogs" {
				continue
			}
			nreq++
			if ts := parseTopicsJSON(s.Topics); ts != nil {
				pushedTopics = ts
			}
			if as, ok := parseAddrJSON(s.Addr); ok {
				restricted = true
				pushed = append(pushed, as...)
			}
		}
	}
	pm := newPairMon(c, env, namePoolSrc[0], sc.d.Name)
	reached, lastErr := runToHead(c, env, task, sc.chain, "pipeline:", detail, onStep)
	if len(c.Res.Violations) > baseViol {
		return
	}
	t, rows, cursors := pm.pairRows()
	if !reached || len(cursors) == 0 || cursors[len(cursors)-1].num != sc.chain.Head().Num {
		c.Violate("pipeline:never-reached-head:"+subName+":"+errKey(lastErr), merge(detail, map[string]any{"last_error": lastErr}), "the integration never reached the head (plan %s): %s", plan, lastErr)
		return
	}
	c.Obs("pipeline_cases_at_head", 1)
	if us := env.PG.Unsupported(); len(us) > 0 {
		c.Inconclusive("fakepg contract left: %v", us)
		return
	}
	if nreq > 0 {
		c.Obs("eth_getLogs_requests", int64(nreq))
		if restricted {
			c.Obs("cases_with_address_restriction", 1)
		}
	}
	gotIDs := map[string]int{}
	if t != nil {
		for _, row := range model.StoredRows(t, rows) {
			gotIDs[c12ID(o.mode, row)]++
		}
	}
	blocks := sc.chain.Canon()[1:]
	items, ok := sc.evaluate(c, blocks, gotIDs)
	if !ok {
		return
	}
	c.Evals(int64(len(items)) + 1)
	c.Obs("pipeline_items", int64(len(items)))
	if o.pushRef {
		li, ri := -1, -1
		for i, s := range sc.sites {
			switch {
			case s.filter.Ref != nil:
				ri = i
			case s.name == "log_addr":
				li = i
			}
		}
		if li >= 0 && ri >= 0 {
			c.Obs("pushdown_with_reference_cases_agg_"+aggName(sc.agg), 1)
			for _, it := range items {
				if it.results[ri] && !it.results[li] {
					if sc.agg == "and" {
						c.Obs("reference_accepted_logs_from_unlisted_addresses_under_and", 1)
					} else {
						c.Obs("reference_accepted_logs_from_unlisted_addresses_under_or", 1)
					}
				}
			}
		}
	}
	logIdx := c11LogIndex(blocks)
	inPushed := func(a []byte) bool {
		for _, p := range pushed {
			if string(p) == string(a) {
				return true
			}
		}
		return false
	}
	var la *c12Site
	for _, s := range sc.sites {
		if s.name == "log_addr" && s.where == "block" {
			la = s
		}
	}
	if restricted && o.mode == model.ModeLog {
		for _, it := range items {
			if lr := c11LogOf(logIdx, it.row); lr != nil && !inPushed(lr.l.Addr) {
				c.Obs("logs_outside_address_restriction", 1)
				if it.want {
					c.Obs("accepted_logs_outside_address_restriction", 1)
				}
			}
		}
	}
	excluded := func(it *c12Item) (bool, string) {
		if o.mode != model.ModeLog || !strings.Contains(plan, "l") {
			return false, ""
		}
		lr := c11LogOf(logIdx, it.row)
		if lr == nil {
			return false, ""
		}
		for i, alts := range pushedTopics {
			if len(alts) == 0 {
				continue
			}
			ok := false
			for _, a := range alts {
				if i < len(lr.l.Topics) && string(a) == string(lr.l.Topics[i]) {
					ok = true
				}
			}
			if !ok {
				return true, "pushdown-loses-logs:topic-restriction"
			}
		}
		if !restricted || inPushed(lr.l.Addr) {
			return false, ""
		}
		key := "pushdown-loses-logs:other"
		if la != nil {
			partial := false
			for _, a := range la.filter.Arg {
				if len(strings.TrimPrefix(strings.TrimPrefix(a, "0x"), "0X")) != 40 {
					partial = true
				}
			}
			switch {
			case la.filter.Op == "!contains" || la.filter.Op == "ne":
				key = "pushdown-loses-logs:op=" + la.filter.Op
			case len(sc.sites) > 1 && sc.agg != "and":
				key = "pushdown-loses-logs:agg=or-with-other-filter"
				for _, s := range sc.sites {
					if s.filter.Ref != nil {
						key = "pushdown-loses-logs:agg=or-with-reference-filter"
					}
				}
			case partial:
				key = "pushdown-loses-logs:partial-address-argument"
			}
		}
		return true, key
	}
	var pushedHex []string
	for _, p := range pushed {
		if h := hex.EncodeToString(p); len(pushedHex) < 6 && (len(pushedHex) == 0 || pushedHex[len(pushedHex)-1] != h) {
			pushedHex = append(pushedHex, h)
		}
	}
	detail["eth_getLogs_address_restriction"] = pushedHex
	var emitting []string
	for _, a := range sc.addrs {
		emitting = append(emitting, hex.EncodeToString(a))
	}
	detail["emitting_addresses"] = emitting
	sc.judge(c, "pipeline", items, gotIDs, detail, excluded)
	if len(items) > 0 {
		sc.sigs(c, "pipeline-"+subName)
		c.Seen("plans", plan)
	}
	if sample {
		c.Sample(map[string]any{"path": "pipeline", "sub_case": subName, "declaration": sc.describe(), "plan": plan, "items": len(items), "emitted": len(rows), "address_restriction": pushedHex})
	}
}

// ---------------------------------------------------------------------------
// out-of-matrix probes: recorded as evidence, never judged

func c12Probes(c *vk.Case) {
	r := c.R
	c.Evals(1)
	note := func(s string) { c.Seen("out_of_matrix_behaviour", s) }
	run := func(d *model.Decl, chain *simnode.Chain) (rows []model.Row, outcome string) {
		dest, colTypes, _, err, p := directDest([]*model.Decl{d}, 0)
		if p != nil {
			return nil, "panic building: " + p.Val
		}
		if err != nil {
			return nil, "rejected: " + err.Error()
		}
		rc := &recConn{}
		_, err, p = directInsert(dest, rc, 1, ethBlocks(chain.Canon()[1:]))
		if p != nil {
			return nil, "panic in " + p.Frame + ": " + p.Class
		}
		if err != nil {
			return nil, "error: " + errKey(err.Error())
		}
		rows, _ = copiedRows(rc.cols, colTypes, rc.rows)
		return rows, "ok"
	}
	base := func() *model.Decl {
		d := &model.Decl{Name: namePoolIG[0], Enabled: true, Table: namePoolTbl[0], ColTypes: map[string]string{}, InFilter: map[string]model.Filter{}}
		d.Sources = []model.SrcRef{{Name: namePoolSrc[0], Start: 1}}
		return d
	}
	// 1. eq on tx_status (an 8-bit field)
	{
		d := base()
		d.Block = []model.BlockField{{Name: "tx_status", Column: "tx_status", ColType: "int", Filter: model.Filter{Op: "eq", Arg: []string{"1"}}}}
		chain := simnode.NewChain(nextChainID(), gen.Content(gen.ChainOpts{Seed: r.U64(), MinTxs: 3, MaxTxs: 4}))
		chain.Grow(4)
		rows, out := run(d, chain)
		zero := 0
		for _, row := range rows {
			if model.CanonValue(row["tx_status"]) == "n0" {
				zero++
			}
		}
		switch {
		case out != "ok":
			note("tx_status eq 1: " + out)
		case zero > 0:
			note("tx_status eq 1: filter ignored (rows with status 0 emitted)")
		default:
			note("tx_status eq 1: honoured")
		}
	}
	ev := func(fields []refmodel.Field, filters map[string]model.Filter, vals [][]any) (*model.Decl, *simnode.Chain) {
		d := base()
		d.EventName = "Probe"
		d.Inputs = fields
		d.InFilter = filters
		k := 0
		mk := func(r *vk.RNG) simnode.Log {
			v := vals[k%len(vals)]
			k++
			return model.MakeLog(d.EventName, d.Inputs, v, make([]byte, 20))
		}
		chain := simnode.NewChain(nextChainID(), gen.Content(gen.ChainOpts{Seed: r.U64(), MinTxs: 1, MaxTxs: 1, MaxLogs: 3, Makers: []gen.LogMaker{mk}}))
		chain.Grow(6)
		return d, chain
	}
	// 2. string contains with an argument that is a strict substring of the value
	{
		d, chain := ev([]refmodel.Field{{Name: "s", Type: refmodel.String(), Column: "s"}}, map[string]model.Filter{"s": {Op: "contains", Arg: []string{"ell"}}}, [][]any{{"hello"}, {"ell"}, {"other"}})
		rows, out := run(d, chain)
		sub, exact := 0, 0
		for _, row := range rows {
			switch row["s"] {
			case "hello":
				sub++
			case "ell":
				exact++
			}
		}
		note(fmt.Sprintf("string contains [\"ell\"]: %s; value \"hello\" emitted=%v, value \"ell\" emitted=%v", out, sub > 0, exact > 0))
	}
	// 3. gt on a byte string
	{
		d, chain := ev([]refmodel.Field{{Name: "a", Type: refmodel.Address(), Column: "a"}}, map[string]model.Filter{"a": {Op: "gt", Arg: []string{"0x01"}}}, [][]any{{make([]byte, 20)}, {r.Bytes(20)}})
		rows, out := run(d, chain)
		note(fmt.Sprintf("gt on an address input: %s, %d rows emitted (every log accepted = operator ignored)", out, len(rows)))
	}
	// 4. reference filter on a uint256 input
	{
		d, chain := ev([]refmodel.Field{{Name: "n", Type: refmodel.Uint(256), Column: "n"}}, map[string]model.Filter{"n": {Op: "contains", Ref: &model.Ref{Integration: namePoolIG[1], Column: "who"}}}, [][]any{{big.NewInt(5)}})
		ref := base()
		ref.Name, ref.Table = namePoolIG[1], namePoolTbl[1]
		ref.Block = []model.BlockField{{Name: "tx_signer", Column: "who", ColType: "bytea"}}
		dest, _, _, err, p := directDest([]*model.Decl{d, ref}, 0)
		switch {
		case p != nil:
			note("filter_ref on a uint256 input: panic building: " + p.Val)
		case err != nil:
			note("filter_ref on a uint256 input: rejected: " + errKey(err.Error()))
		default:
			_, err, p = directInsert(dest, &recConn{}, 1, ethBlocks(chain.Canon()[1:]))
			switch {
			case p != nil:
				note("filter_ref on a uint256 input: panic in " + p.Frame + ": " + p.Class)
			case err != nil:
				note("filter_ref on a uint256 input: error: " + errKey(err.Error()))
			default:
				note("filter_ref on a uint256 input: no error")
			}
		}
	}
	// 5. gt on a signed input
	{
		d, chain := ev([]refmodel.Field{{Name: "i", Type: refmodel.Int(64), Column: "i"}}, map[string]model.Filter{"i": {Op: "gt", Arg: []string{"0"}}}, [][]any{{big.NewInt(-5)}, {big.NewInt(5)}})
		rows, out := run(d, chain)
		neg := 0
		for _, row := range rows {
			if x, ok := row["i"].(*big.Int); ok && x.Sign() < 0 {
				neg++
			}
		}
		note(fmt.Sprintf("gt 0 on an int64 input: %s; negative values emitted=%v (true = filter ignored)", out, neg > 0))
	}
}

// c12StoredAgg: an integration the dashboard stored reaches the manager after config.CheckUserInput alone (it never
// passes ValidateFix) and is decoded again from its stored JSON. Whatever spelling of filter_agg that gate accepts
// must combine the filters the way the lower-case word does. Four logs (both filters accept / only the first / only
// the second / neither) make "and", "or" and the default distinguishable.
func c12StoredAgg(c *vk.Case) {
	r := c.R
	keep := append([]byte{0xAA}, r.Bytes(19)...)
	other := append([]byte{0xBB}, r.Bytes(19)...)
	fields := []refmodel.Field{{Name: "a", Type: refmodel.Address(), Indexed: true, Column: "a"}, {Name: "v", Type: refmodel.Uint(64), Column: "v"}}
	mk := func(a []byte, v int64) simnode.Log {
		return model.MakeLog("Probe", fields, []any{a, big.NewInt(v)}, r.Bytes(20))
	}
	blk := &simnode.Block{Num: 5, Hash: r.Bytes(32), Parent: r.Bytes(32), Time: 1}
	blk.Txs = []simnode.Tx{{Hash: r.Bytes(32), From: r.Bytes(20), To: r.Bytes(20), Logs: []simnode.Log{mk(keep, 50), mk(keep, 3), mk(other, 60), mk(other, 4)}}}
	for i := range blk.Txs[0].Logs {
		blk.Txs[0].Logs[i].Idx = uint64(i)
	}
	for _, spelled := range []string{"and", "AND", "And", "or", "OR", "Or", ""} {
		ig := map[string]any{
			"name": "ig-stored", "enabled": true, "sources": []any{map[string]any{"name": "src-a"}}, "filter_agg": spelled,
			"table": map[string]any{"name": "t_stored", "columns": []any{
				map[string]any{"name": "a", "type": "bytea"}, map[string]any{"name": "v", "type": "numeric"}, map[string]any{"name": "log_idx", "type": "int"}, map[string]any{"name": "abi_idx", "type": "int2"}}},
			"block": []any{map[string]any{"name": "log_idx", "column": "log_idx"}, map[string]any{"name": "abi_idx", "column": "abi_idx"}},
			"event": map[string]any{"name": "Probe", "type": "event", "anonymous": false, "inputs": []any{
				map[string]any{"indexed": true, "name": "a", "type": "address", "column": "a", "filter_op": "eq", "filter_arg": []any{"0x" + hex.EncodeToString(keep)}},
				map[string]any{"name": "v", "type": "uint64", "column": "v", "filter_op": "gt", "filter_arg": []any{"10"}},
			}},
		}
		raw, _ := json.Marshal(ig)
		var decoded config.Integration
		if err := json.Unmarshal(raw, &decoded); err != nil {
			c.Inconclusive("stored integration does not decode: %v", err)
			return
		}
		c.Obs("stored_aggregation_probes", 1)
		if err := config.CheckUserInput(config.Root{Integrations: []config.Integration{decoded}}); err != nil {
			c.Obs("stored_aggregation_refused_by_gate", 1)
			continue
		}
		// what the database hands back on the next start
		stored, _ := json.Marshal(decoded)
		var reloaded config.Integration
		if err := json.Unmarshal(stored, &reloaded); err != nil {
			c.Inconclusive("stored integration does not decode again: %v", err)
			return
		}
		var (
			dest shovel.Destination
			err  error
			pn   *panicInfo
		)
		func() {
			defer func() {
				if rr := recover(); rr != nil {
					pn = capturePanic(rr)
				}
			}()
			dest, err = shovel.NewDestination(reloaded)
		}()
		if pn != nil || err != nil {
			c.Seen("stored_aggregation_notes", fmt.Sprintf("filter_agg %q: destination not built: %v %v", spelled, err, pn))
			continue
		}
		rc := &refConn{}
		if _, err, pn := directInsert(dest, rc, 1, ethBlocks([]*simnode.Block{blk})); err != nil || pn != nil {
			c.Seen("stored_aggregation_notes", fmt.Sprintf("filter_agg %q: insert: %v %v", spelled, err, pn))
			continue
		}
		got := map[int64]bool{}
		vi := -1
		for i, n := range rc.cols {
			if n == "v" {
				vi = i
			}
		}
		for _, row := range rc.rows {
			if vi >= 0 {
				if sv, ok := storedValue(row[vi], "numeric"); ok {
					if b, ok := sv.(*big.Int); ok {
						got[b.Int64()] = true
					}
				}
			}
		}
		want := map[int64]bool{50: true}
		if strings.ToLower(spelled) != "and" {
			want = map[int64]bool{50: true, 3: true, 60: true}
		}
		c12StoredPushdown(c, spelled)
		c.Evals(1)
		if fmt.Sprint(got) != fmt.Sprint(want) {
			c.Violate(fmt.Sprintf("stored-integration:filter-agg:spelled=%s", spelled), map[string]any{"integration": string(stored), "rows_with_v": fmt.Sprint(got), "expected_v": fmt.Sprint(want)},
				"an integration stored with filter_agg %q (accepted by the dashboard's check) emits the logs with v in %v; the word means %v", spelled, got, want)
		}
	}
}

// c12StoredPushdown: the same stored integration with a log_addr filter next to the value filter. Whatever the
// aggregation word means for this integration (observed by inserting a block that holds every combination), the address
// list it hands to eth_getLogs must not exclude a log its row filter accepts.
func c12StoredPushdown(c *vk.Case, spelled string) {
	r := c.R
	addrK, addrO := append([]byte{0xA1}, r.Bytes(19)...), append([]byte{0xB2}, r.Bytes(19)...)
	fields := []refmodel.Field{{Name: "a", Type: refmodel.Address(), Indexed: true, Column: "a"}, {Name: "v", Type: refmodel.Uint(64), Column: "v"}}
	blk := &simnode.Block{Num: 6, Hash: r.Bytes(32), Parent: r.Bytes(32), Time: 1}
	var logs []simnode.Log
	for i, x := range []struct {
		addr []byte
		v    int64
	}{{addrK, 50}, {addrK, 3}, {addrO, 60}, {addrO, 4}} {
		l := model.MakeLog("Probe", fields, []any{r.Bytes(20), big.NewInt(x.v)}, x.addr)
		l.Idx = uint64(i)
		logs = append(logs, l)
	}
	blk.Txs = []simnode.Tx{{Hash: r.Bytes(32), From: r.Bytes(20), To: r.Bytes(20), Logs: logs}}
	ig := map[string]any{
		"name": "ig-stored-addr", "enabled": true, "sources": []any{map[string]any{"name": "src-a"}}, "filter_agg": spelled,
		"table": map[string]any{"name": "t_stored", "columns": []any{
			map[string]any{"name": "a", "type": "bytea"}, map[string]any{"name": "v", "type": "numeric"}, map[string]any{"name": "log_addr", "type": "bytea"}, map[string]any{"name": "log_idx", "type": "int"}}},
		"block": []any{map[string]any{"name": "log_idx", "column": "log_idx"},
			map[string]any{"name": "log_addr", "column": "log_addr", "filter_op": "contains", "filter_arg": []any{"0x" + hex.EncodeToString(addrK)}}},
		"event": map[string]any{"name": "Probe", "type": "event", "anonymous": false, "inputs": []any{
			map[string]any{"indexed": true, "name": "a", "type": "address", "column": "a"},
			map[string]any{"name": "v", "type": "uint64", "column": "v", "filter_op": "gt", "filter_arg": []any{"10"}},
		}},
	}
	raw, _ := json.Marshal(ig)
	var decoded config.Integration
	if err := json.Unmarshal(raw, &decoded); err != nil {
		return
	}
	if err := config.CheckUserInput(config.Root{Integrations: []config.Integration{decoded}}); err != nil {
		return
	}
	stored, _ := json.Marshal(decoded)
	var reloaded config.Integration
	if err := json.Unmarshal(stored, &reloaded); err != nil {
		return
	}
	var (
		dest shovel.Destination
		err  error
	)
	func() {
		defer func() { recover() }()
		dest, err = shovel.NewDestination(reloaded)
	}()
	if dest == nil || err != nil {
		return
	}
	rc := &refConn{}
	if _, err, pn := directInsert(dest, rc, 1, ethBlocks([]*simnode.Block{blk})); err != nil || pn != nil {
		return
	}
	fl := dest.Filter()
	pushed := map[string]bool{}
	for _, a := range fl.Addresses() {
		pushed[strings.ToLower(strings.TrimPrefix(a, "0x"))] = true
	}
	c.Obs("stored_pushdown_probes", 1)
	ai := -1
	for i, n := range rc.cols {
		if n == "log_addr" {
			ai = i
		}
	}
	if ai < 0 || len(pushed) == 0 {
		return // nothing is pushed down: nothing can be lost
	}
	for _, row := range rc.rows {
		b, _ := row[ai].([]byte)
		if !pushed[hex.EncodeToString(b)] {
			c.Violate(fmt.Sprintf("stored-integration:pushdown-loses-accepted-log:spelled=%s", spelled), map[string]any{"integration": string(stored), "eth_getLogs_addresses": fl.Addresses(), "accepted_log_address": hex.EncodeToString(b)},
				"an integration stored with filter_agg %q accepts a log of address %x when it is given the whole block, but asks eth_getLogs for %v only", spelled, b, fl.Addresses())
			return
		}
	}
}
