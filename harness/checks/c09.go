package checks

import (
	"bytes"
	"context"
	"database/sql/driver"
	"encoding/hex"
	"errors"
	"fmt"
	"math/big"
	"regexp"
	"runtime/debug"
	"strings"
	"sync"

	"github.com/holiman/uint256"
	"github.com/indexsupply/shovel/dig"
	"github.com/indexsupply/shovel/eth"
	"github.com/indexsupply/shovel/shovel"
	"github.com/indexsupply/shovel/shovel/config"
	"github.com/indexsupply/shovel/wpg"
	"github.com/jackc/pgx/v5"
	"github.com/jackc/pgx/v5/pgconn"

	"verif/harness/gen"
	"verif/harness/refmodel"
	"verif/harness/vk"
)

// C09 — ABI event data is decoded exactly for every type shape.
//
// The declaration always reaches the decoder the way a configuration does:
// refmodel.ToDigEvent (JSON "type" strings, components, columns) ->
// Event.ABIType() -> dig.NewResult -> Result.Scan -> Result.Bytes. The oracle is
// refmodel: own encoder for the data, ExpectedRows computed on the values.
//
// Cases 0..c09CatCases-1 run the deterministic catalogue of minimal shapes (one
// key per shape); the other cases are batches of random declarations. A random
// failure is shrunk to a minimal failing declaration and keyed by its shape
// class, so one defect yields one key however often it is hit.

const c09CatCases = 4

func init() {
	vk.Register(&vk.Check{
		ID:        "C09",
		Level:     "exploration",
		Technique: "differential oracle: independent ABI encoder + value-level row projection vs Event.ABIType/Result.Scan (direct) and Integration.Insert with a recording wpg.Conn (5% of declarations); failing declarations are shrunk to a minimal shape that names the violation key",
		Rule: "cases 0..3: a fixed catalogue of minimal shapes (uint256[k] for every k in {1..12,16,21,32,100}, bytes[], bytes[2], string[], (uint8,bytes)[], uint8[][], uint8[2][3], tuples with array members, arrays of tuples with dynamic members, skipped composites before a selected probe ...), 8 value sets each through one reused Result. " +
			"Other cases: batches of random declarations (1..5 non-indexed inputs plus 0..2 unselected indexed ones, type trees to depth 4 over uintN/intN/address/bool/bytesN/bytes/string, T[k] k in the set above, T[], tuples), a random selection inside the statement's domain (selection probability drawn per declaration from {1/4,1/2,3/4,1}), each Result reused for 1..8 encodings of fresh values (empty arrays/strings, extreme integers included). " +
			"A signature is the shape class of one input (array levels with k<10 / k>=10 over S|bytes|string|static tuple|dynamic tuple, selected or skipped) or an outcome class (row-count class, reuse length); trivial = a declaration whose expected result is a single row of scalars only.",
		Assumptions: []string{
			"row rule (statement + DESIGN C09): scalars broadcast; the row unit is an element of the innermost array level above a selected leaf; rows of sibling arrays are concatenated with nil in the other arrays' columns; no selected array (or all empty) => exactly one row; nil and empty cells are equal",
			"selections never put an array-typed selected field inside a tuple that is (transitively) an array element (excluded by the statement); tuple-typed fields themselves are never selected",
			"indexed inputs are static elementary types and are not selected here (their column mapping is C11's subject); they are present so that ABIType() must skip them",
			"insert path: a cell is accepted if it is shovel's typed rendering of the expected bytes (uint -> uint256 decimal, int -> signed decimal via Value(), address -> 20 bytes, bool, string, bytes); for elements of bool[] / string[] the raw bytes are accepted too, since the statement speaks of bytes only (counted as insert_raw_array_cells)",
			"T[k] uses k >= 1; empty tuples are not generated (not expressible in Solidity)",
		},
		NCases: func(tier string) int {
			if tier == "thorough" {
				return c09CatCases + 6000
			}
			return c09CatCases + 252
		},
		Run:              c09Run,
		CrashIsViolation: true,
		CaseTimeoutS:     300,
		Exhaustive:       func(string) bool { return false },
		MinObs: func(tier string) map[string]int64 {
			m := map[string]int64{
				"decodes": 24000, "decodes_rows_ge2": 4000, "decodes_sibling_arrays": 300, "decodes_nested_array_selected": 300,
				"decodes_tuple_array_selected": 300, "decodes_with_empty_selected_array": 300, "decodes_k_ge10": 1000, "decodes_array_of_dynamic": 1000,
				"reused_results": 2000, "insert_path_logs": 150, "insert_path_rows": 300, "wired_two_task_runs": 30, "catalogue_entries": 50, "cells_compared": 100000,
			}
			if tier == "thorough" {
				for k, v := range m {
					if k != "catalogue_entries" {
						m[k] = v * 40
					}
				}
			}
			return m
		},
	})
}

// ---------------------------------------------------------------------------
// helpers shared by C09, C10 and C13

type abiDecl struct {
	name   string
	fields []refmodel.Field
	ev     dig.Event
	leaves []refmodel.SelectedLeaf
}

func newABIDecl(name string, fields []refmodel.Field) *abiDecl {
	return &abiDecl{name: name, fields: fields, ev: refmodel.ToDigEvent(name, fields), leaves: refmodel.SelectedLeaves(fields)}
}

func (d *abiDecl) describe() string { return d.name + refmodel.Describe(d.fields) }

type panicInfo struct {
	Val   string `json:"panic"`
	Frame string `json:"frame"`
	Class string `json:"class"`
	Stack string `json:"stack"`
}

func (p *panicInfo) key() string {
	fr := p.Frame
	if fr == "" {
		fr = "no-shovel-frame"
	}
	return "panic:" + fr + ":" + p.Class
}

var (
	reSliceHiCap = regexp.MustCompile(`slice bounds out of range \[:(\d+)\] with (capacity|length) \d+`)
	reSliceLoLen = regexp.MustCompile(`slice bounds out of range \[(\d+):\d*\] with (capacity|length) \d+`)
	reSliceNegHi = regexp.MustCompile(`slice bounds out of range \[:-\d+\]`)
	reSliceNegLo = regexp.MustCompile(`slice bounds out of range \[-\d+:\]`)
	reSliceLoHi  = regexp.MustCompile(`slice bounds out of range \[\d+:\d+\]$`)
	reNonKey     = regexp.MustCompile(`[^A-Za-z0-9_.<>=\[\]-]+`)
)

// runtimeErrClass maps a panic value to a stable class without numbers.
func runtimeErrClass(v any) string {
	s := fmt.Sprint(v)
	switch {
	case reSliceNegLo.MatchString(s):
		return "slice-bounds-out-of-range[negative-low]"
	case reSliceNegHi.MatchString(s):
		return "slice-bounds-out-of-range[negative-high]"
	case reSliceHiCap.MatchString(s):
		return "slice-bounds-out-of-range[high>cap]"
	case reSliceLoLen.MatchString(s):
		return "slice-bounds-out-of-range[low>len]"
	case reSliceLoHi.MatchString(s):
		return "slice-bounds-out-of-range[low>high]"
	case strings.Contains(s, "slice bounds out of range"):
		return "slice-bounds-out-of-range"
	case strings.Contains(s, "index out of range"):
		return "index-out-of-range"
	case strings.Contains(s, "nil pointer dereference"):
		return "nil-pointer-dereference"
	case strings.Contains(s, "makeslice"):
		return "makeslice-out-of-range"
	case strings.Contains(s, "integer divide by zero"):
		return "divide-by-zero"
	}
	s = reNonKey.ReplaceAllString(s, "-")
	if len(s) > 48 {
		s = s[:48]
	}
	return strings.Trim(s, "-")
}

func capturePanic(r any) *panicInfo {
	st := string(debug.Stack())
	// frames of the panic itself come after the runtime's panic( line
	at := st
	if i := strings.Index(st, "\npanic("); i >= 0 {
		at = st[i:]
	}
	lines := strings.Split(at, "\n")
	if len(lines) > 24 {
		lines = lines[:24]
	}
	return &panicInfo{Val: fmt.Sprint(r), Frame: vk.TopShovelFrame(at), Class: runtimeErrClass(r), Stack: strings.Join(lines, "\n")}
}

// safeNewResult builds the decoder for a declaration through Event.ABIType().
func safeNewResult(ev dig.Event) (res *dig.Result, p *panicInfo) {
	defer func() {
		if r := recover(); r != nil {
			p = capturePanic(r)
		}
	}()
	return dig.NewResult(ev.ABIType()), nil
}

// safeScan decodes data with res and returns the rows.
func safeScan(res *dig.Result, data []byte) (rows [][][]byte, err error, p *panicInfo) {
	defer func() {
		if r := recover(); r != nil {
			p = capturePanic(r)
		}
	}()
	if err = res.Scan(data); err != nil {
		return nil, err, nil
	}
	return res.Bytes(), nil, nil
}

// exactCopy returns a copy with cap == len, so that any read past the end of
// the log data panics instead of silently reading a neighbour.
func exactCopy(b []byte) []byte {
	c := make([]byte, len(b))
	copy(c, b)
	return c
}

// recConn is a wpg.Conn that records what Insert copies.
type recConn struct {
	mu     sync.Mutex
	cols   []string
	rows   [][]any
	copies int
}

func (rc *recConn) CopyFrom(_ context.Context, _ pgx.Identifier, cols []string, src pgx.CopyFromSource) (int64, error) {
	rc.mu.Lock()
	defer rc.mu.Unlock()
	rc.copies++
	rc.cols = cols
	var n int64
	for src.Next() {
		vs, err := src.Values()
		if err != nil {
			return n, err
		}
		rc.rows = append(rc.rows, vs)
		n++
	}
	return n, src.Err()
}

func (rc *recConn) Exec(context.Context, string, ...any) (pgconn.CommandTag, error) {
	return pgconn.CommandTag{}, nil
}

type noRow struct{}

func (noRow) Scan(...any) error { return pgx.ErrNoRows }

func (rc *recConn) QueryRow(context.Context, string, ...any) pgx.Row { return noRow{} }

func (rc *recConn) Query(context.Context, string, ...any) (pgx.Rows, error) {
	return nil, errors.New("recConn: Query not supported")
}

func pgTypeOf(t refmodel.Type) string {
	switch t.Kind {
	case refmodel.KUint, refmodel.KInt:
		return "numeric"
	case refmodel.KBool:
		return "bool"
	case refmodel.KString:
		return "text"
	}
	return "bytea"
}

// newIntegration builds dig.Integration for a declaration with one table
// column per selected input plus the given block data columns.
func newIntegration(d *abiDecl, bd []dig.BlockData) (ig dig.Integration, err error, p *panicInfo) {
	defer func() {
		if r := recover(); r != nil {
			p = capturePanic(r)
		}
	}()
	tbl := wpg.Table{Name: "t_" + strings.ToLower(fmt.Sprintf("%x", vk.HashString(d.name)&0xffff))}
	var walk func(fs []refmodel.Field)
	walk = func(fs []refmodel.Field) {
		for _, f := range fs {
			b := f.Type.Base()
			if b.Kind == refmodel.KTuple {
				walk(b.Fields)
				continue
			}
			if f.Column != "" {
				tbl.Columns = append(tbl.Columns, wpg.Column{Name: f.Column, Type: pgTypeOf(b)})
			}
		}
	}
	walk(d.fields)
	for _, b := range bd {
		typ := "numeric"
		tbl.Columns = append(tbl.Columns, wpg.Column{Name: b.Column, Type: typ})
	}
	ig, err = dig.New("ig_abi", d.ev, bd, tbl, dig.Notification{}, "")
	return ig, err, nil
}

func safeInsert(ig dig.Integration, rc *recConn, blocks []eth.Block) (n int64, err error, p *panicInfo) {
	defer func() {
		if r := recover(); r != nil {
			p = capturePanic(r)
		}
	}()
	n, err = ig.Insert(context.Background(), &sync.Mutex{}, rc, blocks)
	return n, err, nil
}

func hexTrunc(b []byte, max int) string {
	if len(b) > max {
		return hex.EncodeToString(b[:max]) + fmt.Sprintf("...(%d bytes in all)", len(b))
	}
	return hex.EncodeToString(b)
}

// ---------------------------------------------------------------------------

type c09Outcome struct {
	ok   bool
	why  string
	got  [][][]byte
	err  error
	pan  *panicInfo
	want [][][]byte
	data []byte
}

// c09Decode runs one encoding through res and compares with the expectation.
func c09Decode(res *dig.Result, fields []refmodel.Field, vals []any) c09Outcome {
	o := c09Outcome{data: refmodel.EncodeTuple(fields, vals), want: refmodel.ExpectedRows(fields, vals)}
	o.got, o.err, o.pan = safeScan(res, exactCopy(o.data))
	switch {
	case o.pan != nil:
		o.why = "panic: " + o.pan.Val
	case o.err != nil:
		o.why = "error on well-formed data: " + o.err.Error()
	default:
		o.ok, o.why = refmodel.RowsEqual(o.got, o.want)
	}
	return o
}

func (o c09Outcome) detail(d *abiDecl) map[string]any {
	m := map[string]any{
		"declaration": d.describe(),
		"signature":   refmodel.EventSignature(d.name, d.fields),
		"data":        hexTrunc(o.data, 4096),
		"expected":    refmodel.HexRows(o.want),
		"difference":  o.why,
	}
	switch {
	case o.pan != nil:
		m["panic"] = o.pan
	case o.err != nil:
		m["got_error"] = o.err.Error()
	default:
		m["got"] = refmodel.HexRows(o.got)
	}
	return m
}

// c09Fails is the deterministic failure predicate used for shrinking: values
// are derived from the declaration text only.
func c09Fails(fs []refmodel.Field) (bool, *abiDecl, c09Outcome) {
	return c09FailsN(fs, 6)
}

func c09FailsN(fs []refmodel.Field, sets int) (bool, *abiDecl, c09Outcome) {
	d := newABIDecl("E", fs)
	res, p := safeNewResult(d.ev)
	if p != nil {
		return true, d, c09Outcome{why: "panic in ABIType: " + p.Val, pan: p}
	}
	r := vk.NewRNG(vk.HashString(refmodel.Describe(fs)))
	var first c09Outcome
	failed := false
	for i := 0; i < sets; i++ {
		o := gen.ABIOpts{DynLen: 2 + i%3, MinDynLen: i % 3} // two of three sets: arrays hold >= 1 / >= 2 elements
		out := c09Decode(res, fs, gen.Values(r, fs, o))
		if !out.ok && (!failed || len(out.data) < len(first.data)) {
			first, failed = out, true
		}
	}
	return failed, d, first
}

var (
	c09ClassMu    sync.Mutex
	c09ClassCache = map[string][2]any{}
)

// c09Classify shrinks a failing declaration and returns the shape class and
// the minimal witness.
func c09Classify(fields []refmodel.Field) (shape string, min map[string]any) {
	full := refmodel.Describe(fields)
	ck := gen.ShapeKey(fields) + "|" + strings.Join(gen.Features(fields), ",")
	c09ClassMu.Lock()
	if v, ok := c09ClassCache[ck]; ok {
		c09ClassMu.Unlock()
		return v[0].(string), v[1].(map[string]any)
	}
	c09ClassMu.Unlock()
	if f, _, _ := c09FailsN(fields, 48); !f {
		// not reproducible from 48 fresh value sets on a fresh decoder
		return "", nil
	}
	m := gen.Shrink(fields, func(fs []refmodel.Field) bool { f, _, _ := c09Fails(fs); return f })
	_, d, out := c09Fails(m)
	shape = gen.ShapeKey(m)
	min = out.detail(d)
	min["shrunk_from"] = full
	c09ClassMu.Lock()
	c09ClassCache[ck] = [2]any{shape, min}
	c09ClassMu.Unlock()
	return shape, min
}

func c09Run(c *vk.Case) {
	if err := refmodel.SelfTest(); err != nil {
		c.Inconclusive("reference model self-test failed: %v", err)
		return
	}
	if c.Index < c09CatCases {
		c09Catalogue(c)
		return
	}
	batch := 100
	if c.Thorough() {
		batch = 250
	}
	r := c.R
	var decodes int64
	sampled := false
	for decodes < int64(batch) {
		o := gen.ABIOpts{MaxDepth: r.Range(1, 4), MaxInputs: r.Range(1, 5), DynLen: r.Range(2, 5), MaxIndexed: 2}
		if r.Chance(1, 4) {
			o.MaxLeaves = 60
		}
		inputs := gen.Inputs(r, o)
		if nf, _ := refmodel.NonIndexed(inputs, nil); len(nf) == 0 {
			continue
		}
		fields := gen.Select(r, inputs, r.Range(1, 4), 4)
		if !refmodel.SelectionInDomain(fields) {
			c.Inconclusive("generator produced a selection outside the statement's domain: %s", refmodel.Describe(fields))
			return
		}
		d := newABIDecl(gen.EventName(r), fields)
		if len(d.leaves) == 0 {
			c.Obs("declarations_without_selectable_field", 1) // e.g. only an excluded array: nothing to observe
			continue
		}
		feats := gen.Features(fields)
		has := func(f string) bool {
			for _, x := range feats {
				if x == f {
					return true
				}
			}
			return false
		}
		for _, f := range fields {
			if !f.Indexed {
				c.SetSig("in:%s:sel=%v", gen.Chain(f.Type), refmodel.HasSelection(f))
			}
		}
		res, p := safeNewResult(d.ev)
		if p != nil {
			c.Violate(p.key()+":ABIType", map[string]any{"declaration": d.describe(), "panic": p}, "Event.ABIType panicked on %s: %s", d.describe(), p.Val)
			decodes++
			continue
		}
		// ncols agreement between the declaration and the decoder
		nsel := 0
		for _, in := range d.ev.Selected() {
			if !in.Indexed {
				nsel++
			}
		}
		if nsel != len(d.leaves) {
			c.Inconclusive("harness: %d selected inputs vs %d selected leaves for %s", nsel, len(d.leaves), d.describe())
			return
		}
		reuse := r.Range(1, 8)
		c.Obs("reused_results", boolN(reuse > 1))
		c.SetSig("reuse=%d", reuse)
		viaInsert := r.Chance(1, 20)
		var okVals [][]any
		declFailed := false
		for j := 0; j < reuse; j++ {
			vo := o
			vo.DynLen = r.Range(0, o.DynLen)
			vals := gen.Values(r, fields, vo)
			out := c09Decode(res, fields, vals)
			decodes++
			c.Obs("decodes", 1)
			c.Obs("cells_compared", int64(len(out.want)*len(d.leaves)))
			c.Obs("data_bytes", int64(len(out.data)))
			c.MaxObs("max_data_bytes", int64(len(out.data)))
			c.MaxObs("max_rows", int64(len(out.want)))
			if len(out.want) >= 2 {
				c.Obs("decodes_rows_ge2", 1)
			}
			c.SetSig("rows=%s", countClass(len(out.want)))
			nonEmptyArrays, emptyArrays := c09ArrayStats(fields, vals)
			if nonEmptyArrays >= 2 {
				c.Obs("decodes_sibling_arrays", 1)
			}
			if emptyArrays > 0 {
				c.Obs("decodes_with_empty_selected_array", 1)
			}
			if has("sel-nested-array") {
				c.Obs("decodes_nested_array_selected", 1)
			}
			if has("sel-in-tuple-array") {
				c.Obs("decodes_tuple_array_selected", 1)
			}
			if has("fixed-k>=10") {
				c.Obs("decodes_k_ge10", 1)
			}
			if has("array-of-bytes") || has("array-of-string") || has("array-of-dynamic-tuple") || has("dynamic-in-fixed-array") {
				c.Obs("decodes_array_of_dynamic", 1)
			}
			if has("unselected-dynamic") || has("unselected-static-composite") {
				c.Obs("decodes_with_skipped_composite", 1)
			}
			if !sampled && len(out.want) >= 2 && len(out.data) <= 1024 && out.ok {
				sampled = true
				c.Sample(map[string]any{
					"declaration": d.describe(), "signature": refmodel.EventSignature(d.name, fields),
					"data": hex.EncodeToString(out.data), "expected_rows": refmodel.HexRows(out.want), "decoder_agreed": true,
				})
			}
			if out.ok {
				okVals = append(okVals, vals)
				continue
			}
			c.Obs("mismatches", 1)
			if declFailed {
				continue
			}
			declFailed = true
			c09Report(c, d, res, out, vals, j)
		}
		if viaInsert && !declFailed {
			c09Insert(c, d, okVals)
			if len(okVals) >= 2 && len(d.leaves) > 0 && c.R.Chance(1, 3) {
				c09Wired(c, d, okVals)
			}
		}
	}
	c.Evals(decodes)
}

func boolN(b bool) int64 {
	if b {
		return 1
	}
	return 0
}

func countClass(n int) string {
	switch {
	case n <= 1:
		return "1"
	case n <= 4:
		return "2-4"
	case n <= 32:
		return "5-32"
	}
	return ">32"
}

// c09ArrayStats counts selected top-level-or-tuple-member arrays that are
// non-empty / empty in the given values.
func c09ArrayStats(fields []refmodel.Field, vals []any) (nonEmpty, empty int) {
	var walk func(t refmodel.Type, column string, v any)
	walk = func(t refmodel.Type, column string, v any) {
		switch {
		case t.IsArray():
			if !refmodel.HasSelection(refmodel.Field{Type: t, Column: column}) {
				return
			}
			if len(v.([]any)) == 0 {
				empty++
			} else {
				nonEmpty++
			}
		case t.Kind == refmodel.KTuple:
			for i, f := range t.Fields {
				walk(f.Type, f.Column, v.([]any)[i])
			}
		}
	}
	for i, f := range fields {
		if !f.Indexed {
			walk(f.Type, f.Column, vals[i])
		}
	}
	return
}

// c09Report turns one failing decode into a violation with a stable key.
func c09Report(c *vk.Case, d *abiDecl, res *dig.Result, out c09Outcome, vals []any, reuseIdx int) {
	det := out.detail(d)
	det["reuse_index"] = reuseIdx
	// does a fresh decoder agree on the same bytes? then the defect is in reuse
	if reuseIdx > 0 {
		if fres, p := safeNewResult(d.ev); p == nil {
			got, err, pn := safeScan(fres, exactCopy(out.data))
			if pn == nil && err == nil {
				if ok, _ := refmodel.RowsEqual(got, out.want); ok {
					c.Violate("reuse-stale", det, "a reused Result decodes %s differently from a fresh one: %s", d.describe(), out.why)
					return
				}
			}
		}
	}
	shape, min := c09Classify(d.fields)
	kind := "rows-mismatch"
	if shape == "" {
		shape = "unreproduced-with-fresh-values"
		det["features"] = gen.Features(d.fields)
	} else {
		det["minimal"] = min
	}
	c.Violate(kind+":shape="+shape, det, "decoding a well-formed encoding of %s: %s (minimal failing shape %s)", d.describe(), out.why, shape)
}

func c09Catalogue(c *vk.Case) {
	cat := gen.Catalogue()
	var decodes int64
	for i, e := range cat {
		if i%c09CatCases != c.Index {
			continue
		}
		c.Obs("catalogue_entries", 1)
		c.SetSig("catalogue:%s", e.Key)
		d := newABIDecl("Cat", e.Fields)
		res, p := safeNewResult(d.ev)
		if p != nil {
			c.Violate("catalogue:"+e.Key, map[string]any{"declaration": d.describe(), "panic": p}, "Event.ABIType panicked on %s: %s", d.describe(), p.Val)
			continue
		}
		var worst *c09Outcome
		nfail := 0
		for j := 0; j < 8; j++ {
			vals := gen.Values(c.R, e.Fields, gen.ABIOpts{DynLen: j % 4})
			out := c09Decode(res, e.Fields, vals)
			decodes++
			c.Obs("decodes", 1)
			c.Obs("cells_compared", int64(len(out.want)*len(d.leaves)))
			if len(out.want) >= 2 {
				c.Obs("decodes_rows_ge2", 1)
			}
			if !out.ok {
				nfail++
				if worst == nil || len(out.data) < len(worst.data) {
					o := out
					worst = &o
				}
			}
		}
		if worst != nil {
			det := worst.detail(d)
			det["failing_value_sets"] = fmt.Sprintf("%d of 8", nfail)
			c.Violate("catalogue:"+e.Key, det, "catalogue shape %s: %s", d.describe(), worst.why)
		}
		if c.Index == 0 && i == 0 {
			vals := gen.Values(c.R, e.Fields, gen.ABIOpts{})
			c.Sample(map[string]any{"family": "catalogue", "declaration": d.describe(), "data": hex.EncodeToString(refmodel.EncodeTuple(e.Fields, vals)), "expected_rows": refmodel.HexRows(refmodel.ExpectedRows(e.Fields, vals))})
		}
	}
	c.Evals(decodes)
}

// ---- insert path

var two256 = new(big.Int).Lsh(big.NewInt(1), 256)

// c09CellMatches compares a value produced by Insert with the expected raw
// cell. arrayElem tells whether the declaring input is an array.
func c09CellMatches(leaf refmodel.Type, arrayElem bool, got any, want []byte) (ok bool, raw bool) {
	if len(want) == 0 {
		// no value (a sibling array's column, an empty selected array, empty bytes/string):
		// any empty or zero rendering is accepted
		switch v := got.(type) {
		case nil:
			return true, false
		case []byte:
			return len(v) == 0, false
		case eth.Bytes:
			return len(v) == 0, false
		case string:
			return v == "", false
		case bool:
			return !v, false
		case *uint256.Int:
			return v.IsZero(), false
		case driver.Valuer:
			dv, err := v.Value()
			return err == nil && (dv == nil || dv == "0"), false
		}
		return false, false
	}
	asBytes := func() ([]byte, bool) {
		switch v := got.(type) {
		case []byte:
			return v, true
		case eth.Bytes:
			return []byte(v), true
		}
		return nil, false
	}
	switch leaf.Kind {
	case refmodel.KUint:
		v, is := got.(*uint256.Int)
		if !is {
			return false, false
		}
		b := v.Bytes32()
		return bytes.Equal(b[:], want), false
	case refmodel.KInt:
		val, is := got.(driver.Valuer)
		if !is {
			return false, false
		}
		dv, err := val.Value()
		s, isStr := dv.(string)
		if err != nil || !isStr {
			return false, false
		}
		x, okp := new(big.Int).SetString(s, 10)
		if !okp {
			return false, false
		}
		w := new(big.Int).SetBytes(want)
		if w.Bit(255) == 1 {
			w.Sub(w, two256)
		}
		return x.Cmp(w) == 0, false
	case refmodel.KAddress:
		b, is := asBytes()
		return is && len(want) == 32 && bytes.Equal(b, want[12:]), false
	case refmodel.KBool:
		if v, is := got.(bool); is {
			return len(want) == 32 && v == (want[31] == 1), false
		}
		if b, is := asBytes(); is && arrayElem {
			return bytes.Equal(b, want), true
		}
		return false, false
	case refmodel.KString:
		if v, is := got.(string); is {
			return v == string(want), false
		}
		if b, is := asBytes(); is && arrayElem {
			return bytes.Equal(b, want), true
		}
		return false, false
	default: // bytesN, bytes
		b, is := asBytes()
		return is && bytes.Equal(b, want), false
	}
}

func leafClass(t refmodel.Type) string {
	switch t.Kind {
	case refmodel.KUint:
		return "uint"
	case refmodel.KInt:
		return "int"
	case refmodel.KAddress:
		return "address"
	case refmodel.KBool:
		return "bool"
	case refmodel.KBytesN:
		return "bytesN"
	case refmodel.KBytes:
		return "bytes"
	}
	return "string"
}

// c09Insert sends encodings that the direct path decoded correctly through
// dig.New + Integration.Insert and compares the copied rows.
func c09Insert(c *vk.Case, d *abiDecl, valSets [][]any) {
	if len(valSets) == 0 {
		return
	}
	if len(valSets) > 3 {
		valSets = valSets[:3]
	}
	withBD := c.R.Bool()
	var bd []dig.BlockData
	if withBD {
		bd = []dig.BlockData{{Name: "log_idx", Column: "log_idx"}, {Name: "abi_idx", Column: "abi_idx"}}
	}
	ig, err, p := newIntegration(d, bd)
	if p != nil || err != nil {
		c.Violate("insert:dig.New-failed", map[string]any{"declaration": d.describe(), "panic": p, "err": fmt.Sprint(err)}, "dig.New failed for %s", d.describe())
		return
	}
	sig := refmodel.Keccak256([]byte(refmodel.EventSignature(d.name, d.fields)))
	var topics []eth.Bytes
	topics = append(topics, eth.Bytes(sig))
	for _, f := range d.fields {
		if f.Indexed {
			topics = append(topics, eth.Bytes(c.R.Bytes(32)))
		}
	}
	type expRow struct {
		log, abi int
		cells    [][]byte
	}
	var want []expRow
	blocks := make([]eth.Block, 1) // built in place: Block and Tx carry mutexes
	blocks[0].Header.Number = 100
	blocks[0].Header.Hash = eth.Bytes(c.R.Bytes(32))
	blocks[0].Txs = make([]eth.Tx, 1)
	tx := &blocks[0].Txs[0]
	tx.PrecompHash = eth.Bytes(c.R.Bytes(32))
	var datas []string
	for li, vals := range valSets {
		data := refmodel.EncodeTuple(d.fields, vals)
		if len(data) == 0 {
			return
		}
		datas = append(datas, hexTrunc(data, 2048))
		tx.Logs = append(tx.Logs, eth.Log{Idx: eth.Uint64(li), Address: eth.Bytes(c.R.Bytes(20)), Topics: topics, Data: eth.Bytes(exactCopy(data))})
		for ai, row := range refmodel.ExpectedRows(d.fields, vals) {
			want = append(want, expRow{log: li, abi: ai, cells: row})
		}
	}
	rc := &recConn{}
	_, err, p = safeInsert(ig, rc, blocks)
	c.Obs("insert_path_logs", int64(len(valSets)))
	c.SetSig("insert:blockdata=%v", withBD)
	det := map[string]any{"declaration": d.describe(), "data": datas}
	switch {
	case p != nil:
		det["panic"] = p
		c.Violate(p.key()+":insert-well-formed", det, "Integration.Insert panicked on well-formed logs of %s: %s", d.describe(), p.Val)
		return
	case err != nil:
		det["err"] = err.Error()
		c.Violate("insert:error-on-well-formed", det, "Integration.Insert failed on well-formed logs of %s: %v", d.describe(), err)
		return
	case len(rc.rows) != len(want):
		det["got_rows"], det["want_rows"] = len(rc.rows), len(want)
		c.Violate("insert:row-count", det, "Integration.Insert copied %d rows for %s, want %d", len(rc.rows), d.describe(), len(want))
		return
	}
	c.Obs("insert_path_rows", int64(len(want)))
	for i, w := range want {
		got := rc.rows[i]
		if len(got) != len(d.leaves)+len(bd) {
			c.Violate("insert:row-width", det, "row has %d values, want %d", len(got), len(d.leaves)+len(bd))
			return
		}
		for j, lf := range d.leaves {
			ok, raw := c09CellMatches(lf.Leaf, lf.Field.Type.IsArray(), got[j], w.cells[j])
			if raw {
				c.Obs("insert_raw_array_cells", 1)
			}
			if !ok {
				det["row"], det["col"], det["got"], det["want"] = i, j, fmt.Sprintf("%T %v", got[j], got[j]), hex.EncodeToString(w.cells[j])
				c.Violate(fmt.Sprintf("insert:cell-mismatch:type=%s:array=%v", leafClass(lf.Leaf), lf.Field.Type.IsArray()), det,
					"Insert of %s: row %d column %d (%s) = %T %v, want bytes %x", d.describe(), i, j, lf.Field.Type.Canonical(), got[j], got[j], w.cells[j])
				return
			}
			c.Obs("insert_cells_compared", 1)
		}
		if withBD {
			li, ok1 := got[len(d.leaves)].(eth.Uint64)
			ai, ok2 := got[len(d.leaves)+1].(int)
			if !ok1 || !ok2 || int(li) != w.log || ai != w.abi {
				det["row"] = i
				c.Violate("insert:row-order", det, "Insert of %s: row %d carries log_idx=%v abi_idx=%v, want %d/%d", d.describe(), i, got[len(d.leaves)], got[len(d.leaves)+1], w.log, w.abi)
				return
			}
		}
	}
}

// c09Wired drives the decoder the way the service wires it: the destinations
// of two tasks of one integration (one task per source) come from
// shovel.NewDestination with the same configuration and insert their own logs
// at the same time; each must copy exactly the rows of its own logs.
type c09ExpRow struct {
	log, abi int
	cells    [][]byte
}

func c09Blocks(r *vk.RNG, d *abiDecl, valSets [][]any, num uint64) (blocks []eth.Block, want []c09ExpRow) {
	sig := refmodel.Keccak256([]byte(refmodel.EventSignature(d.name, d.fields)))
	topics := []eth.Bytes{eth.Bytes(sig)}
	for _, f := range d.fields {
		if f.Indexed {
			topics = append(topics, eth.Bytes(r.Bytes(32)))
		}
	}
	blocks = make([]eth.Block, 1)
	blocks[0].Header.Number = eth.Uint64(num)
	blocks[0].Header.Hash = eth.Bytes(r.Bytes(32))
	blocks[0].Txs = make([]eth.Tx, 1)
	tx := &blocks[0].Txs[0]
	tx.PrecompHash = eth.Bytes(r.Bytes(32))
	for li, vals := range valSets {
		data := refmodel.EncodeTuple(d.fields, vals)
		if len(data) == 0 {
			return nil, nil
		}
		tx.Logs = append(tx.Logs, eth.Log{Idx: eth.Uint64(li), Address: eth.Bytes(r.Bytes(20)), Topics: topics, Data: eth.Bytes(exactCopy(data))})
		for ai, row := range refmodel.ExpectedRows(d.fields, vals) {
			want = append(want, c09ExpRow{log: li, abi: ai, cells: row})
		}
	}
	return blocks, want
}

func c09RowsDiffer(d *abiDecl, rows [][]any, want []c09ExpRow) string {
	if len(rows) != len(want) {
		return fmt.Sprintf("copied %d rows, want %d", len(rows), len(want))
	}
	for i, w := range want {
		got := rows[i]
		if len(got) < len(d.leaves) {
			return fmt.Sprintf("row %d has %d values", i, len(got))
		}
		for j, lf := range d.leaves {
			if ok, _ := c09CellMatches(lf.Leaf, lf.Field.Type.IsArray(), got[j], w.cells[j]); !ok {
				return fmt.Sprintf("row %d column %d (%s) = %T %v, want bytes %x", i, j, lf.Field.Type.Canonical(), got[j], got[j], w.cells[j])
			}
		}
	}
	return ""
}

func c09Wired(c *vk.Case, d *abiDecl, valSets [][]any) {
	tbl := wpg.Table{Name: "t_wired"}
	var walk func(fs []refmodel.Field)
	walk = func(fs []refmodel.Field) {
		for _, f := range fs {
			b := f.Type.Base()
			if b.Kind == refmodel.KTuple {
				walk(b.Fields)
				continue
			}
			if f.Column != "" {
				tbl.Columns = append(tbl.Columns, wpg.Column{Name: f.Column, Type: pgTypeOf(b)})
			}
		}
	}
	walk(d.fields)
	cfg := config.Integration{Name: "ig_abi", Enabled: true, Table: tbl, Event: d.ev}
	half := len(valSets) / 2
	sets := [2][][]any{valSets[:half], valSets[half:]}
	var (
		dests  [2]shovel.Destination
		blocks [2][]eth.Block
		want   [2][]c09ExpRow
	)
	for i := range dests {
		dest, err := shovel.NewDestination(cfg)
		if err != nil {
			c.Violate("wired:NewDestination-failed", map[string]any{"declaration": d.describe(), "err": err.Error()}, "shovel.NewDestination failed for %s: %v", d.describe(), err)
			return
		}
		dests[i] = dest
		blocks[i], want[i] = c09Blocks(c.R, d, sets[i], uint64(100+i))
		if blocks[i] == nil {
			return
		}
	}
	const iters = 40
	var (
		wg    sync.WaitGroup
		diffs [2]string
		pans  [2]*panicInfo
	)
	for i := range dests {
		i := i
		wg.Add(1)
		go func() {
			defer wg.Done()
			defer func() {
				if r := recover(); r != nil {
					pans[i] = capturePanic(r)
				}
			}()
			for k := 0; k < iters && diffs[i] == ""; k++ {
				rc := &recConn{}
				if _, err := dests[i].Insert(context.Background(), &sync.Mutex{}, rc, blocks[i]); err != nil {
					diffs[i] = "Insert failed: " + err.Error()
					return
				}
				diffs[i] = c09RowsDiffer(d, rc.rows, want[i])
			}
		}()
	}
	wg.Wait()
	c.Obs("wired_two_task_runs", 1)
	c.Obs("wired_concurrent_inserts", 2*iters)
	for i := range dests {
		det := map[string]any{"declaration": d.describe(), "task": i, "logs_of_this_task": len(sets[i]), "logs_of_the_other_task": len(sets[1-i])}
		if pans[i] != nil {
			det["panic"] = pans[i]
			c.Violate(pans[i].key()+":wired-two-tasks", det, "Insert of one of two tasks of integration %s panicked while the other task inserted: %s", d.describe(), pans[i].Val)
			return
		}
		if diffs[i] != "" {
			det["difference"] = diffs[i]
			c.Violate("wired:rows-of-one-task-differ-while-another-task-of-the-integration-inserts", det,
				"two destinations from shovel.NewDestination for %s inserted at the same time; task %d: %s", d.describe(), i, diffs[i])
			return
		}
	}
}
