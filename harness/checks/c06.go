package checks

import (
	"errors"
	"fmt"
	"sync"

	"github.com/indexsupply/shovel/shovel"

	"verif/harness/gen"
	"verif/harness/model"
	"verif/harness/scen"
	"verif/harness/simnode"
	"verif/harness/vk"
)

// C06 — start, stop and resume: only blocks inside the configured range are
// written; completion is reported once the stop block is recorded; a recorded
// position is always resumed from.

const c06GridShards = 64

var (
	c06Starts  = []string{"none", "1", "mid", "head-1", "head", "head+1", "head+3"}
	c06Stops   = []string{"none", "start", "start+1", "mid", "head", "head+5"}
	c06Batches = []int{1, 2, 5, 9}
	c06Concs   = []int{1, 3}
	c06Priors  = []string{"none", "inside", "at-stop", "above-stop"}
)

func c06GridSize() int {
	return len(c06Starts) * len(c06Stops) * len(c06Batches) * len(c06Concs) * len(c06Priors)
}

func c06Modes(tier string) int {
	if tier == "thorough" {
		return 3
	}
	return 1
}

func c06Shared(tier string) int {
	if tier == "thorough" {
		return 600
	}
	return 96
}

func c06Random(tier string) int {
	if tier == "thorough" {
		return 2000
	}
	return 100
}

func init() {
	vk.Register(&vk.Check{
		ID:        "C06",
		Level:     "exploration",
		Technique: "range/outcome monitor on every commit and on the node's request log over an exhaustive (start, stop, batch, concurrency, prior position) grid with restarts and head growth; reference projection at the end",
		Rule: fmt.Sprintf("grid: start ∈ %v × stop ∈ %v × batch ∈ %v × concurrency ∈ %v × prior position ∈ %v (= %d combinations, all run; ×3 indexing modes in thorough), each with a history of steps, head growth and restarts; plus random ranges/histories; plus shared-client cases: a bounded integration next to an unbounded one on the same source client (shared segment cache), optionally depending on it through a filter reference, the unbounded one running ahead, and a third integration without a configured start that takes its first turn late (after the head was looked up for the others and the chain moved on: it must begin at the current head); a third of the grid/random scenarios is repeated with the commit of one step's writing transaction failing (error, connection lost before or after it took effect) while the process keeps running: the next step must resume from the position the database holds. "+
			"signature = (start kind, stop kind, prior kind, batch, concurrency, outcome class); trivial = nothing was ever written and no completion reported.", c06Starts, c06Stops, c06Batches, c06Concs, c06Priors, c06GridSize()),
		Assumptions: []string{
			"a prior recorded position lies inside the configured range or above the stop (a position below the configured start is a contradictory configuration the statement does not rank)",
			"with no start configured the first block is the head the source announces in that first successful step",
			"a start beyond the head writes nothing until the chain reaches it; steps may fail meanwhile",
		},
		NCases: func(tier string) int {
			return c06GridShards*c06Modes(tier) + c06Random(tier) + c06Shared(tier)
		},
		Run:              c06Run,
		CrashIsViolation: true,
		CaseTimeoutS:     300,
		Exhaustive:       func(string) bool { return false },
		MinObs: func(tier string) map[string]int64 {
			return map[string]int64{"runs": 600, "done_reported": 150, "commits_range_checked": 1000, "resume_checked": 800, "restarts": 500, "final_verdicts": 300, "commit_faults_hit": 100, "late_first_turns_without_start": 30, "multi_source_runs": 15}
		},
		Extra: func(string) map[string]any {
			return map[string]any{"grid_exhaustive": true, "grid_size": c06GridSize()}
		},
	})
}

type c06Params struct {
	startK, stopK, priorK string
	batch, conc, mode     int
	seed                  uint64
	hist                  []histOp
	initial               int
}

func (p *c06Params) scenario() (*pipeScenario, bool) {
	head := p.initial
	mid := head / 2
	if mid < 1 {
		mid = 1
	}
	ps := &pipeScenario{Seed: p.seed, Mode: p.mode, Batch: p.batch, Conc: p.conc, Initial: p.initial, explicit: true, StartAbs: 0, Prior: -1, Hist: p.hist}
	switch p.startK {
	case "none":
		ps.StartAbs = 0
	case "1":
		ps.StartAbs = 1
	case "mid":
		ps.StartAbs = int64(mid)
	case "head-1":
		ps.StartAbs = int64(head - 1)
	case "head":
		ps.StartAbs = int64(head)
	case "head+1":
		ps.StartAbs = int64(head + 1)
	case "head+3":
		ps.StartAbs = int64(head + 3)
	}
	start := uint64(ps.StartAbs)
	switch p.stopK {
	case "none":
		ps.Stop = 0
	case "start":
		ps.Stop = start
		if start == 0 {
			ps.Stop = uint64(head)
		}
	case "start+1":
		ps.Stop = start + 1
		if start == 0 {
			ps.Stop = uint64(head) + 1
		}
	case "mid":
		ps.Stop = uint64(mid)
	case "head":
		ps.Stop = uint64(head)
	case "head+5":
		ps.Stop = uint64(head + 5)
	}
	lo := start
	if lo == 0 {
		lo = uint64(head)
	}
	switch p.priorK {
	case "inside":
		// a position inside [start-1, stop) that exists on the chain
		pr := lo
		if ps.Stop > 0 && pr >= ps.Stop {
			return nil, false
		}
		if pr > uint64(head) {
			return nil, false
		}
		ps.Prior = int64(pr)
	case "at-stop":
		if ps.Stop == 0 || ps.Stop > uint64(head) || ps.Stop < lo {
			return nil, false
		}
		ps.Prior = int64(ps.Stop)
	case "above-stop":
		if ps.Stop == 0 || ps.Stop+1 > uint64(head) {
			return nil, false
		}
		ps.Prior = int64(ps.Stop + 1)
	}
	ps.FinalGrow = 0
	return ps, true
}

func c06History(r *vk.RNG) []histOp {
	var h []histOp
	n := r.Range(6, 12)
	for i := 0; i < n; i++ {
		switch r.Intn(6) {
		case 0:
			h = append(h, histOp{Kind: "grow", N: r.Range(1, 4)})
		case 1:
			h = append(h, histOp{Kind: "restart"})
		default:
			h = append(h, histOp{Kind: "step"})
		}
	}
	h = append(h, histOp{Kind: "grow", N: 7}, histOp{Kind: "restart"})
	return h
}

type c06Mon struct {
	c       *vk.Case
	p       *c06Params
	ps      *pipeScenario
	done    bool
	lowest  uint64 // lowest block allowed (0 = not known yet: no start configured and nothing fetched)
	wrote   bool
	outcome string
	kp      string
}

func lowestDataBlock(served []simnode.Served) (uint64, bool) {
	lo, ok := ^uint64(0), false
	for _, s := range served {
		if s.Poller || s.Failed != "" {
			continue
		}
		isData := false
		switch s.Method {
		case "eth_getBlockReceipts", "trace_block", "eth_getLogs":
			isData = true
		case "eth_getBlockByNumber":
			isData = s.Batched && s.Arg != "latest"
		}
		if !isData {
			continue
		}
		for _, b := range s.Blocks {
			if b.Num < lo {
				lo, ok = b.Num, true
			}
		}
		if s.Method == "eth_getLogs" {
			var from, to uint64
			if _, err := fmt.Sscanf(s.Arg, "%d-%d", &from, &to); err == nil && from < lo {
				lo, ok = from, true
			}
		}
	}
	return lo, ok
}

func announcedHead(served []simnode.Served) (uint64, bool) {
	for _, s := range served {
		if !s.Poller && s.Method == "eth_getBlockByNumber" && s.Arg == "latest" && len(s.Blocks) == 1 && s.Failed == "" {
			return s.Blocks[0].Num, true
		}
	}
	return 0, false
}

func (m *c06Mon) onStep(idx int, res *scen.StepResult, pm *pairMon, before, after *pairState) {
	c := m.c
	start, stop := uint64(m.ps.StartAbs), m.ps.Stop
	detail := map[string]any{"params": m.describe(), "scenario": m.ps.Describe(), "step": idx, "err": fmt.Sprint(res.Err)}
	key := func(k string) string { return m.kp + k + ":prior=" + m.p.priorK }
	pos, hasPos := before.position()
	// (3) resume / begin
	if lo, ok := lowestDataBlock(res.Served); ok {
		var want uint64
		switch {
		case hasPos:
			want = pos + 1
		case start > 0:
			want = start
		default:
			if h, ok := announcedHead(res.Served); ok {
				want = h
			} else {
				want = lo // head came from the cache: not decidable here
			}
		}
		c.Obs("resume_checked", 1)
		if lo != want {
			c.Violate(key("first-fetched-block-wrong"), merge(detail, map[string]any{"fetched_from": lo, "expected": want, "had_position": hasPos, "position": pos}),
				"step fetched block data from %d, expected %d (position=%v/%d start=%d)", lo, want, hasPos, pos, start)
		}
		if m.lowest == 0 {
			m.lowest = want
		}
	}
	// (1) range of everything written
	for _, rec := range res.Commits {
		if rec.Aborted || len(rec.Tx.Effects) == 0 {
			continue
		}
		dc := pm.classify(rec)
		c.Obs("commits_range_checked", 1)
		if m.done {
			c.Violate(key("write-after-completion"), detail, "rows or positions were written after completion had been reported")
		}
		check := func(n uint64, what string) {
			if start > 0 && n < start && !(m.ps.Prior >= 0) {
				c.Violate(key(what+"-before-start"), merge(detail, map[string]any{"block": n}), "%s for block %d written before the configured start %d", what, n, start)
			}
			if m.lowest > 0 && n < m.lowest {
				c.Violate(key(what+"-before-first-block"), merge(detail, map[string]any{"block": n, "first": m.lowest}), "%s for block %d written below the first block %d of the pair", what, n, m.lowest)
			}
			if stop > 0 && n > stop {
				c.Violate(key(what+"-after-stop"), merge(detail, map[string]any{"block": n}), "%s for block %d written after the configured stop %d", what, n, stop)
			}
		}
		for _, r := range dc.rowsIns {
			if n, ok := rowBlockNum(dc.tbl, r); ok {
				check(n, "row")
			}
			m.wrote = true
		}
		for _, cr := range dc.cursorIns {
			check(cr.num, "position")
			m.wrote = true
		}
		if len(dc.rowsDel)+len(dc.cursorDel) > 0 {
			c.Violate(key("unexpected-deletion"), detail, "rows or positions deleted although the source never replaced a block")
		}
	}
	// (2) completion
	isDone := errors.Is(res.Err, shovel.ErrDone)
	if isDone {
		c.Obs("done_reported", 1)
		vpos, vok := pos, hasPos
		if !hasPos {
			// without a recorded position the pair stands right before its first block
			if start > 0 {
				vpos, vok = start-1, true
			} else if h, ok := announcedHead(res.Served); ok && h > 0 {
				vpos, vok = h-1, true
			} else {
				vpos, vok = stop, true // head came from the cache: not decidable here
			}
		}
		if stop == 0 || !vok || vpos < stop {
			c.Violate(key("completion-reported-early"), merge(detail, map[string]any{"position": pos, "has_position": hasPos}), "completion reported at position %d (has=%v) with stop %d", pos, hasPos, stop)
		}
		m.done = true
	} else if stop > 0 && hasPos && pos >= stop && res.Panic == "" {
		c.Violate(key("completion-not-reported"), merge(detail, map[string]any{"position": pos}), "position %d has reached stop %d but the step returned %v instead of completion", pos, stop, res.Err)
	}
}

func (m *c06Mon) describe() map[string]any {
	return map[string]any{"start": m.p.startK, "stop": m.p.stopK, "prior": m.p.priorK, "batch": m.p.batch, "concurrency": m.p.conc, "mode": m.p.mode,
		"start_abs": m.ps.StartAbs, "stop_abs": m.ps.Stop, "prior_abs": m.ps.Prior, "initial_head": m.p.initial}
}

func c06One(c *vk.Case, p *c06Params) {
	ps, ok := p.scenario()
	if !ok {
		c.Obs("grid_points_not_applicable", 1)
		return
	}
	m := &c06Mon{c: c, p: p, ps: ps}
	final := ps.Prior < 0 || ps.Stop == 0 || uint64(ps.Prior) < ps.Stop
	nv := len(c.Res.Violations)
	run := ps.run(c, runOpts{Snapshots: true, KP: "", OnStep: m.onStep, FinalVerdict: final, MaxQuiet: 60})
	c.Obs("runs", 1)
	c.Evals(1)
	if run == nil {
		return
	}
	for _, h := range ps.Hist {
		if h.Kind == "restart" {
			c.Obs("restarts", 1)
		}
	}
	if run.SetupErr != "" {
		c.Violate("setup-rejected", map[string]any{"params": m.describe(), "error": run.SetupErr, "config": run.ConfJSON}, "configuration rejected: %s", run.SetupErr)
		return
	}
	if len(c.Res.Violations) > nv {
		return
	}
	if fr := vk.NewRNG(p.seed ^ 0xfa17); fr.Chance(1, 3) {
		c06CommitFault(c, fr, p, ps, run)
		if len(c.Res.Violations) > nv {
			return
		}
	}
	detail := map[string]any{"params": m.describe(), "scenario": ps.Describe(), "config": run.ConfJSON, "trace": lastN(run.Trace, 40), "last_error": run.LastErr}
	head := run.Head
	start, stop := uint64(ps.StartAbs), ps.Stop
	pos, hasPos := run.Final.position()
	// where should the pair be now?
	lo := start
	if ps.Prior >= 0 {
		lo = uint64(ps.Prior) + 1
	}
	reachable := start == 0 || start <= head+1
	switch {
	case !final:
		// prior position at/above stop: nothing may have been written
		if m.wrote {
			c.Violate("wrote-with-position-at-or-above-stop", detail, "rows/positions written although the recorded position was already at or above stop")
		}
		m.outcome = "already-complete"
	case !reachable:
		if m.wrote {
			c.Violate("wrote-before-start-reachable", detail, "rows/positions written although the configured start %d is beyond the head %d", start, head)
		}
		m.outcome = "start-beyond-head"
	case m.done && !m.wrote:
		// the range was empty when the pair first looked (stop below its first block): completion without writes
		m.outcome = "empty-range"
	case stop > 0 && stop < lo && ps.Prior < 0 && start > 0:
		// stop below start: complete immediately, nothing written
		if m.wrote {
			c.Violate("wrote-with-stop-below-start", detail, "rows/positions written although stop %d < start %d", stop, start)
		}
		m.outcome = "empty-range"
	default:
		want := head
		if stop > 0 && stop < head {
			want = stop
		}
		if !run.Idle {
			c.Violate("no-progress", detail, "the pair did not reach %d (position %d/%v) within the step bound; last error %s", want, pos, hasPos, run.LastErr)
			return
		}
		if !hasPos || pos != want {
			c.Violate("final-position-wrong", merge(detail, map[string]any{"position": pos, "want": want}), "final position %d, expected %d", pos, want)
		}
		c.Obs("final_verdicts", 1)
		m.outcome = "reached-head"
		if stop > 0 && want == stop {
			m.outcome = "completed-at-stop"
			if !m.done {
				c.Violate("completion-never-reported", detail, "stop %d was recorded but completion was never reported", stop)
			}
		}
	}
	c.SetSig("start=%s stop=%s prior=%s b=%d c=%d -> %s", p.startK, p.stopK, p.priorK, p.batch, p.conc, m.outcome)
}

// c06CommitFault repeats the scenario with the commit of one step's writing
// transaction failing (error, connection lost before it, or lost after it took
// effect) while the process keeps running: the following step must resume from
// the position the database holds, and the range rules hold as before.
func c06CommitFault(c *vk.Case, r *vk.RNG, p *c06Params, ps *pipeScenario, base *pipeRun) {
	var cands []*faultSpec
	for _, sr := range base.Steps {
		if sr.Err != nil || !sr.HasPos {
			continue
		}
		ord := -1
		for _, op := range sr.SQLOps {
			if op.Kind == "commit" {
				ord = op.Ordinal
			}
		}
		if ord >= 0 {
			cands = append(cands, &faultSpec{Step: sr.Idx, SQLOrd: ord})
		}
	}
	if len(cands) == 0 {
		return
	}
	f := vk.Pick(r, cands)
	f.Kind = vk.Pick(r, []string{"error", "drop-before", "drop-after"})
	m := &c06Mon{c: c, p: p, ps: ps, kp: "commit-fault:"}
	final := ps.Prior < 0 || ps.Stop == 0 || uint64(ps.Prior) < ps.Stop
	run := ps.run(c, runOpts{Snapshots: true, KP: "commit-fault:", Fault: f, OnStep: m.onStep, FinalVerdict: final, MaxQuiet: 60})
	if run == nil {
		return
	}
	c.Obs("commit_fault_runs", 1)
	if run.FaultHit {
		c.Obs("commit_faults_hit:"+f.Kind, 1)
		c.Obs("commit_faults_hit", 1)
	}
}

// c06SharedCase: a bounded integration next to an unbounded one on the same
// source client (shared segment cache), optionally depending on it through a
// filter reference. The unbounded one always runs first in a round.
// c06MultiSource: one integration attached to two sources, each reference with its own start and stop: each pair
// keeps to the range configured for ITS source.
func c06MultiSource(c *vk.Case) {
	r := c.R
	d := &model.Decl{Name: namePoolIG[0], Enabled: true, Table: namePoolTbl[0], ColTypes: map[string]string{}, InFilter: map[string]model.Filter{}}
	d.Block = []model.BlockField{{Name: "tx_hash", Column: "tx_hash", ColType: "bytea"}, {Name: "tx_value", Column: "tx_value", ColType: "numeric"}}
	type rng struct{ start, stop uint64 }
	ranges := map[string]rng{}
	spec := &scen.Spec{}
	// half of the cases write the numbers as zero-padded decimal strings ("012"): the same ranges
	padded := r.Bool()
	if padded {
		c.Obs("multi_source_cases_with_padded_range_strings", 1)
	}
	for i, sn := range namePoolSrc[:2] {
		st := uint64(r.Range(1, 6) + 7*i)
		rg := rng{st, st + uint64(r.Range(1, 7))}
		ranges[sn] = rg
		d.Sources = append(d.Sources, model.SrcRef{Name: sn, Start: rg.start, Stop: rg.stop, Padded: padded})
		ch := simnode.NewChain(nextChainID(), gen.Content(gen.ChainOpts{Seed: r.U64(), MinTxs: 1, MaxTxs: 2}))
		ch.Grow(int(rg.stop) + r.Range(2, 8))
		spec.Sources = append(spec.Sources, scen.SourceSpec{Name: sn, ChainID: uint64(3 + i), Batch: vk.Pick(r, []int{1, 3, 10}), Concurrency: vk.Pick(r, []int{1, 2}), Poll: "1h", Node: simnode.Global().NewNode(ch)})
	}
	spec.Decls = []*model.Decl{d}
	me := newMultiEnv(c, spec, "multi-source:")
	if me == nil {
		return
	}
	defer me.close()
	if me.env.SetupErr != nil {
		c.Violate("multi-source:setup-rejected", map[string]any{"config": string(me.env.ConfJSON), "error": me.env.SetupErr.Error()}, "configuration rejected: %v", me.env.SetupErr)
		return
	}
	done := map[string]bool{}
	for round := 0; round < 60 && len(done) < len(me.pairs) && len(c.Res.Violations) == 0; round++ {
		p := vk.Pick(r, me.pairs)
		if done[p.name()] {
			continue
		}
		rg := ranges[p.src]
		detail := merge(me.detail(), map[string]any{"pair": p.name(), "start": rg.start, "stop": rg.stop, "other_ranges": fmt.Sprint(ranges)})
		res := me.stepSeq(p, false)
		c.Obs("steps", 1)
		for _, rec := range res.Commits {
			if rec.Aborted || len(rec.Tx.Effects) == 0 {
				continue
			}
			dc := p.pm.classify(rec)
			c.Obs("commits_range_checked", 1)
			for _, row := range dc.rowsIns {
				if n, ok := rowBlockNum(dc.tbl, row); ok && (n > rg.stop || n < rg.start) {
					c.Violate("multi-source:row-outside-own-range", merge(detail, map[string]any{"block": n}), "%s wrote a row for block %d outside the range [%d, %d] configured for its source", p.name(), n, rg.start, rg.stop)
				}
			}
			for _, cr := range dc.cursorIns {
				if cr.num > rg.stop || cr.num < rg.start {
					c.Violate("multi-source:position-outside-own-range", merge(detail, map[string]any{"position": cr.num}), "%s recorded position %d outside the range [%d, %d] configured for its source", p.name(), cr.num, rg.start, rg.stop)
				}
			}
		}
		if errors.Is(res.Err, shovel.ErrDone) {
			c.Obs("done_reported", 1)
			pos, has := p.pm.captureLive().position()
			if !has || pos != rg.stop {
				c.Violate("multi-source:completion-not-at-own-stop", merge(detail, map[string]any{"position": pos}), "%s reported completion at position %d, its stop is %d", p.name(), pos, rg.stop)
			}
			done[p.name()] = true
		}
	}
	if len(c.Res.Violations) == 0 && len(done) < len(me.pairs) {
		c.Violate("multi-source:never-completed", me.detail(), "not every pair of the two-source integration reported completion although both sources are beyond the stops")
	}
	c.Obs("runs", 1)
	c.Obs("multi_source_runs", 1)
	c.SetSig("multi-source")
}

func c06SharedCase(c *vk.Case) {
	if c.Index%4 == 3 {
		c06MultiSource(c)
		return
	}
	r := c.R
	withDep := c.Index%2 == 0
	pool := make([][]byte, 4)
	for i := range pool {
		pool[i] = r.Bytes(20)
	}
	start := uint64(r.Range(1, 4))
	stop := start + uint64(r.Range(2, 9))
	batch := vk.Pick(r, []int{1, 4, 10})
	a := &model.Decl{Name: namePoolIG[0], Enabled: true, Table: namePoolTbl[0], ColTypes: map[string]string{}, InFilter: map[string]model.Filter{}}
	a.Sources = []model.SrcRef{{Name: namePoolSrc[0], Start: start}}
	a.Block = []model.BlockField{{Name: "tx_signer", Column: "who", ColType: "bytea"}, {Name: "tx_value", Column: "tx_value", ColType: "numeric"}}
	b := &model.Decl{Name: namePoolIG[1], Enabled: true, Table: namePoolTbl[1], ColTypes: map[string]string{}, InFilter: map[string]model.Filter{}}
	b.Sources = []model.SrcRef{{Name: namePoolSrc[0], Start: start, Stop: stop}}
	b.Block = []model.BlockField{{Name: "tx_to", Column: "tx_to", ColType: "bytea"}, {Name: "tx_value", Column: "tx_value", ColType: "numeric"}}
	if withDep {
		b.Block[0].Filter = model.Filter{Op: "contains", Ref: &model.Ref{Integration: a.Name, Column: "who"}}
	}
	// a third integration without a configured start takes its first turn late, after the source's head has
	// been looked up for the others and the chain has moved on: it begins at the source's current head
	z := &model.Decl{Name: namePoolIG[2], Enabled: true, Table: namePoolTbl[2], ColTypes: map[string]string{}, InFilter: map[string]model.Filter{}}
	z.Sources = []model.SrcRef{{Name: namePoolSrc[0]}}
	z.Block = []model.BlockField{{Name: "tx_hash", Column: "tx_hash", ColType: "bytea"}}
	lateRound := r.Range(1, 2)
	seed := r.U64()
	inner := gen.Content(gen.ChainOpts{Seed: seed, MinTxs: 1, MaxTxs: 3})
	chain := simnode.NewChain(nextChainID(), func(bl *simnode.Block) {
		inner(bl)
		rr := vk.NewRNG(vk.Derive(seed, 0x606, bl.Version))
		for i := range bl.Txs {
			bl.Txs[i].From = vk.Pick(rr, pool)
			bl.Txs[i].To = vk.Pick(rr, pool)
		}
	})
	chain.Grow(int(stop) + r.Range(3, 12))
	node := simnode.Global().NewNode(chain)
	spec := &scen.Spec{Sources: []scen.SourceSpec{{Name: namePoolSrc[0], ChainID: 3, Batch: batch, Concurrency: vk.Pick(r, []int{1, 2}), Poll: "1h", Node: node}}, Decls: []*model.Decl{a, b, z}}
	me := newMultiEnv(c, spec, "shared:")
	if me == nil {
		return
	}
	defer me.close()
	if me.env.SetupErr != nil {
		c.Violate("shared:setup-rejected", map[string]any{"config": string(me.env.ConfJSON), "error": me.env.SetupErr.Error()}, "configuration rejected: %v", me.env.SetupErr)
		return
	}
	var pa, pb, pz *mPair
	for _, p := range me.pairs {
		switch p.ig {
		case a.Name:
			pa = p
		case b.Name:
			pb = p
		default:
			pz = p
		}
	}
	pb.pm.noContent = withDep
	done := false
	detail := func() map[string]any {
		return merge(me.detail(), map[string]any{"start": start, "stop": stop, "batch": batch, "with_dependency": withDep})
	}
	// half of the cases: the unbounded integration's very first segment download fails once (the segment it asked for
	// stays behind unfilled), the bounded one steps next over the same first block
	failFirst := r.Bool()
	if failFirst {
		var fmu sync.Mutex
		armed := true
		node.SetHook(func(info *simnode.ReqInfo) simnode.Action {
			fmu.Lock()
			defer fmu.Unlock()
			act := simnode.Action{ElemErr: -1}
			if armed && !info.Poller && info.Batch && len(info.Calls) > 0 && info.Calls[0].Method == "eth_getBlockByNumber" && info.Calls[0].BlockArg != "latest" {
				armed = false
				act.Fail, act.Status = simnode.FailHTTP, 503
				c.Obs("first_segment_download_failed", 1)
			}
			return act
		})
		defer node.SetHook(nil)
	}
	for round := 0; round < 40 && len(c.Res.Violations) == 0; round++ {
		// the unbounded integration runs ahead (and fills the segment cache), then the bounded one
		na := r.Range(1, 3)
		if failFirst && round == 0 {
			na = 1 // its one step fails; the bounded integration is next
		}
		for k := 0; k < na; k++ {
			me.stepSeq(pa, false)
		}
		if round == lateRound {
			chain.Grow(r.Range(1, 3))
			head := chain.Head().Num
			zres := me.stepSeq(pz, false)
			c.Obs("late_first_turns_without_start", 1)
			for _, rec := range zres.Commits {
				if rec.Aborted || len(rec.Tx.Effects) == 0 {
					continue
				}
				dc := pz.pm.classify(rec)
				lowest := ^uint64(0)
				for _, row := range dc.rowsIns {
					if n, ok := rowBlockNum(dc.tbl, row); ok && n < lowest {
						lowest = n
					}
				}
				for _, cr := range dc.cursorIns {
					if cr.num < lowest {
						lowest = cr.num
					}
				}
				if lowest < head {
					c.Violate("shared:began-below-current-head", merge(detail(), map[string]any{"lowest_block_written": lowest, "head": head}),
						"an integration without a configured start and without a recorded position wrote block %d on its first turn while the source's head was %d", lowest, head)
				}
			}
			if zpos, ok := pz.pm.captureLive().position(); zres.Err == nil && (!ok || zpos != head) {
				c.Violate("shared:first-turn-did-not-reach-head", merge(detail(), map[string]any{"position": zpos, "head": head}), "first turn without a configured start ended at position %d (recorded: %v), head %d", zpos, ok, head)
			}
		}
		posBefore, hadPos := pb.pm.captureLive().position()
		res := me.env.Step(pb.task)
		c.Obs("steps", 1)
		c.Obs("shared_steps", 1)
		me.checkOwnership(res.Commits, pb)
		for _, rec := range res.Commits {
			if rec.Aborted || len(rec.Tx.Effects) == 0 {
				continue
			}
			dc := pb.pm.classify(rec)
			c.Obs("commits_range_checked", 1)
			if done {
				c.Violate("shared:write-after-completion", detail(), "the bounded integration wrote after it had reported completion")
			}
			for _, row := range dc.rowsIns {
				if n, ok := rowBlockNum(dc.tbl, row); ok && (n > stop || n < start) {
					c.Violate(fmt.Sprintf("shared:row-outside-range:dep=%v", withDep), merge(detail(), map[string]any{"block": n}), "row for block %d written outside the configured range [%d, %d]", n, start, stop)
				}
			}
			for _, cr := range dc.cursorIns {
				if cr.num > stop || cr.num < start {
					c.Violate(fmt.Sprintf("shared:position-outside-range:dep=%v", withDep), merge(detail(), map[string]any{"position": cr.num}), "position %d recorded outside the configured range [%d, %d]", cr.num, start, stop)
				}
			}
		}
		pos, has := pb.pm.captureLive().position()
		if errors.Is(res.Err, shovel.ErrDone) {
			c.Obs("done_reported", 1)
			if !has || pos < stop {
				c.Violate("shared:completion-reported-early", merge(detail(), map[string]any{"position": pos}), "completion reported at position %d with stop %d", pos, stop)
			}
			if done {
				break
			}
			done = true
		} else if hadPos && posBefore >= stop {
			c.Violate("shared:completion-not-reported", merge(detail(), map[string]any{"position": posBefore, "err": fmt.Sprint(res.Err)}), "position %d had reached stop %d but the step returned %v", posBefore, stop, res.Err)
		}
	}
	if len(c.Res.Violations) == 0 && done {
		// the periodic position-history trim and a restart must not undo completion
		for k := 0; k < 3; k++ {
			me.stepSeq(pa, false)
		}
		me.prune(r.Range(1, 3))
		me.env.Crash()
		if me.env.SetupErr != nil {
			c.Violate("shared:restart-failed", detail(), "restart failed: %v", me.env.SetupErr)
			return
		}
		me.bindTasks()
		for _, p := range me.pairs {
			if p.ig == b.Name {
				pb = p
			}
		}
		for k := 0; k < 3 && len(c.Res.Violations) == 0; k++ {
			res := me.env.Step(pb.task)
			for _, rec := range res.Commits {
				if !rec.Aborted && len(rec.Tx.Effects) > 0 {
					c.Violate("shared:write-after-completion:after-prune-and-restart", detail(), "after pruning the position history and restarting, the completed integration wrote again")
				}
			}
			if !errors.Is(res.Err, shovel.ErrDone) {
				c.Violate("shared:completion-forgotten:after-prune-and-restart", merge(detail(), map[string]any{"err": fmt.Sprint(res.Err)}), "after pruning the position history and restarting, the completed integration returned %v instead of completion", res.Err)
			}
		}
		c.Obs("restarts", 1)
	}
	if len(c.Res.Violations) == 0 && !done {
		c.Violate("shared:never-completed", detail(), "the bounded integration never reported completion although the source is far beyond its stop")
	}
	c.Obs("runs", 1)
	c.SetSig("shared dep=%v batch=%d done=%v", withDep, batch, done)
}

func c06Run(c *vk.Case) {
	if c.Index >= c06GridShards*c06Modes(c.Tier)+c06Random(c.Tier) {
		c06SharedCase(c)
		return
	}
	nm := c06Modes(c.Tier)
	if c.Index < c06GridShards*nm {
		mode, shard := c.Index/c06GridShards, c.Index%c06GridShards
		if nm == 1 {
			mode = int(c.Seed % 3)
		}
		i := 0
		for _, sk := range c06Starts {
			for _, tk := range c06Stops {
				for _, b := range c06Batches {
					for _, cc := range c06Concs {
						for _, pk := range c06Priors {
							i++
							if i%c06GridShards != shard {
								continue
							}
							r := vk.NewRNG(vk.Derive(c.Seed, 0xC06, uint64(i), uint64(mode)))
							p := &c06Params{startK: sk, stopK: tk, priorK: pk, batch: b, conc: cc, mode: mode, seed: r.U64(), initial: r.Range(6, 12)}
							p.hist = c06History(r)
							c06One(c, p)
							if len(c.Res.Violations) >= 10 {
								return
							}
						}
					}
				}
			}
		}
		if shard == 0 {
			c.Sample(map[string]any{"grid": "start×stop×batch×concurrency×prior", "example_history": "step grow(2) restart step … grow(7) restart + steps until idle"})
		}
		return
	}
	r := c.R
	p := &c06Params{startK: vk.Pick(r, c06Starts), stopK: vk.Pick(r, c06Stops), priorK: vk.Pick(r, c06Priors), batch: r.Range(1, 12), conc: r.Range(1, 5), mode: r.Intn(3), seed: r.U64(), initial: r.Range(4, 20)}
	p.hist = c06History(r)
	c06One(c, p)
}
