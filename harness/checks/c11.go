package checks

import (
	"context"
	"database/sql/driver"
	"encoding/hex"
	"encoding/json"
	"errors"
	"fmt"
	"math/big"
	"sort"
	"strings"
	"sync"

	"github.com/holiman/uint256"
	"github.com/indexsupply/shovel/eth"
	"github.com/indexsupply/shovel/shovel"
	"github.com/indexsupply/shovel/shovel/config"
	"github.com/indexsupply/shovel/wctx"
	"github.com/indexsupply/shovel/wpg"

	"verif/harness/fakepg"
	"verif/harness/gen"
	"verif/harness/model"
	"verif/harness/refmodel"
	"verif/harness/scen"
	"verif/harness/simnode"
	"verif/harness/vk"
)

// C11 — each column receives the value of the field it names, with documented
// typing.

const (
	c11PipeEveryQuick    = 41 // every 41st case of the quick tier runs the full pipeline (1500 of 61500)
	c11PipeEveryThorough = 61 // 30000 of 1830000
)

func c11IsPipe(c *vk.Case) bool {
	if c.Thorough() {
		return c.Index%c11PipeEveryThorough == 0
	}
	return c.Index%c11PipeEveryQuick == 0
}

func init() {
	vk.Register(&vk.Check{
		ID:        "C11",
		Level:     "exploration",
		Technique: "reference-projection oracle per stored cell: generated declarations (configuration JSON -> ValidateFix -> production destination) run over generated blocks through Integration.Insert with a recording connection (volume) and through the full path simulated node -> jrpc2 -> dig -> COPY -> fake Postgres (every 41st/61st case); every mismatch is attributed to the binding of its column",
		Rule: "each case draws one integration: log mode (70 %: events of 1-6 inputs in the classes all-indexed [logs without data], mixed, data-present-but-nothing-selected-from-it, integer-widths, arrays; every input independently indexed/non-indexed and selected/unselected, " +
			"so unselected indexed inputs precede selected ones in about half of the declarations; types uint8..uint256 and int8..int256 in steps of 8 with value patterns {0,1,-1,min,max,random}, address, bool, bytesN, bytes, string, T[] and T[k] of those), " +
			"tx mode and trace mode (15 % each); 0-6 block/transaction/receipt/log/trace fields in random order, half of them with a column name different from the field name, abi_idx declared explicitly at a random position; " +
			"2-4 blocks of 0-3 transactions with 0-3 logs (target logs from 4 addresses plus decoys). signature = (path, mode, event class, #indexed, #selected indexed, unselected-indexed-before-selected, log with/without data) ∪ (leaf type, indexed) ∪ (field, mode); trivial = no row expected.",
		Assumptions: []string{
			"expected cells come from model.ProjectBlock (own ABI encoder/Keccak, math/big two's complement) over the simulated blocks, never from shovel code",
			"direct path: the Go values handed to CopyFrom are mapped to stored values the way pgx encodes them (uint256 -> decimal, driver.Valuer -> its decimal string, byte slices, integers, bool, string); the COPY leg itself is exercised by the pipeline cases",
			"bytesN is documented as the whole 32-byte word; NULL and empty are the same stored value for bytea/text",
			"indexed inputs of dynamic type (string, bytes) appear in events but are never selected (their topic is a hash, the statement's typing does not cover it)",
			"at most one selected array per event (the statement defines the element index for one array); tuples and nested arrays are C09's subject",
			"abi_idx is declared explicitly only when a non-indexed input is selected (ValidateFix adds it exactly then); for logs without data the column does not exist",
			"event columns use the documented default column types (numeric, bool, text, bytea); block fields use the documented types of shovel-config-ts",
			"trace fields bound to a column whose name does not start with trace_ are exercised in the direct path only (sub-class trace-custom-column)",
			"fakepg implements PostgreSQL semantics for the SQL subset of DESIGN.md §3.1; simnode answers like geth/erigon",
		},
		NCases: func(tier string) int {
			if tier == "thorough" {
				return 1830000
			}
			return 61500
		},
		Run:              c11Run,
		CrashIsViolation: true,
		CaseTimeoutS:     120,
		MinObs: func(tier string) map[string]int64 {
			return map[string]int64{
				"cells_compared": 2000000, "rows_compared": 200000, "logs_without_data": 25000, "logs_unselected_indexed_before_selected": 25000,
				"cells_indexed_input": 120000, "cells_negative_int": 30000, "rows_array_element_gt0": 20000, "cells_block_field": 1500000,
				"pipeline_rows_compared": 8000, "pipeline_cases_at_head": 1200, "direct_inserts": 50000,
			}
		},
	})
}

// ---------------------------------------------------------------------------
// helpers shared with C12: production destination from configuration JSON,
// eth.Block values from simulated blocks, stored values of copied rows

// directDest renders the declarations as a configuration file, runs
// config.ValidateFix on it and builds the destination of decls[which] with
// shovel.NewDestination — the wiring of the real process minus database and node.
func directDest(decls []*model.Decl, which int) (dest shovel.Destination, colTypes map[string]string, confJSON string, err error, p *panicInfo) {
	defer func() {
		if r := recover(); r != nil {
			p = capturePanic(r)
		}
	}()
	var igs []any
	for _, d := range decls {
		igs = append(igs, d.ConfigJSON())
	}
	root := map[string]any{
		"pg_url":       "postgres://unused",
		"eth_sources":  []any{map[string]any{"name": namePoolSrc[0], "chain_id": 1, "url": "http://127.0.0.1:9"}},
		"integrations": igs,
	}
	b, merr := json.Marshal(root)
	if merr != nil {
		return nil, nil, "", merr, nil
	}
	confJSON = string(b)
	var conf config.Root
	if err = json.Unmarshal(b, &conf); err != nil {
		return nil, nil, confJSON, fmt.Errorf("decode: %w", err), nil
	}
	if err = config.ValidateFix(&conf); err != nil {
		return nil, nil, confJSON, fmt.Errorf("validate: %w", err), nil
	}
	colTypes = map[string]string{}
	for _, col := range conf.Integrations[which].Table.Columns {
		colTypes[col.Name] = col.Type
	}
	dest, err = shovel.NewDestination(conf.Integrations[which])
	return dest, colTypes, confJSON, err, nil
}

func directInsert(dest shovel.Destination, conn wpg.Conn, chainID uint64, blocks []eth.Block) (n int64, err error, p *panicInfo) {
	defer func() {
		if r := recover(); r != nil {
			p = capturePanic(r)
		}
	}()
	// the context values loadTasks sets for every task (Insert adds ig_name itself)
	ctx := wctx.WithChainID(context.Background(), chainID)
	ctx = wctx.WithSrcName(ctx, namePoolSrc[0])
	n, err = dest.Insert(ctx, &sync.Mutex{}, conn, blocks)
	return n, err, nil
}

func setU256(dst *uint256.Int, x *big.Int) {
	if x == nil {
		dst.Clear()
		return
	}
	dst.SetFromBig(x)
}

func ethBytes(b []byte) eth.Bytes {
	if b == nil {
		return nil
	}
	return eth.Bytes(exactCopy(b))
}

// ethBlocks builds the blocks the client would hand to Insert for a full data
// plan: every header, transaction, receipt, log and trace field filled from the
// simulated block. Built in place (Block and Tx carry mutexes).
func ethBlocks(bs []*simnode.Block) []eth.Block {
	out := make([]eth.Block, len(bs))
	for i, b := range bs {
		eb := &out[i]
		eb.Header.Number = eth.Uint64(b.Num)
		eb.Header.Hash = ethBytes(b.Hash)
		eb.Header.Parent = ethBytes(b.Parent)
		eb.Header.Time = eth.Uint64(b.Time)
		eb.Header.LogsBloom = ethBytes(b.Bloom)
		eb.Txs = make(eth.Txs, len(b.Txs))
		for j := range b.Txs {
			t, et := &b.Txs[j], &eb.Txs[j]
			et.Idx = eth.Uint64(t.Idx)
			et.Type = eth.Byte(t.Type)
			et.Nonce = eth.Uint64(t.Nonce)
			et.GasLimit = eth.Uint64(t.Gas)
			et.From = ethBytes(t.From)
			et.To = ethBytes(t.To)
			et.Data = ethBytes(t.Input)
			et.PrecompHash = ethBytes(t.Hash)
			setU256(&et.GasPrice, t.GasPrice)
			setU256(&et.MaxPriorityFeePerGas, t.MaxPrio)
			setU256(&et.MaxFeePerGas, t.MaxFee)
			setU256(&et.Value, t.Value)
			et.Receipt.Status = eth.Byte(t.Status)
			et.Receipt.GasUsed = eth.Uint64(t.GasUsed)
			setU256(&et.Receipt.EffectiveGasPrice, t.EffGasPrice)
			et.Receipt.ContractAddress = ethBytes(t.ContractAddr)
			for k := range t.Logs {
				l := &t.Logs[k]
				el := eth.Log{Idx: eth.Uint64(l.Idx), Address: ethBytes(l.Addr), Data: ethBytes(l.Data)}
				for _, tp := range l.Topics {
					el.Topics = append(el.Topics, ethBytes(tp))
				}
				et.Receipt.Logs = append(et.Receipt.Logs, el)
			}
			for k := range t.Traces {
				ta := &t.Traces[k]
				eta := eth.TraceAction{Idx: uint64(k), From: ethBytes(ta.From), To: ethBytes(ta.To), CallType: ta.CallType}
				setU256(&eta.Value, ta.Value)
				et.TraceActions = append(et.TraceActions, eta)
			}
		}
	}
	return out
}

// storedValue maps a Go value handed to CopyFrom to the value Postgres stores
// for it (what pgx's codecs encode): see the check's assumptions.
func storedValue(v any, colType string) (fakepg.Value, bool) {
	switch x := v.(type) {
	case nil:
		return nil, true
	case *uint256.Int:
		return x.ToBig(), true
	case eth.Bytes:
		if colType == "text" {
			return string(x), true // pgx's text codec takes the bytes as the string
		}
		return []byte(x), true
	case []byte:
		if colType == "text" {
			return string(x), true
		}
		return x, true
	case eth.Uint64:
		return new(big.Int).SetUint64(uint64(x)), true
	case eth.Byte:
		return new(big.Int).SetUint64(uint64(x)), true
	case uint64:
		return new(big.Int).SetUint64(x), true
	case int:
		return big.NewInt(int64(x)), true
	case string:
		return x, true
	case bool:
		return x, true
	case driver.Valuer:
		dv, err := x.Value()
		if err != nil {
			return nil, false
		}
		switch y := dv.(type) {
		case string:
			n, ok := new(big.Int).SetString(y, 10)
			if !ok {
				return nil, false
			}
			return n, true
		case nil:
			return nil, true
		}
		return nil, false
	}
	return nil, false
}

// copiedRows converts what a recording connection saw into model rows, in order.
func copiedRows(cols []string, colTypes map[string]string, rows [][]any) ([]model.Row, error) {
	var out []model.Row
	for i, vs := range rows {
		if len(vs) != len(cols) {
			return nil, fmt.Errorf("row %d has %d values for %d columns", i, len(vs), len(cols))
		}
		m := model.Row{}
		for j, v := range vs {
			sv, ok := storedValue(v, colTypes[cols[j]])
			if !ok {
				return nil, fmt.Errorf("row %d column %s: value of Go type %T has no known stored form", i, cols[j], v)
			}
			m[cols[j]] = sv
		}
		out = append(out, m)
	}
	return out, nil
}

// runToHead steps a single task until it idles at the head. It reports panics
// under kp and returns whether the head was reached plus the last real error.
func runToHead(c *vk.Case, env *scen.Env, task *shovel.Task, chain *simnode.Chain, kp string, detail map[string]any, onStep func(*scen.StepResult)) (bool, string) {
	idle, lastErr := 0, ""
	max := int(chain.Head().Num)*2 + 25
	for i := 0; i < max && idle < 3; i++ {
		res := env.Step(task)
		c.Obs("steps", 1)
		if onStep != nil {
			onStep(res)
		}
		if res.Panic != "" {
			fr := vk.TopShovelFrame(res.Panic)
			c.Violate(kp+"panic:"+fr, merge(detail, map[string]any{"panic": firstLines(res.Panic, 30)}), "Converge panicked in %s: %s", fr, firstLines(res.Panic, 1))
			return false, "panic"
		}
		switch {
		case errors.Is(res.Err, shovel.ErrNothingNew):
			idle++
		case res.Err != nil:
			lastErr = res.Err.Error()
			idle = 0
		default:
			idle = 0
		}
	}
	return idle >= 3, lastErr
}

// errKey squeezes an error text into a stable, number-free key fragment.
func errKey(e string) string {
	for _, pat := range []string{"no rows for un-indexed data", "scanning abi data", "expected only blockdata coldef", "unable to convert filter arg", "filter using reference", "invalid byte sequence", "duplicate key", "encode", "COPY"} {
		if strings.Contains(e, pat) {
			return strings.ReplaceAll(pat, " ", "-")
		}
	}
	var sb strings.Builder
	for _, r := range e {
		switch {
		case r >= 'a' && r <= 'z' || r >= 'A' && r <= 'Z':
			sb.WriteRune(r)
		case sb.Len() > 0 && !strings.HasSuffix(sb.String(), "-"):
			sb.WriteByte('-')
		}
		if sb.Len() >= 40 {
			break
		}
	}
	return strings.Trim(sb.String(), "-")
}

// ---------------------------------------------------------------------------
// declarations

var c11Classes = []string{"all-indexed", "mixed", "data-unselected", "ints", "arrays", "mixed", "all-indexed", "mixed"}

func c11Width(r *vk.RNG) int { return 8 * r.Range(1, 32) }

func c11Static(r *vk.RNG) refmodel.Type {
	switch r.Intn(10) {
	case 0, 1, 2:
		if r.Chance(1, 4) {
			return refmodel.Uint(256)
		}
		return refmodel.Uint(c11Width(r))
	case 3, 4, 5:
		if r.Chance(1, 4) {
			return refmodel.Int(256)
		}
		return refmodel.Int(c11Width(r))
	case 6:
		return refmodel.Address()
	case 7:
		return refmodel.Bool()
	}
	if r.Bool() {
		return refmodel.BytesN(32)
	}
	return refmodel.BytesN(r.Range(1, 31))
}

func c11IntType(r *vk.RNG) refmodel.Type {
	if r.Bool() {
		return refmodel.Int(c11Width(r))
	}
	return refmodel.Uint(c11Width(r))
}

func c11Elem(r *vk.RNG) refmodel.Type {
	switch r.Intn(8) {
	case 0:
		return refmodel.Bytes()
	case 1:
		return refmodel.String()
	}
	return c11Static(r)
}

func c11Array(r *vk.RNG) refmodel.Type {
	if r.Bool() {
		return refmodel.ArrayOf(c11Elem(r))
	}
	return refmodel.FixedOf(vk.Pick(r, []int{1, 2, 3, 5}), c11Elem(r))
}

func pow2(n int) *big.Int { return new(big.Int).Lsh(big.NewInt(1), uint(n)) }

// c11Value draws a value; integers follow the sign patterns {0,1,-1,min,max,random}.
func c11Value(r *vk.RNG, t refmodel.Type) any {
	switch t.Kind {
	case refmodel.KUint:
		switch r.Intn(6) {
		case 0:
			return new(big.Int)
		case 1:
			return big.NewInt(1)
		case 2:
			return new(big.Int).Sub(pow2(t.Bits), big.NewInt(1)) // max
		case 3:
			return pow2(t.Bits - 1) // top bit only: the pattern a signed reading would call min
		}
		return r.BigBits(r.Range(1, t.Bits))
	case refmodel.KInt:
		switch r.Intn(7) {
		case 0:
			return new(big.Int)
		case 1:
			return big.NewInt(1)
		case 2:
			return big.NewInt(-1)
		case 3:
			return new(big.Int).Neg(pow2(t.Bits - 1)) // min
		case 4:
			return new(big.Int).Sub(pow2(t.Bits-1), big.NewInt(1)) // max
		}
		x := r.BigBits(r.Range(1, t.Bits-1))
		if r.Bool() {
			x.Neg(x)
		}
		return x
	case refmodel.KArray:
		n := r.Range(0, 4)
		if r.Chance(1, 8) {
			n = 0
		}
		vs := make([]any, n)
		for i := range vs {
			vs[i] = c11Value(r, *t.Elem)
		}
		return vs
	case refmodel.KFixedArray:
		vs := make([]any, t.N)
		for i := range vs {
			vs[i] = c11Value(r, *t.Elem)
		}
		return vs
	}
	return gen.Value(r, t, gen.ABIOpts{DynLen: 3})
}

type c11Info struct {
	Class   string
	Mode    model.Mode
	NIdx    int
	NSelIdx int
	UBS     bool // some selected indexed input is preceded by an unselected indexed one
	Rename  map[string]string
	// MayRefuse: start-up may refuse the declaration with an error containing this text (counted, not judged)
	MayRefuse string
}

func (info *c11Info) countIndexed(inputs []refmodel.Field) {
	unselBefore := false
	for _, f := range inputs {
		if !f.Indexed {
			continue
		}
		info.NIdx++
		if f.Column == "" {
			unselBefore = true
			continue
		}
		info.NSelIdx++
		if unselBefore {
			info.UBS = true
		}
	}
}

// c11Event draws the inputs of an event of the given class, selections included.
func c11Event(r *vk.RNG, class string) []refmodel.Field {
	var idx, dat []refmodel.Field
	mk := func(t refmodel.Type, indexed, sel bool) refmodel.Field {
		f := refmodel.Field{Type: t, Indexed: indexed}
		if sel {
			f.Column = "?"
		}
		return f
	}
	switch class {
	case "all-indexed":
		n := r.Range(1, 3)
		for i := 0; i < n; i++ {
			idx = append(idx, mk(c11Static(r), true, r.Bool()))
		}
		if n >= 2 && r.Bool() {
			// the shape the no-data path is suspected to mishandle: first unselected, a later one selected
			idx[0].Column = ""
			idx[1+r.Intn(n-1)].Column = "?"
		}
		if n < 3 && r.Chance(1, 5) {
			// an indexed dynamic input: present in the topics, never selectable
			f := mk(vk.Pick(r, []refmodel.Type{refmodel.String(), refmodel.Bytes()}), true, false)
			at := r.Intn(len(idx) + 1)
			idx = append(idx[:at], append([]refmodel.Field{f}, idx[at:]...)...)
		}
	case "mixed":
		for i, n := 0, r.Range(1, 3); i < n; i++ {
			idx = append(idx, mk(c11Static(r), true, r.Bool()))
		}
		for i, n := 0, r.Range(1, 3); i < n; i++ {
			dat = append(dat, mk(c11Elem(r), false, r.Bool()))
		}
	case "data-unselected":
		for i, n := 0, r.Range(1, 3); i < n; i++ {
			idx = append(idx, mk(c11Static(r), true, r.Bool()))
		}
		for i, n := 0, r.Range(1, 2); i < n; i++ {
			t := c11Elem(r)
			if r.Chance(1, 4) {
				t = c11Array(r)
			}
			dat = append(dat, mk(t, false, false))
		}
	case "ints":
		for i, n := 0, r.Range(0, 3); i < n; i++ {
			idx = append(idx, mk(c11IntType(r), true, r.Chance(3, 4)))
		}
		for i, n := 0, r.Range(1, 3); i < n; i++ {
			dat = append(dat, mk(c11IntType(r), false, r.Chance(3, 4)))
		}
	case "arrays":
		for i, n := 0, r.Range(0, 2); i < n; i++ {
			idx = append(idx, mk(c11Static(r), true, r.Bool()))
		}
		dat = append(dat, mk(c11Array(r), false, true))
		for i, n := 0, r.Range(0, 2); i < n; i++ {
			dat = append(dat, mk(c11Elem(r), false, r.Bool()))
		}
	}
	all := append(append([]refmodel.Field{}, idx...), dat...)
	vk.Shuffle(r, all)
	// at least one selected column; in the indexed-only classes it must be an indexed one
	anySel := false
	for _, f := range all {
		if f.Column != "" {
			anySel = true
		}
	}
	if !anySel {
		var cand []int
		for i, f := range all {
			if f.Type.IsDynamic() && f.Indexed {
				continue
			}
			if class == "data-unselected" && !f.Indexed {
				continue
			}
			cand = append(cand, i)
		}
		all[vk.Pick(r, cand)].Column = "?"
	}
	for i := range all {
		all[i].Name = fmt.Sprintf("f%d", i+1)
		if all[i].Column != "" {
			all[i].Column = fmt.Sprintf("v_%d", i+1)
		}
	}
	return all
}

func c11IsIdentity(n string) bool {
	switch n {
	case "ig_name", "src_name", "block_num", "tx_idx", "log_idx", "abi_idx", "trace_action_idx":
		return true
	}
	return false
}

// c11Decl draws an integration for the mode.
func c11Decl(r *vk.RNG, mode model.Mode, traceCustom bool) (*model.Decl, *c11Info) {
	d := &model.Decl{Name: namePoolIG[0], Enabled: true, Table: namePoolTbl[0], ColTypes: map[string]string{}, InFilter: map[string]model.Filter{}}
	d.Sources = []model.SrcRef{{Name: namePoolSrc[0], Start: 1}}
	info := &c11Info{Mode: mode, Class: mode.String(), Rename: map[string]string{}}
	if mode == model.ModeLog {
		info.Class = vk.Pick(r, c11Classes)
		d.EventName = gen.EventName(r)
		d.Inputs = c11Event(r, info.Class)
		info.countIndexed(d.Inputs)
	}
	var pool []gen.FieldInfo
	for _, f := range gen.Fields {
		switch f.Class {
		case "log":
			if mode != model.ModeLog {
				continue
			}
		case "trace":
			if mode != model.ModeTrace || f.Name == "trace_action_idx" {
				continue
			}
		}
		pool = append(pool, f)
	}
	vk.Shuffle(r, pool)
	n := r.Range(0, 6)
	if mode != model.ModeLog {
		n = r.Range(1, 7)
	}
	hasTrace := false
	add := func(f gen.FieldInfo) {
		col := f.Name
		if !c11IsIdentity(f.Name) && f.Class != "trace" && r.Bool() {
			col = "c_" + f.Name
		}
		if f.Class == "trace" {
			hasTrace = true
			if traceCustom {
				col = "c_" + f.Name
				info.Rename[f.Name] = col
			}
		}
		d.Block = append(d.Block, model.BlockField{Name: f.Name, Column: col, ColType: f.ColType})
	}
	for i := 0; i < n && i < len(pool); i++ {
		add(pool[i])
	}
	if mode == model.ModeTrace && !hasTrace {
		for _, f := range pool[n:] {
			if f.Class == "trace" {
				add(f)
				break
			}
		}
	}
	if mode == model.ModeLog && len(refmodel.SelectedLeaves(d.Inputs)) > 0 && r.Chance(1, 3) {
		d.Block = append(d.Block, model.BlockField{Name: "abi_idx", Column: "abi_idx", ColType: "int2"})
	}
	vk.Shuffle(r, d.Block)
	return d, info
}

// c11ProjDecl: the declaration the reference projects. With trace fields under
// custom column names the model (which, like shovel, keys trace mode on the
// column prefix) is given the natural names and the rows are renamed afterwards.
func c11ProjDecl(d *model.Decl, info *c11Info) *model.Decl {
	if len(info.Rename) == 0 {
		return d
	}
	cp := *d
	cp.Block = append([]model.BlockField(nil), d.Block...)
	for i := range cp.Block {
		if _, ok := info.Rename[cp.Block[i].Name]; ok {
			cp.Block[i].Column = cp.Block[i].Name
		}
	}
	return &cp
}

func c11Project(d *model.Decl, info *c11Info, chainID uint64, b *simnode.Block) []model.Row {
	rows := model.ProjectBlock(c11ProjDecl(d, info), namePoolSrc[0], chainID, b, nil)
	if len(info.Rename) > 0 {
		for _, row := range rows {
			for from, to := range info.Rename {
				if v, ok := row[from]; ok {
					row[to] = v
					delete(row, from)
				}
			}
		}
	}
	return rows
}

func c11Chain(r *vk.RNG, d *model.Decl, mode model.Mode, addrs [][]byte) (*simnode.Chain, gen.ChainOpts) {
	co := gen.ChainOpts{Seed: r.U64(), MinTxs: 0, MaxTxs: 3, MaxLogs: 3, MaxTraces: 3}
	switch mode {
	case model.ModeTrace:
		co.MinTxs, co.MinTraces = 1, 1
	case model.ModeTx:
		co.MinTxs = 1
	case model.ModeLog:
		target := func(r *vk.RNG) simnode.Log {
			vals := make([]any, len(d.Inputs))
			for i, f := range d.Inputs {
				vals[i] = c11Value(r, f.Type)
			}
			return model.MakeLog(d.EventName, d.Inputs, vals, vk.Pick(r, addrs))
		}
		co.MinTxs = 1
		co.Makers = append([]gen.LogMaker{target, target, target, target}, gen.DecoyMakers(d, addrs, gen.ABIOpts{DynLen: 3})...)
	}
	return simnode.NewChain(nextChainID(), gen.Content(co)), co
}

// ---------------------------------------------------------------------------
// comparison and attribution

type c11Bind struct {
	Kind  string // indexed | data | field | abi_idx
	Input int
	Field string
}

func c11Binds(d *model.Decl) map[string]c11Bind {
	m := map[string]c11Bind{}
	for i, f := range d.Inputs {
		if f.Column == "" {
			continue
		}
		if f.Indexed {
			m[f.Column] = c11Bind{Kind: "indexed", Input: i}
		} else {
			m[f.Column] = c11Bind{Kind: "data", Input: i}
		}
	}
	for _, b := range d.Block {
		if b.Name == "abi_idx" {
			m[b.Column] = c11Bind{Kind: "abi_idx", Field: b.Name}
		} else {
			m[b.Column] = c11Bind{Kind: "field", Field: b.Name}
		}
	}
	for _, n := range []string{"ig_name", "src_name", "block_num", "tx_idx", "log_idx", "trace_action_idx"} {
		if _, ok := m[n]; !ok {
			m[n] = c11Bind{Kind: "field", Field: n}
		}
	}
	if _, ok := m["abi_idx"]; !ok {
		m["abi_idx"] = c11Bind{Kind: "abi_idx", Field: "abi_idx"}
	}
	return m
}

func c11TypeClass(t refmodel.Type, want fakepg.Value) string {
	arr := ""
	if t.IsArray() {
		arr = "[]"
	}
	b := t.Base()
	switch b.Kind {
	case refmodel.KUint:
		if b.Bits == 256 {
			return "uint256" + arr
		}
		return "uint<256" + arr
	case refmodel.KInt:
		w := "int<256"
		if b.Bits == 256 {
			w = "int256"
		}
		sign := "-nonnegative"
		if x, ok := want.(*big.Int); ok && x.Sign() < 0 {
			sign = "-negative"
		}
		return w + arr + sign
	}
	return leafClass(b) + arr
}

func bigOf(v fakepg.Value) (uint64, bool) {
	switch x := v.(type) {
	case *big.Int:
		return x.Uint64(), x.IsUint64()
	case int64:
		return uint64(x), x >= 0
	}
	return 0, false
}

// c11SortRows orders rows by (block_num, tx_idx, log_idx, trace_action_idx,
// abi_idx), keeping the given order among equals.
func c11SortRows(rows []model.Row) {
	keys := []string{"block_num", "tx_idx", "log_idx", "trace_action_idx", "abi_idx"}
	sort.SliceStable(rows, func(i, j int) bool {
		for _, k := range keys {
			a, _ := bigOf(rows[i][k])
			b, _ := bigOf(rows[j][k])
			if a != b {
				return a < b
			}
		}
		return false
	})
}

type c11LogRef struct {
	b  *simnode.Block
	tx *simnode.Tx
	l  *simnode.Log
}

func c11LogIndex(blocks []*simnode.Block) map[string]c11LogRef {
	m := map[string]c11LogRef{}
	for _, b := range blocks {
		for ti := range b.Txs {
			tx := &b.Txs[ti]
			for li := range tx.Logs {
				m[fmt.Sprintf("%d/%d/%d", b.Num, tx.Idx, tx.Logs[li].Idx)] = c11LogRef{b, tx, &tx.Logs[li]}
			}
		}
	}
	return m
}

func c11LogOf(idx map[string]c11LogRef, row model.Row) *c11LogRef {
	bn, ok1 := bigOf(row["block_num"])
	ti, ok2 := bigOf(row["tx_idx"])
	li, ok3 := bigOf(row["log_idx"])
	if !ok1 || !ok2 || !ok3 {
		return nil
	}
	if lr, ok := idx[fmt.Sprintf("%d/%d/%d", bn, ti, li)]; ok {
		return &lr
	}
	return nil
}

func c11LogDetail(lr *c11LogRef) map[string]any {
	if lr == nil {
		return nil
	}
	var ts []string
	for _, t := range lr.l.Topics {
		ts = append(ts, hex.EncodeToString(t))
	}
	m := map[string]any{"block": lr.b.Num, "tx_idx": lr.tx.Idx, "log_idx": lr.l.Idx, "address": hex.EncodeToString(lr.l.Addr), "topics": ts, "data": hexTrunc(lr.l.Data, 512)}
	if meta, ok := lr.l.Meta.(*model.LogMeta); ok && meta != nil {
		m["event"] = meta.Event
		m["values"] = fmt.Sprint(meta.Vals)
	}
	return m
}

// c11Attribute names the defect class of one wrong cell.
func c11Attribute(d *model.Decl, binds map[string]c11Bind, col string, got, want fakepg.Value, wrow model.Row, lr *c11LogRef) (key string, extra map[string]any) {
	b, ok := binds[col]
	if !ok {
		return "unbound-column:" + col, nil
	}
	switch b.Kind {
	case "field":
		// does the cell hold the value of another selectable field of the same item?
		other := ""
		for c2, b2 := range binds {
			if c2 != col && b2.Kind == "field" && model.CanonValue(wrow[c2]) == model.CanonValue(got) && model.CanonValue(got) != "∅" {
				other = b2.Field
			}
		}
		ex := map[string]any{"field": b.Field}
		if other != "" {
			ex["holds_value_of_field"] = other
		}
		return "block-field:" + b.Field, ex
	case "abi_idx":
		g, okg := bigOf(got)
		w, okw := bigOf(want)
		switch {
		case okg && okw && g == w+1:
			return "abi_idx:counts-from-one", nil
		case got == nil:
			return "abi_idx:null", nil
		}
		return "abi_idx:wrong-ordinal", nil
	case "indexed":
		f := d.Inputs[b.Input]
		path := "data-path"
		if lr != nil && len(lr.l.Data) == 0 {
			path = "nodata-path"
		}
		own, unselBefore := 0, false
		for i, g := range d.Inputs {
			if !g.Indexed {
				continue
			}
			own++
			if i == b.Input {
				break
			}
			if g.Column == "" {
				unselBefore = true
			}
		}
		ex := map[string]any{"input": f.Name, "type": f.Type.Canonical(), "own_topic_position": own}
		if lr != nil {
			for k := 1; k < len(lr.l.Topics); k++ {
				if f.Type.Kind == refmodel.KBool && !unselBefore {
					break // a bool equals another topic's reading half of the time: no evidence of misbinding
				}
				if k != own && model.CanonValue(model.Typed(f.Type, lr.l.Topics[k])) == model.CanonValue(got) {
					ex["holds_topic_position"] = k
					cause := "other"
					if unselBefore {
						cause = "unselected-indexed-before-selected"
					}
					return "indexed-topic-misbound:" + path + ":" + cause, ex
				}
			}
		}
		return "typing:" + c11TypeClass(f.Type, want) + ":indexed", ex
	case "data":
		f := d.Inputs[b.Input]
		ex := map[string]any{"input": f.Name, "type": f.Type.Canonical()}
		for c2, b2 := range binds {
			if c2 != col && b2.Kind == "data" && model.CanonValue(wrow[c2]) == model.CanonValue(got) && model.CanonValue(got) != "∅" && model.CanonValue(got) != "n0" && model.CanonValue(got) != "false" {
				ex["holds_value_of_input"] = d.Inputs[b2.Input].Name
				return "data-input-misbound", ex
			}
		}
		return "typing:" + c11TypeClass(f.Type, want), ex
	}
	return "unclassified", nil
}

type c11Cmp struct {
	c      *vk.Case
	d      *model.Decl
	info   *c11Info
	path   string
	blocks []*simnode.Block
	detail map[string]any
}

// compare checks got against want (both in traversal order) cell by cell.
func (cm *c11Cmp) compare(got, want []model.Row, cols []string) {
	c, d := cm.c, cm.d
	binds := c11Binds(d)
	idx := c11LogIndex(cm.blocks)
	kp := ""
	if len(cm.info.Rename) > 0 {
		kp = "trace-custom-column:"
	}
	if len(got) != len(want) {
		// find the first item whose row count differs
		cnt := func(rows []model.Row) map[string]int {
			m := map[string]int{}
			for _, r := range rows {
				m[model.CanonValue(r["block_num"])+"/"+model.CanonValue(r["tx_idx"])+"/"+model.CanonValue(r["log_idx"])+"/"+model.CanonValue(r["trace_action_idx"])]++
			}
			return m
		}
		gm, wm := cnt(got), cnt(want)
		var keys []string
		for k := range wm {
			keys = append(keys, k)
		}
		for k := range gm {
			if _, ok := wm[k]; !ok {
				keys = append(keys, k)
			}
		}
		sort.Strings(keys)
		item, g, w := "", 0, 0
		for _, k := range keys {
			if gm[k] != wm[k] {
				item, g, w = k, gm[k], wm[k]
				break
			}
		}
		dir := "fewer"
		if len(got) > len(want) {
			dir = "more"
		}
		pathc := ""
		if cm.info.Mode == model.ModeLog {
			pathc = ":data-path"
			for _, r := range want {
				if lr := c11LogOf(idx, r); lr != nil && len(lr.l.Data) == 0 {
					pathc = ":nodata-path"
				}
				break
			}
		}
		c.Violate(fmt.Sprintf("%srow-count:mode=%s%s:%s-than-expected", kp, cm.info.Mode, pathc, dir), merge(cm.detail, map[string]any{"rows": len(got), "expected": len(want), "first_item_differing": item, "item_rows": g, "item_expected": w}),
			"%s: %d rows produced, %d expected (item %s: %d vs %d)", cm.path, len(got), len(want), item, g, w)
		return
	}
	prevItem := ""
	for i := range want {
		g, w := got[i], want[i]
		lr := c11LogOf(idx, w)
		item := model.CanonValue(w["block_num"]) + "/" + model.CanonValue(w["tx_idx"]) + "/" + model.CanonValue(w["log_idx"])
		if lr != nil && item != prevItem {
			prevItem = item
			c.Obs("logs_compared", 1)
			if len(lr.l.Data) == 0 {
				c.Obs("logs_without_data", 1)
			}
			if cm.info.UBS {
				c.Obs("logs_unselected_indexed_before_selected", 1)
			}
		}
		if a, ok := bigOf(w["abi_idx"]); ok && a > 0 {
			c.Obs("rows_array_element_gt0", 1)
		}
		for _, col := range cols {
			wv, known := w[col]
			if !known {
				c.Inconclusive("oracle has no value for column %s", col)
				return
			}
			c.Obs("cells_compared", 1)
			switch b := binds[col]; b.Kind {
			case "indexed":
				c.Obs("cells_indexed_input", 1)
			case "field":
				c.Obs("cells_block_field", 1)
			}
			if x, ok := wv.(*big.Int); ok && x.Sign() < 0 {
				c.Obs("cells_negative_int", 1)
			}
			if model.CanonValue(g[col]) == model.CanonValue(wv) {
				continue
			}
			key, extra := c11Attribute(d, binds, col, g[col], wv, w, lr)
			det := merge(cm.detail, map[string]any{"column": col, "stored": model.CanonValue(g[col]), "required": model.CanonValue(wv), "row": i, "log": c11LogDetail(lr),
				"stored_row": model.CanonRow(g, cols), "required_row": model.CanonRow(w, cols)})
			det = merge(det, extra)
			c.Violate(kp+key, det, "%s: column %s holds %s, the declaration requires %s", cm.path, col, model.CanonValue(g[col]), model.CanonValue(wv))
		}
		c.Obs("rows_compared", 1)
	}
}

func (cm *c11Cmp) sigs(plan string) {
	c, d, info := cm.c, cm.d, cm.info
	switch info.Mode {
	case model.ModeLog:
		hasData := false
		for _, f := range d.Inputs {
			if !f.Indexed {
				hasData = true
			}
		}
		c.SetSig("path=%s mode=log class=%s nidx=%d nselidx=%d ubs=%v data=%v", cm.path, info.Class, info.NIdx, info.NSelIdx, info.UBS, hasData)
		for _, f := range d.Inputs {
			if f.Column != "" {
				c.SetSig("type=%s indexed=%v", f.Type.Canonical(), f.Indexed)
			}
		}
	default:
		c.SetSig("path=%s mode=%s custom-trace-columns=%v", cm.path, info.Mode, len(info.Rename) > 0)
	}
	for _, b := range d.Block {
		c.SetSig("field=%s mode=%s renamed=%v", b.Name, info.Mode, b.Column != b.Name)
	}
	if plan != "" {
		c.Seen("plans", plan)
	}
}

func c11Describe(d *model.Decl) string {
	var bs []string
	for _, b := range d.Block {
		if b.Column != b.Name {
			bs = append(bs, b.Name+"->"+b.Column)
		} else {
			bs = append(bs, b.Name)
		}
	}
	s := "block[" + strings.Join(bs, ",") + "]"
	if len(d.Inputs) > 0 {
		s = d.EventName + refmodel.Describe(d.Inputs) + " " + s
	}
	return s
}

// ---------------------------------------------------------------------------
// the two paths

func c11Run(c *vk.Case) {
	if c11IsPipe(c) {
		c11Pipeline(c)
		return
	}
	c11Direct(c)
}

func c11Mode(r *vk.RNG) model.Mode {
	switch x := r.Intn(20); {
	case x < 14:
		return model.ModeLog
	case x < 17:
		return model.ModeTx
	}
	return model.ModeTrace
}

// c11Catalogue: hand-written minimal declarations, run first so that the
// witness kept for a key is as small as the defect allows.
func c11Catalogue() []struct {
	name   string
	inputs []refmodel.Field
} {
	A, U, I8 := refmodel.Address(), refmodel.Uint(256), refmodel.Int(8)
	f := func(n string, t refmodel.Type, indexed bool, col string) refmodel.Field {
		return refmodel.Field{Name: n, Type: t, Indexed: indexed, Column: col}
	}
	return []struct {
		name   string
		inputs []refmodel.Field
	}{
		{"Transfer", []refmodel.Field{f("from", A, true, "f"), f("to", A, true, "t"), f("value", U, false, "v")}},         // control: everything selected
		{"Transfer", []refmodel.Field{f("from", A, true, ""), f("to", A, true, "t"), f("value", U, false, "v")}},          // unselected indexed before selected, with data
		{"Transfer", []refmodel.Field{f("from", A, true, "f"), f("to", A, true, ""), f("value", U, false, "v")}},          // control: unselected indexed after selected
		{"Pair", []refmodel.Field{f("a", A, true, ""), f("b", A, true, "b")}},                                             // all indexed (log without data), first unselected
		{"Pair", []refmodel.Field{f("a", A, true, "a"), f("b", A, true, "")}},                                             // control
		{"Transfer", []refmodel.Field{f("from", A, true, ""), f("to", A, true, "t"), f("value", U, false, "")}},           // data present, nothing selected from it
		{"Delta", []refmodel.Field{f("x", I8, true, "x"), f("y", I8, false, "y"), f("z", refmodel.Int(256), false, "z")}}, // small signed widths
		{"Batch", []refmodel.Field{f("who", A, true, "who"), f("ids", refmodel.ArrayOf(refmodel.Uint(64)), false, "id")}}, // element index
		// unnamed inputs (ABIs may leave them unnamed): one is unambiguous; several cannot be told apart by name and
		// are either refused at start-up or bound to the right topic
		{"Named1", []refmodel.Field{f("x", A, true, "x"), f("", A, true, "y"), f("v", U, false, "v")}},
		{"Unnamed2", []refmodel.Field{f("", A, true, "a"), f("", A, true, "b"), f("v", U, false, "v")}},
		{"Unnamed2", []refmodel.Field{f("", A, true, ""), f("", A, true, "b"), f("v", U, false, "v")}},
		{"Unnamed3", []refmodel.Field{f("", A, true, "a"), f("", A, true, ""), f("", A, true, "c")}},
		// a struct member that carries the name of an indexed top-level input (legal Solidity, accepted by validation):
		// names identify inputs only among their siblings; the member is read from the data, the input from its topic
		{"OrderFilled", []refmodel.Field{f("maker", A, true, "m"), f("order", refmodel.TupleOf(refmodel.F("maker", A, "om"), refmodel.F("amount", U, "amt")), false, ""), f("fee", U, false, "fee")}},
		{"OrderFilled", []refmodel.Field{f("maker", A, true, ""), f("order", refmodel.TupleOf(refmodel.F("maker", A, "om"), refmodel.F("amount", U, "amt")), false, ""), f("fee", U, false, "fee")}},
		{"OrdersFilled", []refmodel.Field{f("taker", A, true, "tk"), f("maker", A, true, "m"), f("orders", refmodel.ArrayOf(refmodel.TupleOf(refmodel.F("maker", A, "om"), refmodel.F("taker", A, ""))), false, ""), f("fee", U, false, "fee")}},
	}
}

func c11Direct(c *vk.Case) {
	r := c.R
	if c.Index == 1 {
		for _, e := range c11Catalogue() {
			d := &model.Decl{Name: namePoolIG[0], Enabled: true, Table: namePoolTbl[0], ColTypes: map[string]string{}, InFilter: map[string]model.Filter{}, EventName: e.name, Inputs: e.inputs}
			d.Sources = []model.SrcRef{{Name: namePoolSrc[0], Start: 1}}
			info := &c11Info{Mode: model.ModeLog, Class: "catalogue", Rename: map[string]string{}}
			unnamed := 0
			for _, in := range e.inputs {
				if in.Name == "" {
					unnamed++
				}
			}
			if unnamed > 1 {
				info.MayRefuse = "duplicate input"
			}
			info.countIndexed(d.Inputs)
			c11DirectRun(c, r, d, info)
		}
		return
	}
	mode := c11Mode(r)
	traceCustom := mode == model.ModeTrace && r.Chance(1, 6)
	d, info := c11Decl(r, mode, traceCustom)
	c11DirectRun(c, r, d, info)
}

func c11DirectRun(c *vk.Case, r *vk.RNG, d *model.Decl, info *c11Info) {
	mode, traceCustom := info.Mode, len(info.Rename) > 0
	addrs := [][]byte{r.Bytes(20), r.Bytes(20), r.Bytes(20), r.Bytes(20)}
	chain, _ := c11Chain(r, d, mode, addrs)
	chain.Grow(r.Range(2, 4))
	blocks := chain.Canon()[1:]
	chainID := uint64(r.Range(1, 5))
	detail := map[string]any{"declaration": c11Describe(d), "class": info.Class}
	kp := ""
	if traceCustom {
		kp = "trace-custom-column:"
	}

	dest, colTypes, confJSON, err, p := directDest([]*model.Decl{d}, 0)
	detail["config"] = confJSON
	switch {
	case p != nil:
		c.Violate(kp+p.key()+":building-destination", merge(detail, map[string]any{"panic": p}), "building the destination panicked: %s", p.Val)
		return
	case err != nil && info.MayRefuse != "" && strings.Contains(err.Error(), info.MayRefuse):
		c.Obs("ambiguous_declarations_refused", 1)
		return
	case err != nil:
		c.Violate(kp+"setup-rejected:"+errKey(err.Error()), merge(detail, map[string]any{"error": err.Error()}), "a declaration of the supported domain was rejected: %v", err)
		return
	}
	rc := &recConn{}
	_, err, p = directInsert(dest, rc, chainID, ethBlocks(blocks))
	c.Obs("direct_inserts", 1)
	switch {
	case p != nil:
		c.Violate(kp+p.key()+":insert", merge(detail, map[string]any{"panic": p}), "Integration.Insert panicked on well-formed blocks: %s", p.Val)
		return
	case err != nil:
		c.Violate(kp+"insert-error:"+errKey(err.Error()), merge(detail, map[string]any{"error": err.Error()}), "Integration.Insert failed on well-formed blocks: %v", err)
		return
	}
	got, cerr := copiedRows(rc.cols, colTypes, rc.rows)
	if cerr != nil {
		c.Inconclusive("direct path: %v", cerr)
		return
	}
	var want []model.Row
	for _, b := range blocks {
		want = append(want, c11Project(d, info, chainID, b)...)
	}
	c.Evals(int64(len(want)) + 1)
	cm := &c11Cmp{c: c, d: d, info: info, path: "direct", blocks: blocks, detail: detail}
	cols := append([]string(nil), rc.cols...)
	sort.Strings(cols)
	cm.compare(got, want, cols)
	if len(want) > 0 {
		cm.sigs("")
	}
	if c.Index < 8 && c.Index > 0 {
		c.Sample(map[string]any{"path": "direct", "declaration": c11Describe(d), "config": confJSON, "blocks": len(blocks), "rows_expected": len(want), "columns": rc.cols})
	}
}

func c11Pipeline(c *vk.Case) {
	r := c.R
	mode := c11Mode(r)
	d, info := c11Decl(r, mode, false)
	addrs := [][]byte{r.Bytes(20), r.Bytes(20), r.Bytes(20), r.Bytes(20)}
	chain, _ := c11Chain(r, d, mode, addrs)
	chain.Grow(r.Range(3, 7))
	chainID := uint64(r.Range(1, 5))
	node := simnode.Global().NewNode(chain)
	spec := &scen.Spec{
		Sources: []scen.SourceSpec{{Name: namePoolSrc[0], ChainID: chainID, Batch: r.Range(1, 4), Concurrency: r.Range(1, 2), Poll: "1h", Node: node}},
		Decls:   []*model.Decl{d},
	}
	env, err := scen.New(spec, false)
	if err != nil {
		c.Inconclusive("environment: %v", err)
		return
	}
	defer env.Close()
	detail := map[string]any{"declaration": c11Describe(d), "class": info.Class, "config": string(env.ConfJSON)}
	if env.SetupErr != nil {
		c.Violate("setup-rejected:"+env.SetupStage+":"+errKey(env.SetupErr.Error()), merge(detail, map[string]any{"error": env.SetupErr.Error()}), "a declaration of the supported domain was rejected at %s: %v", env.SetupStage, env.SetupErr)
		return
	}
	if len(env.Tasks) != 1 {
		c.Inconclusive("expected one task, got %d", len(env.Tasks))
		return
	}
	task := env.Tasks[0]
	plan := task.VerifInfo().Filter
	detail["plan"] = plan
	pm := newPairMon(c, env, namePoolSrc[0], d.Name)
	reached, lastErr := runToHead(c, env, task, chain, "pipeline:", detail, nil)
	if len(c.Res.Violations) > 0 {
		return
	}
	t, rows, cursors := pm.pairRows()
	if !reached || len(cursors) == 0 || cursors[len(cursors)-1].num != chain.Head().Num {
		c.Violate("pipeline:never-reached-head:mode="+mode.String()+":"+errKey(lastErr), merge(detail, map[string]any{"last_error": lastErr}), "the integration never reached the head (plan %s): %s", plan, lastErr)
		return
	}
	c.Obs("pipeline_cases_at_head", 1)
	if us := env.PG.Unsupported(); len(us) > 0 {
		c.Inconclusive("fakepg contract left: %v", us)
		return
	}
	blocks := chain.Canon()[1:]
	var want []model.Row
	for _, b := range blocks {
		want = append(want, c11Project(d, info, chainID, b)...)
	}
	c.Evals(int64(len(want)) + 1)
	if t == nil {
		if len(want) > 0 {
			c.Violate("pipeline:table-missing", detail, "table %s does not exist", pm.table())
		}
		return
	}
	// steps may insert the partitions of a batch in any order: pair stored and
	// expected rows by traversal position (block, tx, log/trace, element)
	sort.Slice(rows, func(i, j int) bool { return rows[i].ID < rows[j].ID })
	got := model.StoredRows(t, rows)
	c11SortRows(got)
	c11SortRows(want)
	cm := &c11Cmp{c: c, d: d, info: info, path: "pipeline", blocks: blocks, detail: detail}
	cols := tableCols(t)
	cm.compare(got, want, cols)
	c.Obs("pipeline_rows_compared", int64(len(want)))
	if len(want) > 0 {
		cm.sigs(plan)
	}
	if c.Index == 0 {
		c.Sample(map[string]any{"path": "pipeline", "declaration": c11Describe(d), "config": string(env.ConfJSON), "plan": plan, "head": chain.Head().Num, "rows_expected": len(want)})
	}
}
