package checks

import (
	"fmt"
	"testing"
	"time"

	"verif/harness/scen"
	"verif/harness/vk"
)

func TestC15Base(t *testing.T) {
	b := c15MakeBase(1, 0)
	c := &vk.Case{Prop: "C15", Tier: "quick", Seed: 1, R: vk.NewRNG(1)}
	for i := 0; i < 6; i++ {
		w := b.newWorld()
		spec := &scen.Spec{Sources: []scen.SourceSpec{{Name: "src-a", Node: w.nodeA}, {Name: "src-b", Node: w.nodeB}}}
		t0 := time.Now()
		env, err := scen.NewRaw(spec, func(pgurl string) []byte { return w.fileConfig(b.doc, pgurl) }, false, nil)
		if err != nil {
			t.Fatal(err)
		}
		t1 := time.Now()
		var run c15Run1
		c15Drive(env.PG, env.Tasks, w.chain.Head().Num, map[string]bool{}, &run)
		t2 := time.Now()
		o := &c15Outcome{}
		tasks := env.Tasks
		skip := map[string]bool{}
		rej := c15Dashboard(c, env, w, b.doc, o, map[string]any{}, &tasks, skip)
		t3 := time.Now()
		c15Drive(env.PG, tasks, w.chain.Head().Num, skip, &run)
		t4 := time.Now()
		env.Pool.Close()
		t45 := time.Now()
		env.PG.Close()
		t46 := time.Now()
		env.Pool = nil
		fmt.Printf("poolclose %v pgclose %v\n", t45.Sub(t4), t46.Sub(t45))
		t5 := time.Now()
		fmt.Printf("boot %v drive %v dash %v (%s) drive2 %v close %v\n", t1.Sub(t0), t2.Sub(t1), t3.Sub(t2), rej, t4.Sub(t3), t5.Sub(t4))
	}
}
