package checks

import (
	"errors"
	"fmt"
	"strings"
	"sync"
	"time"

	"github.com/indexsupply/shovel/shovel"

	"verif/harness/fakepg"
	"verif/harness/gen"
	"verif/harness/model"
	"verif/harness/scen"
	"verif/harness/simnode"
	"verif/harness/vk"
)

// histOp is one operation of a deterministic single-pair history.
type histOp struct {
	Kind   string // step | grow | reorg | restart
	N      int    // grow: blocks; restart: the source's new batch_size (0 = unchanged)
	Depth  int    // reorg
	NewLen int    // reorg
}

func (h histOp) String() string {
	switch h.Kind {
	case "grow":
		return fmt.Sprintf("grow(%d)", h.N)
	case "reorg":
		return fmt.Sprintf("reorg(depth=%d,new=%d)", h.Depth, h.NewLen)
	case "restart":
		if h.N > 0 {
			return fmt.Sprintf("restart(batch_size=%d)", h.N)
		}
	}
	return h.Kind
}

// pipeScenario is a replayable single-pair scenario: everything (declaration,
// chain contents, history) derives from Seed and the explicit fields, so a
// second run reproduces the first unless a fault or trigger is added.
type pipeScenario struct {
	Seed     uint64
	Mode     int
	Batch    int
	Conc     int
	StartK   int // 0 head, 1 one, 2 mid, 3 head
	Initial  int
	HashPlan bool
	Notify   bool
	explicit bool // StartAbs/Stop/Prior are meaningful
	Hist     []histOp
	// explicit range (C06); StartAbs < 0 = derive from StartK
	StartAbs int64
	Stop     uint64
	// Prior >= 0: a position row (Prior, hash of that block) exists before the first step
	Prior int64
	// Table: the table's name ("" = the pool's plain lower-case name)
	Table string
	// RenameIdent: the declaration selects ig_name, src_name and block_num itself, into columns of other names
	RenameIdent bool
	// FinalGrow blocks appended after the history so that the head ends strictly
	// above every recorded position (C03's reading of "the source settles").
	FinalGrow int
}

func (ps *pipeScenario) Describe() map[string]any {
	var hs []string
	for _, h := range ps.Hist {
		hs = append(hs, h.String())
	}
	return map[string]any{"seed": ps.Seed, "mode": model.Mode(ps.Mode).String(), "batch": ps.Batch, "concurrency": ps.Conc, "start_kind": ps.StartK,
		"initial_blocks": ps.Initial, "hash_plan": ps.HashPlan, "notify": ps.Notify, "history": strings.Join(hs, " "), "final_grow": ps.FinalGrow, "table": ps.Table, "identity_columns_renamed": ps.RenameIdent}
}

// faultSpec addresses one I/O operation of one step and a fault kind.
type faultSpec struct {
	Step   int    // index among the "step" ops of the history (quiescence steps continue the numbering)
	SQLOrd int    // ordinal of the SQL operation within the step (-1: not an SQL fault)
	RPCSig string // signature of the RPC request (method+args)
	RPCOcc int    // k-th occurrence of that signature within the step
	Kind   string // error drop-before drop-after crash-before crash-after | rpc-error http cut truncate crash
}

func (f *faultSpec) String() string {
	if f.SQLOrd >= 0 {
		return fmt.Sprintf("step %d sql#%d %s", f.Step, f.SQLOrd, f.Kind)
	}
	return fmt.Sprintf("step %d rpc[%s#%d] %s", f.Step, f.RPCSig, f.RPCOcc, f.Kind)
}

// triggerSpec runs a chain event right before the k-th occurrence of an RPC
// request signature inside one step (C03: reorgs landing between two calls).
type triggerSpec struct {
	Step   int
	RPCSig string
	RPCOcc int
	Op     histOp
	// AfterOthers: the event waits until every other request in flight (the step's other partitions) has been
	// answered, so it lands between the answers of two partitions rather than wherever the scheduler puts it
	AfterOthers bool
}

type stepRec struct {
	Idx      int
	Err      error
	Panic    string
	SQLOps   []fakepg.Op
	RPCSigs  []string // in arrival order, with occurrence suffix "#k"
	States   []string // digest (with history) after every commit with effects, in order
	After    string   // digest after the step
	Deleted  bool     // the step committed deletions (it had detected a reorg)
	Position uint64
	HasPos   bool
}

type pipeRun struct {
	Steps      []stepRec
	Final      *pairState
	Plan       string
	ConfJSON   string
	SetupErr   string
	Idle       bool // reached quiescence within the bound
	FaultHit   bool
	FaultsHit  int
	Resets     int // times the pair lost its whole position history
	TriggerHit bool
	Head       uint64
	First      uint64
	Trace      []string
	LastErr    string
}

func rpcSig(info *simnode.ReqInfo) string {
	var parts []string
	for _, c := range info.Calls {
		a := c.BlockArg
		if c.Method == "eth_getLogs" && c.Filter != nil {
			a = fmt.Sprintf("%d-%d", c.Filter.From, c.Filter.To)
		}
		if c.Method == "eth_getBlockByNumber" {
			a += fmt.Sprintf(",%v", c.Full)
		}
		parts = append(parts, c.Method+"("+a+")")
	}
	s := strings.Join(parts, "+")
	if info.Batch {
		return "[" + s + "]"
	}
	return s
}

type runOpts struct {
	Fault     *faultSpec
	More      []*faultSpec // further faults (multi-fault runs)
	Trigger   *triggerSpec
	Snapshots bool // evaluate invariant I at every commit boundary
	KP        string
	MaxQuiet  int // extra steps allowed to reach quiescence
	OnStep    func(idx int, res *scen.StepResult, pm *pairMon, before, after *pairState)
	NoQuiesce bool
	// FinalVerdict: at the end compare the table with the projection of the
	// canonical chain (first written block .. head) and the positions with it.
	FinalVerdict bool
}

func (ps *pipeScenario) build(r *vk.RNG) (*scen.Spec, *simnode.Chain, *model.Decl) {
	addrs := [][]byte{r.Bytes(20), r.Bytes(20), r.Bytes(20)}
	var start uint64
	switch ps.StartK {
	case 0:
		start = 0
	case 1:
		start = 1
	case 2:
		start = uint64(r.Range(1, ps.Initial))
	case 3:
		start = uint64(ps.Initial)
	}
	if ps.StartAbs >= 0 && ps.explicit {
		start = uint64(ps.StartAbs)
	}
	tbl := namePoolTbl[0]
	if ps.Table != "" {
		tbl = ps.Table
	}
	d := gen.Decl(r, gen.DeclOpts{Mode: ps.Mode, Name: namePoolIG[0], Table: tbl, Src: namePoolSrc[0], Start: start, Stop: ps.Stop,
		ABI: pipeABI, Exclude: gen.SafeExclude, SelIndexed: r.Bool(), HashPlan: ps.HashPlan})
	if ps.RenameIdent {
		alias := map[string]string{}
		for _, f := range []struct{ name, col, typ string }{{"ig_name", "ign", "text"}, {"src_name", "srcn", "text"}, {"block_num", "bn", "numeric"}} {
			found := false
			for i := range d.Block {
				if d.Block[i].Name == f.name {
					d.Block[i].Column, found = f.col, true
				}
			}
			if !found {
				d.Block = append(d.Block, model.BlockField{Name: f.name, Column: f.col, ColType: f.typ})
			}
			alias[f.name] = f.col
		}
		identAlias.Store(tbl, alias)
	}
	if ps.Notify {
		cols := d.TableColumns()
		if len(cols) > 0 {
			d.Notify = []string{cols[0].Name}
		}
	}
	co := gen.ChainOpts{Seed: r.U64(), MinTxs: 0, MaxTxs: 3, MaxLogs: 3, MaxTraces: 2}
	if d.Mode() == model.ModeTrace {
		co.MinTxs, co.MinTraces = 1, 1
	}
	if d.Mode() == model.ModeLog {
		t := gen.TargetMaker(d, addrs, pipeABI)
		co.Makers = append([]gen.LogMaker{t, t, t}, gen.DecoyMakers(d, addrs, pipeABI)...)
	}
	chain := simnode.NewChain(vk.Derive(ps.Seed, 0xc4a1), gen.Content(co))
	chain.Grow(ps.Initial)
	node := simnode.Global().NewNode(chain)
	spec := &scen.Spec{
		Sources: []scen.SourceSpec{{Name: namePoolSrc[0], ChainID: 7, Batch: ps.Batch, Concurrency: ps.Conc, Poll: "1h", Node: node}},
		Decls:   []*model.Decl{d},
	}
	return spec, chain, d
}

func applyChainOp(chain *simnode.Chain, h histOp) {
	switch h.Kind {
	case "grow":
		chain.Grow(h.N)
	case "reorg":
		chain.Reorg(h.Depth, h.NewLen)
	}
}

// run executes the scenario once.
func (ps *pipeScenario) run(c *vk.Case, o runOpts) *pipeRun {
	baseViol := len(c.Res.Violations)
	r := vk.NewRNG(ps.Seed)
	spec, chain, d := ps.build(r)
	run := &pipeRun{}
	env, err := scen.New(spec, true)
	if err != nil {
		c.Inconclusive("environment: %v", err)
		return nil
	}
	defer env.Close()
	run.ConfJSON = string(env.ConfJSON)
	if env.SetupErr != nil {
		run.SetupErr = env.SetupStage + ": " + env.SetupErr.Error()
		return run
	}
	if len(env.Tasks) != 1 {
		c.Inconclusive("expected one task, got %d", len(env.Tasks))
		return nil
	}
	task := env.Tasks[0]
	run.Plan = task.VerifInfo().Filter
	pm := newPairMon(c, env, namePoolSrc[0], d.Name)
	pm.kp = o.KP
	node := spec.Sources[0].Node

	var (
		mu        sync.Mutex
		stepIdx   = -1
		occ       map[string]int
		sigs      []string
		crashNow  bool
		killedAll bool
		suspend   bool // no faults while the emulated process boots again
	)
	allFaults := append([]*faultSpec{o.Fault}, o.More...)
	hit := make([]bool, len(allFaults))
	node.SetHook(func(info *simnode.ReqInfo) simnode.Action {
		act := simnode.Action{ElemErr: -1}
		if info.Poller {
			return act
		}
		mu.Lock()
		defer mu.Unlock()
		sig := rpcSig(info)
		k := occ[sig]
		occ[sig] = k + 1
		sigs = append(sigs, fmt.Sprintf("%s#%d", sig, k))
		if t := o.Trigger; t != nil && t.Step == stepIdx && t.RPCSig == sig && t.RPCOcc == k && !run.TriggerHit {
			run.TriggerHit = true
			op := t.Op
			after := t.AfterOthers
			act.Before = func() {
				if after {
					time.Sleep(2 * time.Millisecond) // let the step's other partition requests arrive
					for i := 0; i < 1000 && node.Inflight() > 1; i++ {
						time.Sleep(200 * time.Microsecond)
					}
				}
				applyChainOp(chain, op)
			}
		}
		for fi, f := range allFaults {
			if f == nil || hit[fi] || f.SQLOrd >= 0 || f.Step != stepIdx || f.RPCSig != sig || f.RPCOcc != k {
				continue
			}
			hit[fi] = true
			run.FaultHit = true
			run.FaultsHit++
			switch f.Kind {
			case "rpc-error":
				act.Fail = simnode.FailRPCError
			case "rpc-error-last":
				act.Fail, act.ElemErr = simnode.FailRPCError, len(info.Calls)-1
			case "http":
				act.Fail, act.Status = simnode.FailHTTP, 500
			case "cut":
				act.Fail = simnode.FailCut
			case "truncate":
				act.Fail = simnode.FailTruncate
			case "break-parent":
				act.Rewrite = breakParent
			case "crash":
				act.Fail = simnode.FailCut
				crashNow, killedAll = true, true
				prev := act.Before
				act.Before = func() {
					if prev != nil {
						prev()
					}
					env.PG.KillAll()
				}
			}
			break
		}
		return act
	})
	env.PG.SetFaultHook(func(op *fakepg.Op) fakepg.Fault {
		mu.Lock()
		defer mu.Unlock()
		if suspend {
			return fakepg.Fault{}
		}
		if killedAll {
			return fakepg.Fault{Kind: fakepg.FDropBefore} // the process is dead: nothing more reaches the database
		}
		var f *faultSpec
		for fi, cand := range allFaults {
			if cand == nil || hit[fi] || cand.SQLOrd < 0 || cand.Step != stepIdx || cand.SQLOrd != op.Ordinal {
				continue
			}
			f = cand
			hit[fi] = true
			break
		}
		if f == nil {
			return fakepg.Fault{}
		}
		run.FaultHit = true
		run.FaultsHit++
		switch f.Kind {
		case "error":
			return fakepg.Fault{Kind: fakepg.FError}
		case "drop-before":
			return fakepg.Fault{Kind: fakepg.FDropBefore}
		case "drop-after":
			return fakepg.Fault{Kind: fakepg.FDropAfter}
		case "crash-before":
			crashNow, killedAll = true, true
			return fakepg.Fault{Kind: fakepg.FDropBefore}
		case "crash-after":
			crashNow, killedAll = true, true
			return fakepg.Fault{Kind: fakepg.FDropAfter}
		}
		return fakepg.Fault{}
	})

	first := uint64(0)
	if ps.explicit && ps.Prior >= 0 {
		// a position left behind by an earlier run of the same pair
		var h []byte
		if b := chain.At(uint64(ps.Prior)); b != nil {
			h = b.Hash
		}
		_, err := env.Pool.Exec(env.Ctx, `insert into shovel.task_updates (chain_id, src_name, ig_name, num, hash, src_num, src_hash, stop, nblocks, nrows, latency) values ($1,$2,$3,$4,$5,$6,$7,$8,$9,$10,$11)`,
			uint64(7), namePoolSrc[0], d.Name, uint64(ps.Prior), h, uint64(ps.Prior), h, ps.Stop, uint64(1), uint64(0), time.Duration(0))
		if err != nil {
			c.Inconclusive("seeding prior position: %v", err)
			return nil
		}
		env.Rec.Take()
		first = uint64(ps.Prior) + 1
	}
	prevState := pm.captureLive()
	doStep := func() *stepRec {
		mu.Lock()
		stepIdx++
		idx := stepIdx
		occ = map[string]int{}
		sigs = nil
		mu.Unlock()
		res := env.Step(task)
		sr := stepRec{Idx: idx, Err: res.Err, Panic: res.Panic, SQLOps: res.Ops}
		mu.Lock()
		sr.RPCSigs = append([]string(nil), sigs...)
		crash := crashNow
		crashNow = false
		mu.Unlock()
		detail := map[string]any{"scenario": ps.Describe(), "config": run.ConfJSON, "step": idx, "plan": run.Plan, "trace": lastN(run.Trace, 16)}
		if o.Fault != nil {
			detail["fault"] = o.Fault.String()
		}
		if o.Trigger != nil {
			detail["trigger"] = fmt.Sprintf("before %s#%d of step %d: %s", o.Trigger.RPCSig, o.Trigger.RPCOcc, o.Trigger.Step, o.Trigger.Op)
		}
		if res.Panic != "" {
			fr := vk.TopShovelFrame(res.Panic)
			c.Violate(o.KP+"panic:"+fr, merge(detail, map[string]any{"panic": firstLines(res.Panic, 30)}), "Converge panicked in %s: %s", fr, firstLines(res.Panic, 1))
		}
		if n := len(res.Served); n > 40*(ps.Batch+ps.Conc+8) {
			// counted work, not wall-clock: one step over at most batch blocks needs a handful of requests per unwind
			c.Violate(o.KP+"runaway-step", merge(detail, map[string]any{"requests": n, "err": fmt.Sprint(res.Err)}), "one step issued %d JSON-RPC requests (batch %d): it does not make progress", n, ps.Batch)
		}
		for _, rec := range res.Commits {
			if rec.Aborted || len(rec.Tx.Effects) == 0 {
				continue
			}
			dc := pm.classify(rec)
			if len(dc.foreign) > 0 {
				c.Violate(o.KP+"foreign-effect", merge(detail, map[string]any{"foreign": dc.foreign}), "a step changed state that does not belong to its pair: %v", dc.foreign)
			}
			if len(dc.cursorDel) > 0 || len(dc.rowsDel) > 0 {
				sr.Deleted = true
			}
			if first == 0 {
				for _, r := range dc.rowsIns {
					if n, ok := rowBlockNum(dc.tbl, r); ok && (first == 0 || n < first) {
						first = n
					}
				}
				if len(dc.cursorIns) > 0 {
					// the first block written is the lowest block served as data in this step
					lo := firstBlockOf(pm.start, res.Served, dc.cursorIns[0].num)
					if first == 0 || lo < first {
						first = lo
					}
				}
			}
			if rec.Snap != nil {
				st := pm.captureSnap(rec.Snap)
				sr.States = append(sr.States, st.digest(true))
				pm.invariant(st, first, fmt.Sprintf("after commit %d of step %d", len(sr.States), idx), detail)
				if len(st.cursors) == 0 && len(st.rows) == 0 && first != 0 {
					// every position (and row) is gone: a reorg reached below the retained
					// history; the pair starts over as if new (C06), so does the covered interval
					first = 0
					run.Resets++
				}
			}
		}
		mu.Lock()
		killedAll = false
		mu.Unlock()
		if crash {
			mu.Lock()
			suspend = true
			mu.Unlock()
			env.Crash()
			mu.Lock()
			suspend = false
			mu.Unlock()
			if env.SetupErr != nil || len(env.Tasks) != 1 {
				c.Violate(o.KP+"restart-failed", merge(detail, map[string]any{"error": fmt.Sprint(env.SetupErr)}), "restart after process death failed: %v", env.SetupErr)
				return &sr
			}
			task = env.Tasks[0]
		}
		live := pm.captureLive()
		sr.After = live.digest(true)
		sr.Position, sr.HasPos = live.position()
		pm.invariant(live, first, fmt.Sprintf("after step %d", idx), detail)

		if o.OnStep != nil {
			o.OnStep(idx, res, pm, prevState, live)
		}
		prevState = live
		run.Trace = append(run.Trace, fmt.Sprintf("step%d:%s pos=%d head=%d", idx, errClass(res.Err), sr.Position, chain.Head().Num))
		if errClass(res.Err) == "error" {
			run.LastErr = res.Err.Error()
		}
		c.Obs("steps", 1)
		return &sr
	}

	for _, h := range ps.Hist {
		if len(c.Res.Violations) > baseViol {
			break
		}
		switch h.Kind {
		case "step":
			run.Steps = append(run.Steps, *doStep())
		case "restart":
			if h.N > 0 {
				n := h.N
				env.Reconfigure(func(sp *scen.Spec) { sp.Sources[0].Batch = max(n, sp.Sources[0].Concurrency) })
				c.Obs("restarts_with_new_batch_size", 1)
			}
			env.Crash()
			if env.SetupErr != nil || len(env.Tasks) != 1 {
				c.Violate(o.KP+"restart-failed", map[string]any{"error": fmt.Sprint(env.SetupErr)}, "restart failed: %v", env.SetupErr)
				return run
			}
			task = env.Tasks[0]
			run.Trace = append(run.Trace, h.String())
		default:
			applyChainOp(chain, h)
			run.Trace = append(run.Trace, h.String())
		}
	}
	if ps.FinalGrow > 0 {
		// "the source settles" = it stops reorganising and keeps producing: the head
		// ends strictly above every position ever recorded (a replaced block at the
		// position itself is only detectable through the parent hash of the next block)
		// The amount is a function of the history alone, so that a faulted run and
		// its fault-free twin see the same chain.
		g := ps.FinalGrow
		h, maxH := ps.Initial, ps.Initial
		for _, op := range ps.Hist {
			switch op.Kind {
			case "grow":
				h += op.N
			case "reorg":
				d := op.Depth
				if d > h {
					d = h
				}
				h = h - d + op.NewLen
			}
			if h > maxH {
				maxH = h
			}
		}
		if maxH+1-h > g {
			g = maxH + 1 - h
		}
		if o.Trigger != nil {
			// a triggered chain event shifts the heights: use what was observed
			for _, st := range run.Steps {
				if st.HasPos && int(st.Position)+1-int(chain.Head().Num) > g {
					g = int(st.Position) + 1 - int(chain.Head().Num)
				}
			}
		}
		chain.Grow(g)
		run.Trace = append(run.Trace, fmt.Sprintf("grow(%d)", g))
	}
	if !o.NoQuiesce && len(c.Res.Violations) == baseViol {
		maxq := o.MaxQuiet
		if maxq == 0 {
			maxq = int(chain.Head().Num) + 40
		}
		idle := 0
		settled := false
		for q := 0; q < maxq && len(c.Res.Violations) == baseViol; q++ {
			if o.Trigger != nil && run.TriggerHit && !settled {
				settled = true
				// a chain event triggered during these steps may have shortened the chain:
				// the source "settles" only once the head is above every recorded position
				maxPos := uint64(0)
				for _, st := range run.Steps {
					if st.HasPos && st.Position > maxPos {
						maxPos = st.Position
					}
				}
				// …and at or above the configured start, or the pair can legitimately not begin
				want := maxPos + 1
				if st := d.Sources[0].Start; st > want {
					want = st
				}
				if h := chain.Head().Num; h < want {
					chain.Grow(int(want - h))
					run.Trace = append(run.Trace, fmt.Sprintf("grow(%d)", want-h))
				}
			}
			sr := doStep()
			run.Steps = append(run.Steps, *sr)
			if errors.Is(sr.Err, shovel.ErrDone) && ps.Stop > 0 {
				idle++
				if idle >= 3 {
					run.Idle = true
					break
				}
			} else if errors.Is(sr.Err, shovel.ErrNothingNew) && sr.HasPos && sr.Position == chain.Head().Num {
				idle++
				if idle >= 3 {
					run.Idle = true
					break
				}
			} else {
				idle = 0
			}
		}
	}
	run.Final = pm.captureLive()
	run.Head = chain.Head().Num
	run.First = first
	if o.FinalVerdict && len(c.Res.Violations) == baseViol && run.Idle && len(run.Final.cursors)+len(run.Final.rows) > 0 {
		pm.first = first
		upto := chain.Head().Num
		if ps.Stop > 0 && ps.Stop < upto {
			upto = ps.Stop
		}
		pm.quiescenceVerdict(upto, run.Plan, map[string]any{"scenario": ps.Describe(), "config": run.ConfJSON, "plan": run.Plan, "trace": lastN(run.Trace, 30)})
	}
	if us := env.PG.Unsupported(); len(us) > 0 {
		c.Inconclusive("fakepg contract left: %v", us)
	}
	return run
}
