package checks

import (
	"bytes"
	"fmt"

	"verif/harness/scen"
	"verif/harness/vk"
)

// C03 — after a reorg the table converges to the canonical chain; orphaned rows
// vanish; blocks below the fork are untouched.

const c03SweepShards = 8

func c03Random(tier string) int {
	if tier == "thorough" {
		return 12000
	}
	return 600
}

func c03Shared(tier string) int {
	if tier == "thorough" {
		return 1500
	}
	return 120
}

func c03SweepBases(tier string) int {
	if tier == "thorough" {
		return 60
	}
	return 6
}

func init() {
	vk.Register(&vk.Check{
		ID:        "C03",
		Level:     "exploration",
		Technique: "reference-model oracle at quiescence + state invariant at every commit boundary + deletion monitor (nothing at or below the canonical anchor is deleted); generated reorg histories and reorgs triggered before any chosen JSON-RPC call of a step",
		Rule: "random cases: declarations whose plan carries block hashes, batch 1..12, concurrency 1..4, histories of steps interleaved with growth and reorgs (depth 1..4; shorter, equal, longer replacements; repeated and nested), a final growth to strictly above every recorded position, then steps until idle; " +
			"shared-client cases: 2–4 integrations on one source client (shared segment cache, max-reads = number of integrations) with reorgs, growth and restarts, judged per pair; sweep cases: for each base history a fault-free run lists every RPC request of every step, and a reorg is triggered right before each of them in turn. signature = (mode, plan, batch class, concurrency>1, reorg kinds seen, unwind depth class, trigger method); trivial = shovel never had to delete anything. A fifth of the histories with batch_size > 2 restart with batch_size 1–2 half way, index two steps and meet a reorg of depth 3–5 (position rows written with the larger batch size stand for several blocks each).",
		Assumptions: []string{
			"'the source settles' is read as: it stops reorganising and keeps producing at least one block above every position ever recorded (a replaced block at the position itself is only detectable through the next block's parent hash)",
			"only plans that fetch headers or full blocks carry parent hashes (the property's 'data plan includes block hashes')",
			"'blocks below the fork are untouched' is decided at position-row granularity: nothing at or below the greatest position row that is still canonical may be deleted",
			"a reorg deeper than the retained position history makes the pair start over (C06); such runs are counted (resets) and judged from their new first block",
		},
		NCases: func(tier string) int {
			return c03Random(tier) + c03SweepBases(tier)*c03SweepShards + c03Shared(tier)
		},
		Run:              c03Run,
		CrashIsViolation: true,
		CaseTimeoutS:     300,
		MinObs: func(tier string) map[string]int64 {
			return map[string]int64{"reorgs_applied": 500, "steps_with_deletion": 150, "final_verdicts": 300, "multi_block_unwinds": 20, "trigger_runs": 30, "trigger_hit": 25, "shared_client_cases": 50}
		},
	})
}

func c03Scenario(r *vk.RNG) *pipeScenario {
	ps := &pipeScenario{Seed: r.U64(), HashPlan: true}
	ps.Mode = r.Intn(3)
	ps.Batch = r.Range(1, 12)
	ps.Conc = r.Range(1, 4)
	if r.Chance(1, 3) {
		ps.Batch = r.Range(1, 3)
	}
	ps.Initial = r.Range(4, 14)
	ps.StartK = []int{1, 1, 2, 0, 3}[r.Intn(5)]
	n := r.Range(5, 14)
	// one run in five: the operator restarts with a smaller batch_size half way (position rows written with the
	// larger one stand for several blocks each; an unwind reaching them must still remove all their rows)
	rebatch := -1
	if ps.Batch > 2 && r.Chance(1, 5) {
		rebatch = n / 2
	}
	for i := 0; i < n; i++ {
		if i == rebatch {
			ps.Hist = append(ps.Hist, histOp{Kind: "step"}, histOp{Kind: "restart", N: r.Range(1, 2)}, histOp{Kind: "grow", N: 2}, histOp{Kind: "step"}, histOp{Kind: "step"},
				histOp{Kind: "reorg", Depth: r.Range(3, 5), NewLen: r.Range(3, 6)})
			continue
		}
		switch r.Intn(7) {
		case 0, 1, 2:
			ps.Hist = append(ps.Hist, histOp{Kind: "step"})
		case 3:
			ps.Hist = append(ps.Hist, histOp{Kind: "grow", N: r.Range(1, 5)})
		case 4, 5:
			d := r.Range(1, 4)
			nl := []int{d, d, r.Range(1, d), d + r.Range(1, 3)}[r.Intn(4)]
			ps.Hist = append(ps.Hist, histOp{Kind: "reorg", Depth: d, NewLen: nl})
			if r.Chance(1, 4) { // nested: a reorg of the reorg before the first is digested
				d2 := r.Range(1, 3)
				ps.Hist = append(ps.Hist, histOp{Kind: "reorg", Depth: d2, NewLen: r.Range(1, d2+2)})
			}
		case 6:
			ps.Hist = append(ps.Hist, histOp{Kind: "step"}, histOp{Kind: "step"})
		}
	}
	ps.FinalGrow = 1
	if r.Chance(1, 6) {
		// names the configuration accepts and that need quoting in SQL text: the unwind addresses the same table as the inserts
		ps.Table = vk.Pick(r, []string{"Transfers_A", "erc20-t_a", "order"})
	}
	if r.Chance(1, 6) {
		// the identity fields stored under column names of the user's choice: the unwind has to address those
		ps.RenameIdent, ps.Table = true, "t_ren"
	}
	return ps
}

type c03Obs struct {
	reorgKinds map[string]bool
	maxUnwind  int
	deletions  int
}

// c03OnStep is the deletion monitor.
func c03OnStep(c *vk.Case, kp string, ps *pipeScenario, ob *c03Obs, extra map[string]any) func(int, *scen.StepResult, *pairMon, *pairState, *pairState) {
	return func(idx int, res *scen.StepResult, pm *pairMon, before, after *pairState) {
		chain := pm.src.Node.Chain
		// anchor: greatest pre-step position row that is canonical now
		anchor, hasAnchor := uint64(0), false
		for _, cr := range before.cursors {
			if cb := chain.At(cr.num); cb != nil && bytes.Equal(cb.Hash, cr.hash) {
				anchor, hasAnchor = cr.num, true
			}
		}
		for _, rec := range res.Commits {
			if rec.Aborted {
				continue
			}
			dc := pm.classify(rec)
			if len(dc.cursorDel) == 0 && len(dc.rowsDel) == 0 {
				continue
			}
			ob.deletions++
			c.Obs("steps_with_deletion", 1)
			if len(dc.cursorDel) > 1 {
				c.Obs("multi_row_unwinds", 1)
			}
			lo := ^uint64(0)
			for _, r := range dc.rowsDel {
				if n, ok := rowBlockNum(dc.tbl, r); ok && n < lo {
					lo = n
				}
			}
			for _, cr := range dc.cursorDel {
				if cr.num < lo {
					lo = cr.num
				}
			}
			if pos, ok := before.position(); ok && lo != ^uint64(0) {
				if int(pos-lo)+1 > ob.maxUnwind {
					ob.maxUnwind = int(pos-lo) + 1
				}
				if pos-lo >= 1 {
					c.Obs("multi_block_unwinds", 1)
				}
			}
			if hasAnchor && lo <= anchor {
				c.Violate(kp+"deleted-at-or-below-canonical-anchor", merge(extra, map[string]any{"scenario": ps.Describe(), "step": idx, "anchor": anchor, "lowest_deleted_block": lo,
					"cursor_rows_deleted": len(dc.cursorDel), "table_rows_deleted": len(dc.rowsDel)}),
					"step %d deleted rows/positions down to block %d although position %d was still canonical (blocks below the fork must stay untouched)", idx, lo, anchor)
			}
		}
	}
}

func c03Run(c *vk.Case) {
	if i := c.Index - c03Random(c.Tier) - c03SweepBases(c.Tier)*c03SweepShards; i >= 0 {
		// several integrations sharing one source client (and its segment cache), reorgs forced
		multiPairScenario(c, "shared-client:", i%4 == 3, true, 2)
		c.Obs("shared_client_cases", 1)
		return
	}
	if c.Index >= c03Random(c.Tier) {
		c03Sweep(c, c.Index-c03Random(c.Tier))
		return
	}
	ps := c03Scenario(c.R)
	ob := &c03Obs{reorgKinds: map[string]bool{}}
	for _, h := range ps.Hist {
		if h.Kind == "reorg" {
			c.Obs("reorgs_applied", 1)
			switch {
			case h.NewLen < h.Depth:
				ob.reorgKinds["shorter"] = true
			case h.NewLen == h.Depth:
				ob.reorgKinds["equal"] = true
			default:
				ob.reorgKinds["longer"] = true
			}
		}
	}
	run := ps.run(c, runOpts{Snapshots: true, KP: "", FinalVerdict: true, OnStep: c03OnStep(c, "", ps, ob, nil)})
	c03Finish(c, ps, run, ob, "", nil)
	if c.Index < 4 && run != nil {
		c.Sample(map[string]any{"scenario": ps.Describe(), "plan": run.Plan, "trace": lastN(run.Trace, 40)})
	}
}

func c03Finish(c *vk.Case, ps *pipeScenario, run *pipeRun, ob *c03Obs, kp string, extra map[string]any) {
	if run == nil {
		return
	}
	if run.SetupErr != "" {
		c.Violate(kp+"setup-rejected", map[string]any{"scenario": ps.Describe(), "error": run.SetupErr, "config": run.ConfJSON}, "scenario rejected: %s", run.SetupErr)
		return
	}
	if len(c.Res.Violations) > 0 {
		return
	}
	if !run.Idle {
		c.Violate(kp+"stuck-after-reorg", merge(extra, map[string]any{"scenario": ps.Describe(), "config": run.ConfJSON, "trace": lastN(run.Trace, 40), "last_error": run.LastErr}),
			"after the source settled the integration did not reach the head within the step bound (last error: %s)", run.LastErr)
		return
	}
	c.Obs("final_verdicts", 1)
	c.Obs("resets", int64(run.Resets))
	if ob.deletions > 0 {
		var ks string
		for _, k := range []string{"shorter", "equal", "longer"} {
			if ob.reorgKinds[k] {
				ks += k[:1]
			}
		}
		uc := "1"
		switch {
		case ob.maxUnwind > 4:
			uc = ">4"
		case ob.maxUnwind > 1:
			uc = "2-4"
		}
		bc := "b1"
		if ps.Batch > 1 {
			bc = "b>1"
		}
		c.SetSig("%s plan=%s %s conc>1=%v reorgs=%s unwind=%s", kp, run.Plan, bc, ps.Conc > 1, ks, uc)
	}
}

// c03Sweep: a reorg lands right before each RPC request of each step.
func c03Sweep(c *vk.Case, i int) {
	base, shard := i/c03SweepShards, i%c03SweepShards
	r := vk.NewRNG(vk.Derive(c.Seed, 0xC03, uint64(base)))
	ps := c03Scenario(r)
	ps.Conc = []int{1, 2, 3}[base%3] // partitions: reorgs between partition i and i+1
	if ps.Batch < ps.Conc {
		ps.Batch = ps.Conc * 2
	}
	if (base/3)%2 == 1 && ps.Conc > 1 {
		// every partition holds one block: the seam between the last two partitions is the last link of the step
		ps.Batch = ps.Conc
	}
	gob := &c03Obs{reorgKinds: map[string]bool{}}
	golden := ps.run(c, runOpts{Snapshots: true, KP: "golden:", FinalVerdict: true, OnStep: c03OnStep(c, "golden:", ps, gob, nil)})
	if golden == nil || len(c.Res.Violations) > 0 || golden.SetupErr != "" || !golden.Idle {
		c03Finish(c, ps, golden, gob, "golden:", nil)
		return
	}
	type pt struct {
		step int
		sig  string
		occ  int
	}
	var pts []pt
	idle := 0
	for _, st := range golden.Steps {
		if errClass(st.Err) == "nothing-new" {
			idle++
			if idle > 2 {
				continue
			}
		}
		for _, s := range st.RPCSigs {
			sig, occ := stripOcc(s)
			pts = append(pts, pt{st.Idx, sig, occ})
		}
	}
	n := 0
	for k, p := range pts {
		if k%c03SweepShards != shard {
			continue
		}
		d := 1 + (k % 3)
		op := histOp{Kind: "reorg", Depth: d, NewLen: []int{d, d + 1, 1}[k%3]}
		tr := &triggerSpec{Step: p.step, RPCSig: p.sig, RPCOcc: p.occ, Op: op, AfterOthers: ps.Conc > 1 && (k/3)%2 == 0}
		ob := &c03Obs{reorgKinds: map[string]bool{"trigger": true}}
		extra := map[string]any{"trigger": fmt.Sprintf("%s before %s#%d of step %d", op, p.sig, p.occ, p.step)}
		nv := len(c.Res.Violations)
		kp := "trigger:"
		run := ps.run(c, runOpts{Snapshots: true, KP: kp, FinalVerdict: true, Trigger: tr, OnStep: c03OnStep(c, kp, ps, ob, extra)})
		c.Obs("trigger_runs", 1)
		c.Evals(1)
		if run != nil && run.TriggerHit {
			c.Obs("trigger_hit", 1)
			c.Obs("reorgs_applied", 1)
			c.Seen("trigger_methods", methodOf(p.sig))
		}
		if len(c.Res.Violations) == nv {
			c03Finish(c, ps, run, ob, kp+methodOf(p.sig)+":", extra)
		}
		n++
		if len(c.Res.Violations) >= 6 {
			break
		}
	}
	if shard == 0 {
		c.Sample(map[string]any{"sweep_base": ps.Describe(), "trigger_points": len(pts), "golden_trace": lastN(golden.Trace, 30)})
	}
}
