package checks

import (
	"errors"
	"fmt"
	"math/big"
	"regexp"
	"strings"
	"sync"

	"github.com/indexsupply/shovel/shovel"

	"verif/harness/fakepg"
	"verif/harness/gen"
	"verif/harness/model"
	"verif/harness/refmodel"
	"verif/harness/scen"
	"verif/harness/simnode"
	"verif/harness/vk"
)

// C01 — every block in range is indexed exactly once: table equals declared
// projection; each successful step advances the position by exactly the
// contiguous blocks whose rows it wrote.

func init() {
	vk.Register(&vk.Check{
		ID:        "C01",
		Level:     "exploration",
		Technique: "reference-model oracle at every commit boundary of a fake Postgres + simulated node; generated declarations, chains, schedules and transient faults",
		Rule: "each case draws an integration (log/tx/trace mode, event ABI from the C09 generator, block fields), batch 1..12 × concurrency 1..6 (incl. batch<concurrency and non-divisible), a start kind {head,1,mid,head,head+1}, a growth-only chain, " +
			"a schedule interleaving head growth with steps and a budget of transient RPC/SQL faults; signature = (mode, plan, batch-vs-concurrency class, start kind, growth-during-run, fault kinds); trivial = no row expected at quiescence or no step advanced. Fifth seeding round: one faulted case in four runs against a load balancer whose backends lag 1–3 blocks behind the announced head (every other request answered from the shorter chain). Sixth round: one log case in sixteen places, after the other logs of one block, a log with the declared event's topics whose data is cut short; the run may stall in front of that block or step over the log, every successful step still has to write all rows of the blocks it covers.",
		Assumptions: []string{
			"fakepg implements PostgreSQL semantics for the SQL subset of DESIGN.md §3.1; simnode answers like geth/erigon",
			"task_updates.nblocks/src_num/latency are statistics, not part of the statement, and are not compared",
			"fields tx_gas_price/tx_effective_gas_price and the receipts+traces plan are left to C14; partial selections of indexed inputs to C11; array lengths >= 10 and bytes[] to C09",
			"start points more than one block beyond the head are left to C06",
		},
		NCases: func(tier string) int {
			if tier == "thorough" {
				return 60000
			}
			return 2000
		},
		Run:              c01Run,
		CrashIsViolation: true,
		CaseTimeoutS:     120,
		MinObs: func(tier string) map[string]int64 {
			return map[string]int64{"commits_checked": 2000, "rows_compared": 5000, "quiescence_nonempty": 400, "steps": 6000, "faults_injected": 100, "growth_events": 300}
		},
	})
}

var (
	namePoolSrc = []string{"src-a", "src-b"}
	namePoolIG  = []string{"ig-a", "ig-b", "ig-c", "ig-d"}
	namePoolTbl = []string{"t_a", "t_b", "t_c", "t_d"}
	chainSeq    uint64
	chainSeqMu  sync.Mutex
)

func nextChainID() uint64 {
	chainSeqMu.Lock()
	defer chainSeqMu.Unlock()
	chainSeq++
	return chainSeq
}

// pipeABI is the ABI sub-domain used by the pipeline checks (C09 owns the rest).
var pipeABI = gen.ABIOpts{MaxDepth: 2, MaxLeaves: 40, DynLen: 3, MaxInputs: 4, Ks: []int{1, 2, 3, 5, 9, 10, 12}, MaxIndexed: 3}

var c01IDRe = regexp.MustCompile(`"id":("[^"]*"|[0-9]+|null)`)

type faultPlan struct {
	mu       sync.Mutex
	r        *vk.RNG
	rpcLeft  int
	sqlLeft  int
	kinds    map[string]bool
	disabled bool
	// ambiguous: a COMMIT was executed and the connection dropped before the reply (current step)
	ambiguous bool
	// logsRefusal: the RPC faults of this case are JSON-RPC error members on the eth_getLogs element of requests
	// that span more than one block (the usual "range too large / too many results" refusal of providers)
	logsRefusal bool
	refusals    int
	// limit > 0: a provider with limits — eth_getLogs over more than `limit` blocks is refused with -32005 ("query
	// returned more than 10000 results"), smaller ranges sometimes answer with a null result; active until disabled
	limit int
	// lag > 0: a load balancer in front of several backends — every other request is answered by a backend that
	// is up to lag blocks behind the head the task was told; active until disabled
	lag int
}

func (fp *faultPlan) rpcHook(info *simnode.ReqInfo) simnode.Action {
	fp.mu.Lock()
	defer fp.mu.Unlock()
	act := simnode.Action{ElemErr: -1}
	if fp.lag > 0 {
		if fp.disabled || info.Poller || !fp.r.Bool() {
			return act
		}
		act.Behind = fp.r.Range(1, fp.lag)
		fp.refusals++
		fp.kinds["rpc:lagging-backend"] = true
		return act
	}
	if fp.limit > 0 {
		if fp.disabled || info.Poller {
			return act
		}
		type edit struct {
			i    int
			null bool
		}
		var edits []edit
		for i, cl := range info.Calls {
			if cl.Method != "eth_getLogs" || cl.Filter == nil {
				continue
			}
			switch n := int(cl.Filter.To-cl.Filter.From) + 1; {
			case n > fp.limit:
				edits = append(edits, edit{i, false})
				fp.kinds["rpc:logs-range-refused"] = true
			case fp.r.Chance(1, 4):
				edits = append(edits, edit{i, true})
				fp.kinds["rpc:logs-null-result"] = true
			}
		}
		if len(edits) > 0 {
			fp.refusals++
			act.Rewrite = func(elems []string) []string {
				out := append([]string(nil), elems...)
				for _, e := range edits {
					if e.i >= len(out) {
						continue
					}
					id := "null"
					if m := c01IDRe.FindStringSubmatch(out[e.i]); m != nil {
						id = m[1]
					}
					if e.null {
						out[e.i] = `{"jsonrpc":"2.0","id":` + id + `,"result":null}`
					} else {
						out[e.i] = `{"jsonrpc":"2.0","id":` + id + `,"error":{"code":-32005,"message":"query returned more than 10000 results"}}`
					}
				}
				return out
			}
		}
		return act
	}
	if fp.logsRefusal {
		if fp.disabled || info.Poller || fp.rpcLeft == 0 {
			return act
		}
		for i, cl := range info.Calls {
			if cl.Method == "eth_getLogs" && cl.Filter != nil && cl.Filter.To > cl.Filter.From && fp.r.Chance(1, 2) {
				fp.rpcLeft--
				fp.refusals++
				act.Fail, act.ElemErr = simnode.FailRPCError, i
				fp.kinds["rpc:logs-refused"] = true
				return act
			}
		}
		return act
	}
	if fp.disabled || info.Poller || fp.rpcLeft == 0 || !fp.r.Chance(1, 6) {
		return act
	}
	fp.rpcLeft--
	act.Fail = []simnode.FailKind{simnode.FailRPCError, simnode.FailHTTP, simnode.FailCut, simnode.FailTruncate, simnode.FailGarbage}[fp.r.Intn(5)]
	if act.Fail == simnode.FailRPCError && len(info.Calls) > 1 && fp.r.Chance(3, 4) {
		act.ElemErr = fp.r.Intn(len(info.Calls))
	}
	act.Status = []int{500, 502, 429, 404}[fp.r.Intn(4)]
	fp.kinds["rpc:"+act.Fail.String()] = true
	return act
}

func (fp *faultPlan) sqlHook(op *fakepg.Op) fakepg.Fault {
	fp.mu.Lock()
	defer fp.mu.Unlock()
	if fp.disabled || fp.sqlLeft == 0 || !fp.r.Chance(1, 10) {
		return fakepg.Fault{}
	}
	fp.sqlLeft--
	k := []fakepg.FaultKind{fakepg.FError, fakepg.FDropBefore, fakepg.FDropAfter}[fp.r.Intn(3)]
	if k == fakepg.FDropAfter && op.Kind == "commit" {
		fp.ambiguous = true
	}
	fp.kinds["sql:"+k.String()+":"+op.Kind] = true
	return fakepg.Fault{Kind: k}
}

func c01Run(c *vk.Case) {
	r := c.R
	mode := c.Index % 3
	batch := r.Range(1, 12)
	conc := r.Range(1, 6)
	if c.Index%7 == 0 {
		conc = r.Range(1, 3)
		batch = conc * r.Range(1, 4)
	}
	addrs := [][]byte{r.Bytes(20), r.Bytes(20), r.Bytes(20)}
	initial := r.Range(3, 20)
	startKind := r.Intn(5)
	var start uint64
	head := uint64(initial)
	switch startKind {
	case 0:
		start = 0 // begin at the source's current head
	case 1:
		start = 1
	case 2:
		start = uint64(r.Range(1, initial))
	case 3:
		start = head
	case 4:
		start = head + 1
	}
	d := gen.Decl(r, gen.DeclOpts{Mode: mode, Name: namePoolIG[0], Table: namePoolTbl[0], Src: namePoolSrc[0], Start: start,
		ABI: pipeABI, Exclude: gen.SafeExclude, SelIndexed: r.Bool()})
	co := gen.ChainOpts{Seed: r.U64(), MinTxs: 0, MaxTxs: 4, MaxLogs: 4, MaxTraces: 3}
	if d.Mode() == model.ModeTrace {
		co.MinTxs, co.MinTraces = 1, 1
	}
	if d.Mode() == model.ModeLog {
		t := gen.TargetMaker(d, addrs, pipeABI)
		co.Makers = append([]gen.LogMaker{t, t, t}, gen.DecoyMakers(d, addrs, pipeABI)...)
	}
	content := gen.Content(co)
	// one log case in sixteen: a block holds, after its other logs, a log with the declared event's topics whose data is
	// cut short (any contract can emit one). The integration may stop in front of that block for good (a failing step is
	// no subject of the statement) or step over the log; a step that succeeds must still write every row of the blocks
	// it covers
	malformedAt := uint64(0)
	if d.Mode() == model.ModeLog && c.Index%16 == 9 && start <= uint64(initial) && len(refmodel.SelectedLeaves(d.Inputs)) > 0 {
		malformedAt = max(start, 1) + uint64(r.Intn(int(uint64(initial)-max(start, 1))+1))
		if start == 0 {
			malformedAt = uint64(initial)
		}
		t, seed := gen.TargetMaker(d, addrs, pipeABI), r.U64()
		inner := content
		content = func(b *simnode.Block) {
			inner(b)
			if b.Num != malformedAt {
				return
			}
			rr := vk.NewRNG(vk.Derive(seed, b.Version))
			if len(b.Txs) == 0 {
				b.Txs = append(b.Txs, simnode.Tx{Hash: rr.Bytes(32), From: rr.Bytes(20), To: rr.Bytes(20), GasPrice: big.NewInt(1), MaxPrio: big.NewInt(1), MaxFee: big.NewInt(1), Value: big.NewInt(0), EffGasPrice: big.NewInt(1), Status: 1})
			}
			last := &b.Txs[len(b.Txs)-1]
			last.Logs = append(last.Logs, t(rr)) // a well-formed one in front of it
			bad := t(rr)
			bad.Data = bad.Data[:min(4, len(bad.Data))]
			bad.Meta = &model.LogMeta{Malformed: true}
			last.Logs = append(last.Logs, bad)
		}
		c.Obs("cases_with_undecodable_matching_log", 1)
	}
	chain := simnode.NewChain(nextChainID(), content)
	chain.Grow(initial)
	node := simnode.Global().NewNode(chain)
	spec := &scen.Spec{
		Sources: []scen.SourceSpec{{Name: namePoolSrc[0], ChainID: uint64(r.Range(1, 5)), Batch: batch, Concurrency: conc, Poll: "1h", Node: node}},
		Decls:   []*model.Decl{d},
	}
	env, err := scen.New(spec, false)
	if err != nil {
		c.Inconclusive("environment: %v", err)
		return
	}
	defer env.Close()
	detail := map[string]any{"config": string(env.ConfJSON), "initial_head": initial}
	if env.SetupErr != nil {
		c.Violate("setup-rejected:"+env.SetupStage, merge(detail, map[string]any{"error": env.SetupErr.Error()}),
			"a declaration of the supported domain was rejected at %s: %v", env.SetupStage, env.SetupErr)
		return
	}
	if len(env.Tasks) != 1 {
		c.Inconclusive("expected one task, got %d", len(env.Tasks))
		return
	}
	task := env.Tasks[0]
	info := task.VerifInfo()
	plan := info.Filter
	pm := newPairMon(c, env, namePoolSrc[0], d.Name)

	fp := &faultPlan{r: r.Fork(), kinds: map[string]bool{}}
	if c.Index%2 == 1 {
		fp.rpcLeft, fp.sqlLeft = r.Intn(4), r.Intn(3)
		if c.Index%8 == 3 && d.Mode() == model.ModeLog {
			fp.logsRefusal, fp.rpcLeft = true, r.Range(1, 3)
		}
		if c.Index%8 == 7 && d.Mode() == model.ModeLog {
			fp.limit, fp.rpcLeft, fp.sqlLeft = r.Range(1, 3), 0, 0
			c.Obs("provider_limit_cases", 1)
		}
		if c.Index%8 == 5 {
			fp.lag, fp.rpcLeft, fp.sqlLeft = r.Range(1, 3), 0, 0
			c.Obs("lagging_backend_cases", 1)
		}
	}
	node.SetHook(fp.rpcHook)
	env.PG.SetFaultHook(fp.sqlHook)
	nfaults := fp.rpcLeft + fp.sqlLeft
	if fp.limit > 0 || fp.lag > 0 {
		nfaults += 12 // the steps taken while the provider's limits (the lagging backends) are in force
	}

	growLeft := r.Intn(4)
	growths := 0
	maxReads := 1
	steps, advanced := 0, 0
	idle := 0
	budget := func() int {
		blocks := int(chain.Head().Num) + 2
		return blocks + (growths+nfaults+2)*(maxReads+4) + 12
	}
	var trace []string
	lastErr := ""
	abiStall, stalled := 0, false
	for {
		if steps > budget() {
			c.Violate("no-progress", merge(detail, map[string]any{"steps": steps, "position": pm.pos, "head": chain.Head().Num, "trace": lastN(trace, 25), "last_error": lastErr}),
				"after %d steps (bound %d) the position is %d while the head is %d", steps, budget(), pm.pos, chain.Head().Num)
			break
		}
		if growLeft > 0 && r.Chance(1, 3) {
			chain.Grow(r.Range(1, 6))
			growLeft--
			growths++
			c.Obs("growth_events", 1)
		}
		quiet := growLeft == 0
		if quiet {
			fp.mu.Lock()
			if fp.rpcLeft == 0 && fp.sqlLeft == 0 && (fp.limit == 0 && fp.lag == 0 || steps >= 10) || steps > budget()/2 {
				fp.disabled = true
			}
			dis := fp.disabled
			fp.mu.Unlock()
			quiet = dis
		}
		fp.mu.Lock()
		fp.ambiguous = false
		fp.mu.Unlock()
		res := env.Step(task)
		fp.mu.Lock()
		pm.ambiguousCommit = fp.ambiguous
		fp.mu.Unlock()
		steps++
		c.Obs("steps", 1)
		before := pm.pos
		pm.stepVerdict(res, plan, batch, merge(detail, map[string]any{"step": steps, "plan": plan, "trace": lastN(trace, 12)}))
		trace = append(trace, fmt.Sprintf("step%d:%s pos=%d head=%d", steps, errClass(res.Err), pm.pos, chain.Head().Num))
		if errClass(res.Err) == "error" {
			lastErr = res.Err.Error()
		}
		if pm.hasPos && pm.pos != before {
			advanced++
		}
		if len(c.Res.Violations) > 0 {
			break
		}
		if malformedAt > 0 && res.Err != nil && strings.Contains(res.Err.Error(), "abi data") {
			if abiStall++; abiStall >= 3 {
				stalled = true
				break
			}
		} else {
			abiStall = 0
		}
		atHead := pm.hasPos && pm.pos == chain.Head().Num
		notStarted := !pm.hasPos && start > chain.Head().Num // configured start is still in the future
		if quiet && errors.Is(res.Err, shovel.ErrNothingNew) && (atHead || notStarted) {
			idle++
			if idle >= maxReads+2 {
				break
			}
		} else {
			idle = 0
		}
	}
	fp.mu.Lock()
	var fk []string
	for k := range fp.kinds {
		fk = append(fk, k)
		c.Seen("fault_sites", k)
	}
	injected := nfaults - fp.rpcLeft - fp.sqlLeft
	if fp.limit > 0 || fp.lag > 0 {
		injected = fp.refusals
		c.Obs("provider_limit_answers", int64(fp.refusals))
	}
	fp.mu.Unlock()
	c.Obs("faults_injected", int64(injected))
	switch {
	case stalled:
		// three steps in a row failed on the undecodable log: the integration stands in front of its block
		c.Obs("stalled_in_front_of_undecodable_log", 1)
		if pm.hasPos && pm.pos >= malformedAt {
			c.Violate("position-passed-a-block-whose-step-fails", merge(detail, map[string]any{"position": pm.pos, "block": malformedAt, "trace": lastN(trace, 25)}),
				"steps fail on the undecodable log of block %d while the recorded position is %d", malformedAt, pm.pos)
		}
	case len(c.Res.Violations) == 0 && pm.hasPos:
		pm.quiescenceVerdict(chain.Head().Num, plan, merge(detail, map[string]any{"plan": plan, "trace": lastN(trace, 25)}))
	}
	if us := env.PG.Unsupported(); len(us) > 0 {
		c.Inconclusive("fakepg contract left: %v", us)
	}
	bc := "batch>=conc"
	switch {
	case batch < conc:
		bc = "batch<conc"
	case batch%conc != 0:
		bc = "non-divisible"
	}
	c.Seen("plans", plan)
	if advanced > 0 {
		c.SetSig("mode=%s plan=%s %s start=%d growth=%v faults=%v", d.Mode(), plan, bc, startKind, growths > 0, injected > 0)
	}
	if c.Index < 6 {
		c.Sample(map[string]any{"config": string(env.ConfJSON), "batch": batch, "concurrency": conc, "plan": plan, "schedule": lastN(trace, 40), "faults": fk})
	}
}

func lastN(xs []string, n int) []string {
	if len(xs) > n {
		return xs[len(xs)-n:]
	}
	return xs
}
