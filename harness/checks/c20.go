package checks

import (
	"bytes"
	"context"
	"encoding/json"
	"fmt"
	"net/http/httptest"
	"sort"
	"strings"
	"sync"
	"time"

	"github.com/indexsupply/shovel/shovel"
	"github.com/indexsupply/shovel/shovel/config"
	"github.com/indexsupply/shovel/shovel/web"
	"github.com/indexsupply/shovel/wpg"
	"github.com/jackc/pgx/v5/pgxpool"

	"verif/harness/fakepg"
	"verif/harness/gen"
	"verif/harness/model"
	"verif/harness/simnode"
	"verif/harness/vk"
)

// C20 — the manager runs exactly the configured tasks, one runner each, across
// restarts.

func init() {
	vk.Register(&vk.Check{
		ID:        "C20",
		Level:     "exploration",
		Technique: "online checker over the hook event log of the real Manager (generation / runner / converge events with one global sequence) + reference merge model of file and database configuration; restarts issued at random instants and at hook points",
		Rule: "each case draws file and database configuration (0–2 sources and 0–3 integrations each, name clashes with different contents, disabled entries, several sources per integration, optionally a reference to an unknown source in the file or in the database), starts the real Manager, " +
			"compares the loaded tasks (source, integration, start, stop, batch, concurrency) with the reference merge, then issues 1–4 restarts one at a time at random instants or hook points (while a runner is between its two transactions, right after the previous start-up signal, after storing a new integration or source) and checks the event log: " +
			"never two live runners for one pair, no event of a previous generation after Restart returned, new entries picked up. signature = (config mix class, restart timing classes, outcome). The unknown-source scenario restarts twice after the failed load. Process level (real binary): unknown source must end the process; a file-disabled integration does not run from the database; a stored integration removed before a restart (triggered through the running dashboard) does not run again.",
		Assumptions: []string{
			"restarts are issued one at a time (the statement quantifies timings relative to running steps, not concurrent Restart calls)",
			"database-stored integrations are stored complete (with the identity columns) and their tables exist; database-stored sources get the defaults the loader gives them",
			"runners end by reaching a configured stop block; wall-clock appears only as watchdogs (inconclusive)",
		},
		NCases:           func(tier string) int { return c20Lifecycles(tier) + 1 },
		Run:              c20Run,
		CrashIsViolation: true,
		CaseTimeoutS:     90,
		MaxProcs:         8,
		MinObs: func(tier string) map[string]int64 {
			return map[string]int64{"startups": 50, "restarts": 60, "task_sets_compared": 80, "events": 3000, "unknown_source_cases": 5, "db_entries": 30, "name_clash_cases": 10, "restarts_at_hook_points": 15, "dashboard_submissions": 8, "overlapping_restarts": 4, "binary_unknown_source_exits_nonzero": 2, "binary_shadow_held": 1}
		},
	})
}

type c20Src struct {
	Name         string
	ChainID      uint64
	Batch, Conc  int
	InFile, InDB bool
	node         *simnode.Node
}

type c20IG struct {
	Name    string
	Enabled bool
	Table   string
	Refs    []model.SrcRef
	InFile  bool
	InDB    bool
	// file and db variants differ in start (and possibly in the enabled flag) when both exist
	DBStart   uint64
	DBEnabled bool
}

type c20Event struct {
	seq  uint64
	name string
	task *shovel.Task
}

type c20Log struct {
	mu     sync.Mutex
	events []c20Event
}

func (l *c20Log) sink(ev shovel.VerifEvent) {
	l.mu.Lock()
	l.events = append(l.events, c20Event{ev.Seq, ev.Name, ev.Task})
	l.mu.Unlock()
}

func (l *c20Log) snapshot() []c20Event {
	l.mu.Lock()
	defer l.mu.Unlock()
	evs := append([]c20Event(nil), l.events...)
	sort.Slice(evs, func(i, j int) bool { return evs[i].seq < evs[j].seq })
	return evs
}

type c20Task struct {
	Src, IG     string
	Start, Stop uint64
	Batch, Conc int
	Chain       uint64
	URLs        string // the URLs the task's source client rotates through, sorted
}

func (t c20Task) String() string {
	return fmt.Sprintf("%s/%s[%d,%d] b=%d c=%d chain=%d urls=%s", t.Src, t.IG, t.Start, t.Stop, t.Batch, t.Conc, t.Chain, t.URLs)
}

// c20WithPassword puts credentials into a node URL (sources behind an authenticating proxy): what a task requests
// is the configured URL, credentials included.
func c20WithPassword(u string) string {
	return strings.Replace(u, "http://", "http://shovel:s3cr3t-pw@", 1)
}

// c20URLs lists the URLs a task's source client rotates through.
func c20URLs(src shovel.Source) string {
	seen := map[string]bool{}
	for i := 0; i < 8; i++ {
		seen[src.NextURL().String()] = true
	}
	var us []string
	for u := range seen {
		us = append(us, u)
	}
	sort.Strings(us)
	return strings.Join(us, ",")
}

// analyse replays the event log. restartReturns: seq numbers at which a Restart call returned.
func c20Analyse(c *vk.Case, evs []c20Event, detail map[string]any) (gens [][]*shovel.Task) {
	gen := -1
	taskGen := map[*shovel.Task]int{}
	liveRunners := map[string]int{}
	liveConv := map[string]int{}
	pairOf := func(t *shovel.Task) string {
		in := t.VerifInfo()
		return in.SrcName + "/" + in.IGName
	}
	completedGen := -1 // highest generation whose Restart (or initial start) has returned
	for _, e := range evs {
		switch e.name {
		case "run-locked":
			gen++
			gens = append(gens, nil)
		case "task-loaded":
			taskGen[e.task] = gen
			gens[gen] = append(gens[gen], e.task)
		case "restart-return":
			completedGen = gen
		}
		if e.task == nil {
			continue
		}
		g, ok := taskGen[e.task]
		if !ok {
			continue
		}
		p := pairOf(e.task)
		switch e.name {
		case "runner-enter":
			liveRunners[p]++
			if liveRunners[p] > 1 {
				c.Violate("two-runners-for-one-pair", merge(detail, map[string]any{"pair": p, "seq": e.seq}), "two live runners drive pair %s at sequence point %d", p, e.seq)
			}
		case "runner-exit":
			liveRunners[p]--
		case "converge-enter":
			liveConv[p]++
			if liveConv[p] > 1 {
				c.Violate("two-steps-for-one-pair", merge(detail, map[string]any{"pair": p, "seq": e.seq}), "two steps of pair %s overlap at sequence point %d", p, e.seq)
			}
		case "converge-exit":
			liveConv[p]--
		}
		if g < completedGen && e.name != "task-loaded" {
			c.Violate("previous-generation-active-after-restart", merge(detail, map[string]any{"pair": p, "event": e.name, "task_generation": g, "completed_generation": completedGen}),
				"%s of a generation-%d task of %s was observed after the restart into generation %d had returned", e.name, g, p, completedGen)
		}
	}
	return gens
}

func c20Lifecycles(tier string) int {
	if tier == "thorough" {
		return 800
	}
	return 64
}

func c20Run(c *vk.Case) {
	if c.Index >= c20Lifecycles(c.Tier) {
		c20Binary(c)
		return
	}
	r := c.R
	ctx := context.Background()
	pg, err := fakepg.New()
	if err != nil {
		c.Inconclusive("fakepg: %v", err)
		return
	}
	defer pg.Close()
	pg.InstallSchema()
	pool, err := wpg.NewPool(ctx, pg.URL())
	if err != nil {
		c.Inconclusive("pool: %v", err)
		return
	}
	defer func() {
		// (Close waits for every connection that was taken from the pool: one that the code under test never gave
		// back would block the case for good)
		done := make(chan struct{})
		go func() { pool.Close(); close(done) }()
		select {
		case <-done:
		case <-time.After(5 * time.Second):
		}
	}()

	// one chain, several nodes (one per source)
	chain := simnode.NewChain(nextChainID(), gen.Content(gen.ChainOpts{Seed: r.U64(), MinTxs: 1, MaxTxs: 2}))
	chain.Grow(40)
	var nodes []*simnode.Node
	defer func() {
		for _, n := range nodes {
			n.Retire()
		}
	}()
	unknownIn := ""
	switch r.Intn(8) {
	case 0:
		unknownIn = "file"
	case 1:
		unknownIn = "db"
	}
	// half of the database variants: the stored document itself cannot be decoded completely (its name can): that is a
	// load error like the unknown source, not an integration to run with whatever was decoded
	undecodable := unknownIn == "db" && r.Bool()
	// sources
	var srcs []*c20Src
	for i, name := range namePoolSrc {
		s := &c20Src{Name: name, ChainID: uint64(i + 1), Batch: r.Range(1, 4), Conc: r.Range(1, 2)}
		switch r.Intn(4) {
		case 0:
			s.InFile = true
		case 1:
			s.InDB = true
		case 2:
			s.InFile, s.InDB = true, true
		default:
			if i == 0 {
				s.InFile = true
			}
		}
		if s.InFile || s.InDB {
			s.node = simnode.Global().NewNode(chain)
			nodes = append(nodes, s.node)
			srcs = append(srcs, s)
		}
	}
	srcByName := map[string]*c20Src{}
	for _, s := range srcs {
		srcByName[s.Name] = s
	}
	// integrations
	var igs []*c20IG
	nig := r.Range(1, 4)
	clash := false
	for i := 0; i < nig; i++ {
		ig := &c20IG{Name: namePoolIG[i], Table: namePoolTbl[i], Enabled: !r.Chance(1, 5)}
		switch r.Intn(3) {
		case 0:
			ig.InFile = true
		case 1:
			ig.InDB = true
		default:
			ig.InFile, ig.InDB = true, true
			clash = true
		}
		for _, s := range srcs {
			if len(ig.Refs) == 0 || r.Bool() {
				st := uint64(r.Range(1, 5))
				ig.Refs = append(ig.Refs, model.SrcRef{Name: s.Name, Start: st, Stop: st + uint64(r.Range(12, 25))})
			}
		}
		ig.DBStart = uint64(r.Range(6, 9))
		ig.DBEnabled = ig.Enabled
		if ig.InFile && ig.InDB && r.Bool() {
			ig.DBEnabled = !ig.Enabled // e.g. disabled in the file, enabled in the database: the file must still win
		}
		igs = append(igs, ig)
	}
	if clash {
		c.Obs("name_clash_cases", 1)
	}
	mkDecl := func(ig *c20IG, db bool) *model.Decl {
		d := &model.Decl{Name: ig.Name, Enabled: ig.Enabled, Table: ig.Table, ColTypes: map[string]string{}, InFilter: map[string]model.Filter{}}
		if db {
			d.Enabled = ig.DBEnabled
		}
		d.Block = []model.BlockField{{Name: "tx_hash", Column: "tx_hash", ColType: "bytea"}}
		for _, ref := range ig.Refs {
			if db && ig.InFile {
				ref.Start = ig.DBStart // the database copy of a clashing name differs: the file must win
			}
			d.Sources = append(d.Sources, ref)
		}
		return d
	}
	// file configuration
	var fsrcs, figs []any
	for _, s := range srcs {
		if s.InFile {
			fsrcs = append(fsrcs, map[string]any{"name": s.Name, "chain_id": s.ChainID, "url": c20WithPassword(s.node.URL("file-" + s.Name)), "poll_duration": "3ms", "batch_size": s.Batch, "concurrency": s.Conc})
		}
	}
	plantedInFile := false
	for _, ig := range igs {
		if !ig.InFile {
			continue
		}
		d := mkDecl(ig, false)
		if unknownIn == "file" && !plantedInFile && ig.Enabled {
			d.Sources = append(d.Sources, model.SrcRef{Name: "src-nowhere", Start: 1, Stop: 5})
			plantedInFile = true
		}
		figs = append(figs, d.ConfigJSON())
	}
	if unknownIn == "file" && !plantedInFile {
		unknownIn = ""
	}
	confJSON, _ := json.Marshal(map[string]any{"pg_url": pg.URL(), "eth_sources": fsrcs, "integrations": figs})
	var conf config.Root
	if err := json.Unmarshal(confJSON, &conf); err != nil {
		c.Inconclusive("decode: %v", err)
		return
	}
	if err := config.ValidateFix(&conf); err != nil {
		c.Inconclusive("file configuration rejected: %v", err)
		return
	}
	if err := config.Migrate(ctx, pool, conf); err != nil {
		c.Inconclusive("migrate: %v", err)
		return
	}
	detail := map[string]any{"file_config": string(confJSON)}
	// database configuration
	storeIG := func(ig *c20IG, extraUnknown bool) bool {
		d := mkDecl(ig, true)
		if extraUnknown && !undecodable {
			d.Sources = append(d.Sources, model.SrcRef{Name: "src-nowhere", Start: 1, Stop: 5})
		}
		b, _ := json.Marshal(map[string]any{"integrations": []any{d.ConfigJSON()}})
		var tmp config.Root
		if err := json.Unmarshal(b, &tmp); err != nil {
			c.Inconclusive("db integration decode: %v", err)
			return false
		}
		if err := config.ValidateFix(&tmp); err != nil {
			c.Inconclusive("db integration rejected: %v", err)
			return false
		}
		if err := tmp.Integrations[0].Table.Migrate(ctx, pool); err != nil {
			c.Inconclusive("db integration table: %v", err)
			return false
		}
		cj, _ := json.Marshal(tmp.Integrations[0])
		if extraUnknown && undecodable {
			bad := bytes.Replace(cj, []byte(`"enabled":true`), []byte(`"enabled":"yes"`), 1)
			if bytes.Equal(bad, cj) {
				c.Inconclusive("harness: could not make the stored integration undecodable")
				return false
			}
			cj = bad
			c.Obs("undecodable_stored_integrations", 1)
		}
		if _, err := pool.Exec(ctx, `insert into shovel.integrations(name, conf) values ($1, $2)`, ig.Name, cj); err != nil {
			c.Inconclusive("storing integration: %v", err)
			return false
		}
		c.Obs("db_entries", 1)
		return true
	}
	// storeViaDashboard submits a complete integration to the real /save-integration handler,
	// which stores it and restarts the manager itself.
	storeViaDashboard := func(mgr *shovel.Manager, ig *c20IG) (int, string, any) {
		d := mkDecl(ig, true)
		b, _ := json.Marshal(map[string]any{"integrations": []any{d.ConfigJSON()}})
		var tmp config.Root
		if err := json.Unmarshal(b, &tmp); err != nil {
			return 0, "", nil
		}
		if err := config.ValidateFix(&tmp); err != nil {
			return 0, "", nil
		}
		if err := tmp.Integrations[0].Table.Migrate(ctx, pool); err != nil {
			return 0, "", nil
		}
		cj, _ := json.Marshal(tmp.Integrations[0])
		h := web.New(mgr, &conf, pool)
		rec := httptest.NewRecorder()
		req := httptest.NewRequest("POST", "/save-integration", bytes.NewReader(cj))
		var pan any
		func() {
			defer func() { pan = recover() }()
			h.SaveIntegration(rec, req)
		}()
		c.Obs("db_entries", 1)
		c.Obs("dashboard_submissions", 1)
		return rec.Code, rec.Body.String(), pan
	}
	storeSrc := func(s *c20Src) bool {
		// a database copy of a clashing source differs (chain id): the file must win
		cid := s.ChainID
		if s.InFile {
			cid += 100
		}
		if _, err := pool.Exec(ctx, `insert into shovel.sources(chain_id, name, url) values ($1, $2, $3)`, int(cid), s.Name, c20WithPassword(s.node.URL("db-"+s.Name))); err != nil {
			c.Inconclusive("storing source: %v", err)
			return false
		}
		c.Obs("db_entries", 1)
		return true
	}
	for _, s := range srcs {
		if s.InDB && !storeSrc(s) {
			return
		}
	}
	plantedInDB := false
	for _, ig := range igs {
		plant := unknownIn == "db" && !plantedInDB && !ig.InFile && ig.DBEnabled // (a file copy would win and has no unknown reference)
		if ig.InDB && !storeIG(ig, plant) {
			return
		}
		if ig.InDB && plant {
			plantedInDB = true
		}
	}
	if unknownIn == "db" && !plantedInDB {
		unknownIn = ""
	}
	// reference merge
	expected := func() []string {
		var res []string
		for _, ig := range igs {
			en := ig.Enabled // the file copy wins, with its enabled flag
			if !ig.InFile {
				en = ig.DBEnabled
			}
			if !en {
				continue
			}
			for _, ref := range ig.Refs {
				s := srcByName[ref.Name]
				// the winning copy of the integration (file over database) carries ref.Start;
				// source settings come from the file copy of the source when there is one,
				// a database-only source has none (defaults 1/1)
				t := c20Task{Src: ref.Name, IG: ig.Name, Start: ref.Start, Stop: ref.Stop, Batch: 1, Conc: 1, Chain: s.ChainID, URLs: c20WithPassword(s.node.URL("db-" + s.Name))}
				if s.InFile {
					t.Batch, t.Conc = s.Batch, s.Conc
					t.URLs = c20WithPassword(s.node.URL("file-" + s.Name))
				}
				res = append(res, t.String())
			}
		}
		sort.Strings(res)
		return res
	}
	// hooks
	log := &c20Log{}
	var (
		pmu      sync.Mutex
		atPoint  = map[string]func(){}
		passed   = map[string]int{} // how many times each point was passed
		startups = 0                // successful start-up signals received so far
	)
	atEvent := map[string]func(){}
	evSink := func(ev shovel.VerifEvent) {
		log.sink(ev)
		pmu.Lock()
		f := atEvent[ev.Name]
		delete(atEvent, ev.Name)
		pmu.Unlock()
		if f != nil {
			f()
		}
	}
	shovel.VerifSetSink(evSink, func(name string, t *shovel.Task) {
		pmu.Lock()
		passed[name]++
		f := atPoint[name]
		delete(atPoint, name)
		pmu.Unlock()
		if f != nil {
			f()
		}
	})
	defer shovel.VerifSetSink(nil, nil)

	mgr := shovel.NewManager(ctx, pool, conf)
	ec := make(chan error)
	go mgr.Run(ec)
	var startErr error
	select {
	case startErr = <-ec:
	case <-time.After(60 * time.Second):
		c.Inconclusive("start-up did not signal within the watchdog")
		return
	}
	c.Obs("startups", 1)
	if startErr == nil {
		startups++
	}
	// every Run that signalled start-up passes "after-startup-signal" shortly afterwards:
	// wait for that before arming a hook there, so the hook catches the NEXT run only
	settled := func() bool {
		for i := 0; i < 2000; i++ {
			pmu.Lock()
			ok := passed["after-startup-signal"] >= startups
			pmu.Unlock()
			if ok {
				return true
			}
			time.Sleep(time.Millisecond)
		}
		return false
	}
	compare := func(when string) {
		gens := c20Analyse(c, log.snapshot(), detail)
		if len(gens) == 0 {
			return
		}
		var got []string
		for _, t := range gens[len(gens)-1] {
			in := t.VerifInfo()
			got = append(got, c20Task{in.SrcName, in.IGName, in.Start, in.Stop, in.BatchSize, in.Concurrency, in.ChainID, c20URLs(in.Source)}.String())
		}
		sort.Strings(got)
		want := expected()
		c.Obs("task_sets_compared", 1)
		if strings.Join(got, ";") != strings.Join(want, ";") {
			c.Violate("task-set-differs:"+c20DiffClass(got, want), merge(detail, map[string]any{"when": when, "running": got, "expected": want}),
				"%s: the manager runs %v, the configuration asks for %v", when, got, want)
		}
	}
	if unknownIn != "" {
		c.Obs("unknown_source_cases", 1)
		if startErr == nil {
			c.Violate("unknown-source-not-reported:"+unknownIn, merge(detail, map[string]any{"where": unknownIn}), "an integration references source src-nowhere (%s configuration) but start-up reported no error", unknownIn)
		}
		c.SetSig("unknown-source:%s", unknownIn)
		// after a failed start nothing runs; a later restart must fail the same way, not panic
		func() {
			defer func() {
				if rc := recover(); rc != nil {
					c.Violate("panic:restart-after-failed-start", merge(detail, map[string]any{"panic": fmt.Sprint(rc)}), "Restart after a failed start-up panicked: %v", rc)
				}
			}()
			// (twice: the restart after a restart that failed to load is a different situation from the restart
			// after a failed start-up — the manager has to be restartable again each time)
			for k := 0; k < 2; k++ {
				if err := mgr.Restart(); err == nil {
					c.Violate("unknown-source-not-reported-on-restart:"+unknownIn, detail, "restart with an unknown source reference reported no error")
				}
				c.Obs("restarts", 1)
				c.Obs("restarts_after_failed_load", 1)
			}
		}()
		// nothing runs now (every load failed): every connection the loads took must be back in the pool, or a few
		// more failed loads leave the manager without any
		for i := 0; i < 100 && pool.Stat().AcquiredConns() > 0; i++ {
			time.Sleep(10 * time.Millisecond) // releases are asynchronous
		}
		c.Obs("pool_checked_after_failed_loads", 1)
		if n := pool.Stat().AcquiredConns(); n > 0 {
			c.Violate("failed-load-keeps-connections:"+unknownIn, merge(detail, map[string]any{"connections_not_returned": n, "failed_loads": 3, "pool_size": pool.Stat().MaxConns(), "stored_document_undecodable": undecodable}),
				"after three failed loads (start-up and two restarts) and with no task running, %d connections of the pool (size %d) have not been returned: after as many failed loads as the pool has connections no restart can load anything", n, pool.Stat().MaxConns())
		}
		return
	}
	if startErr != nil {
		c.Violate("startup-error-on-valid-config", merge(detail, map[string]any{"error": startErr.Error()}), "start-up failed on a valid configuration: %v", startErr)
		return
	}
	compare("after start-up")
	// restarts
	nre := r.Range(1, 4)
	var timing []string
	for k := 0; k < nre && len(c.Res.Violations) == 0; k++ {
		mode := r.Intn(6)
		// optionally store something new first
		if r.Chance(1, 2) {
			for _, ig := range igs {
				if !ig.InFile && !ig.InDB {
					continue
				}
			}
			// a brand-new database integration
			for i := len(igs); i < len(namePoolIG); i++ {
				ig := &c20IG{Name: namePoolIG[i], Table: namePoolTbl[i], Enabled: true, InDB: true}
				st := uint64(r.Range(1, 5))
				ig.Refs = []model.SrcRef{{Name: srcs[0].Name, Start: st, Stop: st + uint64(r.Range(12, 25))}}
				ig.DBStart = st
				ig.DBEnabled = true
				if r.Bool() {
					// through the dashboard: the handler stores the integration and restarts the manager itself
					if !settled() {
						c.Inconclusive("a run never passed its start-up point")
						return
					}
					code, body, pan := storeViaDashboard(mgr, ig)
					igs = append(igs, ig)
					timing = append(timing, "dashboard-submission")
					c.Obs("restarts", 1)
					if pan != nil {
						c.Violate("panic:web.SaveIntegration", merge(detail, map[string]any{"panic": fmt.Sprint(pan)}), "SaveIntegration panicked: %v", pan)
						return
					}
					if code != 200 {
						c.Violate("dashboard-submission-failed", merge(detail, map[string]any{"status": code, "body": body}), "/save-integration answered %d: %s", code, body)
						return
					}
					startups++
					compare("after a dashboard submission of " + ig.Name)
					break
				}
				if !storeIG(ig, false) {
					return
				}
				igs = append(igs, ig)
				timing = append(timing, "new-integration")
				break
			}
		}
		doRestart := func() (err error, pan any) {
			defer func() { pan = recover() }()
			err = mgr.Restart()
			return
		}
		var rerr error
		var pan any
		switch mode {
		case 0, 1: // random instant
			time.Sleep(time.Duration(r.Intn(8)) * time.Millisecond)
			rerr, pan = doRestart()
			timing = append(timing, "random")
		case 2: // while a runner is between its two transactions
			done := make(chan struct{})
			var (
				once    sync.Once
				smu     sync.Mutex
				started bool
			)
			pmu.Lock()
			atPoint["between-txs"] = func() {
				once.Do(func() {
					smu.Lock()
					started = true
					smu.Unlock()
					go func() {
						rerr, pan = doRestart()
						close(done)
					}()
					time.Sleep(2 * time.Millisecond)
				})
			}
			pmu.Unlock()
			select {
			case <-done:
				c.Obs("restarts_at_hook_points", 1)
				timing = append(timing, "between-txs")
			case <-time.After(3 * time.Second):
				// withdraw the hook; if it has not fired, no runner passes that point any more
				pmu.Lock()
				delete(atPoint, "between-txs")
				pmu.Unlock()
				smu.Lock()
				st := started
				smu.Unlock()
				if st || func() bool { once.Do(func() {}); smu.Lock(); defer smu.Unlock(); return started }() {
					select {
					case <-done:
						c.Obs("restarts_at_hook_points", 1)
						timing = append(timing, "between-txs")
					case <-time.After(60 * time.Second):
						c.Inconclusive("restart issued between two transactions did not return")
						return
					}
				} else {
					rerr, pan = doRestart()
					timing = append(timing, "random")
				}
			}
		case 5: // a second integration is stored and a second restart requested while the first restart has read the
			// configuration (its tasks are loaded) but has not signalled start-up yet: both report success, so the
			// second integration must run afterwards
			var late *c20IG
			if i := len(igs); i < len(namePoolIG) {
				st := uint64(r.Range(1, 5))
				late = &c20IG{Name: namePoolIG[i], Table: namePoolTbl[i], Enabled: true, InDB: true, DBStart: st, DBEnabled: true}
				late.Refs = []model.SrcRef{{Name: srcs[0].Name, Start: st, Stop: st + uint64(r.Range(12, 25))}}
			}
			if late == nil || !settled() {
				rerr, pan = doRestart()
				timing = append(timing, "random")
				break
			}
			res := make(chan struct{})
			var (
				rerr2  error
				pan2   any
				fired  bool
				stored bool
			)
			pmu.Lock()
			atEvent["task-loaded"] = func() {
				fired = true
				stored = storeIG(late, false)
				if !stored {
					close(res)
					return
				}
				go func() {
					rerr2, pan2 = doRestart()
					close(res)
				}()
				time.Sleep(3 * time.Millisecond)
			}
			pmu.Unlock()
			rerr, pan = doRestart()
			pmu.Lock()
			delete(atEvent, "task-loaded")
			pmu.Unlock()
			timing = append(timing, "second-restart-while-first-has-loaded")
			if !fired {
				break // the restarted generation has no task: nothing to interleave with
			}
			select {
			case <-res:
			case <-time.After(60 * time.Second):
				c.Inconclusive("the second restart did not return")
				return
			}
			if !stored {
				return
			}
			igs = append(igs, late)
			c.Obs("restarts", 1)
			c.Obs("restarts_at_hook_points", 1)
			c.Obs("overlapping_restarts", 1)
			if pan == nil && rerr == nil {
				startups++
			}
			if pan2 != nil {
				pan = pan2
			}
			if rerr2 != nil {
				rerr = rerr2
			}
		case 3, 4: // immediately after the previous start-up signal: Run has signalled but not yet re-armed
			if !settled() {
				c.Inconclusive("a run never passed its start-up point")
				return
			}
			hold := make(chan struct{})
			pmu.Lock()
			atPoint["after-startup-signal"] = func() { <-hold }
			pmu.Unlock()
			rerr, pan = doRestart()
			if pan == nil && rerr == nil {
				// the new Run is parked right after its start-up signal: restart again at once
				res := make(chan struct{})
				var rerr2 error
				var pan2 any
				go func() {
					rerr2, pan2 = doRestart()
					close(res)
				}()
				time.Sleep(3 * time.Millisecond)
				close(hold)
				select {
				case <-res:
				case <-time.After(30 * time.Second):
					c.Inconclusive("restart issued right after a start-up signal did not return")
					return
				}
				c.Obs("restarts", 1)
				c.Obs("restarts_at_hook_points", 1)
				if pan2 == nil && rerr2 == nil {
					startups++
				}
				if pan2 != nil {
					pan = pan2
				}
				if rerr2 != nil {
					rerr = rerr2
				}
				timing = append(timing, "after-startup-signal")
			} else {
				close(hold)
			}
		}
		c.Obs("restarts", 1)
		if pan == nil && rerr == nil {
			startups++
		}
		if pan != nil {
			c.Violate("panic:shovel.(*Manager).Restart:"+lastOr(timing, "random"), merge(detail, map[string]any{"panic": fmt.Sprint(pan), "timing": timing}), "Restart panicked (%s): %v", lastOr(timing, "random"), pan)
			break
		}
		if rerr != nil {
			c.Violate("restart-error-on-valid-config", merge(detail, map[string]any{"error": rerr.Error()}), "Restart failed on a valid configuration: %v", rerr)
			break
		}
		compare(fmt.Sprintf("after restart %d (%s)", k+1, lastOr(timing, "random")))
	}
	// let the runners finish (stop blocks), then judge the whole log once more
	deadline := time.Now().Add(40 * time.Second)
	for time.Now().Before(deadline) {
		evs := log.snapshot()
		live := 0
		for _, e := range evs {
			switch e.name {
			case "runner-enter":
				live++
			case "runner-exit":
				live--
			}
		}
		if live == 0 {
			break
		}
		time.Sleep(10 * time.Millisecond)
	}
	evs := log.snapshot()
	c20Analyse(c, evs, detail)
	c.Obs("events", int64(len(evs)))
	c.Evals(int64(len(evs)))
	if us := pg.Unsupported(); len(us) > 0 {
		c.Inconclusive("fakepg contract left: %v", us)
	}
	mix := fmt.Sprintf("srcs(file=%v,db=%v) igs=%d clash=%v", anySrc(srcs, true), anySrc(srcs, false), len(igs), clash)
	sort.Strings(timing)
	c.SetSig("%s timing=%s", mix, strings.Join(uniq(timing), "+"))
	if c.Index < 3 {
		c.Sample(map[string]any{"file_config": string(confJSON), "expected_tasks": expected(), "restart_timing": timing, "events": len(evs)})
	}
	_ = pgxpool.Config{}
}

func c20DiffClass(got, want []string) string {
	switch {
	case len(got) < len(want):
		return "task-missing"
	case len(got) > len(want):
		return "extra-task"
	}
	return "task-settings"
}

func lastOr(xs []string, d string) string {
	if len(xs) == 0 {
		return d
	}
	return xs[len(xs)-1]
}

func anySrc(ss []*c20Src, file bool) bool {
	for _, s := range ss {
		if file && s.InFile || !file && s.InDB {
			return true
		}
	}
	return false
}

func uniq(xs []string) []string {
	var res []string
	for i, x := range xs {
		if i == 0 || xs[i-1] != x {
			res = append(res, x)
		}
	}
	return res
}
