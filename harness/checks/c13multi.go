package checks

import (
	"fmt"

	"github.com/indexsupply/shovel/dig"
	"github.com/indexsupply/shovel/eth"

	"verif/harness/gen"
	"verif/harness/refmodel"
	"verif/harness/vk"
)

// c13Multi: several integrations for different events are BUILT first (as
// loadTasks does for every configured integration and every concurrency slot)
// and only then used. Each must still contribute rows for exactly the logs of
// its own event: nothing an integration computed when it was built (its
// signature hash) may depend on what was built after it.
func c13Multi(c *vk.Case) {
	r := c.R
	k := r.Range(2, 5)
	opts := gen.ABIOpts{MaxDepth: 1, MaxInputs: 3, MaxLeaves: 12, DynLen: 2, MinDynLen: 1, Ks: []int{1, 2, 3}}
	var (
		decls []*abiDecl
		vals  [][]any
		igs   []dig.Integration
		sigs  = map[string]bool{}
	)
	for len(decls) < k {
		fs := gen.Select(r, gen.Inputs(r, opts), 2, 3)
		name := gen.EventName(r)
		sig := refmodel.EventSignature(name, fs)
		if sigs[sig] {
			continue
		}
		sigs[sig] = true
		decls = append(decls, newABIDecl(name, fs))
		vals = append(vals, gen.Values(r, fs, opts))
	}
	for _, d := range decls {
		ig, err, p := newIntegration(d, nil)
		if p != nil {
			c.Violate("multi:panic:"+p.key(), map[string]any{"decl": d.describe()}, "building the integration panicked: %s", p.Val)
			return
		}
		if err != nil {
			c.Inconclusive("building integration %s: %v", d.describe(), err)
			return
		}
		igs = append(igs, ig)
	}
	// one block holding one log of every event
	var logs []eth.Log
	for i, d := range decls {
		l := eth.Log{Idx: eth.Uint64(i), Address: r.Bytes(20), Data: refmodel.EncodeTuple(d.fields, vals[i])}
		l.Topics = append(l.Topics, refmodel.Keccak256([]byte(refmodel.EventSignature(d.name, d.fields))))
		logs = append(logs, l)
	}
	for i, ig := range igs {
		blk := eth.Block{Header: eth.Header{Number: 7, Hash: r.Bytes(32)}}
		tx := eth.Tx{Idx: 0, PrecompHash: r.Bytes(32)}
		for _, l := range logs {
			cp := eth.Log{Idx: l.Idx, Address: append([]byte{}, l.Address...), Data: append([]byte{}, l.Data...)}
			for _, t := range l.Topics {
				cp.Topics = append(cp.Topics, append([]byte{}, t...))
			}
			tx.Logs = append(tx.Logs, cp)
		}
		blk.Txs = eth.Txs{tx}
		rc := &recConn{}
		_, err, pn := safeInsert(ig, rc, []eth.Block{blk})
		c.Evals(1)
		c.Obs("multi_integration_inserts", 1)
		detail := map[string]any{"built": len(igs), "position": i, "event": refmodel.EventSignature(decls[i].name, decls[i].fields), "rows": len(rc.rows), "err": fmt.Sprint(err)}
		if pn != nil {
			c.Violate("multi:panic:"+pn.key(), detail, "Insert panicked: %s", pn.Val)
			return
		}
		want := len(refmodel.ExpectedRows(decls[i].fields, vals[i]))
		switch {
		case err != nil:
			// the only log whose topic count and hash match is its own, and that one is well-formed
			c.Violate("multi:integration-fails-on-block-with-other-events", detail, "integration %d of %d failed on a block holding one log of every event: %v", i+1, len(igs), err)
		case len(rc.rows) != want:
			c.Violate("multi:rows-not-from-own-event-only", merge(detail, map[string]any{"want_rows": want}),
				"integration %d of %d (built before the later ones) produced %d rows, its own log yields %d", i+1, len(igs), len(rc.rows), want)
		}
	}
	c.SetSig("multi:k=%d", k)
	if c.Index%64 == 0 {
		var s []string
		for _, d := range decls {
			s = append(s, refmodel.EventSignature(d.name, d.fields))
		}
		c.Sample(map[string]any{"family": "several integrations built before use", "events": s})
	}
}
