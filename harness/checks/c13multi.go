package checks

import (
	"context"
	"encoding/json"
	"fmt"

	"github.com/indexsupply/shovel/dig"
	"github.com/indexsupply/shovel/eth"
	"github.com/indexsupply/shovel/shovel"
	"github.com/indexsupply/shovel/shovel/config"
	"github.com/indexsupply/shovel/wpg"

	"verif/harness/fakepg"
	"verif/harness/gen"
	"verif/harness/refmodel"
	"verif/harness/vk"
)

// c13Multi: several integrations for different events are BUILT first (as
// loadTasks does for every configured integration and every concurrency slot)
// and only then used. Each must still contribute rows for exactly the logs of
// its own event: nothing an integration computed when it was built (its
// signature hash) may depend on what was built after it.
func c13Multi(c *vk.Case) {
	r := c.R
	k := r.Range(2, 5)
	opts := gen.ABIOpts{MaxDepth: 1, MaxInputs: 3, MaxLeaves: 12, DynLen: 2, MinDynLen: 1, Ks: []int{1, 2, 3}}
	var (
		decls []*abiDecl
		vals  [][]any
		igs   []dig.Integration
		sigs  = map[string]bool{}
	)
	for len(decls) < k {
		fs := gen.Select(r, gen.Inputs(r, opts), 2, 3)
		name := gen.EventName(r)
		sig := refmodel.EventSignature(name, fs)
		if sigs[sig] {
			continue
		}
		sigs[sig] = true
		decls = append(decls, newABIDecl(name, fs))
		vals = append(vals, gen.Values(r, fs, opts))
	}
	if c.Index%2 == 1 {
		// the integrations come from the database, the way loadTasks gets the ones submitted through the dashboard:
		// stored as the handler stores them, loaded together with config.Root.AllIntegrations, then built
		var err error
		if igs, err = c13StoredIntegrations(decls); err != nil {
			c.Inconclusive("integrations stored in the database: %v", err)
			return
		}
		c.Obs("multi_scenarios_loaded_from_database", 1)
		decls = decls[:len(igs)]
	}
	for _, d := range decls[len(igs):] {
		ig, err, p := newIntegration(d, nil)
		if p != nil {
			c.Violate("multi:panic:"+p.key(), map[string]any{"decl": d.describe()}, "building the integration panicked: %s", p.Val)
			return
		}
		if err != nil {
			c.Inconclusive("building integration %s: %v", d.describe(), err)
			return
		}
		igs = append(igs, ig)
	}
	// one block holding one log of every event
	var logs []eth.Log
	for i, d := range decls {
		l := eth.Log{Idx: eth.Uint64(i), Address: r.Bytes(20), Data: refmodel.EncodeTuple(d.fields, vals[i])}
		l.Topics = append(l.Topics, refmodel.Keccak256([]byte(refmodel.EventSignature(d.name, d.fields))))
		logs = append(logs, l)
	}
	for i, ig := range igs {
		blk := eth.Block{Header: eth.Header{Number: 7, Hash: r.Bytes(32)}}
		tx := eth.Tx{Idx: 0, PrecompHash: r.Bytes(32)}
		for _, l := range logs {
			cp := eth.Log{Idx: l.Idx, Address: append([]byte{}, l.Address...), Data: append([]byte{}, l.Data...)}
			for _, t := range l.Topics {
				cp.Topics = append(cp.Topics, append([]byte{}, t...))
			}
			tx.Logs = append(tx.Logs, cp)
		}
		blk.Txs = eth.Txs{tx}
		rc := &recConn{}
		_, err, pn := safeInsert(ig, rc, []eth.Block{blk})
		c.Evals(1)
		c.Obs("multi_integration_inserts", 1)
		detail := map[string]any{"built": len(igs), "position": i, "event": refmodel.EventSignature(decls[i].name, decls[i].fields), "rows": len(rc.rows), "err": fmt.Sprint(err)}
		if pn != nil {
			c.Violate("multi:panic:"+pn.key(), detail, "Insert panicked: %s", pn.Val)
			return
		}
		want := len(refmodel.ExpectedRows(decls[i].fields, vals[i]))
		switch {
		case err != nil:
			// the only log whose topic count and hash match is its own, and that one is well-formed
			c.Violate("multi:integration-fails-on-block-with-other-events", detail, "integration %d of %d failed on a block holding one log of every event: %v", i+1, len(igs), err)
		case len(rc.rows) != want:
			c.Violate("multi:rows-not-from-own-event-only", merge(detail, map[string]any{"want_rows": want}),
				"integration %d of %d (built before the later ones) produced %d rows, its own log yields %d", i+1, len(igs), len(rc.rows), want)
		}
	}
	c.SetSig("multi:k=%d", k)
	if c.Index%64 == 0 {
		var s []string
		for _, d := range decls {
			s = append(s, refmodel.EventSignature(d.name, d.fields))
		}
		c.Sample(map[string]any{"family": "several integrations built before use", "events": s})
	}
}

// c13StoredIntegrations stores one integration per declaration in shovel.integrations of a fresh database (decoded,
// checked and re-encoded as web.Handler.SaveIntegration does), loads them all with config.Root.AllIntegrations and
// builds their destinations; the result is in the order of decls.
func c13StoredIntegrations(decls []*abiDecl) (res []dig.Integration, err error) {
	defer func() {
		if r := recover(); r != nil {
			err = fmt.Errorf("panic: %v", r)
		}
	}()
	pg, err := fakepg.New()
	if err != nil {
		return nil, err
	}
	defer pg.Close()
	pg.SetSchemaScript(shovel.Schema)
	ctx := context.Background()
	pool, err := wpg.NewPool(ctx, pg.URL())
	if err != nil {
		return nil, err
	}
	defer pool.Close()
	if _, err := pool.Exec(ctx, shovel.Schema); err != nil {
		return nil, err
	}
	for i, d := range decls {
		direct, err, p := newIntegration(d, nil)
		if err != nil || p != nil {
			return nil, fmt.Errorf("building %s directly: %v %v", d.describe(), err, p)
		}
		raw, err := json.Marshal(map[string]any{
			"name": fmt.Sprintf("ig_%d", i), "enabled": true, "sources": []any{map[string]any{"name": "src"}},
			"table": direct.Table, "event": d.ev,
		})
		if err != nil {
			return nil, err
		}
		var ig config.Integration
		if err := json.Unmarshal(raw, &ig); err != nil {
			return nil, err
		}
		if err := config.CheckUserInput(config.Root{Integrations: []config.Integration{ig}}); err != nil {
			return nil, err
		}
		cj, err := json.Marshal(ig)
		if err != nil {
			return nil, err
		}
		if _, err := pool.Exec(ctx, `insert into shovel.integrations(name, conf) values ($1, $2)`, ig.Name, cj); err != nil {
			return nil, err
		}
	}
	all, err := config.Root{}.AllIntegrations(ctx, pool)
	if err != nil {
		return nil, err
	}
	byName := map[string]config.Integration{}
	for _, ig := range all {
		byName[ig.Name] = ig
	}
	for i := range decls {
		ig, ok := byName[fmt.Sprintf("ig_%d", i)]
		if !ok {
			return nil, fmt.Errorf("integration ig_%d was stored and is not among the %d loaded", i, len(all))
		}
		dest, err := shovel.NewDestination(ig)
		if err != nil {
			return nil, fmt.Errorf("destination of %s: %w", decls[i].describe(), err)
		}
		got, ok := dest.(dig.Integration)
		if !ok {
			return nil, fmt.Errorf("destination is %T", dest)
		}
		res = append(res, got)
	}
	return res, nil
}
