package checks

import (
	"bytes"
	"context"
	"encoding/hex"
	"encoding/json"
	"errors"
	"fmt"
	"math/big"
	"net/http"
	"net/http/httptest"
	"net/url"
	"regexp"
	"runtime/debug"
	"sort"
	"strings"

	"github.com/indexsupply/shovel/shovel"
	"github.com/indexsupply/shovel/shovel/config"
	"github.com/indexsupply/shovel/shovel/web"
	"github.com/jackc/pgx/v5"
	"github.com/jackc/pgx/v5/pgconn"

	"verif/harness/fakepg"
	"verif/harness/model"
	"verif/harness/refmodel"
	"verif/harness/scen"
	"verif/harness/simnode"
	"verif/harness/vk"
)

// C15 — no configuration string reaches SQL text unless it passed the
// identifier check. Every string-valued position of a rich configuration tree
// (file configuration, dashboard-submitted integration, dashboard-submitted
// source) is replaced in turn by hostile strings carrying the marker "m4rk";
// each variant runs the whole lifecycle that builds SQL; the oracle is a
// substring search over every statement text the fake Postgres received.

const (
	c15Mark      = "m4rk"
	c15ChainMark = `ch4in'";--`
	c15Shards    = 48
)

type c15String struct {
	ID      string
	Val     string
	Hostile bool
	// Tail: the planted value is "<original value> <Val>" (a validator that only
	// looks at a prefix or the first word lets it pass).
	Tail bool
	// DirTail: the planted value is "<first word of the original value> <Val>"
	// (Val starts with a legitimate index direction).
	DirTail bool
	// Only: restricts the string to path classes with this suffix ("" = all)
	Only []string
}

// value returns what is planted at a position whose base value is orig.
func (s c15String) value(orig string) string {
	switch {
	case s.Tail:
		return orig + " " + s.Val
	case s.DirTail:
		return strings.Fields(orig + " x")[0] + " " + s.Val
	}
	return s.Val
}

func (s c15String) appliesTo(class string) bool {
	if len(s.Only) == 0 {
		return true
	}
	for _, suf := range s.Only {
		if strings.HasSuffix(class, suf) {
			return true
		}
	}
	return false
}

var c15ListClasses = []string{"table.index[][]", "table.unique[][]"}

func c15Strings(tier string) []c15String {
	ss := []c15String{
		{ID: "quote-semicolon-comment", Val: "m4rk'; drop table x;--", Hostile: true},
		{ID: "dquote-space", Val: `m4rk" `, Hostile: true},
		{ID: "paren-semicolon", Val: "m4rk);", Hostile: true},
		{ID: "space-desc", Val: "m4rk desc", Hostile: true},
		{ID: "dollar-dollar", Val: "m4rk$$", Hostile: true},
		{ID: "single-quote", Val: "m4rk'x", Hostile: true},
		{ID: "double-quote", Val: `m4rk"x`, Hostile: true},
		// a valid value followed by hostile text: catches validators that look at a prefix / the first word(s) only
		{ID: "valid-then-tail", Val: "m4rk'; drop table x;--", Hostile: true, Tail: true},
		{ID: "valid-then-direction-then-tail", Val: "asc ); drop table m4rk;--", Hostile: true, DirTail: true},
		// index-entry shapes: a direction followed by more text, separators other than one space
		{ID: "index-direction-tail", Val: "m4rk asc ); drop table x;--", Hostile: true, Only: c15ListClasses},
		{ID: "index-direction-word", Val: "m4rk desc x", Hostile: true, Only: c15ListClasses},
		{ID: "index-two-spaces", Val: "m4rk  desc", Hostile: true, Only: c15ListClasses},
		{ID: "index-direction-comma", Val: "m4rk asc,x", Hostile: true, Only: c15ListClasses},
		{ID: "index-tab", Val: "m4rk\tdesc); --", Hostile: true, Only: c15ListClasses},
		// a longer legitimate-looking ordering clause in front of the tail: catches validators that check the first few words
		{ID: "index-direction-nulls-tail", Val: "desc nulls last ); drop table m4rk;--", Hostile: true, DirTail: true, Only: c15ListClasses},
		{ID: "control-hyphen", Val: "m4rk_ok-1"},
		{ID: "control-plain", Val: "m4rk_ok1"},
	}
	if tier == "thorough" {
		ss = append(ss,
			c15String{ID: "semicolon", Val: "m4rk;x", Hostile: true},
			c15String{ID: "newline", Val: "m4rk\nx", Hostile: true},
			c15String{ID: "comma", Val: "m4rk,x", Hostile: true},
			c15String{ID: "comment-open", Val: "m4rk/*", Hostile: true},
			c15String{ID: "backslash", Val: `m4rk\x`, Hostile: true},
			c15String{ID: "equals", Val: "m4rk=1", Hostile: true},
			c15String{ID: "valid-then-newline-tail", Val: "\n); drop table m4rk;--", Hostile: true, Tail: true},
		)
	}
	return ss
}

// c15DirectionOnly: an index entry "<identifier> asc|desc" (any number of
// spaces) is the documented way to give a direction.
var c15DirectionOnly = regexp.MustCompile(`^[A-Za-z0-9_-]+ +(?i:asc|desc)$`)

func c15NBases(tier string) int {
	if tier == "thorough" {
		return 3
	}
	return 1
}

func init() {
	vk.Register(&vk.Check{
		ID:        "C15",
		Level:     "exploration",
		Technique: "marker planting: every string-valued position of rich configuration trees (file, dashboard integration, dashboard source) is replaced in turn by hostile strings; each variant runs decode → ValidateFix → Migrate → task loading → steps with reference lookups, notifications and a reorg deletion (and the real dashboard handlers); every statement text the fake Postgres receives (simple Query and Parse) is searched for the marker; chain data carries SQL metacharacters and its own marker",
		Rule: "base configurations: 2 sources (url + urls[]), 4 file integrations (log with user unique/index lists and notifications; log with nested tuple components carrying filters and filter_refs, block-field filters and filter_refs; tx on two sources; trace sharing a table) plus a complete dashboard integration of the rich shape and a dashboard source. " +
			"The JSON tree is walked generically; positions are grouped by path class (array indexes dropped, nested components collapsed); the control variants of one path class run in one case (which judges the vacuity guard of the class), the hostile variants are spread evenly over the cases. For the two control strings all linked occurrences of a name are renamed together (integration↔filter_ref.integration, source↔sources[].name, table↔filter_ref.table, column↔inputs/block/notification/unique/index/filter_ref.column); hostile strings are planted at one position only (a source definition is planted together with the references to it, otherwise the source is never used). " +
			"signature = (lifecycle, path class, string, outcome); a lifecycle is non-trivial when it was rejected or ran steps. The base also runs both lifecycles with statement_cache_capacity=0 in pg_url (a pooler deployment).",
		Assumptions: []string{
			"a violation is a hostile marker found in statement TEXT; parameters and COPY data are exempt (they are not text of a statement)",
			"table.index[][] entries may carry a direction: a planted value of the form '<identifier><spaces>asc|desc' in that position is allowed in SQL text; anything else there (text after the direction, other separators) is a violation",
			"a position whose hostile value is accepted but never reaches SQL text (replaced, ignored or passed as a parameter) is not a violation: the statement restricts values that are spliced into SQL",
			"values the JSON decoder or a closed value domain rejects (poll_duration, filter_agg, chainID) count as rejected",
			"pg_url is not a position: the harness connects to its own fake server",
			"the dashboard handlers are the real web.Handler.SaveIntegration/SaveSource with a real shovel.Manager; Manager.Restart is made to fail while loading (a stored integration naming a source that does not exist is present during the POST) so that no free-running runner goroutines exist; tasks are then built with the same loadTasks (VerifLoadTasks) and stepped by the harness",
			"the operator creates the table a dashboard integration names (shovel never migrates database-stored integrations)",
			"tasks on database-stored sources are stepped like the others (their head poller ticks every second and ends when the scenario retires the node)",
			"hyphen is accepted by validation but is not an identifier character: the hyphen control only has to pass validation, the plain control has to run the whole lifecycle",
		},
		NCases:           func(tier string) int { return c15Shards * c15NBases(tier) },
		Run:              c15Run,
		CrashIsViolation: true,
		CaseTimeoutS:     600,
		MinObs: func(tier string) map[string]int64 {
			n := int64(c15NBases(tier))
			return map[string]int64{
				"lifecycles": 1500 * n, "lifecycles_file": 900 * n, "lifecycles_dashboard": 500 * n,
				"statements_scanned": 40000 * n, "rejected_before_sql": 500 * n,
				"control_ran": 150 * n, "control_marker_in_sql": 60 * n,
				"stmt_copy": 1000 * n, "stmt_lookup": 1000 * n, "stmt_notify": 1000 * n, "stmt_delete_rows": 300 * n, "stmt_ddl": 1000 * n, "stmt_app_name": 1000 * n,
				"dashboard_posts": 500 * n, "chain_marker_rows": 500 * n,
			}
		},
		Extra: func(tier string) map[string]any {
			var ids []string
			for _, s := range c15Strings(tier) {
				ids = append(ids, s.ID+"="+s.Val)
			}
			return map[string]any{"strings": ids, "bases": c15NBases(tier), "positions_exhaustive_for_bases": true}
		},
	})
}

// ---------------------------------------------------------------- base document

type c15Base struct {
	doc     map[string]any
	a1, a2  []byte // addresses carrying SQL metacharacters
	a3      []byte // contract address
	regIn   []refmodel.Field
	xferIn  []refmodel.Field
	seed    uint64
	variant int
}

func c15Addr(r *vk.RNG, tag byte) []byte {
	b := append([]byte(c15ChainMark), r.Bytes(10)...)
	b[19] = tag
	return b[:20]
}

func hex0x(b []byte) string { return "0x" + hex.EncodeToString(b) }

func c15Ref(ig, table, col string) map[string]any {
	return map[string]any{"integration": ig, "table": table, "column": col}
}

func c15Cols(cs ...string) []any {
	var res []any
	for i := 0; i+1 < len(cs); i += 2 {
		res = append(res, map[string]any{"name": cs[i], "type": cs[i+1]})
	}
	return res
}

func strs(xs ...string) []any {
	var res []any
	for _, x := range xs {
		res = append(res, x)
	}
	return res
}

// c15Rich is the integration with nested components, filters and references.
// complete = the declaration names the identity fields itself (what a
// database-stored integration needs, since it is run without ValidateFix).
// dash = the dashboard submission: references WITHOUT an integration (table and
// column only, plus filter_arg so that the filter is evaluated) also sit on a
// top-level input and on a block field; in a file such references are only
// possible on nested components (ValidateFilterRefs rejects them elsewhere).
func c15Rich(b *c15Base, name, table string, srcs []any, complete, dash bool) map[string]any {
	// a reference without an integration (table and column only): always in the dashboard submission; in the file
	// configuration only in every third variant (not in the quick tier's single one), so that a validation which starts to refuse such references inside
	// tuple components does not take every file lifecycle with it
	bareRef := func() map[string]any {
		if dash || b.variant%3 == 1 {
			return map[string]any{"table": "t_a", "column": "who"}
		}
		return c15Ref("ig-a", "t_a", "who")
	}
	inner := []any{
		map[string]any{"name": "x", "type": "bytes32", "column": "d_x", "filter_op": "contains", "filter_ref": c15Ref("ig-a", "t_a", "who")},
	}
	comps := []any{
		map[string]any{"name": "a", "type": "address", "column": "d_a", "filter_op": "contains", "filter_ref": c15Ref("ig-a", "t_a", "who")},
		map[string]any{"name": "v", "type": "uint256", "column": "d_v", "filter_op": "gt", "filter_arg": strs("0")},
		map[string]any{"name": "memo", "type": "string", "column": "memo", "filter_op": "ne", "filter_arg": strs("nope")},
		map[string]any{"name": "inner", "type": "tuple", "components": inner},
		map[string]any{"name": "w", "type": "address", "column": "d_w", "filter_op": "contains", "filter_arg": strs(hex0x(b.a1)), "filter_ref": bareRef()},
	}
	inputs := []any{
		map[string]any{"indexed": true, "name": "from", "type": "address", "column": "f", "filter_op": "contains", "filter_ref": c15Ref("ig-a", "t_a", "who")},
		map[string]any{"indexed": true, "name": "to", "type": "address", "column": "dst", "filter_op": "!contains", "filter_arg": strs(hex0x(b.a3))},
		map[string]any{"name": "d", "type": "tuple", "components": comps},
		map[string]any{"name": "note", "type": "bytes", "column": "note"},
	}
	if dash {
		inputs[1] = map[string]any{"indexed": true, "name": "to", "type": "address", "column": "dst", "filter_op": "contains", "filter_arg": strs(hex0x(b.a2)), "filter_ref": bareRef()}
	}
	cols := c15Cols("f", "bytea", "dst", "bytea", "d_a", "bytea", "d_v", "numeric", "memo", "text", "d_x", "bytea", "d_w", "bytea", "note", "bytea",
		"log_addr", "bytea", "tx_to", "bytea", "tx_input", "bytea", "block_time", "numeric", "spare", "text")
	block := []any{
		map[string]any{"name": "log_addr", "column": "log_addr", "filter_op": "contains", "filter_arg": strs(hex0x(b.a3))},
		map[string]any{"name": "tx_to", "column": "tx_to", "filter_op": "contains", "filter_ref": c15Ref("ig-a", "t_a", "who")},
		map[string]any{"name": "tx_input", "column": "tx_input"},
		map[string]any{"name": "block_time", "column": "block_time"},
	}
	if dash {
		block[2] = map[string]any{"name": "tx_input", "column": "tx_input", "filter_op": "contains", "filter_arg": strs(hex0x([]byte(c15ChainMark))), "filter_ref": bareRef()}
	}
	tbl := map[string]any{"name": table, "columns": cols, "index": []any{strs("f"), strs("d_a", "block_num desc")}}
	if complete {
		cols = append(cols, c15Cols("ig_name", "text", "src_name", "text", "block_num", "numeric", "tx_idx", "int", "log_idx", "int", "abi_idx", "int2")...)
		tbl["columns"] = cols
		for _, n := range []string{"ig_name", "src_name", "block_num", "tx_idx", "log_idx", "abi_idx"} {
			block = append(block, map[string]any{"name": n, "column": n})
		}
		tbl["unique"] = []any{strs("ig_name", "src_name", "block_num", "tx_idx", "log_idx", "abi_idx")}
	}
	return map[string]any{
		"name": name, "enabled": true, "sources": srcs, "filter_agg": "or",
		"table":        tbl,
		"notification": map[string]any{"columns": strs("f", "memo", "block_num")},
		"event":        map[string]any{"name": "Xfer", "type": "event", "anonymous": false, "inputs": inputs},
		"block":        block,
	}
}

func srcRef(name string) map[string]any { return map[string]any{"name": name, "start": 1} }

// c15MakeBase builds base configuration number `variant` for a seed: the
// structure is fixed (all position classes exist in every base), addresses,
// batch/concurrency, list orders and optional members vary.
func c15MakeBase(seed uint64, variant int) *c15Base {
	r := vk.NewRNG(vk.Derive(seed, 0xC15, uint64(variant)))
	b := &c15Base{seed: seed, variant: variant}
	b.a1, b.a2, b.a3 = c15Addr(r, 1), c15Addr(r, 2), c15Addr(r, 3)
	b.regIn = []refmodel.Field{
		{Name: "who", Type: refmodel.Address(), Indexed: true, Column: "who"},
		{Name: "amt", Type: refmodel.Uint(256), Column: "amt"},
	}
	b.xferIn = []refmodel.Field{
		{Name: "from", Type: refmodel.Address(), Indexed: true, Column: "f"},
		{Name: "to", Type: refmodel.Address(), Indexed: true, Column: "dst"},
		{Name: "d", Type: refmodel.TupleOf(
			refmodel.F("a", refmodel.Address(), "d_a"),
			refmodel.F("v", refmodel.Uint(256), "d_v"),
			refmodel.F("memo", refmodel.String(), "memo"),
			refmodel.F("inner", refmodel.TupleOf(refmodel.F("x", refmodel.BytesN(32), "d_x")), ""),
			refmodel.F("w", refmodel.Address(), "d_w"),
		)},
		{Name: "note", Type: refmodel.Bytes(), Column: "note"},
	}
	igA := map[string]any{
		"name": "ig-a", "enabled": true, "sources": []any{srcRef("src-a")},
		"table": map[string]any{
			"name":    "t_a",
			"columns": c15Cols("who", "bytea", "amt", "numeric", "block_time", "numeric", "log_addr", "bytea", "spare", "text"),
			"unique":  []any{strs("ig_name", "src_name", "block_num", "tx_idx", "log_idx", "abi_idx", "who")},
			"index":   []any{strs("who"), strs("block_num desc", "tx_idx asc")},
		},
		"notification": map[string]any{"columns": strs("who", "block_num")},
		"event": map[string]any{"name": "Reg", "type": "event", "anonymous": false, "inputs": []any{
			map[string]any{"indexed": true, "name": "who", "type": "address", "column": "who"},
			map[string]any{"name": "amt", "type": "uint256", "column": "amt", "filter_op": "gt", "filter_arg": strs("0")},
		}},
		"block": []any{
			map[string]any{"name": "block_time", "column": "block_time"},
			map[string]any{"name": "log_addr", "column": "log_addr", "filter_op": "contains", "filter_arg": strs(hex0x(b.a3))},
		},
	}
	igB := c15Rich(b, "ig-b", "t_b", []any{srcRef("src-a")}, variant%2 == 1, false)
	igC := map[string]any{
		"name": "ig-c", "enabled": true, "sources": []any{srcRef("src-a"), srcRef("src-b")},
		"table": map[string]any{
			"name":    "t_c",
			"columns": c15Cols("tx_hash", "bytea", "tx_input", "bytea", "tx_value", "numeric", "spare", "text", "tx_idx", "int"),
		},
		"notification": map[string]any{"columns": strs("tx_hash")},
		"block": []any{
			map[string]any{"name": "tx_hash", "column": "tx_hash"},
			map[string]any{"name": "tx_input", "column": "tx_input"},
			map[string]any{"name": "tx_value", "column": "tx_value", "filter_op": "gt", "filter_arg": strs("0")},
			// an identity field the user selects himself (nothing else of the configuration names its column)
			map[string]any{"name": "tx_idx", "column": "tx_idx"},
		},
	}
	igD := map[string]any{
		"name": "ig-d", "enabled": true, "sources": []any{srcRef("src-b")},
		"table": map[string]any{
			"name": "t_c",
			"columns": c15Cols("trace_action_from", "bytea", "trace_action_to", "bytea", "trace_action_call_type", "text",
				"trace_action_value", "numeric", "tx_hash", "bytea"),
			"index": []any{strs("trace_action_from")},
		},
		"block": []any{
			map[string]any{"name": "trace_action_from", "column": "trace_action_from"},
			map[string]any{"name": "trace_action_to", "column": "trace_action_to"},
			map[string]any{"name": "trace_action_call_type", "column": "trace_action_call_type"},
			map[string]any{"name": "trace_action_value", "column": "trace_action_value"},
			map[string]any{"name": "tx_hash", "column": "tx_hash"},
		},
	}
	// the trace shape comes first on the shared table: its generated key is the
	// superset, so both shapes can be inserted (what a later shape gets is C16's subject)
	// an integration that declares no column at all: only the automatically added identity fields are stored (one row
	// per transaction); its table name and index entry are identifiers like any other
	igF := map[string]any{
		"name": "ig-f", "enabled": true, "sources": []any{srcRef("src-b")},
		"table": map[string]any{"name": "t_f", "columns": []any{}, "index": []any{strs("block_num desc")}},
	}
	igs := []any{igA, igB, igD, igC, igF}
	if variant%3 == 2 {
		igs = []any{igD, igA, igC, igB, igF}
	}
	b.doc = map[string]any{
		"dashboard": map[string]any{"root_password": "s3cret-pw", "enable_loopback_authn": true},
		"eth_sources": []any{
			map[string]any{"name": "src-a", "chain_id": 7, "url": "@@A", "urls": strs("@@A/alt"), "poll_duration": "1h", "batch_size": r.Range(2, 4), "concurrency": r.Range(1, 2)},
			map[string]any{"name": "src-b", "chain_id": 8, "url": "@@B", "poll_duration": "1h", "batch_size": r.Range(3, 6), "concurrency": 1},
		},
		"integrations":      igs,
		"$dash_source":      map[string]any{"chainID": "9", "name": "src-d", "ethURL": "@@B/dash"},
		"$dash_integration": c15Rich(b, "ig-e", "t_e", []any{srcRef("src-a"), srcRef("src-d")}, true, true),
	}
	return b
}

// content of the simulated chain: every block has two transactions; logs of
// both events, decoys, traces; addresses, strings, byte strings and tx input
// carry SQL metacharacters and the chain marker.
func (b *c15Base) content() simnode.Content {
	return func(blk *simnode.Block) {
		if blk.Num == 0 {
			return
		}
		r := vk.NewRNG(vk.Derive(b.seed, 0xC15C, blk.Version))
		for i := 0; i < 2; i++ {
			tx := simnode.Tx{
				Type: 2, Nonce: uint64(blk.Num*10) + uint64(i), Gas: 50000, GasPrice: big.NewInt(3), MaxPrio: big.NewInt(1), MaxFee: big.NewInt(5),
				Value: big.NewInt(int64(1 + r.Intn(1000))), From: b.a2, To: b.a1,
				Input:  append([]byte(c15ChainMark+" or 1=1; "), r.Bytes(8)...),
				Status: 1, GasUsed: 21000, EffGasPrice: big.NewInt(3),
			}
			tx.Logs = append(tx.Logs,
				model.MakeLog("Reg", b.regIn, []any{b.a1, big.NewInt(int64(7 + i))}, b.a3),
				model.MakeLog("Xfer", b.xferIn, []any{b.a1, b.a2,
					[]any{b.a1, big.NewInt(5), c15ChainMark + " memo", []any{append([]byte(c15ChainMark), r.Bytes(22)...)}, b.a1},
					append([]byte(c15ChainMark), r.Bytes(5)...)}, b.a3),
				simnode.Log{Addr: b.a3, Topics: [][]byte{r.Bytes(32)}, Data: []byte(c15ChainMark)},
			)
			tx.Traces = []simnode.Trace{
				{From: b.a1, To: b.a2, CallType: "call", Value: big.NewInt(1)},
				{From: b.a2, To: b.a1, CallType: c15ChainMark, Value: big.NewInt(2)},
			}
			blk.Txs = append(blk.Txs, tx)
		}
	}
}

// ---------------------------------------------------------------- generic tree

type c15Pos struct {
	path  []any // string keys and int indexes
	class string
	val   string
	group string // link group ("" = none)
	def   bool   // a source definition (planted together with its references)
}

func c15PathString(path []any) string {
	var sb strings.Builder
	for i, p := range path {
		switch v := p.(type) {
		case string:
			if i > 0 {
				sb.WriteByte('.')
			}
			sb.WriteString(v)
		case int:
			fmt.Fprintf(&sb, "[%d]", v)
		}
	}
	return sb.String()
}

var (
	c15IdxRe  = regexp.MustCompile(`\[\d+\]`)
	c15CompRe = regexp.MustCompile(`(\.components\[\])+`)
)

// c15Class abstracts a concrete path: indexes dropped, nested components
// collapsed, the dashboard documents named as the statement names them.
func c15Class(path []any) string {
	s := c15IdxRe.ReplaceAllString(c15PathString(path), "[]")
	s = c15CompRe.ReplaceAllString(s, ".components[]")
	s = strings.Replace(s, "$dash_integration", "integrations[]", 1)
	s = strings.Replace(s, "$dash_source", "save-source", 1)
	return s
}

func c15Walk(v any, path []any, out *[]c15Pos) {
	switch x := v.(type) {
	case map[string]any:
		keys := make([]string, 0, len(x))
		for k := range x {
			keys = append(keys, k)
		}
		sort.Strings(keys)
		for _, k := range keys {
			c15Walk(x[k], append(append([]any{}, path...), k), out)
		}
	case []any:
		for i := range x {
			c15Walk(x[i], append(append([]any{}, path...), i), out)
		}
	case string:
		*out = append(*out, c15Pos{path: path, val: x})
	}
}

func c15Copy(v any) any {
	switch x := v.(type) {
	case map[string]any:
		m := make(map[string]any, len(x))
		for k, e := range x {
			m[k] = c15Copy(e)
		}
		return m
	case []any:
		s := make([]any, len(x))
		for i, e := range x {
			s[i] = c15Copy(e)
		}
		return s
	}
	return v
}

func c15Get(v any, path []any) any {
	for _, p := range path {
		switch k := p.(type) {
		case string:
			m, ok := v.(map[string]any)
			if !ok {
				return nil
			}
			v = m[k]
		case int:
			s, ok := v.([]any)
			if !ok || k >= len(s) {
				return nil
			}
			v = s[k]
		}
	}
	return v
}

func c15Set(v any, path []any, val string) {
	parent := c15Get(v, path[:len(path)-1])
	switch k := path[len(path)-1].(type) {
	case string:
		parent.(map[string]any)[k] = val
	case int:
		parent.([]any)[k] = val
	}
}

func pathKey(path []any) string { return c15PathString(path) }

// c15Groups computes the link group of every name-bearing position.
func c15Groups(doc map[string]any) map[string]c15Pos {
	res := map[string]c15Pos{}
	put := func(path []any, group string, def bool) {
		s, ok := c15Get(doc, path).(string)
		if !ok {
			return
		}
		res[pathKey(path)] = c15Pos{path: path, val: s, group: group, def: def}
	}
	p := func(base []any, more ...any) []any { return append(append([]any{}, base...), more...) }
	type igInfo struct {
		path  []any
		m     map[string]any
		table string
	}
	var igs []igInfo
	if l, ok := doc["integrations"].([]any); ok {
		for i := range l {
			if m, ok := l[i].(map[string]any); ok {
				igs = append(igs, igInfo{path: []any{"integrations", i}, m: m})
			}
		}
	}
	if m, ok := doc["$dash_integration"].(map[string]any); ok {
		igs = append(igs, igInfo{path: []any{"$dash_integration"}, m: m})
	}
	tableOf := map[string]string{}
	for i := range igs {
		if t, ok := igs[i].m["table"].(map[string]any); ok {
			igs[i].table, _ = t["name"].(string)
		}
		if n, ok := igs[i].m["name"].(string); ok {
			tableOf[n] = igs[i].table
		}
	}
	if l, ok := doc["eth_sources"].([]any); ok {
		for i := range l {
			if m, ok := l[i].(map[string]any); ok {
				if n, ok := m["name"].(string); ok {
					put([]any{"eth_sources", i, "name"}, "src:"+n, true)
				}
			}
		}
	}
	if m, ok := doc["$dash_source"].(map[string]any); ok {
		if n, ok := m["name"].(string); ok {
			put([]any{"$dash_source", "name"}, "src:"+n, true)
		}
	}
	col := func(table, c string) string { return "col:" + table + ":" + strings.Fields(c + " .")[0] }
	var refs func(base []any, m map[string]any)
	refs = func(base []any, m map[string]any) {
		fr, ok := m["filter_ref"].(map[string]any)
		if !ok {
			return
		}
		ig, _ := fr["integration"].(string)
		tb, _ := fr["table"].(string)
		cl, _ := fr["column"].(string)
		put(p(base, "filter_ref", "integration"), "ig:"+ig, false)
		put(p(base, "filter_ref", "table"), "table:"+tb, false)
		rt := tb
		if t, ok := tableOf[ig]; ok && t != "" {
			rt = t
		}
		put(p(base, "filter_ref", "column"), col(rt, cl), false)
	}
	var inputs func(base []any, l []any, table, key string)
	inputs = func(base []any, l []any, table, key string) {
		for i := range l {
			m, ok := l[i].(map[string]any)
			if !ok {
				continue
			}
			bp := p(base, key, i)
			if c, ok := m["column"].(string); ok {
				put(p(bp, "column"), col(table, c), false)
			}
			refs(bp, m)
			if cs, ok := m["components"].([]any); ok {
				inputs(bp, cs, table, "components")
			}
		}
	}
	for _, ig := range igs {
		if n, ok := ig.m["name"].(string); ok {
			put(p(ig.path, "name"), "ig:"+n, false)
		}
		if l, ok := ig.m["sources"].([]any); ok {
			for i := range l {
				if m, ok := l[i].(map[string]any); ok {
					if n, ok := m["name"].(string); ok {
						put(p(ig.path, "sources", i, "name"), "src:"+n, false)
					}
				}
			}
		}
		if t, ok := ig.m["table"].(map[string]any); ok {
			put(p(ig.path, "table", "name"), "table:"+ig.table, false)
			if l, ok := t["columns"].([]any); ok {
				for i := range l {
					if m, ok := l[i].(map[string]any); ok {
						if n, ok := m["name"].(string); ok {
							put(p(ig.path, "table", "columns", i, "name"), col(ig.table, n), false)
						}
					}
				}
			}
			for _, key := range []string{"unique", "index"} {
				if l, ok := t[key].([]any); ok {
					for i := range l {
						if l2, ok := l[i].([]any); ok {
							for j := range l2 {
								if n, ok := l2[j].(string); ok {
									put(p(ig.path, "table", key, i, j), col(ig.table, n), false)
								}
							}
						}
					}
				}
			}
		}
		if nt, ok := ig.m["notification"].(map[string]any); ok {
			if l, ok := nt["columns"].([]any); ok {
				for i := range l {
					if n, ok := l[i].(string); ok {
						put(p(ig.path, "notification", "columns", i), col(ig.table, n), false)
					}
				}
			}
		}
		if ev, ok := ig.m["event"].(map[string]any); ok {
			if l, ok := ev["inputs"].([]any); ok {
				inputs(p(ig.path, "event"), l, ig.table, "inputs")
			}
		}
		if l, ok := ig.m["block"].([]any); ok {
			for i := range l {
				if m, ok := l[i].(map[string]any); ok {
					bp := p(ig.path, "block", i)
					if c, ok := m["column"].(string); ok {
						put(p(bp, "column"), col(ig.table, c), false)
					}
					refs(bp, m)
				}
			}
		}
	}
	return res
}

// c15Plant returns a copy of the document with the string planted at pos. For
// a control string every linked occurrence is renamed as well; for a hostile
// string only a source definition drags its references along.
func c15Plant(doc map[string]any, groups map[string]c15Pos, pos c15Pos, s c15String) map[string]any {
	nd := c15Copy(doc).(map[string]any)
	setKeep := func(path []any) {
		old, _ := c15Get(nd, path).(string)
		v := s.value(old)
		// index entries keep their direction suffix
		if f := strings.Fields(old); len(f) == 2 && len(path) >= 3 && path[len(path)-3] == "index" && !strings.Contains(s.Val, " ") {
			v = s.Val + " " + f[1]
		}
		c15Set(nd, path, v)
	}
	g := groups[pathKey(pos.path)]
	if g.group != "" {
		for _, q := range groups {
			if q.group != g.group || pathKey(q.path) == pathKey(pos.path) {
				continue
			}
			// hostile strings are planted alone, except that a source definition
			// drags the references to it (integrations' sources[].name) along
			if s.Hostile && !(g.def && strings.HasPrefix(g.group, "src:") && !q.def) {
				continue
			}
			setKeep(q.path)
		}
	}
	if s.Hostile {
		c15Set(nd, pos.path, s.value(pos.val))
	} else {
		setKeep(pos.path)
	}
	return nd
}

// ---------------------------------------------------------------- lifecycle

type c15World struct {
	chain        *simnode.Chain
	nodeA, nodeB *simnode.Node
}

func (b *c15Base) newWorld() *c15World {
	ch := simnode.NewChain(nextChainID(), b.content())
	ch.Grow(5)
	return &c15World{chain: ch, nodeA: simnode.Global().NewNode(ch), nodeB: simnode.Global().NewNode(ch)}
}

func (w *c15World) subst(v any) any {
	switch x := v.(type) {
	case map[string]any:
		for k, e := range x {
			x[k] = w.subst(e)
		}
	case []any:
		for i, e := range x {
			x[i] = w.subst(e)
		}
	case string:
		switch x {
		case "@@A":
			return w.nodeA.URL("")
		case "@@A/alt":
			return w.nodeA.URL("alt")
		case "@@B":
			return w.nodeB.URL("")
		case "@@B/dash":
			return w.nodeB.URL("dash")
		}
	}
	return v
}

// fileConfig renders the configuration file of a (planted) document.
func (w *c15World) fileConfig(doc map[string]any, pgurl string) []byte {
	root := w.subst(c15Copy(doc)).(map[string]any)
	delete(root, "$dash_source")
	delete(root, "$dash_integration")
	root["pg_url"] = pgurl
	b, err := json.Marshal(root)
	if err != nil {
		panic(err)
	}
	return b
}

type c15Outcome struct {
	Lifecycle string   `json:"lifecycle"`
	Path      string   `json:"path"`
	Class     string   `json:"class"`
	String    string   `json:"string"`
	Value     string   `json:"value"`
	// DupKey: dashboard submissions only: the planted member is spelled twice (see c15Dashboard); Original is the
	// value the base holds at that position
	DupKey   string `json:"duplicate_key,omitempty"`
	Original string `json:"-"`
	Outcome   string   `json:"outcome"`
	Stage     string   `json:"stage,omitempty"`
	Error     string   `json:"error,omitempty"`
	Marked    []string `json:"statements_with_marker,omitempty"`
	Stmts     int      `json:"statements"`
	Ran       bool     `json:"ran"`
	Steps     int      `json:"steps"`
	OKSteps   int      `json:"ok_steps"`
}

// c15Step runs one Converge with panic recovery.
func c15Step(t *shovel.Task) (err error, pan string) {
	defer func() {
		if r := recover(); r != nil {
			pan = fmt.Sprintf("%v\n%s", r, debug.Stack())
		}
	}()
	return t.Converge(), ""
}

func c15Position(pg *fakepg.Server, src, ig string) (uint64, bool) {
	var (
		best uint64
		has  bool
	)
	pg.Read(func() {
		tu := pg.TableByName("shovel.task_updates")
		if tu == nil {
			return
		}
		for _, r := range pg.CommittedRows("shovel.task_updates") {
			cr := cursorOf(tu, r)
			if cr.src == src && cr.ig == ig && (!has || cr.num > best) {
				best, has = cr.num, true
			}
		}
	})
	return best, has
}

type c15Run1 struct {
	steps, ok int
	panics    []string
	lastErr   string
}

// c15Drive steps every task until its pair is at the head or stops
// progressing. A head cache may answer a few steps with a stale head, and a
// dependent waits for what it references, hence several rounds.
func c15Drive(pg *fakepg.Server, tasks []*shovel.Task, head uint64, skipSrc map[string]bool, out *c15Run1) {
	sort.SliceStable(tasks, func(i, j int) bool { return tasks[i].VerifInfo().IGName < tasks[j].VerifInfo().IGName })
	for round := 0; round < 3; round++ {
		for _, t := range tasks {
			in := t.VerifInfo()
			if skipSrc[in.SrcName] {
				continue
			}
			idle, hard := 0, 0
			for k := 0; k < 16 && idle <= 8 && hard < 2; k++ {
				if p, has := c15Position(pg, in.SrcName, in.IGName); has && p >= head {
					break
				}
				err, pan := c15Step(t)
				out.steps++
				switch {
				case pan != "":
					out.panics = append(out.panics, pan)
					hard = 2
				case err == nil:
					out.ok++
				case errors.Is(err, shovel.ErrNothingNew):
					idle++
				case errors.Is(err, shovel.ErrReorg):
				default:
					out.lastErr = err.Error()
					hard++
				}
			}
		}
	}
}

func c15Scan(stmts []fakepg.Stmt) (marked, chainMarked []string) {
	chainHex := hex.EncodeToString([]byte(c15ChainMark[:5]))
	for _, st := range stmts {
		if strings.Contains(st.SQL, c15Mark) {
			marked = append(marked, st.Via+": "+st.SQL)
		}
		low := strings.ToLower(st.SQL)
		if strings.Contains(st.SQL, c15ChainMark[:5]) || strings.Contains(low, chainHex) {
			chainMarked = append(chainMarked, st.Via+": "+st.SQL)
		}
	}
	return
}

func c15CountKinds(c *vk.Case, stmts []fakepg.Stmt) {
	for _, st := range stmts {
		low := strings.ToLower(strings.TrimSpace(st.SQL))
		switch {
		case strings.HasPrefix(low, "copy "):
			c.Obs("stmt_copy", 1)
		case strings.HasPrefix(low, "select true from"):
			c.Obs("stmt_lookup", 1)
		case strings.HasPrefix(low, "select pg_notify"):
			c.Obs("stmt_notify", 1)
		case strings.HasPrefix(low, "delete from") && !strings.Contains(low, "shovel.task_updates") && !strings.Contains(low, "shovel.integrations"):
			c.Obs("stmt_delete_rows", 1)
		case strings.HasPrefix(low, "create ") || strings.HasPrefix(low, "alter "):
			c.Obs("stmt_ddl", 1)
		case strings.HasPrefix(low, "set application_name"):
			c.Obs("stmt_app_name", 1)
		}
	}
}

var c15KnownTypes = map[string]bool{"text": true, "bytea": true, "numeric": true, "int": true, "int2": true, "int4": true, "int8": true, "bool": true}

var c15SafeIdent = regexp.MustCompile(`^[A-Za-z_][A-Za-z0-9_]*$`)

// c15TableDDL is what the operator runs for a dashboard integration: the table
// it names, when the names are plain identifiers.
func c15TableDDL(ig map[string]any) (string, bool) {
	t, ok := ig["table"].(map[string]any)
	if !ok {
		return "", false
	}
	name, _ := t["name"].(string)
	if !c15SafeIdent.MatchString(name) {
		return "", false
	}
	cols, _ := t["columns"].([]any)
	var defs []string
	for _, c := range cols {
		m, _ := c.(map[string]any)
		n, _ := m["name"].(string)
		ty, _ := m["type"].(string)
		if !c15SafeIdent.MatchString(n) || !c15KnownTypes[ty] {
			return "", false
		}
		defs = append(defs, n+" "+ty)
	}
	if len(defs) == 0 {
		return "", false
	}
	return "create table if not exists " + name + "(" + strings.Join(defs, ", ") + ")", true
}

const c15Bogus = "verif-blocker"

// c15Lifecycle runs one variant. lifecycle = "file" or "dashboard".
func c15Lifecycle(c *vk.Case, b *c15Base, doc map[string]any, lifecycle string, o *c15Outcome) (witness map[string]any) {
	w := b.newWorld()
	spec := &scen.Spec{Sources: []scen.SourceSpec{{Name: "src-a", Node: w.nodeA}, {Name: "src-b", Node: w.nodeB}}}
	if pooler := strings.TrimSuffix(lifecycle, "+pooler"); pooler != lifecycle {
		// pg_url as one writes it for a transaction pooler (no prepared statements kept): whatever the pool does
		// with it, values still travel as parameters or COPY data or not at all
		spec.PGParams, lifecycle = "&statement_cache_capacity=0", pooler
		c.Obs("lifecycles_with_statement_cache_off", 1)
	}
	var confText []byte
	env, err := scen.NewRaw(spec, func(pgurl string) []byte { confText = w.fileConfig(doc, pgurl); return confText }, false, nil)
	if err != nil {
		c.Inconclusive("environment: %v", err)
		o.Outcome = "harness-error"
		return nil
	}
	defer env.Close()
	witness = map[string]any{"config": string(confText)}
	c.Obs("lifecycles", 1)
	c.Obs("lifecycles_"+lifecycle, 1)
	c.Evals(1)
	var (
		run      c15Run1
		tasks    = env.Tasks
		rejected string
		skip     = map[string]bool{}
		kept     = &[]fakepg.Stmt{} // statements shovel issued (the harness's own are dropped)
	)
	o.Stage = env.SetupStage
	if env.SetupErr != nil {
		o.Error = firstLines(env.SetupErr.Error(), 3)
		switch env.SetupStage {
		case "decode":
			rejected = "rejected-by-decoder"
		case "validate":
			rejected = "rejected-by-validation"
		case "panic":
			rejected = "panic-at-boot"
		default:
			rejected = "failed-later:" + env.SetupStage
		}
	}
	head := w.chain.Head().Num
	if rejected == "" {
		c15Drive(env.PG, tasks, head, skip, &run)
	}
	if lifecycle == "dashboard" && rejected == "" {
		rejected = c15Dashboard(c, b, env, w, doc, o, witness, &tasks, skip, kept)
		if rejected == "" {
			c15Drive(env.PG, tasks, head, skip, &run)
		}
	} else if lifecycle == "dashboard" {
		// the file part of a dashboard variant is the base (or a consistent renaming of it)
		rejected = "file-part-" + rejected
	}
	if rejected == "" {
		// a reorganisation: the steps detect it and delete rows (dig.Delete), then re-index
		w.chain.Reorg(2, 3)
		c15Drive(env.PG, tasks, w.chain.Head().Num, skip, &run)
		o.Ran = true
	}
	o.Steps, o.OKSteps = run.steps, run.ok
	if run.lastErr != "" && o.Error == "" {
		o.Error = firstLines(run.lastErr, 2)
	}
	stmts := append(*kept, env.PG.TakeStmts()...)
	o.Stmts = len(stmts)
	c.Obs("statements_scanned", int64(len(stmts)))
	c15CountKinds(c, stmts)
	marked, chainMarked := c15Scan(stmts)
	o.Marked = shortList(marked, 4)
	if len(chainMarked) > 0 {
		c.Violate("chain-data-in-sql-text", merge(witness, map[string]any{"statements": shortList(chainMarked, 4)}),
			"chain-derived data appears in the text of %d statements, e.g. %s", len(chainMarked), chainMarked[0])
	}
	// chain marker rows prove that hostile chain data went through parameters/COPY
	env.PG.Read(func() {
		for _, tn := range env.PG.TableNames() {
			if !strings.HasPrefix(tn, "public.") {
				continue
			}
			t := env.PG.TableByName(tn)
			for _, r := range env.PG.CommittedRows(tn) {
				for i := range t.Cols {
					switch v := r.Vals[i].(type) {
					case string:
						if strings.Contains(v, c15ChainMark) {
							c.Obs("chain_marker_rows", 1)
						}
					case []byte:
						if bytes.Contains(v, []byte(c15ChainMark)) {
							c.Obs("chain_marker_rows", 1)
						}
					}
				}
			}
		}
	})
	for _, p := range run.panics {
		c.Seen("panics_outside_statement", o.Class+"|"+o.String+"|"+vk.TopShovelFrame(p))
	}
	switch {
	case len(marked) > 0:
		o.Outcome = "IN-SQL"
		if rejected != "" {
			o.Outcome = "IN-SQL(" + rejected + ")"
		}
	case rejected != "":
		o.Outcome = rejected
		if rejected == "rejected-by-decoder" || rejected == "rejected-by-validation" || rejected == "rejected-by-handler" {
			c.Obs("rejected_before_sql", 1)
		}
	default:
		o.Outcome = "accepted-not-in-sql"
	}
	if us := env.PG.Unsupported(); len(us) > 0 && len(marked) == 0 {
		c.Inconclusive("fakepg contract left (%s %s=%s): %v", lifecycle, o.Path, o.String, us)
	}
	return witness
}

// c15Dashboard posts the source and the integration of the document to the
// real handlers and loads tasks the way Manager.Run does. It returns a
// rejection class or "".
func c15Dashboard(c *vk.Case, b *c15Base, env *scen.Env, w *c15World, doc map[string]any, o *c15Outcome, witness map[string]any, tasks *[]*shovel.Task, skip map[string]bool, kept *[]fakepg.Stmt) string {
	ctx := context.Background()
	// the harness's own statements are not shovel's: keep what shovel issued so far, drop ours
	harnessExec := func(sql string, args ...any) error {
		*kept = append(*kept, env.PG.TakeStmts()...)
		_, err := env.Pool.Exec(ctx, sql, args...)
		env.PG.TakeStmts()
		return err
	}
	src, _ := w.subst(c15Copy(doc["$dash_source"])).(map[string]any)
	ig, _ := w.subst(c15Copy(doc["$dash_integration"])).(map[string]any)
	igJSON, _ := json.Marshal(ig)
	if o.DupKey != "" {
		// the planted member spelled twice: the hostile value under the exact key, the original value under the same
		// key in upper case (Go's decoder matches keys without regard to case and keeps the last one; a jsonb column
		// keeps both members and orders them by key)
		hv, _ := json.Marshal(o.Value)
		ov, _ := json.Marshal(o.Original)
		needle := fmt.Sprintf(`"%s":%s`, o.DupKey, hv)
		if i := bytes.Index(igJSON, []byte(needle)); i >= 0 && bytes.Count(igJSON, []byte(needle)) == 1 {
			repl := fmt.Sprintf(`%s,"%s":%s`, needle, strings.ToUpper(o.DupKey), ov)
			igJSON = bytes.Replace(igJSON, []byte(needle), []byte(repl), 1)
			c.Obs("duplicate_key_submissions", 1)
		} else {
			o.DupKey = ""
		}
	}
	witness["post_save_integration"] = string(igJSON)
	witness["post_save_source"] = src
	// the operator has created the table the integration names (when it names one in plain
	// identifiers and known types; otherwise the table of the unmodified declaration exists)
	ddl, ok := c15TableDDL(ig)
	if !ok {
		ddl, _ = c15TableDDL(b.doc["$dash_integration"].(map[string]any))
	}
	if err := harnessExec(ddl); err != nil {
		c.Inconclusive("creating the dashboard integration's table: %v", err)
		return "harness-error"
	}
	// while this row is stored, loading tasks fails (it names a source that does not exist):
	// Restart returns an error and starts no runners
	if err := harnessExec("insert into shovel.integrations(name, conf) values ($1, $2)", c15Bogus, []byte(`{"name":"`+c15Bogus+`","enabled":true,"sources":[{"name":"no-such-source"}]}`)); err != nil {
		c.Inconclusive("storing the blocker row: %v", err)
		return "harness-error"
	}
	mgr := shovel.NewManager(ctx, env.Pool, env.Conf)
	conf := env.Conf
	h := web.New(mgr, &conf, env.Pool)
	post := func(f http.HandlerFunc, r *http.Request) (code int, body string, pan string) {
		defer func() {
			if r := recover(); r != nil {
				pan = fmt.Sprintf("%v\n%s", r, debug.Stack())
			}
		}()
		rec := httptest.NewRecorder()
		f(rec, r)
		return rec.Code, rec.Body.String(), ""
	}
	form := url.Values{}
	for k, v := range src {
		form.Set(k, fmt.Sprint(v))
	}
	r1 := httptest.NewRequest("POST", "/save-source", strings.NewReader(form.Encode()))
	r1.Header.Set("Content-Type", "application/x-www-form-urlencoded")
	code1, body1, pan1 := post(h.SaveSource, r1)
	c.Obs("dashboard_posts", 1)
	srcStored := c15Stored(env.PG, "shovel.sources", "name", fmt.Sprint(src["name"]))
	// a fresh manager per POST: a manager whose reload failed cannot be restarted again
	mgr2 := shovel.NewManager(ctx, env.Pool, env.Conf)
	h2 := web.New(mgr2, &conf, env.Pool)
	r2 := httptest.NewRequest("POST", "/save-integration", bytes.NewReader(igJSON))
	code2, body2, pan2 := post(h2.SaveIntegration, r2)
	c.Obs("dashboard_posts", 1)
	igName, _ := ig["name"].(string)
	igStored := c15Stored(env.PG, "shovel.integrations", "name", igName) && igName != c15Bogus
	witness["save_source_reply"] = fmt.Sprintf("%d %s", code1, firstLines(body1, 1))
	witness["save_integration_reply"] = fmt.Sprintf("%d %s", code2, firstLines(body2, 1))
	if pan1 != "" || pan2 != "" {
		c.Seen("panics_outside_statement", o.Class+"|"+o.String+"|handler:"+vk.TopShovelFrame(pan1+pan2))
	}
	if err := harnessExec("delete from shovel.integrations where name = $1", c15Bogus); err != nil {
		c.Inconclusive("removing the blocker row: %v", err)
		return "harness-error"
	}
	inSource := strings.HasPrefix(o.Path, "$dash_source")
	if !srcStored {
		o.Error = "save-source: " + witness["save_source_reply"].(string)
		if inSource {
			return "rejected-by-handler"
		}
		c.Inconclusive("the base dashboard source was not stored: %d %s", code1, body1)
		return "harness-error"
	}
	if !igStored {
		o.Error = "save-integration: " + witness["save_integration_reply"].(string)
		if !inSource {
			return "rejected-by-handler"
		}
		c.Inconclusive("the base dashboard integration was not stored: %d %s", code2, body2)
		return "harness-error"
	}
	// what Manager.Run does next
	var (
		ts  []*shovel.Task
		err error
	)
	func() {
		defer func() {
			if r := recover(); r != nil {
				err = fmt.Errorf("panic: %v", r)
				c.Seen("panics_outside_statement", o.Class+"|"+o.String+"|loadTasks")
			}
		}()
		ts, err = shovel.VerifLoadTasks(ctx, env.Pool, env.Conf)
	}()
	if err != nil {
		o.Error = firstLines(err.Error(), 2)
		return "failed-later:load-tasks"
	}
	*tasks = ts
	return ""
}

func c15Stored(pg *fakepg.Server, table, col, val string) bool {
	found := false
	pg.Read(func() {
		t := pg.TableByName(table)
		if t == nil {
			return
		}
		ci := t.ColIdx(col)
		for _, r := range pg.CommittedRows(table) {
			if s, ok := r.Vals[ci].(string); ok && s == val {
				found = true
			}
		}
	})
	return found
}

// ---------------------------------------------------------------- the case

// classes whose values come from a closed domain: the control cannot pass
// validation there / cannot run (a column type must be a type that exists)
var (
	c15ClosedAccept = map[string]bool{
		"eth_sources[].poll_duration": true,
		"integrations[].filter_agg":   true,
		"save-source.chainID":         true,
	}
	c15ClosedRun = map[string]bool{
		"eth_sources[].poll_duration":         true,
		"integrations[].filter_agg":           true,
		"save-source.chainID":                 true,
		"integrations[].table.columns[].type": true,
	}
)

func c15Run(c *vk.Case) {
	variant := c.Index / c15Shards
	shard := c.Index % c15Shards
	b := c15MakeBase(c.Seed, variant)
	groups := c15Groups(b.doc)
	var all []c15Pos
	c15Walk(b.doc, nil, &all)
	// path classes per lifecycle, sorted; class k of the list belongs to shard k % c15Shards
	type job struct {
		lifecycle string
		class     string
		pos       []c15Pos
	}
	byClass := map[string]*job{}
	var order []string
	for _, p := range all {
		p.class = c15Class(p.path)
		top, _ := p.path[0].(string)
		var lcs []string
		switch top {
		case "$dash_source", "$dash_integration":
			lcs = []string{"dashboard"}
		default:
			lcs = []string{"file"}
		}
		for _, lc := range lcs {
			k := lc + "|" + p.class
			if byClass[k] == nil {
				byClass[k] = &job{lifecycle: lc, class: p.class}
				order = append(order, k)
			}
			byClass[k].pos = append(byClass[k].pos, p)
		}
	}
	sort.Strings(order)
	strsT := c15Strings(c.Tier)

	if shard == 0 {
		// the unchanged base must run completely in both lifecycles (guards every other verdict)
		for _, lc := range []string{"file", "dashboard"} {
			o := &c15Outcome{Lifecycle: lc, Path: "(base)", Class: "(base)", String: "none"}
			wit := c15Lifecycle(c, b, b.doc, lc, o)
			if !o.Ran || o.OKSteps < 8 || len(o.Marked) > 0 {
				c.Inconclusive("the base configuration does not run (%s): %+v %v", lc, *o, wit["save_integration_reply"])
			}
			c.Sample(map[string]any{"base_file_config": wit["config"], "base_dashboard_integration": wit["post_save_integration"], "positions": len(all), "path_classes": len(order), "outcome": o})
		}
		for _, lc := range []string{"file+pooler", "dashboard+pooler"} {
			// (no vacuity guard: with the statement cache off the unchanged pool refuses every parameterised query)
			o := &c15Outcome{Lifecycle: lc, Path: "(base)", Class: "(base)", String: "none"}
			c15Lifecycle(c, b, b.doc, lc, o)
			c.Sample(map[string]any{"statement_cache_off": lc, "outcome": o})
		}
		c.Obs("positions", int64(len(all)))
		c.Obs("path_classes", int64(len(order)))
	}
	// work distribution: the case owning a path class (class k belongs to shard k % c15Shards) runs the
	// control strings at all its positions and judges the vacuity guard; the hostile strings of position
	// number g (counted over all classes) run in shard g % c15Shards, so the load is even
	g := 0
	for k, key := range order {
		owner := k%c15Shards == shard
		j := byClass[key]
		suffix := ""
		if j.lifecycle == "dashboard" {
			suffix = ":dashboard"
		}
		controlRan, controlAccepted, controlInSQL := 0, 0, 0
		var controlNotes []string
		for _, p := range j.pos {
			g++
			mine := g%c15Shards == shard
			for _, s := range strsT {
				if !s.appliesTo(j.class) {
					continue
				}
				if (s.Hostile && !mine) || (!s.Hostile && !owner) {
					continue
				}
				if strings.Contains(j.class, "url") || strings.Contains(j.class, "URL") {
					if _, err := url.Parse(s.value(p.val)); err != nil {
						c.Seen("not_planted", j.class+"|"+s.ID+"|url.Parse fails: jrpc2.MustURL would exit the process")
						continue
					}
				}
				doc := c15Plant(b.doc, groups, p, s)
				if s.Hostile && j.lifecycle == "dashboard" && len(p.path) > 0 && p.path[0] == "$dash_integration" {
					if stmt := c15GateDirect(c, doc); stmt != "" {
						c.Violate("unvalidated-in-sql:path="+j.class+":dashboard-gate", map[string]any{"position": c15PathString(p.path), "planted": s.value(p.val), "statement": stmt},
							"the value %q planted at %s passes the dashboard's check of a submitted integration and appears in the text of the statement its destination issues for a reorganisation: %s", s.value(p.val), c15PathString(p.path), firstLines(stmt, 1))
						continue
					}
				}
				disabled := false
				if s.Hostile && j.lifecycle == "file" && len(p.path) >= 2 && p.path[0] == "integrations" && g%2 == 0 {
					// every other position: the integration that carries the hostile string is switched off (kept in the
					// file for later); its table is still migrated, references to it are still resolved
					if igs, ok := doc["integrations"].([]any); ok {
						if idx, ok := p.path[1].(int); ok && idx < len(igs) {
							if ig, ok := igs[idx].(map[string]any); ok {
								ig["enabled"] = false
								disabled = true
								c.Obs("hostile_strings_in_disabled_integrations", 1)
							}
						}
					}
				}
				o := &c15Outcome{Lifecycle: j.lifecycle, Path: c15PathString(p.path), Class: j.class, String: s.ID, Value: s.value(p.val)}
				if disabled {
					o.Path += " (integration disabled)"
				}
				if s.Hostile && j.lifecycle == "dashboard" && len(p.path) > 1 && p.path[0] == "$dash_integration" && g%3 == 1 {
					if key, ok := p.path[len(p.path)-1].(string); ok && key != strings.ToUpper(key) {
						o.DupKey, o.Original = key, p.val
						o.Path += " (member spelled twice)"
					}
				}
				wit := c15Lifecycle(c, b, doc, j.lifecycle, o)
				c.SetSig("%s|%s|%s|%s", j.lifecycle, j.class, s.ID, o.Outcome)
				c.Seen("outcomes_"+j.lifecycle+"_"+s.ID, j.class+" => "+o.Outcome)
				inSQL := len(o.Marked) > 0
				if !s.Hostile {
					accepted := o.Stage != "decode" && o.Stage != "validate" && !strings.HasPrefix(o.Outcome, "rejected-by") && !strings.Contains(o.Outcome, "file-part-rejected")
					if accepted {
						controlAccepted++
					}
					if s.ID == "control-plain" {
						if o.Ran && o.OKSteps > 0 {
							controlRan++
							c.Obs("control_ran", 1)
						} else {
							controlNotes = append(controlNotes, fmt.Sprintf("%s: %s %s", o.Path, o.Outcome, o.Error))
						}
						if inSQL {
							controlInSQL++
							c.Obs("control_marker_in_sql", 1)
							c.Seen("control_in_sql_text_incl_linked_names_"+j.lifecycle, j.class)
						}
					}
					continue
				}
				if !inSQL {
					continue
				}
				if c15DirectionOnly.MatchString(s.value(p.val)) && strings.HasSuffix(j.class, "table.index[][]") {
					c.Seen("allowed_in_sql", j.class+suffix+"|"+s.ID)
					continue
				}
				c.Violate("unvalidated-in-sql:path="+j.class+suffix,
					merge(wit, map[string]any{"position": o.Path, "planted": s.value(p.val), "outcome": o.Outcome, "stage": o.Stage, "error": o.Error, "statements_with_marker": o.Marked}),
					"the value %q planted at %s (%s lifecycle) appears in SQL text: %s", s.value(p.val), o.Path, j.lifecycle, firstLines(o.Marked[0], 1))
			}
		}
		if !owner {
			continue
		}
		if controlRan == 0 && !c15ClosedRun[j.class] {
			c.Inconclusive("vacuous: the plain control string never ran the lifecycle at any position of %s (%s): %v", j.class, j.lifecycle, shortList(controlNotes, 3))
		}
		if controlAccepted == 0 && !c15ClosedAccept[j.class] {
			c.Inconclusive("vacuous: no control string was accepted at any position of %s (%s)", j.class, j.lifecycle)
		}
		_ = controlInSQL
	}
}

// sqlRecConn records the text of every statement a destination issues.
type sqlRecConn struct {
	recConn
	texts []string
}

func (rc *sqlRecConn) Exec(_ context.Context, q string, _ ...any) (pgconn.CommandTag, error) {
	rc.texts = append(rc.texts, q)
	return pgconn.CommandTag{}, nil
}

func (rc *sqlRecConn) QueryRow(_ context.Context, q string, _ ...any) pgx.Row {
	rc.texts = append(rc.texts, q)
	return noRow{}
}

// c15GateDirect: the dashboard stores a submitted integration after config.CheckUserInput alone and the manager
// builds its destination from the stored value as it is. Whatever passes that gate must not show up in the text of
// the statements the destination issues on its own (the unwind of a reorganisation; inserts go through COPY with
// sanitised identifiers, reference lookups are exercised by the lifecycle). Returns the offending statement.
func c15GateDirect(c *vk.Case, doc map[string]any) (offending string) {
	defer func() {
		if r := recover(); r != nil {
			c.Seen("panics_outside_statement", "dashboard-gate-direct|"+fmt.Sprint(r))
		}
	}()
	raw, err := json.Marshal(doc["$dash_integration"])
	if err != nil {
		return ""
	}
	var ig config.Integration
	if json.Unmarshal(raw, &ig) != nil {
		return ""
	}
	c.Obs("dashboard_gate_direct_submissions", 1)
	if config.CheckUserInput(config.Root{Integrations: []config.Integration{ig}}) != nil {
		c.Obs("dashboard_gate_direct_rejected", 1)
		return ""
	}
	dest, err := shovel.NewDestination(ig)
	if err != nil {
		return ""
	}
	rc := &sqlRecConn{}
	dest.Delete(context.Background(), rc, 7)
	c.Obs("dashboard_gate_direct_deletes", 1)
	for _, t := range rc.texts {
		if strings.Contains(t, c15Mark) {
			return t
		}
	}
	return ""
}
