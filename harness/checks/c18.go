package checks

import (
	"encoding/hex"
	"errors"
	"fmt"
	"sync"
	"sync/atomic"
	"time"

	"github.com/indexsupply/shovel/shovel"

	"verif/harness/fakepg"
	"verif/harness/gen"
	"verif/harness/model"
	"verif/harness/scen"
	"verif/harness/simnode"
	"verif/harness/vk"
)

// C18 — the concurrent indexing pipeline is free of data races. The oracle is
// the Go race detector: the worker is the -race build, every report whose two
// access stacks both contain a shovel frame is a violation (parsed from the
// race logs by the orchestrator, keyed by the pair of innermost shovel frames).

func init() {
	vk.Register(&vk.Check{
		ID:        "C18",
		Level:     "exploration",
		Technique: "Go race detector (-race build of the harness + shovel) over free-running production-wired tasks with real goroutine concurrency, head poller at 2 ms, wire delays, head growth and reorgs in flight; reports de-duplicated by innermost shovel frame pair; plus a crash monitor over fresh child processes (plain build, the JSON dependency's racy decoder publication stretched by a build overlay) for first-use initialisation the race detector is blinded to",
		Rule: "first use: fresh child processes (plain build; the JSON library's unsynchronised publication of a compiled decoder stretched by a build overlay, because that library hides the access from the race detector by switching to a mutex under -race) whose 2–16 goroutines perform the process's first block/head/hash requests at the same moment: the child must not crash; family A: one task with concurrency 2..8 and batch >= concurrency; family C: 2–4 event integrations each attached to two sources (own client each), so two tasks built from one integration configuration decode and insert at the same time; family B: 2–5 tasks on one source client with overlapping ranges and different data plans (b+l, h+l, r, b+t, l, b+r) so cached block segments are shared while logs/receipts/traces are attached; " +
			"each case runs real runner goroutines until every task has reached a head that grows and reorganises meanwhile; random 0–3 ms delays at both wire boundaries, head poller at 2 ms with injected poller failures. signature = (family, concurrency class, plans, reorgs seen, poller resets); trivial = fewer than 20 Converge executions. Plans r,t and h,r,t joined the shared-client family; the integrations of the two-source family carry filter arguments.",
		Assumptions: []string{
			"the race detector only sees interleavings that occurred: a clean run is not race freedom",
			"only well-formed chain data is served (so checkptr inside the JSON decoder is not provoked)",
			"reports with a stack that holds no shovel frame are harness or third-party issues and are reported as inconclusive, not as violations",
		},
		NCases:           func(tier string) int { return c18Pipeline(tier) + c18FirstUseCases(tier) },
		Run:              c18Run,
		Race:             true,
		CrashIsViolation: true,
		CaseTimeoutS:     240,
		MinObs: func(tier string) map[string]int64 {
			return map[string]int64{"converge_calls": 2000, "cases_reached_head": 80, "max_inflight_requests": 2, "poller_requests": 200, "shared_source_cases": 20, "one_integration_two_sources_cases": 20, "first_use_processes": 150, "reorgs_applied": 30, "poller_failures_injected": 10}
		},
	})
}

func c18Pipeline(tier string) int {
	if tier == "thorough" {
		return 1024
	}
	return 160
}

func c18FirstUseCases(tier string) int {
	if tier == "thorough" {
		return 64
	}
	return 16
}

var c18Plans = [][]string{
	{"tx_value", "log_addr"},                            // l,b
	{"block_time", "log_idx"},                           // l,h
	{"tx_status"},                                       // r
	{"trace_action_from", "tx_hash"},                    // b,t
	{"log_addr"},                                        // l
	{"tx_gas_used", "tx_input"},                         // b,r
	{"tx_status", "trace_action_from"},                  // r,t: transactions created on demand by both attachments
	{"block_time", "tx_gas_used", "trace_action_value"}, // h,r,t
}

func c18Run(c *vk.Case) {
	if c.Index >= c18Pipeline(c.Tier) {
		c18FirstUse(c)
		return
	}
	r := c.R
	familyA := c.Index%2 == 0
	addrs := [][]byte{r.Bytes(20), r.Bytes(20)}
	var decls []*model.Decl
	nig := 1
	if !familyA {
		nig = r.Range(2, 4)
	}
	evInputs := c14Event
	// half of the shared-client cases: every integration has the SAME plan and start, so all of them read the
	// very same cached segments and attach the same kind of data to their copies at the same time
	samePlan := !familyA && c.Index%4 == 1
	commonStart := uint64(1 + r.Intn(3))
	// family C: every integration is attached to two sources (own client and cache each, same chain), so two
	// tasks built from one integration config run at the same time; log plans so that both decode event data
	twoSrc := !familyA && c.Index%4 == 3
	for i := 0; i < nig; i++ {
		d := &model.Decl{Name: namePoolIG[i], Enabled: true, Table: namePoolTbl[i], ColTypes: map[string]string{}, InFilter: map[string]model.Filter{}}
		d.Sources = []model.SrcRef{{Name: namePoolSrc[0], Start: uint64(1 + r.Intn(3))}}
		plan := c18Plans[(c.Index/2+i)%len(c18Plans)]
		if twoSrc {
			d.Sources = append(d.Sources, model.SrcRef{Name: namePoolSrc[1], Start: d.Sources[0].Start})
			plan = c18Plans[[]int{0, 1, 4}[(c.Index/4+i)%3]]
		}
		if samePlan {
			plan = c18Plans[(c.Index/4)%len(c18Plans)]
			d.Sources[0].Start = commonStart
		}
		isLog := false
		for _, f := range plan {
			fi := gen.FieldByName(f)
			d.Block = append(d.Block, model.BlockField{Name: f, Column: f, ColType: fi.ColType})
			if fi.Class == "log" {
				isLog = true
			}
		}
		if isLog {
			d.EventName = "Probe"
			d.Inputs = evInputs
			if twoSrc {
				// filter arguments: one list in the configuration, read by every task built from it
				d.InFilter["v"] = model.Filter{Op: "gt", Arg: []string{"1"}}
				for j := range d.Block {
					if d.Block[j].Name == "log_addr" {
						d.Block[j].Filter = model.Filter{Op: "contains", Arg: []string{"0x" + hex.EncodeToString(addrs[0]), "0x" + hex.EncodeToString(addrs[1])}}
					}
				}
			}
		}
		decls = append(decls, d)
	}
	co := gen.ChainOpts{Seed: r.U64(), MinTxs: 1, MaxTxs: 3, MaxLogs: 3, MinTraces: 1, MaxTraces: 2,
		Makers: []gen.LogMaker{func(r *vk.RNG) simnode.Log {
			return model.MakeLog("Probe", evInputs, []any{r.Bytes(20), r.BigBits(100)}, vk.Pick(r, addrs))
		}}}
	chain := simnode.NewChain(nextChainID(), gen.Content(co))
	chain.Grow(10)
	node := simnode.Global().NewNode(chain)
	conc, batch := 1, r.Range(1, 4)
	if familyA {
		conc = r.Range(2, 8)
		batch = conc * r.Range(1, 3)
	} else if r.Bool() {
		conc = 2
		batch = 2 * r.Range(1, 3)
	}
	spec := &scen.Spec{Sources: []scen.SourceSpec{{Name: namePoolSrc[0], ChainID: 5, Batch: batch, Concurrency: conc, Poll: "2ms", Node: node}}, Decls: decls}
	srcNames := []string{namePoolSrc[0]}
	var node2 *simnode.Node
	if twoSrc {
		node2 = simnode.Global().NewNode(chain)
		spec.Sources = append(spec.Sources, scen.SourceSpec{Name: namePoolSrc[1], ChainID: 5, Batch: r.Range(1, 4), Concurrency: 1, Poll: "2ms", Node: node2})
		srcNames = append(srcNames, namePoolSrc[1])
	}
	env, err := scen.New(spec, false)
	if err != nil {
		c.Inconclusive("environment: %v", err)
		return
	}
	defer env.Close()
	if env.SetupErr != nil {
		c.Inconclusive("setup rejected: %v", env.SetupErr)
		return
	}
	if !familyA {
		c.Obs("shared_source_cases", 1)
	}
	if twoSrc {
		c.Obs("one_integration_two_sources_cases", 1)
	}
	// wire delays and poller failures
	var hmu sync.Mutex
	hr := r.Fork()
	var pollerReqs, pollerFails int64
	nodeHook := func(info *simnode.ReqInfo) simnode.Action {
		hmu.Lock()
		d := time.Duration(hr.Intn(3000)) * time.Microsecond
		fail := info.Poller && hr.Chance(1, 60)
		hmu.Unlock()
		act := simnode.Action{ElemErr: -1, Delay: d}
		if info.Poller {
			atomic.AddInt64(&pollerReqs, 1)
			if fail {
				atomic.AddInt64(&pollerFails, 1)
				act.Fail, act.Status = simnode.FailHTTP, 503
			}
		}
		return act
	}
	node.SetHook(nodeHook)
	if node2 != nil {
		node2.SetHook(nodeHook)
	}
	pr := r.Fork()
	env.PG.SetFaultHook(func(op *fakepg.Op) fakepg.Fault {
		hmu.Lock()
		d := time.Duration(pr.Intn(800)) * time.Microsecond
		hmu.Unlock()
		if d < 100*time.Microsecond {
			return fakepg.Fault{}
		}
		return fakepg.Fault{Kind: fakepg.FDelay, Delay: d}
	})
	// runners
	var (
		stop      int32
		converges int64
		wg        sync.WaitGroup
		lastErrMu sync.Mutex
		lastErr   string
	)
	for _, t := range env.Tasks {
		t := t
		wg.Add(1)
		go func() {
			defer wg.Done()
			for atomic.LoadInt32(&stop) == 0 {
				err := t.Converge()
				atomic.AddInt64(&converges, 1)
				switch {
				case err == nil:
				case errors.Is(err, shovel.ErrNothingNew), errors.Is(err, shovel.ErrAhead):
					time.Sleep(500 * time.Microsecond)
				default:
					lastErrMu.Lock()
					lastErr = err.Error()
					lastErrMu.Unlock()
					time.Sleep(500 * time.Microsecond)
				}
			}
		}()
	}
	// chain driver: growth and reorgs in flight
	nevents := r.Range(8, 16)
	reorgs := 0
	for i := 0; i < nevents; i++ {
		time.Sleep(time.Duration(2+r.Intn(6)) * time.Millisecond)
		if r.Chance(1, 3) {
			d := r.Range(1, 3)
			chain.Reorg(d, d+r.Intn(2))
			reorgs++
			c.Obs("reorgs_applied", 1)
		} else {
			chain.Grow(r.Range(1, 4))
		}
	}
	chain.Grow(2)
	// wait (logical condition, generous watchdog) until every pair stands at the head
	reached := false
	deadline := time.Now().Add(90 * time.Second)
	for time.Now().Before(deadline) {
		head := chain.Head().Num
		all := true
		for _, d := range decls {
			for _, sn := range srcNames {
				pm := newPairMon(c, env, sn, d.Name)
				if pos, ok := pm.captureLive().position(); !ok || pos != head {
					all = false
				}
			}
		}
		if all {
			reached = true
			break
		}
		time.Sleep(5 * time.Millisecond)
	}
	atomic.StoreInt32(&stop, 1)
	wg.Wait()
	node.SetHook(nil)
	if node2 != nil {
		node2.SetHook(nil)
	}
	env.PG.SetFaultHook(nil)
	n := atomic.LoadInt64(&converges)
	c.Obs("converge_calls", n)
	c.Evals(n)
	c.Obs("poller_requests", atomic.LoadInt64(&pollerReqs))
	c.Obs("poller_failures_injected", atomic.LoadInt64(&pollerFails))
	c.MaxObs("max_inflight_requests", int64(node.MaxInflight()))
	if reached {
		c.Obs("cases_reached_head", 1)
	} else {
		lastErrMu.Lock()
		c.Obs("cases_not_at_head_when_stopped", 1)
		c.Seen("last_errors", firstLines(lastErr, 1))
		lastErrMu.Unlock()
	}
	if n >= 20 {
		cc := "1"
		switch {
		case conc >= 5:
			cc = "5-8"
		case conc >= 2:
			cc = "2-4"
		}
		plans := ""
		for _, t := range env.Tasks {
			plans += t.VerifInfo().Filter + ";"
		}
		fam := map[bool]string{true: "A", false: "B"}[familyA]
		if twoSrc {
			fam = "C"
		}
		c.SetSig("family=%v same=%v conc=%s plans=%s reorgs=%v pollfail=%v", fam, samePlan, cc, plans, reorgs > 0, atomic.LoadInt64(&pollerFails) > 0)
	}
	if c.Index < 2 {
		c.Sample(map[string]any{"config": string(env.ConfJSON), "converge_calls": n, "events": nevents, "reorgs": reorgs, "max_inflight": node.MaxInflight()})
	}
	_ = fmt.Sprint
}
